"""C18 — Go-model virtual sites and contacts (rcsu/go_vs_includes.py, rcsu/go_structure_bias.py)."""
import logging
from fractions import Fraction

from .common import zlit, natlit, optlit, listlit, blit, qlit

ID = 'C18'
COQ_TARGETS = ['C18/Props.vo', 'C18/Corr.vo']
PROPS = 'C18/Props.v'
EXTRACTED = []
CASE_IMPORTS = 'From V Require Import C15.Model C18.Model C18.Corr.\nFrom Coq Require Import QArith.'
RULE = ('coarse-grained molecules of 1-3 chains (3-8 residues each, input residue numbering overlapping between chains, '
        'merged numbering unique), backbone + 0-2 side-chain particles per residue in shuffled node order, disulfide-like '
        'cross-links; real VirtualSiteCreator then ComputeStructuralGoBias with contact maps containing symmetric pairs, '
        'one-directional entries, entries for absent residues/chains, residue separation 1-4, cut-offs chosen so that each '
        'filter is the only failing one incl. cut-offs exactly equal to a backbone distance and at d*(1 +- 1e-9). '
        'non-trivial = at least one symmetric contact that passes and one contact that fails a filter; distinct by input')
ASSUMPTIONS = ['contact lists have no repeated entries (as quantified by the property)',
               'backbone distances are numpy.linalg.norm results shipped as exact rationals; sigma checked through (d/sigma)^6 = 2 within 1e-9',
               'merged residue numbers are unique within a molecule (vermouth invariant), input numbers may repeat across chains']
TRUSTED = ['reconstruction of residues (grouping by chain/resid/resname, ordered by lowest node key) in the harness']


def gen_mol(rng):
    atoms = []
    resid = 0
    key_pool = rng.sample(range(0, 200), 120)
    kp = iter(key_pool)
    chains = rng.randint(1, 3)
    edges = []
    bb_keys = []
    cg = 0
    for ch in range(chains):
        start_old = rng.choice([1, 1, 5])
        prev_bb = None
        for i in range(rng.randint(3, 8)):
            resid += 1
            old = start_old + i
            resname = rng.choice([0, 1, 2])
            res_atoms = [('BB', next(kp))] + [('SC%d' % (j + 1), next(kp)) for j in range(rng.choice([0, 1, 1, 2]))]
            if rng.random() < 0.05:
                res_atoms = res_atoms[1:] or res_atoms      # a residue without backbone bead (rare)
            rng.shuffle(res_atoms)
            for name, k in res_atoms:
                cg += 1
                atoms.append({'key': k, 'name': name, 'resid': resid, 'old_resid': old, 'resname': resname, 'chain': ch,
                              'cg': cg if rng.random() < 0.95 else None,
                              'xyz': [round(0.35 * resid + rng.uniform(-0.1, 0.1), 3), round(rng.uniform(-0.6, 0.6), 3),
                                      round(0.5 * ch + rng.uniform(-0.3, 0.3), 3)]})
            bb = [k for nme, k in res_atoms if nme == 'BB']
            for nme, k in res_atoms:
                if nme != 'BB' and bb:
                    edges.append([bb[0], k])
            if bb:
                if prev_bb is not None:
                    edges.append([prev_bb, bb[0]])
                prev_bb = bb[0]
                bb_keys.append((bb[0], ch, old, resid))
    for _ in range(rng.choice([0, 0, 1, 2])):
        if len(bb_keys) >= 2:
            a, b = rng.sample(bb_keys, 2)
            edges.append([a[0], b[0]])
    if rng.random() < 0.5:
        order = list(range(len(atoms)))
        rng.shuffle(order)
        atoms = [atoms[i] for i in order]
    return atoms, edges, bb_keys


def generate(rng, tier):
    cases = []
    for _ in range(250 if tier == 'quick' else 4000):
        atoms, edges, bbs = gen_mol(rng)
        contacts = []
        seen = set()
        for _ in range(rng.randint(2, 10)):
            if len(bbs) < 2:
                break
            a, b = rng.sample(bbs, 2)
            c1 = (a[2], a[1], b[2], b[1])
            c2 = (b[2], b[1], a[2], a[1])
            r = rng.random()
            new = [c1, c2] if r < 0.6 else [c1]
            if r > 0.92:
                new = [(a[2] + 50, a[1], b[2], b[1])]       # absent residue
            elif r > 0.88:
                new = [(a[2], 7, b[2], b[1])]               # absent chain
            for c in new:
                if c not in seen:
                    seen.add(c)
                    contacts.append(list(c))
        rng.shuffle(contacts)
        cases.append({'atoms': atoms, 'edges': edges, 'contacts': contacts, 'res_dist': rng.choice([1, 2, 3, 3, 4]),
                      'short': rng.choice([0.0, 0.3, 0.5]), 'long': rng.choice([0.8, 1.1, 1.5, 3.0]),
                      'eps': rng.choice([9.414, 12.0]), 'cut_mode': rng.choice(['plain', 'plain', 'eq_long', 'eq_short', 'near']),
                      'cut_pick': rng.random()})
    return cases


def _build(inp):
    import numpy as np
    import vermouth
    import vermouth.system
    import vermouth.molecule
    import vermouth.forcefield
    system = vermouth.system.System(force_field=vermouth.forcefield.ForceField(name='ff'))
    mol = vermouth.molecule.Molecule(force_field=system.force_field, nrexcl=1)
    # the Go pipeline names the molecule itself (prepare_run); a name left on the molecule by an earlier stage must not survive
    mol.meta['moltype'] = 'stale_9' if inp.get('stale_meta') else 'molecule_0'
    for a in inp['atoms']:
        attrs = dict(atomname=a['name'], resid=a['resid'], _old_resid=a['old_resid'], resname='R%d' % a['resname'],
                     chain='ABCDEFGH'[a['chain']], position=np.array(a['xyz'], dtype=float),
                     atype='P2' if a['name'] == 'BB' else 'SC3', mass=72.0, charge=0.0)
        if a['cg'] is not None:
            attrs['charge_group'] = a['cg']
        mol.add_node(a['key'], **attrs)
    mol.add_edges_from(inp['edges'])
    system.add_molecule(mol)
    if inp.get('stale_meta'):
        from vermouth.rcsu.go_pipeline import GoPipeline
        GoPipeline.prepare_run(system, moltype='molecule_0')
        mol = system.molecules[0]
    return system, mol


def canon_atoms(mol, prefix):
    pos_owner = {}
    out = []
    for k in mol.nodes:
        nd = mol.nodes[k]
        pid = id(nd['position'])
        owner = pos_owner.setdefault(pid, k)
        at = nd.get('atype', '')
        go = int(at[len(prefix) + 1:]) if at.startswith(prefix + '_') else None
        out.append({'key': k, 'bb': nd.get('atomname') == 'BB', 'resid': nd['resid'], 'old_resid': nd['_old_resid'],
                    'resname': int(nd['resname'][1:]), 'chain': 'ABCDEFGH'.index(nd['chain']), 'cg': nd.get('charge_group'),
                    'pos': owner, 'mass': str(Fraction(float(nd.get('mass', 0)))), 'charge': str(Fraction(float(nd.get('charge', 0)))),
                    'go': go})
    return out


def run_impl(inp):
    import numpy as np
    from vermouth.rcsu.go_vs_includes import VirtualSiteCreator
    from vermouth.rcsu.go_structure_bias import ComputeStructuralGoBias
    system, mol = _build(inp)
    before = canon_atoms(mol, 'molecule_0')
    VirtualSiteCreator().run_system(system)
    after = canon_atoms(mol, 'molecule_0')
    vsn = [[int(x.atoms[0]), int(x.atoms[1])] for x in mol.interactions.get('virtual_sitesn', [])]
    atomtypes = [int(t.node) for t in system.gmx_topology_params['atomtypes']]
    # residues as make_residue_graph sees them (grouped by chain/resid/resname/insertion code, ordered by lowest key)
    groups = {}
    for k in mol.nodes:
        nd = mol.nodes[k]
        groups.setdefault((nd['chain'], nd['resid'], nd['resname']), []).append(k)
    ordered = sorted(groups.values(), key=min)
    residues = []
    resindex = {}
    for i, ks in enumerate(ordered):
        first = mol.nodes[ks[0]]
        bb = next((k for k in ks if mol.nodes[k].get('atomname') == 'BB'), None)
        go = next((int(mol.nodes[k]['atype'][len('molecule_0') + 1:]) for k in ks if mol.nodes[k]['atype'].startswith('molecule_0')), None)
        residues.append({'id': i, 'chain': 'ABCDEFGH'.index(first['chain']), 'old_resid': first['_old_resid'], 'bb': bb, 'go': go})
        for k in ks:
            resindex[k] = i
    res_edges = sorted({(min(resindex[u], resindex[v]), max(resindex[u], resindex[v])) for u, v in mol.edges if resindex[u] != resindex[v]})
    bbs = [r['bb'] for r in residues if r['bb'] is not None]
    dists = []
    dvals = []
    for i, a in enumerate(bbs):
        for b in bbs[i + 1:]:
            d = float(np.linalg.norm(mol.nodes[a]['position'] - mol.nodes[b]['position']))
            dists.append([a, b, str(Fraction(d))])
            dvals.append(d)
    short, long_ = inp['short'], inp['long']
    # contact-relevant distances, to place cut-offs exactly on / next to one of them
    cd = []
    for c in inp['contacts']:
        ra = [r for r in residues if r['chain'] == c[1] and r['old_resid'] == c[0] and r['bb'] is not None]
        rb = [r for r in residues if r['chain'] == c[3] and r['old_resid'] == c[2] and r['bb'] is not None]
        if ra and rb:
            cd.append(float(np.linalg.norm(mol.nodes[ra[-1]['bb']]['position'] - mol.nodes[rb[-1]['bb']]['position'])))
    if cd and inp['cut_mode'] != 'plain':
        pick = cd[int(inp['cut_pick'] * len(cd)) % len(cd)]
        if inp['cut_mode'] == 'eq_long':
            long_ = pick
        elif inp['cut_mode'] == 'eq_short':
            short = pick
        else:
            long_ = pick * (1 + 1e-9)
    system.go_params['go_map'] = [[tuple([c[0], 'ABCDEFGH'[c[1]], c[2], 'ABCDEFGH'[c[3]]]) for c in inp['contacts']]]
    lg = logging.getLogger('vermouth')
    old_level = lg.level
    proc = ComputeStructuralGoBias(cutoff_short=short, cutoff_long=long_, go_eps=inp['eps'], res_dist=inp['res_dist'],
                                   moltype='molecule_0', go_anchor_bead='BB', system=system)
    err = None
    try:
        proc.run_molecule(mol)
    except SystemExit:
        err = 'exit'
    pairs = [[int(p.atoms[0].rsplit('_', 1)[1]), int(p.atoms[1].rsplit('_', 1)[1]), str(Fraction(float(p.sigma))), str(Fraction(float(p.epsilon)))]
             for p in system.gmx_topology_params['nonbond_params']]
    excl = [[int(x.atoms[0]), int(x.atoms[1])] for x in mol.interactions.get('exclusions', [])]
    return {'before': before, 'after': after, 'vsn': vsn, 'atomtypes': atomtypes, 'residues': residues, 'res_edges': res_edges,
            'dists': dists, 'pairs': pairs, 'excl': excl, 'short': str(Fraction(float(short))), 'long': str(Fraction(float(long_))),
            'err': err}


def atom_lit(a):
    return ('{| a_key := %s; a_is_bb := %s; a_resid := %s; a_old_resid := %s; a_resname := %s; a_chain := %s; a_cg := %s; '
            'a_pos := %s; a_mass := %s; a_charge := %s; a_go_type := %s |}') % (
        zlit(a['key']), blit(a['bb']), zlit(a['resid']), zlit(a['old_resid']), zlit(a['resname']), zlit(a['chain']),
        optlit(a['cg'], zlit), zlit(a['pos']), qlit(Fraction(a['mass'])), qlit(Fraction(a['charge'])), optlit(a['go'], zlit))


def emit(inp, out):
    # two Coq cases per input would need two terms; the harness emits the contact case and checks the sites in a
    # second term joined by a list is not supported, so sites and contacts are emitted alternately by parity
    if inp.get('_which', 0) == 0:
        return 'CSites %s %s %s %s' % (listlit(out['before'], atom_lit), listlit(out['after'], atom_lit),
                                       listlit(out['vsn'], lambda p: '(%s, %s)' % (zlit(p[0]), zlit(p[1]))),
                                       listlit(out['atomtypes'], zlit))
    if out['err']:
        return None
    rs = listlit(out['residues'], lambda r: '{| r_id := %s; r_chain := %s; r_old_resid := %s; r_bb := %s; r_go_type := %s |}' % (
        zlit(r['id']), optlit(r['chain'], zlit), optlit(r['old_resid'], zlit), optlit(r['bb'], zlit), optlit(r['go'], zlit)))
    G = '{| g_short := %s; g_long := %s; g_sep := %s |}' % (qlit(Fraction(out['short'])), qlit(Fraction(out['long'])), natlit(inp['res_dist']))
    return 'CContacts %s %s %s %s %s %s %s %s' % (
        rs, listlit(out['res_edges'], lambda e: '(%s, %s)' % (zlit(e[0]), zlit(e[1]))), G,
        listlit(out['dists'], lambda d: '(%s, %s, %s)' % (zlit(d[0]), zlit(d[1]), qlit(Fraction(d[2])))),
        listlit(inp['contacts'], lambda c: '(%s, %s, %s, %s)' % tuple(zlit(x) for x in c)),
        listlit(out['pairs'], lambda p: '(%s, %s, %s, %s)' % (zlit(p[0]), zlit(p[1]), qlit(Fraction(p[2])), qlit(Fraction(p[3])))),
        listlit(out['excl'], lambda e: '(%s, %s)' % (zlit(e[0]), zlit(e[1]))), qlit(Fraction(float(inp['eps']))))


def nontrivial(inp, out):
    if inp.get('_which', 0) == 0:
        return 's' + str(inp['atoms'])
    if not out['pairs'] or len(out['pairs']) * 2 >= len(inp['contacts']):
        return None
    return 'c' + str(inp)


def describe(inp, out):
    return {'which': 'sites' if inp.get('_which', 0) == 0 else 'contacts', 'n_atoms': len(inp['atoms']) // 5 * 5,
            'n_contacts': len(inp['contacts']), 'n_pairs': len(out['pairs']), 'cut_mode': inp['cut_mode'], 'res_dist': inp['res_dist'],
            'error': out['err'] or 'none'}


_orig_generate = generate


def generate(rng, tier):  # noqa: F811  -- every input is emitted twice: once as a site case, once as a contact case
    base = _orig_generate(rng, tier)
    out = []
    for c in base:
        stale = rng.random() < 0.3      # the molecule arrives with a name from an earlier stage; the pipeline renames it
        out.append(dict(c, _which=0, stale_meta=stale))
        out.append(dict(c, _which=1, stale_meta=stale))
    return out


def shrink(inp):
    cs = inp['contacts']
    for i in range(len(cs)):
        yield dict(inp, contacts=cs[:i] + cs[i + 1:])
