"""C19 — mutation and modification requests hit exactly the residues they name (annotate_mut_mod.py)."""
import logging

from .common import zlit, natlit, strlit, optlit, listlit, blit

ID = 'C19'
COQ_TARGETS = ['C19/Props.vo', 'C19/Corr.vo']
PROPS = 'C19/Props.v'
EXTRACTED = []
CASE_IMPORTS = 'From V Require Import C19.Model C19.Corr.'
RULE = ('(a) specification strings: every subset of chain / residue name / number, names ending in digits with and '
        'without #, residue number 0, empty chain, nter/cter, malformed numbers; real parse_residue_spec; (b) systems of '
        '1-3 molecules (protein and non-protein), several chains, residue names ending in digits, repeated residue '
        'numbers across chains, insertion-code residues sharing a number with their neighbour, branched residue graphs; '
        '1-4 requests with every subset of parts, matched and unmatched mixed in both orders, unknown targets; real '
        'AnnotateMutMod.run_system with the warnings captured. non-trivial = at least one request that matches and one '
        'that does not, or a terminal request; distinct by input')
ASSUMPTIONS = ['ASCII specifications; insertion codes cannot be part of a request',
               'the post-repair clause of the property (atoms of the requested block after RepairGraph) is covered by C04']
TRUSTED = ['reconstruction of the residue graph (degree, first neighbour) in the harness from the real make_residue_graph']

PROT = ['ALA', 'GLY', 'PHE', 'LYS', 'MET']
NONPROT = ['PO4', 'W', 'A1', 'DPPC']

SPEC_STRINGS = ['A-PHE45', 'PHE45', 'A-PHE', 'A-45', '45', 'PHE', 'A-', 'PO4#2', 'PO4', 'PO4#', 'A-PO4#12', 'A1', 'A-A1#3',
                'nter', 'cter', 'A-nter', 'B-cter', '-PHE1', 'A-PHE0', 'B-#0', '#5', 'A-#', '', '-', '#', 'A-B-C1', 'PHE#x',
                'A-#1x', 'X-GLY#007', 'LYS10A', 'a-b#c#3', '12#3', 'A-MET0', 'nter1', '#-1', 'PHE#+3']


def gen_sys(rng):
    mols = []
    for mi in range(rng.randint(1, 3)):
        protein = rng.random() < 0.75
        nres = rng.randint(1, 6)
        res = []
        key = rng.choice([0, 10, 100])
        chain = rng.choice(['A', 'B', ''])
        resid = rng.choice([0, 1, 1, 5])
        for i in range(nres):
            if i and rng.random() < 0.15:
                chain = rng.choice(['A', 'B', 'C'])
                resid = rng.choice([0, 1, 3])
            same_number = i and rng.random() < 0.2       # insertion-code residue sharing the number of its neighbour
            if i and not same_number:
                resid += rng.choice([1, 1, 1, 2])
            name = rng.choice(PROT if protein else NONPROT + PROT[:1])
            if same_number and rng.random() < 0.7:
                name = res[-1]['resname']               # 45 and 45A with the same name: a request for PHE45 means both
            atoms = []
            for _ in range(rng.randint(1, 3)):
                atoms.append(key)
                key += rng.choice([1, 1, 2])
            res.append({'chain': chain, 'resid': resid, 'resname': name, 'icode': 'A' if same_number else '', 'atoms': atoms})
        edges = [[i, i + 1] for i in range(nres - 1) if rng.random() < 0.9]
        if nres >= 3 and rng.random() < 0.2:
            edges.append([0, nres - 1] if rng.random() < 0.5 else [0, 2])
        mols.append({'res': res, 'edges': edges})
    return mols


def gen_requests(rng, mols):
    allres = [r for m in mols for r in m['res']]
    reqs = []
    for _ in range(rng.randint(0, 4)):
        r = rng.choice(allres)
        kind = rng.random()
        if kind < 0.2:
            spec = rng.choice(['nter', 'cter', 'A-nter', 'B-cter', 'nter', 'cter'])
            parts_d = {'chain': spec[0] if '-' in spec else None, 'resname': spec[-4:], 'resid': None}
        else:
            chain = r['chain'] if rng.random() < 0.8 else rng.choice(['A', 'B', 'Z'])
            name = r['resname'] if rng.random() < 0.8 else rng.choice(PROT + NONPROT)
            num = r['resid'] if rng.random() < 0.8 else r['resid'] + rng.choice([1, 40])
            parts = rng.choice([(1, 1, 1), (1, 1, 1), (0, 1, 1), (1, 0, 1), (1, 1, 0), (0, 0, 1), (0, 1, 0), (1, 0, 0)])
            spec = ''
            if parts[0] and chain:
                spec += chain + '-'
            if parts[1]:
                spec += name
                if name[-1].isdigit():
                    spec += '#'
            elif parts[2]:
                spec += '#' if rng.random() < 0.5 else ''
            if parts[2]:
                spec += str(num)
            parts_d = {'chain': chain if (parts[0] and chain) else None, 'resname': name if parts[1] else None,
                       'resid': num if parts[2] else None}
        is_mut = rng.random() < 0.5
        target = rng.choice(['ALA', 'GLY', 'NOPE'] if is_mut else ['N-ter', 'C-ter', 'none', 'NOPE'])
        if (spec, is_mut, target) not in [(q['spec'], q['mut'], q['target']) for q in reqs]:
            reqs.append({'spec': spec, 'mut': is_mut, 'target': target, 'parts': parts_d})
    return reqs


def generate(rng, tier):
    cases = [{'kind': 'parse', 'spec': s} for s in SPEC_STRINGS]
    alpha = 'AB-#019x'
    for _ in range(200 if tier == 'quick' else 4000):
        cases.append({'kind': 'parse', 'spec': ''.join(rng.choice(alpha) for _ in range(rng.randint(0, 7)))})
    for _ in range(400 if tier == 'quick' else 6000):
        mols = gen_sys(rng)
        cases.append({'kind': 'sys', 'mols': mols, 'reqs': gen_requests(rng, mols), 'warm': rng.random() < 0.4})
    return cases


class _Catch(logging.Handler):
    def __init__(self):
        super().__init__(level=logging.WARNING)
        self.records = []

    def emit(self, record):
        self.records.append(record)


TARGETS = {'ALA': 1, 'GLY': 2, 'NOPE': 3, 'N-ter': 4, 'C-ter': 5, 'none': 6}


def run_impl(inp):
    import vermouth
    import vermouth.system
    import vermouth.molecule
    import vermouth.forcefield
    from vermouth.processors.annotate_mut_mod import AnnotateMutMod, parse_residue_spec
    from vermouth.graph_utils import make_residue_graph
    from vermouth.selectors import is_protein
    if inp['kind'] == 'parse':
        try:
            d = parse_residue_spec(inp['spec'])
            return {'ok': True, 'chain': d.get('chain'), 'resname': d.get('resname'), 'resid': d.get('resid')}
        except ValueError:
            return {'ok': False}
    ff = vermouth.forcefield.ForceField(name='testff')
    ff.blocks['ALA'] = vermouth.molecule.Block(force_field=ff)
    ff.blocks['GLY'] = vermouth.molecule.Block(force_field=ff)
    ff.modifications['N-ter'] = vermouth.molecule.Link(force_field=ff)
    ff.modifications['C-ter'] = vermouth.molecule.Link(force_field=ff)
    system = vermouth.system.System(force_field=ff)
    residues_out = []
    for m in inp['mols']:
        mol = vermouth.molecule.Molecule(force_field=ff)
        first = {}
        for ri, r in enumerate(m['res']):
            for a in r['atoms']:
                mol.add_node(a, chain=r['chain'], resid=r['resid'], resname=r['resname'], insertion_code=r['icode'], atomname='X')
            first[ri] = r['atoms'][0]
        for u, v in m['edges']:
            mol.add_edge(first[u], m['res'][v]['atoms'][-1])
        system.add_molecule(mol)
        rg = make_residue_graph(mol)
        rs = []
        for idx in rg.nodes:
            nd = rg.nodes[idx]
            nbrs = list(rg[idx])
            rs.append({'chain': nd.get('chain'), 'resid': nd.get('resid'), 'resname': nd.get('resname'), 'degree': len(nbrs),
                       'nbr_resid': rg.nodes[nbrs[0]].get('resid', 0) if nbrs else 0,
                       'protein': bool(is_protein(nd['graph'])), 'atoms': list(nd['graph'].nodes)})
        residues_out.append(rs)
    mods = [(q['spec'], q['target']) for q in inp['reqs'] if not q['mut']]
    muts = [(q['spec'], q['target']) for q in inp['reqs'] if q['mut']]
    handler = _Catch()
    lg = logging.getLogger('vermouth')
    lg.addHandler(handler)
    try:
        try:
            proc = AnnotateMutMod(modifications=mods, mutations=muts)
        except ValueError:
            return {'residues': residues_out, 'parse_error': True}
        parsed = [[p.get('chain'), p.get('resname'), p.get('resid')] for p, _ in proc.modifications] + \
                 [[p.get('chain'), p.get('resname'), p.get('resid')] for p, _ in proc.mutations]
        if inp.get('warm'):
            # the same processor object has been used before, on another system in which every request finds a residue:
            # what it reports for THIS system may not depend on that
            other = vermouth.system.System(force_field=ff)
            extra = vermouth.molecule.Molecule(force_field=ff)
            for i, (p, _) in enumerate(list(proc.modifications) + list(proc.mutations)):
                extra.add_node(i, chain=p.get('chain') or 'A', resid=p.get('resid') or (500 + i), resname=p.get('resname') or 'ALA',
                               insertion_code='', atomname='X')
            other.add_molecule(extra)
            lg.removeHandler(handler)
            try:
                proc.run_system(other)
            except NameError:
                pass
            lg.addHandler(handler)
        try:
            proc.run_system(system)
        except NameError:
            return {'residues': residues_out, 'error': 'NameError', 'parsed': parsed}
    finally:
        lg.removeHandler(handler)
    marks = []
    for mol in system.molecules:
        mm = []
        for k in mol.nodes:
            nd = mol.nodes[k]
            labels = [[False, TARGETS[t]] for t in nd.get('modification', [])] + [[True, TARGETS[t]] for t in nd.get('mutation', [])]
            mm.append([k, labels])
        marks.append(mm)
    reported = []
    for rec in handler.records:
        if 'not found' in str(rec.msg):
            reported.append([str(a) for a in (rec.args if isinstance(rec.args, tuple) else [rec.args])] or [rec.getMessage()])
    return {'residues': residues_out, 'marks': marks, 'reported_msgs': [r.getMessage() for r in handler.records if 'not found' in r.getMessage()],
            'parsed': parsed}


def txt(s):
    return '(s2l %s)' % strlit(s)


def ordered_reqs(inp):
    return [q for q in inp['reqs'] if not q['mut']] + [q for q in inp['reqs'] if q['mut']]


def emit(inp, out):
    if inp['kind'] == 'parse':
        if not out['ok']:
            return 'CParse %s None' % strlit(inp['spec'])
        return 'CParse %s (Some {| s_chain := %s; s_resname := %s; s_resid := %s |})' % (
            strlit(inp['spec']), optlit(out['chain'], txt), optlit(out['resname'], txt), optlit(out['resid'], zlit))
    if out.get('parse_error'):
        return None
    reqs = ordered_reqs(inp)
    rl = []
    for q in reqs:
        p = q['parts']
        rl.append('{| q_spec := {| s_chain := %s; s_resname := %s; s_resid := %s |}; q_target := %s; q_known := %s; q_is_mutation := %s |}' % (
            optlit(p['chain'], txt), optlit(p['resname'], txt), optlit(p['resid'], zlit), zlit(TARGETS[q['target']]),
            blit(q['target'] != 'NOPE'), blit(q['mut'])))
    mols = listlit(out['residues'], lambda rs: listlit(rs, lambda r: (
        '{| r_chain := %s; r_resid := %s; r_resname := %s; r_degree := %s; r_nbr_resid := %s; r_protein := %s; r_atoms := %s |}') % (
        optlit(r['chain'], txt), optlit(r['resid'], zlit), optlit(r['resname'], txt), natlit(r['degree']), zlit(r['nbr_resid']),
        blit(r['protein']), listlit(r['atoms'], zlit))))
    if out.get('error'):
        impl = 'None'
    else:
        # which requests were reported: match the warning text against the formatted request
        rep = []
        for i, (q, p) in enumerate(zip(reqs, out['parsed'])):
            # the implementation names the request by re-formatting what IT parsed
            name = (p[0] + '-' if p[0] else '') + (p[1] or '') + ('#' if p[1] and p[1][-1].isdigit() else '') + ('' if p[2] is None else str(p[2]))
            msg = 'Residue specified by "%s" for %s "%s" not found' % (name, 'mutation' if q['mut'] else 'modification', q['target'])
            if msg in out['reported_msgs']:
                rep.append(i)
        impl = '(Some (%s, %s))' % (listlit(out['marks'], lambda mm: listlit(mm, lambda kv: '(%s, %s)' % (
            zlit(kv[0]), listlit(kv[1], lambda l: '(%s, %s)' % (blit(l[0]), zlit(l[1])))))), listlit(rep, natlit))
    return 'CSys %s %s %s %s' % (mols, '[' + '; '.join(rl) + ']', listlit([q['spec'] for q in reqs], strlit), impl)


def nontrivial(inp, out):
    if inp['kind'] == 'parse':
        return ('p', inp['spec'])
    if 'marks' not in out:
        return None
    marked = any(l for mm in out['marks'] for _, l in mm)
    if (marked and out['reported_msgs']) or any(q['spec'].endswith('ter') for q in inp['reqs']):
        return str(inp)
    return None


def describe(inp, out):
    if inp['kind'] == 'parse':
        return {'kind': 'parse', 'parse_ok': out['ok']}
    return {'kind': 'sys', 'processor_used_before': bool(inp.get('warm')), 'n_mols': len(inp['mols']), 'n_reqs': len(inp['reqs']), 'error': out.get('error', 'parse' if out.get('parse_error') else 'none'),
            'n_reported': len(out.get('reported_msgs', [])), 'any_marked': any(l for mm in out.get('marks', []) for _, l in mm),
            'terminal_request': any(q['spec'].endswith('ter') for q in inp['reqs'])}


def shrink(inp):
    if inp['kind'] != 'sys':
        return
    for i in range(len(inp['reqs'])):
        yield dict(inp, reqs=inp['reqs'][:i] + inp['reqs'][i + 1:])
    for i in range(len(inp['mols'])):
        if len(inp['mols']) > 1:
            yield dict(inp, mols=inp['mols'][:i] + inp['mols'][i + 1:])
