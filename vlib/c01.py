"""C01 — resolution transformation conserves atoms, residues and connectivity (processors/do_mapping.py)."""
import logging

from .common import zlit, natlit, optlit, listlit, blit

ID = 'C01'
LEVEL = 'proof'
COQ_TARGETS = ['C01/ModMapProofs.vo', 'C01/Props.vo', 'C01/Corr.vo']
PROPS = 'C01/Props.v'
EXTRACTED = []
CASE_IMPORTS = 'From V Require Import C05.Model C06.Model C01.Model C01.ModMap C01.Corr.'
RULE = ('input molecules = sequences of 1-6 residues drawn from 3 residue kinds (2-4 atoms each, optional hydrogens, an '
        'unmapped residue kind), linear / branched / cross-linked / ring connectivity, residue numbers with gaps and repeats, '
        'node keys consecutive, sparse or shuffled; mapping sets with one-to-one, many-to-one, shared atoms (two particles), '
        'zero-weight atoms, particles built from no atom, particles without name (removed), a two-residue mapping, '
        'partially mapped residues, a second mapping for the same residue (overlap); real Mapping.map (set of placements) '
        'and real do_mapping with attribute_keep=(chain,), attribute_stash=(resid,), warnings captured; modification cases: residues '
        'with an extra flagged atom, every atom of the residue labelled, modification mappings that add a particle / rename the '
        'anchor particle / map onto it / are missing / name a particle that does not exist, extra atom numbered inside its '
        'residue; shipped data: peptides of 2-5 residues built from the shipped charmm blocks, mapped with the shipped '
        'charmm->martini3001 / martini22 mappings (placements enumerated by the proved search of C06). non-trivial = at '
        'least two placements and a bond between particles of different placements; distinct by input')
ASSUMPTIONS = ['a modification placed on atoms that two overlapping block placements use picks one of several equally named particles by set iteration order: such cases are generated but not compared',
               'weights are multiples of 1/4 (shipped as integers); references are empty',
               'when two placements share their lowest atom key the processing order depends on the order in which networkx finds them; '
               'the statement-level check then only judges the warnings (the correspondence still runs with the order found)']
TRUSTED = ['networkx VF2 (replaced by exhaustive enumeration in the model; agreement checked per case)']

# residue kinds: names -> atom names (codes), element H flags, bonds
KINDS = {
    1: {'atoms': [1, 2, 3], 'H': [], 'bonds': [(1, 2), (2, 3)]},              # A: N CA C
    2: {'atoms': [1, 2, 3, 4], 'H': [4], 'bonds': [(1, 2), (2, 3), (2, 4)]},  # B: with one hydrogen
    3: {'atoms': [1, 2], 'H': [], 'bonds': [(1, 2)]},                         # C: small
    4: {'atoms': [1, 5], 'H': [], 'bonds': [(1, 5)]},                         # D: never mapped
}


def gen_molecule(rng):
    nres = rng.randint(1, 6)
    atoms, bonds = [], []
    resid = rng.choice([1, 1, 4, 10])
    heads, tails = [], []
    keys = iter(range(1, 1000))
    keystyle = rng.random()
    allkeys = list(range(0, 60))
    if keystyle < 0.5:
        pool = list(range(rng.choice([0, 1, 5]), 60))
    elif keystyle < 0.8:
        pool = sorted(rng.sample(range(0, 200), 40))
    else:
        pool = rng.sample(range(0, 100), 40)
    pi = 0
    chain = 1
    for r in range(nres):
        kind = rng.choice([1, 1, 2, 2, 3, 3, 4])
        K = KINDS[kind]
        local = {}
        names = list(K['atoms'])
        if rng.random() < 0.1 and len(names) > 2:
            names.remove(rng.choice(names[1:]))          # a missing atom: the mapping will not fit
        if rng.random() < 0.15:
            rng.shuffle(names)
        for nme in names:
            key = pool[pi]
            pi += 1
            local[nme] = key
            atoms.append({'key': key, 'resid': resid, 'name': nme, 'resname': kind, 'H': nme in K['H'], 'chain': chain})
        for a, b in K['bonds']:
            if a in local and b in local:
                bonds.append([local[a], local[b]])
        first, last = local.get(names[0]), local.get(names[-1])
        if heads:
            if rng.random() < 0.85:
                bonds.append([rng.choice(tails[-1:] + tails[-1:] + tails), first])      # mostly linear, sometimes a branch
        heads.append(first)
        tails.append(local.get(K['atoms'][-1], last))
        step = rng.random()
        resid += 1 if step < 0.7 else (0 if step < 0.75 else rng.choice([2, 5]))
        if rng.random() < 0.1:
            chain += 1
    for _ in range(rng.choice([0, 0, 0, 1, 2])):
        a, b = rng.sample(atoms, 2)
        if a['resid'] != b['resid'] and [a['key'], b['key']] not in bonds and [b['key'], a['key']] not in bonds:
            bonds.append([a['key'], b['key']])            # cross-link or ring closure
    return {'atoms': atoms, 'bonds': bonds}


def gen_mapping_for(rng, kind, pname_base):
    K = KINDS[kind]
    names = list(K['atoms'])
    if rng.random() < 0.15 and len(names) > 2:
        names = names[:-1]                                 # partially mapped residue (the last atom is never used)
    frm = [{'key': i, 'name': n, 'resname': kind, 'resid': 1} for i, n in enumerate(names)]
    fedges = [[names.index(a), names.index(b)] for a, b in K['bonds'] if a in names and b in names]
    nb = rng.choice([1, 1, 2, 2, 3])
    bnodes = [{'key': j * rng.choice([1, 1, 3]) + 0, 'name': pname_base + j, 'resid': 1, 'cg': j + 1} for j in range(nb)]
    # make keys distinct
    for j, b in enumerate(bnodes):
        b['key'] = j if rng.random() < 0.7 else 10 + j
    mp = {}
    for i, n in enumerate(names):
        r = rng.random()
        tgt = rng.randrange(nb)
        if r < 0.6:
            mp[i] = [[bnodes[tgt]['key'], 4]]
        elif r < 0.75:
            mp[i] = [[bnodes[tgt]['key'], rng.choice([0, 2, 8])]]                       # zero / odd weight
        elif r < 0.9 and nb > 1:
            other = (tgt + 1) % nb
            mp[i] = [[bnodes[tgt]['key'], 2], [bnodes[other]['key'], 2]]                # atom shared between particles
        else:
            mp[i] = [[bnodes[tgt]['key'], 4]]
    if rng.random() < 0.2:
        bnodes.append({'key': 20, 'name': pname_base + 7, 'resid': 1, 'cg': nb + 1})    # a particle built from no atom
    if rng.random() < 0.1:
        bnodes.append({'key': 21, 'name': None, 'resid': 1, 'cg': nb + 2})              # a particle without name: removed
        mp[0] = mp[0] + [[21, 4]]
    bkeys = [b['key'] for b in bnodes]
    bedges = []
    for j in range(1, len(bkeys)):
        if rng.random() < 0.8:
            bedges.append([bkeys[rng.randrange(j)], bkeys[j]])
    binters = []
    if len(bkeys) >= 2 and rng.random() < 0.6:
        binters.append([1, [bkeys[0], bkeys[1]], rng.randint(1, 50)])
    if len(bkeys) >= 3 and rng.random() < 0.4:
        binters.append([2, [bkeys[0], bkeys[1], bkeys[2]], rng.randint(1, 50)])
    return {'from': frm, 'fedges': fedges, 'to': {'nodes': bnodes, 'edges': bedges, 'inters': binters},
            'map': [[k, v] for k, v in sorted(mp.items())]}


def gen_two_residue_mapping(rng, pname_base):
    """residue kind 3 followed by residue kind 3 bonded tail-to-head, mapped to one two-residue block"""
    frm = [{'key': 0, 'name': 1, 'resname': 3, 'resid': 1}, {'key': 1, 'name': 2, 'resname': 3, 'resid': 1},
           {'key': 2, 'name': 1, 'resname': 3, 'resid': 2}, {'key': 3, 'name': 2, 'resname': 3, 'resid': 2}]
    fedges = [[0, 1], [2, 3], [1, 2]]
    bnodes = [{'key': 0, 'name': pname_base, 'resid': 1, 'cg': 1}, {'key': 1, 'name': pname_base + 1, 'resid': 2, 'cg': 2}]
    mp = [[0, [[0, 4]]], [1, [[0, 4]]], [2, [[1, 4]]], [3, [[1, 4]]]]
    return {'from': frm, 'fedges': fedges, 'to': {'nodes': bnodes, 'edges': [[0, 1]], 'inters': [[1, [0, 1], 77]]}, 'map': mp}


def gen_case(rng):
    mol = gen_molecule(rng)
    maps = []
    for kind in (1, 2, 3):
        if rng.random() < 0.9:
            maps.append(gen_mapping_for(rng, kind, 10 * kind))
    if rng.random() < 0.15:
        maps.append(gen_mapping_for(rng, rng.choice([1, 2, 3]), 40))       # a second mapping for the same residue: overlap
    if rng.random() < 0.15:
        maps.append(gen_two_residue_mapping(rng, 50))
    if not maps:
        maps.append(gen_mapping_for(rng, 1, 10))
    return mol, maps


def gen_mod_case(rng):
    """a molecule some of whose residues carry a modification (an extra, flagged atom bonded to one atom of the residue; every
    atom of the residue labelled), with modification mappings that add a particle, rename the anchor particle, or both"""
    mol, maps = gen_case(rng)
    maps = [m for m in maps if len({n['resid'] for n in m['from']}) == 1]
    by_kind = {}
    for m in maps:
        by_kind.setdefault(m['from'][0]['resname'], m)
    atoms, bonds = mol['atoms'], mol['bonds']
    used = {a['key'] for a in atoms}
    free = iter(k for k in range(300, 400) if k not in used)
    labels, ptm = {}, []
    mods = {}          # mod id -> description
    residues = {}
    for a in atoms:
        residues.setdefault((a['resid'], a['resname'], a['chain']), []).append(a)
    modmaps = []
    seen_mods = {}
    twin = rng.random() < 0.35        # the same particle-adding modification on every residue of a kind
    next_id = iter(range(1, 50))
    for (resid, kind, chain), ats in residues.items():
        if kind not in by_kind or (not twin and rng.random() < 0.35):
            continue
        bm = by_kind[kind]
        mapped_names = {bm['from'][i]['name'] for i, _ in bm['map']}
        cand = [a for a in ats if a['name'] in mapped_names and not a['H']]
        if not cand:
            continue
        anchor = min(cand, key=lambda a: a['name']) if twin else rng.choice(cand)
        # the particle the anchor atom contributes to (first target of its mapping entry)
        fidx = [n['key'] for n in bm['from'] if n['name'] == anchor['name']][0]
        tgt_key = dict((k, v) for k, v in bm['map'])[fidx][0][0]
        tgt = [b for b in bm['to']['nodes'] if b['key'] == tgt_key][0]
        if tgt['name'] is None:
            continue
        if rng.random() < 0.3:
            # several modifications on one residue (each one extra atom on the same anchor) and modification mappings that
            # account for several of them at once: which mappings apply is an exact cover of the names, which may need backtracking
            nm = rng.choice([2, 3, 3])
            mids = [next(next_id) for _ in range(nm)]
            for j, mid in enumerate(mids):
                xk = next(free)
                atoms.append({'key': xk, 'resid': resid, 'name': 9 + j, 'resname': kind, 'H': False, 'chain': chain})
                bonds.append([anchor['key'], xk])
                ptm.append(xk)
                labels.setdefault(xk, []).append(mid)
            for a in ats:
                labels.setdefault(a['key'], []).extend(mids)
            if nm == 3 and rng.random() < 0.5:
                perm = rng.sample(range(3), 3)
                subsets = [(perm[0], perm[1]), (perm[1], perm[2]), (perm[0],)]
                if rng.random() < 0.3:
                    subsets.append((perm[2],))
                if rng.random() < 0.2:
                    subsets.reverse()
            else:
                allsub = [tuple(j for j in range(nm) if (b >> j) & 1) for b in range(1, 2 ** nm)]
                subsets = rng.sample(allsub, rng.randint(1, min(4, len(allsub))))
            for S in subsets:
                style = rng.choice(['new', 'onto', 'mixed'])
                to_nodes = [{'key': 0, 'name': tgt['name'], 'new': False, 'rename': None}]
                mapping = [[0, [[0, 4]]]]
                frm = [{'key': 0, 'name': anchor['name'], 'resname': rng.choice([None, kind]), 'ptm': False, 'mods': [mids[j] for j in S]}]
                fedges, tedges, tinters = [], [], []
                for i, j in enumerate(S, start=1):
                    frm.append({'key': i, 'name': 9 + j, 'resname': None, 'ptm': True, 'mods': [mids[j]]})
                    fedges.append([0, i])
                    if style == 'new' or (style == 'mixed' and rng.random() < 0.5):
                        to_nodes.append({'key': i, 'name': 80 + mids[j], 'new': True, 'rename': None})
                        mapping.append([i, [[i, 4]]])
                        tedges.append([0, i])
                        if rng.random() < 0.5:
                            tinters.append([1, [0, i], 90 + mids[j]])
                    else:
                        mapping.append([i, [[0, rng.choice([4, 0, 2])]]])
                modmaps.append({'names': [mids[j] for j in S], 'from': frm, 'fedges': fedges, 'to': to_nodes, 'tedges': tedges,
                                'tinters': tinters, 'map': mapping})
            continue
        again = seen_mods.get((kind, anchor['name']))
        if again is not None and (twin or rng.random() < 0.7):
            # the same modification on another residue of the same kind: its mapping is placed a second time
            mid = again
            xk = next(free)
            atoms.append({'key': xk, 'resid': resid, 'name': 9, 'resname': kind, 'H': False, 'chain': chain})
            bonds.append([anchor['key'], xk])
            ptm.append(xk)
            for a in ats + [atoms[-1]]:
                labels.setdefault(a['key'], []).append(mid)
            continue
        mid = next(next_id)
        xk = next(free)
        atoms.append({'key': xk, 'resid': resid, 'name': 9, 'resname': kind, 'H': False, 'chain': chain})
        bonds.append([anchor['key'], xk])
        ptm.append(xk)
        for a in ats + [atoms[-1]]:
            labels.setdefault(a['key'], []).append(mid)
        style = rng.choice(['new', 'both']) if twin else rng.choice(['new', 'rename', 'both', 'onto', 'nomap', 'badname', 'new', 'both'])
        if style == 'nomap':
            continue
        seen_mods[(kind, anchor['name'])] = mid
        to_nodes = [{'key': 0, 'name': tgt['name'] if style != 'badname' else 98, 'new': False,
                     'rename': (70 + mid) if style in ('rename', 'both') else None}]
        mapping = [[0, [[0, 4]]]]
        if style in ('new', 'both'):
            to_nodes.append({'key': 1, 'name': 80 + mid, 'new': True, 'rename': None})
            mapping.append([1, [[1, 4]]])
        else:
            mapping.append([1, [[0, rng.choice([4, 0, 2])]]])
        modmaps.append({'names': [mid],
                        'from': [{'key': 0, 'name': anchor['name'], 'resname': rng.choice([None, kind]), 'ptm': False, 'mods': [mid]},
                                 {'key': 1, 'name': 9, 'resname': None, 'ptm': True, 'mods': [mid]}],
                        'fedges': [[0, 1]], 'to': to_nodes, 'tedges': [[0, 1]] if len(to_nodes) > 1 else [],
                        'tinters': [[1, [0, 1], 90 + mid]] if len(to_nodes) > 1 and rng.random() < 0.7 else [], 'map': mapping})
    rng.shuffle(modmaps)
    if rng.random() < 0.8:
        # realistic numbering: the extra atom sits among the atoms of its residue (so that the modification is applied between
        # the blocks of consecutive residues)
        order = []
        for (resid, kind, chain), ats in residues.items():
            order += [a['key'] for a in ats]
            order += [a['key'] for a in atoms if a['key'] in ptm and (a['resid'], a['resname'], a['chain']) == (resid, kind, chain)]
        step = rng.choice([1, 1, 3])
        new = {old: 5 + step * i for i, old in enumerate(order)}
        for a in atoms:
            a['key'] = new[a['key']]
        mol['atoms'] = sorted(atoms, key=lambda a: a['key'])
        mol['bonds'] = [[new[u], new[v]] for u, v in bonds]
        ptm = [new[k] for k in ptm]
        labels = {new[k]: v for k, v in labels.items()}
    return {'kind': 'mods', 'mol': mol, 'maps': maps, 'modmaps': modmaps, 'ptm': ptm, 'labels': [[k, v] for k, v in sorted(labels.items())]}


# ---------------------------------------------------------------- shipped data
REAL_RESIDUES = ['ALA', 'GLY', 'SER', 'VAL', 'LEU', 'THR', 'ASN', 'ASP', 'GLU', 'GLN', 'LYS', 'PHE', 'TYR', 'MET', 'CYS', 'ILE', 'PRO', 'TRP', 'ARG']
_REAL = {}


def real_env():
    if not _REAL:
        import os
        import vermouth
        import vermouth.forcefield
        import vermouth.map_input
        from vermouth import DATA_PATH
        ffs = vermouth.forcefield.find_force_fields(os.path.join(DATA_PATH, 'force_fields'))
        maps = vermouth.map_input.read_mapping_directory(os.path.join(DATA_PATH, 'mappings'), ffs)
        _REAL.update(ffs=ffs, maps=maps)
    return _REAL


def gen_real_case(rng):
    """a peptide built from blocks of the shipped charmm force field, mapped with the shipped charmm -> martini3001 / martini22 mappings"""
    n = rng.randint(2, 5)
    seq = []
    for _ in range(n):
        r = rng.choice(REAL_RESIDUES)
        if seq.count(r) < 2:
            seq.append(r)
    return {'kind': 'real', 'seq': seq, 'to': rng.choice(['martini3001', 'martini3001', 'martini22']),
            'first_resid': rng.choice([1, 1, 7, 42]), 'gap': rng.random() < 0.3, 'keys': rng.choice(['consecutive', 'sparse', 'shuffled_within']),
            'seed': rng.randrange(10 ** 6), 'fast': True, 'elements': rng.random() < 0.6,
            'nter': rng.choice([None, None, 'N-ter', 'NH2-ter']), 'cter': rng.choice([None, None, 'C-ter', 'COOH-ter'])}


def run_real(inp):
    import random
    import vermouth.molecule as vm
    from vermouth.processors import do_mapping as dm
    env = real_env()
    ff_from, ff_to = env['ffs']['charmm'], env['ffs'][inp['to']]
    maps = env['maps']
    rng = random.Random(inp['seed'])
    mol = vm.Molecule(force_field=ff_from)
    key = 0
    resid = inp['first_resid']
    prevC = None
    atoms_meta = []
    for resname in inp['seq']:
        block = ff_from.blocks[resname]
        names = list(block.nodes)
        if inp['keys'] == 'shuffled_within':
            rng.shuffle(names)
        local = {}
        for nme in names:
            if inp['keys'] == 'sparse':
                key += rng.choice([1, 1, 2, 5])
            else:
                key += 1
            attrs = dict(block.nodes[nme])
            attrs.update(resid=resid, chain='A')
            if inp.get('elements'):
                attrs['element'] = nme.lstrip('0123456789')[:1]
            mol.add_node(key, **attrs)
            local[nme] = key
        for u, v in block.edges:
            mol.add_edge(local[u], local[v])
        if prevC is not None and 'N' in local:
            mol.add_edge(prevC, local['N'])
        prevC = local.get('C')
        resid += 2 if inp['gap'] else 1
    termini = [t for t in (inp.get('nter'), inp.get('cter')) if t]
    ptm_keys, labels = [], {}
    if termini:
        res_atoms = {}
        for k in mol.nodes:
            res_atoms.setdefault(mol.nodes[k]['resid'], []).append(k)
            mol.nodes[k]['element'] = mol.nodes[k]['atomname'].lstrip('0123456789')[:1]
        resids = sorted(res_atoms)

        def add(resid_, name, el, to):
            nonlocal key
            key += 1
            like = mol.nodes[to]
            mol.add_node(key, atomname=name, element=el, resid=resid_, resname=like['resname'], chain='A', PTM_atom=True)
            mol.add_edge(key, to)
            ptm_keys.append(key)
            res_atoms[resid_].append(key)
            return key

        def find(resid_, name):
            return [k for k in res_atoms[resid_] if mol.nodes[k]['atomname'] == name][0]
        if inp.get('nter') and any(mol.nodes[k]['atomname'] == 'N' for k in res_atoms[resids[0]]):
            n = find(resids[0], 'N')
            add(resids[0], 'HN2', 'H', n)
            if inp['nter'] == 'N-ter':
                add(resids[0], 'HN3', 'H', n)
            for k in res_atoms[resids[0]]:
                mol.nodes[k].setdefault('modifications', []).append(ff_from.modifications[inp['nter']])
                labels.setdefault(k, []).append(inp['nter'])
        if inp.get('cter') and any(mol.nodes[k]['atomname'] == 'C' for k in res_atoms[resids[-1]]):
            c = find(resids[-1], 'C')
            o = add(resids[-1], 'OXT', 'O', c)
            if inp['cter'] == 'COOH-ter':
                add(resids[-1], 'HO', 'H', o)
            for k in res_atoms[resids[-1]]:
                mol.nodes[k].setdefault('modifications', []).append(ff_from.modifications[inp['cter']])
                labels.setdefault(k, []).append(inp['cter'])
    mappings = maps['charmm'][inp['to']]
    relevant = [(name, mp) for name, mp in mappings.items() if mp.type == 'block' and len(mp.names) == 1 and mp.names[0] in inp['seq']]
    # codes
    names, resnames, params = {}, {}, {}

    def code(d, x):
        return d.setdefault(x, len(d) + 1)
    W = 60
    mol_atoms = [{'key': k, 'resid': mol.nodes[k]['resid'], 'name': code(names, mol.nodes[k]['atomname']), 'resname': code(resnames, mol.nodes[k]['resname']),
                  'H': mol.nodes[k].get('element') == 'H',       # exactly what do_mapping looks at
                  'chain': 1} for k in mol.nodes]
    enc_maps, found = [], []
    types = {}
    for mi, (name, mp) in enumerate(relevant):
        fk = {k: i for i, k in enumerate(mp.block_from.nodes)}
        tk = {k: i for i, k in enumerate(mp.block_to.nodes)}
        frm = [{'key': fk[k], 'name': code(names, nd['atomname']), 'resname': code(resnames, nd['resname']), 'resid': nd.get('resid', 1)} for k, nd in mp.block_from.nodes(data=True)]
        to_nodes = [{'key': tk[k], 'name': code(names, 'cg:' + nd['atomname']), 'resid': nd.get('resid', 1), 'cg': nd.get('charge_group', 1)} for k, nd in mp.block_to.nodes(data=True)]
        inters = []
        for t, lst in mp.block_to.interactions.items():
            for i in lst:
                inters.append([code(types, t), [tk[a] for a in i.atoms], code(params, (t, tuple(map(str, i.parameters)), repr(sorted(i.meta.items()))))])
        mapping = []
        for a, tgt in mp.mapping.items():
            ws = []
            for b, w in tgt.items():
                wi = round(w * W)
                if abs(wi - w * W) > 1e-9:
                    raise ValueError('weight %r is not a multiple of 1/%d' % (w, W))
                ws.append([tk[b], wi])
            mapping.append([fk[a], ws])
        enc_maps.append({'from': frm, 'fedges': [[fk[u], fk[v]] for u, v in mp.block_from.edges],
                         'to': {'nodes': to_nodes, 'edges': [[tk[u], tk[v]] for u, v in mp.block_to.edges], 'inters': inters}, 'map': mapping})
        for m in mp.map(mol, node_match=dm._old_atomname_match, edge_match=dm.edge_matcher):
            found.append([mi, [[k, [[tk[b], round(w * W)] for b, w in v.items()]] for k, v in m[0].items()]])
    used_mods = sorted({m for v in labels.values() for m in v})
    mod_id = {m: i + 1 for i, m in enumerate(used_mods)}
    modmaps, mod_objs = [], []
    for name, mp in mappings.items():
        if mp.type != 'modification' or not all(n in mod_id for n in mp.names):
            continue
        fk = {k: i for i, k in enumerate(mp.block_from.nodes)}
        tk = {k: i for i, k in enumerate(mp.block_to.nodes)}
        frm = [{'key': fk[k], 'name': code(names, nd['atomname']), 'resname': code(resnames, nd['resname']) if nd.get('resname') else None,
                'ptm': bool(nd.get('PTM_atom')), 'mods': [mod_id[m.name] for m in nd.get('modifications', []) if m.name in mod_id]}
               for k, nd in mp.block_from.nodes(data=True)]
        to = [{'key': tk[k], 'name': code(names, 'cg:' + nd['atomname']), 'new': bool(nd.get('PTM_atom')),
               'rename': code(names, 'cg:' + nd['replace']['atomname']) if nd.get('replace', {}).get('atomname') else None}
              for k, nd in mp.block_to.nodes(data=True)]
        tinters = []
        for t, lst in mp.block_to.interactions.items():
            for i in lst:
                tinters.append([code(types, t), [tk[a] for a in i.atoms], code(params, (t, tuple(map(str, i.parameters)), repr(sorted(i.meta.items()))))])
        modmaps.append({'names': [mod_id[n] for n in mp.names], 'from': frm, 'fedges': [[fk[u], fk[v]] for u, v in mp.block_from.edges],
                        'to': to, 'tedges': [[tk[u], tk[v]] for u, v in mp.block_to.edges], 'tinters': tinters,
                        'map': [[fk[a], [[tk[b], round(w * W)] for b, w in tgt.items()]] for a, tgt in mp.mapping.items()]})
        mod_objs.append((mp, tk))
    mfound = []
    orig_mm = dm.modification_matches

    def mm_wrapper(molecule, maps_):
        res = orig_mm(molecule, maps_)
        for m2m, modification, _ in res:
            idx = [i for i, (mp, _) in enumerate(mod_objs) if mp.block_to is modification][0]
            tk = mod_objs[idx][1]
            mfound.append([idx, [[k, [[tk[b], round(w * W)] for b, w in v.items()]] for k, v in m2m.items()]])
        return res
    handler = _Catch()
    lg = logging.getLogger('vermouth')
    old = lg.level
    lg.setLevel(logging.DEBUG)
    lg.addHandler(handler)
    dm.modification_matches = mm_wrapper
    try:
        out = dm.do_mapping(mol, maps, ff_to, attribute_keep=('cgsecstruct', 'chain'), attribute_must=('resname',), attribute_stash=('resid',))
    finally:
        dm.modification_matches = orig_mm
        lg.removeHandler(handler)
        lg.setLevel(old)
    beads = []
    for k in out.nodes:
        nd = out.nodes[k]
        beads.append({'key': k, 'name': code(names, 'cg:' + nd['atomname']), 'resid': nd['resid'], 'cg': nd['charge_group'],
                      'w': [[u, round(w * W)] for u, w in nd['mapping_weights'].items()], 'graph': sorted(nd['graph'].nodes),
                      'chain': 1 if nd.get('chain') == 'A' else None, 'old': nd.get('_old_resid')})
    inters = []
    for t, lst in out.interactions.items():
        for i in lst:
            inters.append([code(types, t), list(i.atoms), code(params, (t, tuple(map(str, i.parameters)), repr(sorted(i.meta.items()))))])
    msgs = [(r.levelno, str(r.msg)) for r in handler.records]
    return {'mol': {'atoms': mol_atoms, 'bonds': [list(e) for e in mol.edges]}, 'maps': enc_maps,
            'modmaps': modmaps, 'mfound': mfound, 'ptm': ptm_keys, 'labels': [[k, [mod_id[m] for m in v]] for k, v in sorted(labels.items())],
            'no_cover': sum(1 for _, m in [(r.levelno, str(r.msg)) for r in handler.records] if "Can't find modification mappings" in m),
            'found': found, 'beads': beads, 'edges': [list(e) for e in out.edges], 'inters': inters,
            'overlap': any('covered by multiple blocks' in m for _, m in msgs),
            'unmapped': any(l >= logging.WARNING and 'not covered by a mapping' in m for l, m in msgs),
            'graph_is_weights': all(sorted(u for u, _ in b['w']) == b['graph'] for b in beads)}


def generate(rng, tier):
    cases = []
    n = 350 if tier == 'quick' else 5000
    for _ in range(n):
        mol, maps = gen_case(rng)
        cases.append({'kind': 'do', 'mol': mol, 'maps': maps})
        if rng.random() < 0.5:
            cases.append({'kind': 'map', 'mol': mol, 'map': rng.choice(maps)})
    for _ in range(250 if tier == 'quick' else 4000):
        cases.append(gen_mod_case(rng))
    for _ in range(40 if tier == 'quick' else 600):
        cases.append(gen_real_case(rng))
    return cases


# ---------------------------------------------------------------- implementation
class _Catch(logging.Handler):
    def __init__(self):
        super().__init__(level=logging.DEBUG)
        self.records = []

    def emit(self, record):
        self.records.append(record)


def _build(inp_mol, maps):
    import vermouth
    import vermouth.forcefield
    import vermouth.molecule
    from vermouth.map_parser import Mapping
    ff_from = vermouth.forcefield.ForceField(name='ffa')
    ff_to = vermouth.forcefield.ForceField(name='ffb')
    mol = vermouth.molecule.Molecule(force_field=ff_from)
    for a in inp_mol['atoms']:
        mol.add_node(a['key'], atomname='A%d' % a['name'], resname='R%d' % a['resname'], resid=a['resid'],
                     element='H' if a['H'] else 'C', chain='c%d' % a['chain'])
    for u, v in inp_mol['bonds']:
        mol.add_edge(u, v)
    mappings = {}
    for mi, mp in enumerate(maps):
        bf = vermouth.molecule.Block(force_field=ff_from)
        for n in mp['from']:
            bf.add_node(n['key'], atomname='A%d' % n['name'], resname='R%d' % n['resname'], resid=n['resid'])
        for u, v in mp['fedges']:
            bf.add_edge(u, v)
        bt = vermouth.molecule.Block(force_field=ff_to)
        bt.nrexcl = 1
        for n in mp['to']['nodes']:
            bt.add_node(n['key'], atomname=None if n['name'] is None else 'P%d' % n['name'], resname='T%d' % mi, resid=n['resid'],
                        charge_group=n['cg'], atype='X')
        for u, v in mp['to']['edges']:
            bt.add_edge(u, v)
        for t, atoms, par in mp['to']['inters']:
            bt.add_interaction({1: 'bonds', 2: 'angles'}[t], tuple(atoms), ['p%d' % par])
        mapping = {int(k): {b: w / 4 for b, w in v} for k, v in mp['map']}
        mappings['m%d' % mi] = Mapping(bf, bt, mapping, {}, ff_from=ff_from, ff_to=ff_to, names=('m%d' % mi,))
    return mol, ff_to, {'ffa': {'ffb': mappings}}


def run_mods(inp):
    import vermouth.molecule as vm
    from vermouth.map_parser import Mapping
    from vermouth.processors import do_mapping as dm
    mol, ff_to, mappings = _build(inp['mol'], inp['maps'])
    ff_from = mol.force_field
    labels = {int(k): v for k, v in inp['labels']}
    mod_objs = {}
    for mid in sorted({m for v in labels.values() for m in v}):
        link = vm.Link(force_field=ff_from)
        link.name = 'M%d' % mid
        mod_objs[mid] = link
    for k, v in labels.items():
        mol.nodes[k]['modifications'] = [mod_objs[m] for m in v]
    for k in inp['ptm']:
        mol.nodes[k]['PTM_atom'] = True
    for mi, mm in enumerate(inp['modmaps']):
        bf = vm.Link(force_field=ff_from)
        for n in mm['from']:
            bf.add_node(n['key'], atomname='A%d' % n['name'], resname='' if n['resname'] is None else 'R%d' % n['resname'],
                        PTM_atom=n['ptm'], modifications=[mod_objs[m] for m in n['mods']])
        for u, v in mm['fedges']:
            bf.add_edge(u, v)
        bt = vm.Link(force_field=ff_to)
        bt.name = 'M%d' % mm['names'][0]
        for n in mm['to']:
            attrs = {'atomname': 'P%d' % n['name'], 'PTM_atom': n['new']}
            if n['rename'] is not None:
                attrs['replace'] = {'atomname': 'P%d' % n['rename']}
            bt.add_node(n['key'], **attrs)
        for u, v in mm['tedges']:
            bt.add_edge(u, v)
        for t, atoms, par in mm['tinters']:
            bt.add_interaction({1: 'bonds', 2: 'angles'}[t], tuple(atoms), ['p%d' % par])
        mapping = {int(k): {b: w / 4 for b, w in v} for k, v in mm['map']}
        mappings['ffa']['ffb']['mod%d' % mi] = Mapping(bf, bt, mapping, {}, ff_from=ff_from, ff_to=ff_to, type='modification',
                                                      names=tuple('M%d' % x for x in mm['names']))
    found = []
    for mi, (name, mp) in enumerate(mappings['ffa']['ffb'].items()):
        if mp.type == 'block':
            for m in mp.map(mol, node_match=dm._old_atomname_match, edge_match=dm.edge_matcher):
                found.append([int(name[1:]), _m2b(m[0])])
    mfound = []
    orig = dm.modification_matches

    def wrapper(molecule, maps):
        out = orig(molecule, maps)
        for m2m, modification, _ in out:
            idx = [i for i, mm in enumerate(inp['modmaps']) if tuple('M%d' % x for x in mm['names']) == tuple(modification.name)][0]
            mfound.append([idx, _m2b(m2m)])
        return out
    handler = _Catch()
    lg = logging.getLogger('vermouth')
    old = lg.level
    lg.setLevel(logging.DEBUG)
    lg.addHandler(handler)
    dm.modification_matches = wrapper
    result = None
    try:
        try:
            out = dm.do_mapping(mol, mappings, ff_to, attribute_keep=('chain',), attribute_stash=('resid',))
        except ValueError as e:
            if 'No node found in molecule with atomname' not in str(e):
                raise
            out = None
    finally:
        dm.modification_matches = orig
        lg.removeHandler(handler)
        lg.setLevel(old)
    msgs = [(r.levelno, str(r.msg)) for r in handler.records]
    res = {'found': found, 'mfound': mfound, 'no_cover': sum(1 for _, m in msgs if "Can't find modification mappings" in m), 'result': None}
    if out is not None:
        beads = []
        for k in out.nodes:
            nd = out.nodes[k]
            beads.append({'key': k, 'name': int(nd['atomname'][1:]), 'resid': nd.get('resid', 0), 'cg': nd.get('charge_group', 0),
                          'w': [[u, int(round(w * 4))] for u, w in nd['mapping_weights'].items()],
                          'chain': None if nd.get('chain') is None else int(nd['chain'][1:]), 'old': nd.get('_old_resid')})
        inters = []
        for t, lst in out.interactions.items():
            for i in lst:
                inters.append([{'bonds': 1, 'angles': 2}[t], list(i.atoms), int(i.parameters[0][1:])])
        res['result'] = {'beads': beads, 'edges': [list(e) for e in out.edges], 'inters': inters,
                         'overlap': any('covered by multiple blocks' in m for _, m in msgs),
                         'unmapped': any(l >= logging.WARNING and 'not covered by a mapping' in m for l, m in msgs)}
    return res


def _m2b(match):
    return [[k, [[b, int(round(w * 4))] for b, w in v.items()]] for k, v in match.items()]


def run_impl(inp):
    from vermouth.processors import do_mapping as dm
    if inp['kind'] == 'mods':
        return run_mods(inp)
    if inp['kind'] == 'real':
        return run_real(inp)
    if inp['kind'] == 'map':
        mol, ff_to, mappings = _build(inp['mol'], [inp['map']])
        mp = mappings['ffa']['ffb']['m0']
        return {'matches': [_m2b(m[0]) for m in mp.map(mol, node_match=dm._old_atomname_match, edge_match=dm.edge_matcher)]}
    mol, ff_to, mappings = _build(inp['mol'], inp['maps'])
    found = []
    for mi, mp in enumerate(mappings['ffa']['ffb'].values()):
        for m in mp.map(mol, node_match=dm._old_atomname_match, edge_match=dm.edge_matcher):
            found.append([mi, _m2b(m[0])])
    handler = _Catch()
    lg = logging.getLogger('vermouth')
    old = lg.level
    lg.setLevel(logging.DEBUG)
    lg.addHandler(handler)
    try:
        out = dm.do_mapping(mol, mappings, ff_to, attribute_keep=('chain',), attribute_stash=('resid',))
    finally:
        lg.removeHandler(handler)
        lg.setLevel(old)
    beads = []
    for k in out.nodes:
        nd = out.nodes[k]
        beads.append({'key': k, 'name': int(nd['atomname'][1:]), 'resid': nd['resid'], 'cg': nd['charge_group'],
                      'w': [[u, int(round(w * 4))] for u, w in nd['mapping_weights'].items()],
                      'graph': sorted(nd['graph'].nodes),
                      'chain': None if nd.get('chain') is None else int(nd['chain'][1:]), 'old': nd.get('_old_resid')})
    inters = []
    for t, lst in out.interactions.items():
        for i in lst:
            inters.append([{'bonds': 1, 'angles': 2}[t], list(i.atoms), int(i.parameters[0][1:])])
    msgs = [(r.levelno, str(r.msg)) for r in handler.records]
    return {'found': found, 'beads': beads, 'edges': [list(e) for e in out.edges], 'inters': inters,
            'overlap': any('covered by multiple blocks' in m for _, m in msgs),
            'unmapped': any(l >= logging.WARNING and 'not covered by a mapping' in m for l, m in msgs),
            'graph_is_weights': all(sorted(u for u, _ in b['w']) == b['graph'] for b in beads)}


# ---------------------------------------------------------------- emission
def pairs_lit(l):
    return listlit(l, lambda p: '(%s, %s)' % (zlit(p[0]), zlit(p[1])))


def mol_lit(m):
    return '{| atoms := %s; bonds := %s |}' % (listlit(m['atoms'], lambda a: (
        '{| a_key := %s; a_resid := %s; a_name := %s; a_resname := %s; a_isH := %s; a_chain := %s |}' % (
            zlit(a['key']), zlit(a['resid']), zlit(a['name']), zlit(a['resname']), blit(a['H']), zlit(a['chain'])))), pairs_lit(m['bonds']))


def block_lit(b):
    return '{| b_nodes := %s; b_edges := %s; b_inters := %s |}' % (
        listlit(b['nodes'], lambda n: '{| b_key := %s; b_name := %s; b_resid := %s; b_cg := %s |}' % (
            zlit(n['key']), optlit(n['name'], zlit), zlit(n['resid']), zlit(n['cg']))),
        pairs_lit(b['edges']),
        listlit(b['inters'], lambda i: '(%s, (%s, %s))' % (zlit(i[0]), listlit(i[1], zlit), zlit(i[2]))))


def m2b_lit(m2b):
    return listlit(m2b, lambda kv: '(%s, %s)' % (zlit(kv[0]), pairs_lit(kv[1])))


def map_lit(mp):
    return '{| m_from := %s; m_fedges := %s; m_to := %s; m_map := %s |}' % (
        listlit(mp['from'], lambda n: '{| f_key := %s; f_name := %s; f_resname := %s; f_resid := %s |}' % (
            zlit(n['key']), zlit(n['name']), zlit(n['resname']), zlit(n['resid']))),
        pairs_lit(mp['fedges']), block_lit(mp['to']), m2b_lit(mp['map']))


def modmap_lit(mm):
    return ('{| mm_names := %s; mm_from := %s; mm_fedges := %s; mm_to := %s; mm_tedges := %s; mm_tinters := %s; mm_map := %s |}' % (
        listlit(mm['names'], zlit),
        listlit(mm['from'], lambda n: '{| mf_key := %s; mf_name := %s; mf_resname := %s; mf_ptm := %s; mf_mods := %s |}' % (
            zlit(n['key']), zlit(n['name']), optlit(n['resname'], zlit), blit(n['ptm']), listlit(n['mods'], zlit))),
        pairs_lit(mm['fedges']),
        listlit(mm['to'], lambda n: '{| mt_key := %s; mt_name := %s; mt_new := %s; mt_rename := %s |}' % (
            zlit(n['key']), zlit(n['name']), blit(n['new']), optlit(n['rename'], zlit))),
        pairs_lit(mm['tedges']),
        listlit(mm['tinters'], lambda i: '(%s, (%s, %s))' % (zlit(i[0]), listlit(i[1], zlit), zlit(i[2]))),
        m2b_lit(mm['map'])))


def beads_lit(beads):
    return listlit(beads, lambda b: '{| i_key := %s; i_name := %s; i_resid := %s; i_cg := %s; i_w := %s; i_chain := %s; i_old := %s |}' % (
        zlit(b['key']), zlit(b['name']), zlit(b['resid']), zlit(b['cg']), pairs_lit(b['w']), optlit(b['chain'], zlit), optlit(b['old'], zlit)))


def _blocks_overlap(out):
    seen = set()
    for _, m2b in out['found']:
        ks = {k for k, _ in m2b}
        if ks & seen:
            return True
        seen |= ks
    return False


def emit_mods(inp, out):
    if out['mfound'] and _blocks_overlap(out):
        # a modification on atoms used by two block placements picks one of several equally named particles by set iteration
        # order: not compared
        return None
    L = '{| l_mol := %s; l_ptm := %s; l_mods := %s |}' % (mol_lit(inp['mol']), listlit(inp['ptm'], zlit),
                                                         listlit(inp['labels'], lambda kv: '(%s, %s)' % (zlit(kv[0]), listlit(kv[1], zlit))))
    found = listlit(out['found'], lambda f: '{| p_m2b := %s; p_block := %s |}' % (m2b_lit(f[1]), block_lit(inp['maps'][f[0]]['to'])))
    mfound = listlit(out['mfound'], lambda f: '(%s, %s)' % (zlit(f[0]), m2b_lit(f[1])))
    r = out['result']
    if r is None:
        res = 'None'
    else:
        res = '(Some (%s, %s, %s, %s, %s))' % (beads_lit(r['beads']), pairs_lit(r['edges']),
                                               listlit(r['inters'], lambda i: '(%s, (%s, %s))' % (zlit(i[0]), listlit(i[1], zlit), zlit(i[2]))),
                                               blit(r['overlap']), blit(r['unmapped']))
    return 'CDoMods %s %s %s %s %s %s %s %s' % (blit(bool(inp.get('fast'))), listlit(inp['maps'], map_lit), listlit(inp['modmaps'], modmap_lit), L, found, mfound,
                                           natlit(out['no_cover']), res)


def emit(inp, out):
    if inp['kind'] == 'mods':
        return emit_mods(inp, out)
    if inp['kind'] == 'real' and out.get('labels'):
        r = {'beads': out['beads'], 'edges': out['edges'], 'inters': out['inters'], 'overlap': out['overlap'], 'unmapped': out['unmapped']}
        return emit_mods(dict(inp, mol=out['mol'], maps=out['maps'], modmaps=out['modmaps'], ptm=out['ptm'], labels=out['labels']),
                         dict(out, result=r))
    if inp['kind'] == 'real':
        inp = dict(inp, mol=out['mol'], maps=out['maps'])
    if inp['kind'] == 'map':
        return 'CMap %s %s %s' % (map_lit(inp['map']), mol_lit(inp['mol']), listlit(out['matches'], m2b_lit))
    found = listlit(out['found'], lambda f: '{| p_m2b := %s; p_block := %s |}' % (m2b_lit(f[1]), block_lit(inp['maps'][f[0]]['to'])))
    beads = listlit(out['beads'], lambda b: '{| i_key := %s; i_name := %s; i_resid := %s; i_cg := %s; i_w := %s; i_chain := %s; i_old := %s |}' % (
        zlit(b['key']), zlit(b['name']), zlit(b['resid']), zlit(b['cg']), pairs_lit(b['w']), optlit(b['chain'], zlit), optlit(b['old'], zlit)))
    return 'CDo %s %s %s %s %s %s %s %s %s' % (blit(bool(inp.get('fast'))), listlit(inp['maps'], map_lit), mol_lit(inp['mol']), found, beads, pairs_lit(out['edges']),
                                            listlit(out['inters'], lambda i: '(%s, (%s, %s))' % (zlit(i[0]), listlit(i[1], zlit), zlit(i[2]))),
                                            blit(out['overlap']), blit(out['unmapped']))


def py_prop(inp, out):
    if inp['kind'] == 'mods':
        return None
    if inp['kind'] in ('do', 'real') and not out['graph_is_weights']:
        return "a particle's 'graph' is not the key set of its 'mapping_weights'"
    return None


def nontrivial(inp, out):
    if inp['kind'] == 'real':
        return str(inp) if len(out['found']) >= 2 else None
    if inp['kind'] == 'mods':
        return str(inp) if out['mfound'] else None
    if inp['kind'] == 'map':
        return str(inp) if out['matches'] else None
    if len(out['found']) >= 2 and len(out['edges']) >= 1:
        return str(inp)
    return None


def _backtracks(inp):
    """does the search for the modification mappings of some residue have to give up an option it tried (per residue, ignoring
    that neighbouring modified residues are treated together)?"""
    opts = sorted([tuple(m['names']) for m in inp['modmaps']], key=len, reverse=True)
    hit = [False]

    def cov(todo, options):
        if not todo:
            return []
        for i, o in enumerate(options):
            if all(x in todo for x in o):
                left = [x for x in todo if x not in o]
                f = cov(left, options[i:])
                if f is not None:
                    return [o] + f
                hit[0] = True
        return None
    for names in {tuple(v) for _, v in inp['labels'] if len(v) > 1}:
        if cov(list(names), opts) is not None and hit[0]:
            return True
        hit[0] = False
    return False


def describe(inp, out):
    if inp['kind'] == 'real':
        return {'kind': 'real', 'real_to': inp['to'], 'real_termini': '%s/%s' % (inp.get('nter'), inp.get('cter')), 'real_mod_placements': len(out.get('mfound', [])), 'real_n_res': len(inp['seq']), 'real_keys': inp['keys'], 'real_unmapped': out['unmapped'],
                'real_n_beads': min(len(out['beads']), 12)}
    if inp['kind'] == 'mods':
        return {'kind': 'mods', 'n_mod_placements': min(len(out['mfound']), 4), 'mods_error': out['result'] is None,
                'mods_skipped_overlap': bool(out['mfound']) and _blocks_overlap(out),
                'mods_no_cover': min(out['no_cover'], 2), 'n_modmaps': len(inp['modmaps']),
                'mods_multi_name': any(len(m['names']) > 1 for m in inp['modmaps']), 'mods_cover_backtracks': _backtracks(inp)}
    if inp['kind'] == 'map':
        return {'kind': 'map', 'n_matches': min(len(out['matches']), 4)}
    keys = [a['key'] for a in inp['mol']['atoms']]
    return {'kind': 'do', 'n_placements': min(len(out['found']), 6), 'overlap': out['overlap'], 'unmapped': out['unmapped'],
            'n_beads': min(len(out['beads']), 8), 'keys': 'sorted' if keys == sorted(keys) else 'shuffled',
            'shared_atoms': any(len(v) > 1 for mp in inp['maps'] for _, v in mp['map']),
            'none_to_one': any(any(n['key'] not in {b for _, v in mp['map'] for b, _ in v} for n in mp['to']['nodes']) for mp in inp['maps']),
            'two_residue': any(len({n['resid'] for n in mp['from']}) > 1 for mp in inp['maps'])}


def shrink(inp):
    if inp['kind'] == 'mods':
        for i in range(len(inp['modmaps'])):
            yield dict(inp, modmaps=inp['modmaps'][:i] + inp['modmaps'][i + 1:])
    if inp['kind'] == 'do':
        for i in range(len(inp['maps'])):
            if len(inp['maps']) > 1:
                yield dict(inp, maps=inp['maps'][:i] + inp['maps'][i + 1:])
        resids = sorted({a['resid'] for a in inp['mol']['atoms']})
        for r in resids:
            if len(resids) > 1:
                keep = [a for a in inp['mol']['atoms'] if a['resid'] != r]
                ks = {a['key'] for a in keep}
                yield dict(inp, mol={'atoms': keep, 'bonds': [b for b in inp['mol']['bonds'] if b[0] in ks and b[1] in ks]})
