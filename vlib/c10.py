"""C10 — guessed bonds obey the stated criteria and never split or lose residues (make_bonds.py)."""
import logging
from fractions import Fraction

from .common import zlit, natlit, strlit, optlit, listlit, blit, qlit

ID = 'C10'
COQ_TARGETS = ['C10/Props.vo', 'C10/Corr.vo']
PROPS = 'C10/Props.v'
EXTRACTED = ['vdw_radii']
CASE_IMPORTS = 'From V Require Import C15.Model C10.Model C10.Corr.\nFrom Coq Require Import QArith.'
RULE = ('systems of 1-3 input molecules (2-16 atoms): residues known to the force field, unknown residues, duplicated '
        'atom names, atoms without name, elements with and without a radius (Zn), missing element, two input molecules with '
        'identical chain / residue number / name, residues that differ only in their insertion code, pre-existing bonds; geometry on a jittered lattice plus directed pairs at '
        'threshold*(1 +- 1e-6) and exactly on a representable threshold; each conjunct of the distance test the only '
        'failing one (block non-bond, H-H, hydrogen to another residue, no radius, too far); fudge in {0.5, 0.9, 1, 1.2, 2}; '
        'name / distance modes on and off. real MakeBonds.run_system; squared distances are exact rationals from the '
        'decimal coordinates. non-trivial = at least one distance bond and one rejected candidate pair within the search '
        'radius; distinct by input')
ASSUMPTIONS = ['coordinates are decimals; pairs within 1e-9 relative of a threshold (other than exactly representable ones) are not generated',
               'the KD-tree candidate search returns every pair within the largest threshold (checked indirectly: no passing pair is missed)']
TRUSTED = ['scipy KDTree distances (double) vs exact squared distances: agreement outside a 1e-9 band is what the check relies on']

ELEMENTS = {'H': 1, 'C': 2, 'N': 3, 'O': 4, 'S': 5, 'Zn': 6, 'Se': 7, 'P': 8, 'Cl': 9, 'F': 10, 'Br': 11, 'I': 12, 'Si': 13, 'As': 14, 'Te': 15}
BLOCKS = {'AAA': (['N', 'CA', 'C', 'O', 'H'], [('N', 'CA'), ('CA', 'C'), ('C', 'O'), ('N', 'H')]),
          'BBB': (['C1', 'C2', 'O1', 'S1'], [('C1', 'C2'), ('C2', 'O1'), ('C2', 'S1')])}
NAME_CODE = {n: i + 1 for i, n in enumerate(['N', 'CA', 'C', 'O', 'H', 'C1', 'C2', 'O1', 'S1', 'X1', 'X2', 'HX', 'SE', 'P1', 'CL', 'F1', 'BR', 'I1', 'SI', 'AS', 'TE'])}
EL_OF_NAME = {'N': 'N', 'CA': 'C', 'C': 'C', 'O': 'O', 'H': 'H', 'C1': 'C', 'C2': 'C', 'O1': 'O', 'S1': 'S', 'X1': 'C', 'X2': 'Zn', 'HX': 'H', 'SE': 'Se', 'P1': 'P',
              'CL': 'Cl', 'F1': 'F', 'BR': 'Br', 'I1': 'I', 'SI': 'Si', 'AS': 'As', 'TE': 'Te'}
RESNAME_CODE = {'AAA': 1, 'BBB': 2, 'UNK': 3}
RADII = {'H': 0.120, 'C': 0.170, 'N': 0.155, 'O': 0.152, 'S': 0.180, 'Se': 0.190, 'P': 0.180, 'Cl': 0.175, 'F': 0.147, 'Br': 0.185,
         'I': 0.198, 'Si': 0.210, 'As': 0.185, 'Te': 0.206}         # Bondi (1964), nm


def gen_case(rng):
    fudge = rng.choice([0.5, 0.9, 1.0, 1.2, 1.2, 2.0])
    mols = []
    for mi in range(rng.randint(1, 3)):
        atoms = []
        resid = rng.choice([1, 1, 5])
        for _ in range(rng.randint(1, 3)):
            resname = rng.choice(['AAA', 'AAA', 'BBB', 'UNK'])
            icode = rng.choice(['', '', '', 'A', 'B'])       # residues 5 and 5A are different residues
            names = list(BLOCKS.get(resname, (['X1', 'X2', 'HX', 'C1', 'SE', 'P1'] + rng.sample(['CL', 'F1', 'BR', 'I1', 'SI', 'AS', 'TE'], 2), []))[0])
            rng.shuffle(names)
            names = names[:rng.randint(1, len(names))]
            if rng.random() < 0.12:
                names.append(names[0])          # duplicated atom name
            if rng.random() < 0.25:
                names.append(rng.choice(['X1', 'HX', 'X2', 'SE', 'P1', 'CL', 'F1', 'BR', 'I1', 'SI', 'AS', 'TE']))     # an atom the block does not know
            for nme in names:
                el = EL_OF_NAME[nme] if rng.random() < 0.95 else None
                atoms.append({'name': nme if rng.random() < 0.97 else None, 'element': el, 'resname': resname, 'resid': resid,
                              'chain': rng.choice(['A', 'A', 'B']), 'icode': icode})
            resid += rng.choice([0, 1, 1]) if rng.random() < 0.9 else 0
        mols.append(atoms)
    flat = [a for m in mols for a in m]
    # geometry: random walk with steps around bonding distances
    x = [0.0, 0.0, 0.0]
    for a in flat:
        step = rng.choice([0.10, 0.12, 0.15, 0.17, 0.20, 0.30])
        axis = rng.randrange(3)
        x = list(x)
        x[axis] = round(x[axis] + step * rng.choice([1, 1, -1]), 4)
        a['xyz'] = [round(v + rng.uniform(-0.01, 0.01), 4) for v in x]
    # directed pair: put atom j at threshold * f from atom i along x
    if len(flat) >= 2 and rng.random() < 0.5:
        i, j = rng.sample(range(len(flat)), 2)
        ei, ej = flat[i]['element'], flat[j]['element']
        if ei in RADII and ej in RADII:
            thr = 0.5 * (RADII[ei] + RADII[ej]) * fudge
            f = rng.choice([1 + 1e-6, 1 - 1e-6, 1 + 1e-6, 1 - 1e-6, 1.0])
            if f == 1.0:
                # exactly on the threshold, only where every quantity is exactly representable the same way:
                # same element, fudge 1.0, first atom at x = 0  (0.5 * (r + r) * 1.0 == r in binary64)
                if ei == ej and fudge == 1.0:
                    flat[i]['xyz'] = [0.0, flat[i]['xyz'][1], flat[i]['xyz'][2]]
                    flat[j]['xyz'] = [RADII[ei], flat[i]['xyz'][1], flat[i]['xyz'][2]]
            else:
                flat[j]['xyz'] = [float('%.9f' % (flat[i]['xyz'][0] + thr * f)), flat[i]['xyz'][1], flat[i]['xyz'][2]]
    pre = []
    off = 0
    for m in mols:
        for _ in range(rng.choice([0, 0, 1])):
            if len(m) >= 2:
                u, v = rng.sample(range(len(m)), 2)
                pre.append([off + u, off + v])
        off += len(m)
    return {'mols': mols, 'pre': pre, 'fudge': fudge, 'allow_name': rng.random() < 0.8, 'allow_dist': rng.random() < 0.85}


def generate(rng, tier):
    return [gen_case(rng) for _ in range(350 if tier == 'quick' else 6000)]


class _Catch(logging.Handler):
    def __init__(self):
        super().__init__(level=logging.WARNING)
        self.types = []

    def emit(self, record):
        self.types.append(getattr(record, 'type', None))


def run_impl(inp):
    import numpy as np
    import vermouth
    import vermouth.system
    import vermouth.molecule
    import vermouth.forcefield
    from vermouth.processors.make_bonds import MakeBonds
    ff = vermouth.forcefield.ForceField(name='testff')
    for rn, (names, edges) in BLOCKS.items():
        blk = vermouth.molecule.Block(force_field=ff)
        blk.name = rn
        for n in names:
            blk.add_node(n, atomname=n, resname=rn)
        blk.add_edges_from(edges)
        ff.blocks[rn] = blk
    system = vermouth.system.System(force_field=ff)
    off = 0
    for m in inp['mols']:
        mol = vermouth.molecule.Molecule(force_field=ff)
        for i, a in enumerate(m):
            attrs = dict(resname=a['resname'], resid=a['resid'], chain=a['chain'], position=np.array(a['xyz'], dtype=float),
                         insertion_code=a.get('icode', ''))
            if a['name'] is not None:
                attrs['atomname'] = a['name']
            if a['element'] is not None:
                attrs['element'] = a['element']
            mol.add_node(i + 100, **attrs)        # input keys are arbitrary: disjoint_union relabels
        for u, v in inp['pre']:
            if off <= u < off + len(m) and off <= v < off + len(m):
                mol.add_edge(u - off + 100, v - off + 100)
        off += len(m)
        system.add_molecule(mol)
    handler = _Catch()
    lg = logging.getLogger('vermouth')
    lg.addHandler(handler)
    try:
        MakeBonds(allow_name=inp['allow_name'], allow_dist=inp['allow_dist'], fudge=inp['fudge']).run_system(system)
    finally:
        lg.removeHandler(handler)
    mols = [sorted(int(k) for k in mol.nodes) for mol in system.molecules]
    edges = sorted({(min(int(u), int(v)), max(int(u), int(v))) for mol in system.molecules for u, v in mol.edges})
    return {'mols': mols, 'edges': [list(e) for e in edges], 'warnings': handler.types}


def emit(inp, out):
    flat = []
    resmap = {}
    for mi, m in enumerate(inp['mols']):
        for a in m:
            key = (mi, a['chain'], a['resid'], a['resname'], a.get('icode', ''))
            rid = resmap.setdefault(key, len(resmap))
            flat.append((rid, a))
    atoms = listlit(list(enumerate(flat)), lambda ia: '{| a_key := %s; a_res := %s; a_resname := %s; a_name := %s; a_element := %s |}' % (
        zlit(ia[0]), zlit(ia[1][0]), zlit(RESNAME_CODE[ia[1][1]['resname']]),
        optlit(ia[1][1]['name'], lambda n: zlit(NAME_CODE[n])), optlit(ia[1][1]['element'], lambda e: zlit(ELEMENTS[e]))))
    d2 = []
    pos = [[Fraction(repr(v)) for v in a['xyz']] for _, a in flat]
    lim = Fraction(7, 10) ** 2
    for i in range(len(pos)):
        for j in range(i + 1, len(pos)):
            d = sum((pos[i][t] - pos[j][t]) ** 2 for t in range(3))
            if d <= lim:
                d2.append('(%s, %s, %s)' % (zlit(i), zlit(j), qlit(d)))
    blocks = listlit(sorted(BLOCKS.items()), lambda kv: '(%s, {| b_names := %s; b_edges := %s |})' % (
        zlit(RESNAME_CODE[kv[0]]), listlit(kv[1][0], lambda n: zlit(NAME_CODE[n])),
        listlit(kv[1][1], lambda e: '(%s, %s)' % (zlit(NAME_CODE[e[0]]), zlit(NAME_CODE[e[1]])))))
    h = ('{| h_allow_name := %s; h_allow_dist := %s; h_fudge := %s; h_elements := %s; h_blocks := %s; h_d2 := [%s] |}') % (
        blit(inp['allow_name']), blit(inp['allow_dist']), qlit(Fraction(repr(inp['fudge']))),
        listlit(sorted(ELEMENTS.items(), key=lambda kv: kv[1]), lambda kv: '(%s, %s)' % (zlit(kv[1]), strlit(kv[0]))), blocks, '; '.join(d2))
    warn = listlit(out['warnings'], lambda t: '(0%%Z, %s)' % blit(t == 'unknown-residue'))
    return 'CBonds %s %s %s %s %s %s' % (
        h, atoms, listlit(inp['pre'], lambda e: '(%s, %s)' % (zlit(e[0]), zlit(e[1]))),
        listlit(out['edges'], lambda e: '(%s, %s)' % (zlit(e[0]), zlit(e[1]))),
        listlit(out['mols'], lambda m: listlit(m, zlit)), warn)


def nontrivial(inp, out):
    n = sum(len(m) for m in inp['mols'])
    if n < 2 or not inp['allow_dist']:
        return None
    pre = {tuple(sorted(e)) for e in inp['pre']}
    new = [e for e in out['edges'] if tuple(e) not in pre]
    return str(inp) if new and len(new) < n * (n - 1) // 2 else None


def describe(inp, out):
    return {'n_atoms': sum(len(m) for m in inp['mols']), 'n_in_mols': len(inp['mols']), 'n_out_mols': len(out['mols']),
            'n_edges': min(len(out['edges']), 20), 'fudge': inp['fudge'], 'modes': '%s/%s' % (inp['allow_name'], inp['allow_dist']),
            'warnings': len(out['warnings'])}


def shrink(inp):
    mols = inp['mols']
    sizes = [len(m) for m in mols]
    off = 0
    for mi, m in enumerate(mols):
        for ai in range(len(m)):
            if sum(sizes) <= 1:
                continue
            g = off + ai
            new_mols = [list(x) for x in mols]
            del new_mols[mi][ai]
            new_mols = [x for x in new_mols if x]
            pre = []
            for u, v in inp['pre']:
                if g in (u, v):
                    continue
                pre.append([u - (u > g), v - (v > g)])
            yield dict(inp, mols=new_mols, pre=pre)
        off += len(m)
