"""C16 — structure files round-trip (pdb/pdb.py, gmx/gro.py, truncating_formatter.py)."""
import io
import os
import shutil
import tempfile
from fractions import Fraction

from .common import WORK, zlit, natlit, strlit, optlit, listlit, qlit

ID = 'C16'
COQ_TARGETS = ['C16/Props.vo', 'C16/Corr.vo']
PROPS = 'C16/Props.v'
EXTRACTED = ['formats']
CASE_IMPORTS = 'From V Require Import C16.Model C16.Spec C16.Files C16.Corr.\nFrom Coq Require Import QArith.'
RULE = ('(a) single fields through the real TruncFormatter: fill/align (< > ^ default) x width 0-9 x s/d/.pf x with/without '
        'the t option, values around the width (one character short, exact, 1-3 over), negative numbers; (b) small '
        'systems (1-4 molecules, 1-8 atoms, keys != atom ids, permuted / absent atomid, bond degree 0-6) with boundary '
        'residue numbers (around 10^3, 10^4, 10^5), names of length 0-7, one/two-character chains, insertion codes, '
        'coordinates around the 8-character limit: real write_pdb_string / write_gro text compared character for '
        'character with the model built on the extracted formats, real PDBParser / read_gro (exclude=()) results '
        'evaluated by the round-trip checker; (c) one Python-only 10 050-atom system (bond set must round-trip) and one '
        '100 010-atom system (fields stay in place). non-trivial = a system with a bond and at least one boundary '
        'value, or a field whose value overflows; distinct by input')
ASSUMPTIONS = ['altloc is written empty; names contain no blanks and (GRO) no dots; empty molecules are not written',
               'coordinates are exact multiples of 10^-3 of the file unit with |u| < 2^53; doubles cross the boundary as exact rationals',
               'float parsing of the readers is compared within 1e-9 of the decimal value (not proved)']
TRUSTED = ['Python str.format for the non-truncating part of a field is mirrored by pad/render in C16/Model.v',
           'decimal printing through Coq DecimalString (proved inverse of parsing)']

NAMES = ['', 'C', 'CA', 'BB', 'SC1', 'HD21', 'ABCDE', 'ABCDEFG', "O5'"]
RESNAMES = ['ALA', 'W', 'GL', 'DPPC', 'LONGRES', 'A1']
CHAINS = ['', 'A', 'B', 'AB']
ICODES = ['', '', 'B']
ELEMENTS = ['C', 'N', '', 'CA', 'ZNX']
RESIDS = [-5, 0, 1, 2, 42, 999, 1000, 9999, 10000, 99999, 100000]
COORDS = [0, 1, -1, 1234, -5678, 999999, 9999999, 10000000, 12345678, -999999, -1000000, -9999999, 500, 15]


def gen_system(rng, gro=False):
    ms = []
    for _ in range(rng.randint(1, 4)):
        n = rng.randint(1, 8)
        keys = rng.sample(range(-3, 30), n)
        mode = rng.choice(['perm', 'none', 'partial', 'same'])
        ids = list(range(1, n + 1))
        rng.shuffle(ids)
        atoms = []
        for j, k in enumerate(keys):
            aid = {'perm': ids[j], 'none': None, 'partial': ids[j] if rng.random() < 0.5 else None, 'same': j + 1}[mode]
            boundary = rng.random() < 0.35
            atoms.append({'key': k, 'atomid': aid,
                          'name': rng.choice(NAMES if boundary else NAMES[1:5]) if not gro else rng.choice(NAMES[1:8]),
                          'resname': rng.choice(RESNAMES if boundary else RESNAMES[:3]),
                          'chain': rng.choice(CHAINS if boundary else CHAINS[:3]), 'icode': rng.choice(ICODES),
                          'element': rng.choice(ELEMENTS if boundary else ELEMENTS[:3]),
                          'resid': rng.choice(RESIDS if boundary else RESIDS[2:6]),
                          'x': rng.choice(COORDS) if boundary else rng.randint(-99999, 99999),
                          'y': rng.randint(-99999, 99999), 'z': rng.choice(COORDS) if rng.random() < 0.2 else rng.randint(-9999, 9999)})
        for a in atoms:
            if not any(ch.isalpha() for ch in a['name']) and not a['element']:
                a['element'] = 'C'       # the reader derives a missing element from the name
        edges = set()
        for _ in range(rng.choice([0, 1, 2, 4, 8, 14])):
            if n >= 2:
                u, v = rng.sample(keys, 2)
                edges.add((min(u, v), max(u, v)))
        ms.append({'atoms': atoms, 'edges': sorted(edges)})
    return ms


SPECS_ALIGN = ['', '<', '>', '^', ' >', ' <', '*^', '0>']


def gen_field(rng):
    kind = rng.choice(['s', 'd', 'f'])
    al = rng.choice(SPECS_ALIGN)
    width = rng.choice([0, 1, 2, 3, 4, 5, 6, 8, 9])
    trunc = rng.random() < 0.8
    if kind == 's':
        val = ''.join(rng.choice('ABCdef12') for _ in range(rng.choice([0, 1, max(0, width - 1), width, width + 1, width + 2, width + 3])))
        spec = '%s%s%s' % (al, width if width else '', 's')
        return {'kind': 'field', 'spec': spec + ('t' if trunc else ''), 'vkind': 's', 'value': val}
    if kind == 'd':
        digits = rng.choice([1, max(1, width - 1), max(1, width), width + 1, width + 2])
        val = rng.choice([1, -1]) * rng.randint(10 ** (digits - 1) if digits > 1 else 0, 10 ** digits - 1)
        spec = '%s%s%s' % (al, width if width else '', 'd')
        return {'kind': 'field', 'spec': spec + ('t' if trunc else ''), 'vkind': 'd', 'value': val}
    p = rng.choice([1, 2, 3, 4])
    digits = rng.choice([1, max(1, width - p - 1), max(1, width - p), width, width + 1])
    u = rng.choice([1, -1]) * rng.randint(0, 10 ** (digits + p) - 1)
    spec = '%s%s.%df' % (al, width if width else '', p)
    return {'kind': 'field', 'spec': spec + ('t' if trunc else ''), 'vkind': 'f', 'value': u, 'prec': p}


def generate(rng, tier):
    cases = []
    for _ in range(400 if tier == 'quick' else 6000):
        cases.append(gen_field(rng))
    for _ in range(150 if tier == 'quick' else 2500):
        cases.append({'kind': 'pdb', 'ms': gen_system(rng)})
    for _ in range(120 if tier == 'quick' else 2000):
        cases.append({'kind': 'gro', 'ms': gen_system(rng, gro=True), 'title': rng.choice(['Martinized!', 't', 'a b c'])})
    cases.append({'kind': 'big', 'n': 10050})
    if tier == 'thorough':
        cases.append({'kind': 'big', 'n': 100010})
    return cases


def _build_system(ms, scale):
    import numpy as np
    import vermouth
    system = vermouth.system.System()
    for m in ms:
        mol = vermouth.molecule.Molecule()
        for a in m['atoms']:
            attrs = dict(atomname=a['name'], resname=a['resname'], chain=a['chain'], insertion_code=a['icode'],
                         element=a['element'], resid=a['resid'],
                         position=np.array([a['x'] / scale, a['y'] / scale, a['z'] / scale]))
            if a['atomid'] is not None:
                attrs['atomid'] = a['atomid']
            mol.add_node(a['key'], **attrs)
        for u, v in m['edges']:
            mol.add_edge(u, v)
        system.add_molecule(mol)
    return system


def _frac(x):
    return Fraction(float(x))


def run_impl(inp):
    import vermouth
    from vermouth.truncating_formatter import TruncFormatter
    if inp['kind'] == 'field':
        v = inp['value']
        if inp['vkind'] == 'f':
            v = float(Fraction(inp['value'], 10 ** inp['prec']))
        try:
            return {'text': TruncFormatter().format('{:' + inp['spec'] + '}', v)}
        except NotImplementedError:
            return {'error': 'NotImplementedError'}
    if inp['kind'] == 'pdb':
        from vermouth.pdb.pdb import write_pdb_string, PDBParser
        system = _build_system(inp['ms'], 10000.0)
        text = write_pdb_string(system, conect=True)
        parser = PDBParser(exclude=(), ignh=False)
        mols = list(parser.parse(io.StringIO(text)))
        back = []
        for mol in mols:
            order = list(mol.nodes)
            pos = {k: i for i, k in enumerate(order)}
            atoms = []
            for k in order:
                nd = mol.nodes[k]
                p = nd['position']
                atoms.append([nd['atomid'], nd['atomname'], nd['resname'], nd['chain'], nd['insertion_code'], nd['resid'],
                              [str(_frac(p[0]) * 10), str(_frac(p[1]) * 10), str(_frac(p[2]) * 10)]])
            back.append({'atoms': atoms, 'edges': sorted([min(pos[u], pos[v]), max(pos[u], pos[v])] for u, v in mol.edges)})
        return {'lines': text.split('\n'), 'back': back}
    if inp['kind'] == 'gro':
        from vermouth.gmx.gro import write_gro, read_gro
        system = _build_system(inp['ms'], 1000.0)
        os.makedirs(WORK, exist_ok=True)
        d = tempfile.mkdtemp(prefix='c16_', dir=WORK)
        try:
            path = os.path.join(d, 'x.gro')
            write_gro(system, path, title=inp['title'], defer_writing=False)
            text = open(path).read()
            mol = read_gro(path, exclude=())
        finally:
            shutil.rmtree(d, ignore_errors=True)
        lines = text.split('\n')
        assert lines[-1] == ''
        back = []
        for k in mol.nodes:
            nd = mol.nodes[k]
            p = nd['position']
            back.append([nd['atomid'], nd['atomname'], nd['resname'], '', '', nd['resid'],
                         [str(_frac(p[0])), str(_frac(p[1])), str(_frac(p[2]))]])
        return {'lines': lines[:-2], 'box_line': lines[-2], 'back': back}
    return run_big(inp['n'])


def run_big(n):
    """Python-only: too large to ship to Coq as a literal; the line-level theorems cover the arithmetic."""
    import numpy as np
    import vermouth
    from vermouth.pdb.pdb import write_pdb_string, PDBParser
    system = vermouth.system.System()
    per = n // 3
    sizes = [per, per, n - 2 * per]
    rngl = __import__('random').Random(n)
    all_edges = []
    for mi, sz in enumerate(sizes):
        mol = vermouth.molecule.Molecule()
        for i in range(sz):
            mol.add_node(i, atomname='C%d' % (i % 10), resname='RES', chain='A', resid=i // 10 + 1, element='C',
                         position=np.array([0.1 * (i % 50), 0.1 * mi, 0.001 * (i % 7)]))
        edges = set()
        for _ in range(200):
            u = rngl.randrange(sz)
            v = rngl.choice([min(sz - 1, u + 1), rngl.randrange(sz), sz - 1, 0])
            if u != v:
                edges.add((min(u, v), max(u, v)))
        for i in range(max(0, sz - 30), sz - 1):
            edges.add((i, i + 1))
        mol.add_edges_from(edges)
        all_edges.append(sorted(edges))
        system.add_molecule(mol)
    text = write_pdb_string(system, conect=True)
    lines = text.split('\n')
    widths_ok = all(len(l) == 80 for l in lines if l.startswith('ATOM'))
    res = {'n': n, 'widths_ok': widths_ok}
    if n + len(sizes) <= 99999:
        mols = list(PDBParser(exclude=(), ignh=False).parse(io.StringIO(text)))
        res['n_mols'] = len(mols)
        ok = len(mols) == len(sizes)
        for mol, sz, edges in zip(mols, sizes, all_edges):
            ok = ok and len(mol) == sz and sorted((min(u, v), max(u, v)) for u, v in mol.edges) == edges
        res['bonds_ok'] = ok
    else:
        names_ok = True
        k = 0
        for l in lines:
            if l.startswith('ATOM'):
                names_ok = names_ok and l[17:20] == 'RES' and l[21] == 'A' and l[12:14] == 'C%d' % ((k % per if k < 2 * per else (k - 2 * per)) % 10)
                k += 1
        res['names_in_place'] = names_ok
    return res


def py_prop(inp, out):
    if inp['kind'] != 'big':
        return None
    if not out['widths_ok']:
        return 'ATOM records are not all 80 columns wide'
    if 'bonds_ok' in out and not out['bonds_ok']:
        return 'bond set or molecule division did not round-trip for %d atoms' % inp['n']
    if 'names_in_place' in out and not out['names_in_place']:
        return 'fields shifted in a %d-atom file' % inp['n']
    return None


def txtlit(s):
    return '(s2l %s)' % strlit(s)


def atom_lit(a):
    return ('{| pa_key := %s; pa_atomid := %s; pa_name := %s; pa_resname := %s; pa_chain := %s; pa_icode := %s; '
            'pa_element := %s; pa_resid := %s; pa_x := %s; pa_y := %s; pa_z := %s |}') % (
        zlit(a['key']), optlit(a['atomid'], zlit), txtlit(a['name']), txtlit(a['resname']), txtlit(a['chain']),
        txtlit(a['icode']), txtlit(a['element']), zlit(a['resid']), zlit(a['x']), zlit(a['y']), zlit(a['z']))


def ms_lit(ms):
    return listlit(ms, lambda m: '{| fm_atoms := %s; fm_edges := %s |}' % (
        listlit(m['atoms'], atom_lit), listlit(m['edges'], lambda e: '(%s, %s)' % (zlit(e[0]), zlit(e[1])))))


def ratom_lit(r):
    q = [Fraction(x) for x in r[6]]
    return ('{| ra_atomid := %s; ra_name := %s; ra_resname := %s; ra_chain := %s; ra_icode := %s; ra_resid := %s; '
            'ra_x := %s; ra_y := %s; ra_z := %s |}') % (zlit(r[0]), txtlit(r[1]), txtlit(r[2]), txtlit(r[3]), txtlit(r[4]),
                                                        zlit(r[5]), qlit(q[0]), qlit(q[1]), qlit(q[2]))


def fspec_lit(spec):
    from .extract import _fspec
    return _fspec(spec)


def emit(inp, out):
    if inp['kind'] == 'field':
        if 'error' in out:
            return None
        v = inp['value']
        vl = 'VStr %s' % txtlit(v) if inp['vkind'] == 's' else 'VInt %s' % zlit(v) if inp['vkind'] == 'd' else 'VFix %s' % zlit(v)
        return 'CField %s (%s) %s' % (fspec_lit(inp['spec']), vl, strlit(out['text']))
    if inp['kind'] == 'pdb':
        back = listlit(out['back'], lambda m: '{| rm_atoms := %s; rm_edges := %s |}' % (
            listlit(m['atoms'], ratom_lit), listlit(m['edges'], lambda e: '(%s, %s)' % (zlit(e[0]), zlit(e[1])))))
        return 'CPdb %s %s %s' % (ms_lit(inp['ms']), listlit(out['lines'], strlit), back)
    if inp['kind'] == 'gro':
        return 'CGro %s %s %s %s' % (strlit(inp['title']), ms_lit(inp['ms']), listlit(out['lines'], strlit),
                                     listlit(out['back'], ratom_lit))
    return None


def nontrivial(inp, out):
    if inp['kind'] == 'field':
        return ('f', inp['spec'], str(inp['value'])) if 'text' in out and len(out['text']) >= 1 else None
    if inp['kind'] == 'big':
        return ('big', inp['n'])
    if not any(m['edges'] for m in inp['ms']) and inp['kind'] == 'pdb':
        return None
    return str(inp)


def describe(inp, out):
    if inp['kind'] == 'field':
        return {'kind': 'field', 'field_kind': inp['vkind'], 'field_trunc': inp['spec'].endswith('t'),
                'field_error': out.get('error', 'none')}
    if inp['kind'] == 'big':
        return {'kind': 'big'}
    return {'kind': inp['kind'], 'n_mols': len(inp['ms']), 'n_atoms': sum(len(m['atoms']) for m in inp['ms']),
            'n_edges': sum(len(m['edges']) for m in inp['ms']),
            'overflowing_resid': any(abs(a['resid']) >= 10000 for m in inp['ms'] for a in m['atoms']),
            'overflowing_coord': any(len('%.3f' % (a['x'] / 1000)) > 8 for m in inp['ms'] for a in m['atoms'])}


def shrink(inp):
    if inp['kind'] not in ('pdb', 'gro'):
        return
    ms = inp['ms']
    for i in range(len(ms)):
        if len(ms) > 1:
            yield dict(inp, ms=ms[:i] + ms[i + 1:])
        m = ms[i]
        for j in range(len(m['edges'])):
            yield dict(inp, ms=ms[:i] + [dict(m, edges=m['edges'][:j] + m['edges'][j + 1:])] + ms[i + 1:])
        used = {k for e in m['edges'] for k in e}
        for j, a in enumerate(m['atoms']):
            if a['key'] not in used and len(m['atoms']) > 1:
                yield dict(inp, ms=ms[:i] + [dict(m, atoms=m['atoms'][:j] + m['atoms'][j + 1:])] + ms[i + 1:])
