"""Generator / printer / expected-value builder for whole .ff, .itp and backward .map files (C13).
The expected values are computed from the AST by the rules of the documented grammar, independently
of vermouth's parsers."""
import json
import random

ATOM_POOL = ['BB', 'SC1', 'SC2', 'CA', 'N', 'C', 'O', 'P1']
INTER_2 = ['bonds', 'constraints', 'pairs']
PARAMS = ['1', '0.47', '1250', '2', '$k', 'dist(BB,SC1)', '0.1']


def gen_block(rng, idx):
    n = rng.randint(1, 6)
    names = rng.sample(ATOM_POOL, n)
    atoms = []
    for i, nm in enumerate(names):
        a = {'name': nm, 'atype': rng.choice(['P1', 'C3', 'Qd']), 'resid': rng.choice([1, 1, 2]), 'resname': 'R%d' % idx, 'cgr': i + 1}
        if rng.random() < 0.7:
            a['charge'] = rng.choice([0.0, 1.0, -0.5])
            if rng.random() < 0.5:
                a['mass'] = rng.choice([72.0, 36.0])
        if rng.random() < 0.25:
            a['attrs'] = {'extra': rng.choice([1, 'x', True])}
        atoms.append(a)
    inters = []
    for _ in range(rng.randint(0, 4)):
        # number of atoms per section as documented for the .ff format (the GROMACS directive of the same name)
        ff_atoms = {'bonds': 2, 'constraints': 2, 'angles': 3, 'dihedrals': 4, 'exclusions': rng.randint(2, 3), 'impropers': 4, 'pairs': 2,
                    'pairs_nb': 2, 'SETTLE': 1, 'virtual_sites2': 3, 'virtual_sites3': 4, 'virtual_sites4': 5, 'position_restraints': 1,
                    'distance_restraints': 2, 'dihedral_restraints': 4, 'orientation_restraints': 2, 'angle_restraints': 4,
                    'angle_restraints_z': 2}
        typ = rng.choice(['bonds', 'bonds', 'angles', 'dihedrals', 'constraints', 'exclusions'] + (sorted(ff_atoms) if rng.random() < 0.5 else []))
        na = ff_atoms[typ]
        if n < na:
            continue
        refs = rng.sample(range(n), na)
        by_index = rng.random() < 0.4
        params = [rng.choice(['1', '2', '0.3', '100', '9']) for _ in range(rng.randint(0, 3))]
        if typ == 'dihedrals' and params and rng.random() < 0.5:
            params[0] = '2'
        meta = {'version': rng.choice([1, 2])} if rng.random() < 0.2 else None
        inters.append({'type': typ, 'refs': refs, 'by_index': by_index, 'delim': typ == 'exclusions' or rng.random() < 0.3,
                       'params': params if typ != 'exclusions' else [], 'meta': meta})
        if typ not in ('bonds', 'angles', 'dihedrals', 'constraints', 'exclusions') and rng.random() < 0.5:
            inters[-1]['delim'] = True          # with the delimiter a wrong section size cannot hide behind the parameters
    edges = []
    if n >= 2 and rng.random() < 0.4:
        edges.append(rng.sample(range(n), 2))
    smeta = {}
    for typ in {i['type'] for i in inters}:
        if rng.random() < 0.2:
            smeta[typ] = {'group': 'g%d' % idx}
    # a line's own metadata restating a key of the subsection's #meta with another value: the line wins (documented:
    # "#meta ... applies to all interactions that follow unless overridden"); drawn from a derived stream so that the
    # other choices of the case stay what they were
    sub = random.Random(repr((idx, [(i['type'], i['refs'], i['params']) for i in inters])))
    if inters and not smeta and sub.random() < 0.3:
        smeta[sub.choice(inters)['type']] = {'group': 'g%d' % idx}
    for typ in sorted(smeta):
        if sub.random() < 0.6:
            smeta[typ]['version'] = sub.choice([1, 2, 3])
        for i in inters:
            if i['type'] == typ and sub.random() < 0.6:
                own = dict(i['meta'] or {})
                for key in sub.sample(sorted(smeta[typ]), sub.randint(1, len(smeta[typ]))):
                    own[key] = 'own%d' % idx if key == 'group' else smeta[typ][key] + sub.choice([1, 2])
                i['meta'] = own
    return {'kind': 'block', 'name': 'BLK%d' % idx, 'nrexcl': rng.choice([1, 3]), 'atoms': atoms, 'inters': inters, 'edges': edges,
            'smeta': smeta, 'citation': ['ref%d' % idx] if rng.random() < 0.2 else []}


ORDERS = [('', None), ('+', 1), ('-', -1), ('++', 2), ('>', '>'), ('<<', '<<'), ('*', '*'), ('', 0)]


def gen_link(rng, idx):
    nk = rng.choice([2, 3, 4, 4, 5, 5])
    keys = []
    seen = set()
    for _ in range(nk):
        base = rng.choice(ATOM_POOL[:5])
        prefix, order = rng.choice(ORDERS)
        key = prefix + base
        if key in seen:
            continue
        seen.add(key)
        own = {}
        if rng.random() < 0.4:
            own['resname'] = rng.choice(['ALA', 'GLY'])
        if rng.random() < 0.15:
            own['atomname'] = base + 'x'
        keys.append({'key': key, 'base': base, 'prefix': prefix, 'order': order if prefix else 0,
                     'via_attr': rng.random() < 0.4, 'own': own})
    if len(keys) < 2:
        return gen_link(rng, idx)
    link_attrs = []
    if rng.random() < 0.5:
        link_attrs.append(('resname', rng.choice(['"ALA"', '"ALA|GLY|LYS"'])))
    if rng.random() < 0.2:
        link_attrs.append(('cgsecstruct', 'not("F")'))
    molmeta = [('scfix', 'true')] if rng.random() < 0.2 else []
    inters = []
    for _ in range(rng.randint(1, 3)):
        typ = rng.choice(['bonds', 'angles', 'constraints', 'pairs_nb' if rng.random() < 0.3 else 'bonds', 'dihedrals', 'impropers'])
        na = {'bonds': 2, 'constraints': 2, 'angles': 3, 'pairs_nb': 2, 'dihedrals': 4, 'impropers': 4}[typ]
        if len(keys) < na:
            continue
        refs = rng.sample(range(len(keys)), na)
        params = [rng.choice(['1', '0.3', '700', 'dist(BB,+BB)']) for _ in range(rng.randint(1, 3))]
        if typ == 'dihedrals' and rng.random() < 0.4:
            params[0] = '2'                      # an improper written in the gromacs way: filed under impropers
        inters.append({'type': typ, 'refs': refs, 'params': params,
                       'delim': rng.random() < 0.3, 'meta': {'version': 1} if rng.random() < 0.15 else None,
                       'remove': rng.random() < (0.4 if typ in ('dihedrals', 'impropers') else 0.15)})
    used = sorted({r for i in inters for r in i['refs']})
    edges = [rng.sample(used, 2)] if len(used) >= 2 and rng.random() < 0.3 else []
    non_edges = [rng.sample(used, 2)] if len(used) >= 2 and rng.random() < 0.3 else []
    patterns = [[rng.choice(used), rng.choice(used)]] if used and rng.random() < 0.2 else []
    return {'kind': 'link', 'marker': 'L%d' % idx, 'keys': keys, 'link_attrs': link_attrs, 'molmeta': molmeta, 'inters': inters,
            'edges': edges, 'non_edges': non_edges, 'patterns': patterns, 'features': ['L%d' % idx] + (['scfix'] if rng.random() < 0.3 else [])}


def gen_mod(rng, idx):
    atoms = [{'name': 'CA', 'attrs': {'PTM_atom': False, 'element': 'C'}},
             {'name': 'X%d' % idx, 'attrs': {'PTM_atom': True, 'element': rng.choice(['H', 'O']), 'replace': {'atomname': None} if rng.random() < 0.3 else {}}}]
    return {'kind': 'mod', 'name': 'MOD%d' % idx, 'atoms': atoms, 'edges': [[0, 1]]}


def gen_ff(rng):
    items = []
    for i in range(rng.randint(1, 6)):
        items.append(rng.choice([gen_block, gen_block, gen_link, gen_link, gen_mod])(rng, i))
    return {'macros': [('k', '1250')] + ([('r', '0.47')] if rng.random() < 0.5 else []),
            'variables': [('center_weight', '"mass"'), ('n', '3')] if rng.random() < 0.5 else [],
            'citations': ['ffref'] if rng.random() < 0.5 else [],
            'items': items, 'extra_tops': [rng.randrange(0, len(items) + 1) for _ in range(rng.choice([0, 0, 1, 2]))]}


def ref_text(k, attrs_extra=None):
    """An atom reference of a link as written in the file."""
    txt = k['key'] if not k['via_attr'] or not k['prefix'] else k['base']
    attrs = dict(k['own'])
    if k['via_attr'] and k['prefix']:
        attrs['order'] = k['order']
    if attrs_extra:
        attrs.update(attrs_extra)
    if attrs:
        txt += ' ' + json.dumps(attrs)
    return txt


def print_ff(ff):
    out = []
    out.append('[ macros ]')
    for k, v in ff['macros']:
        out.append('%s %s' % (k, v))
    if ff['variables']:
        out.append('[ variables ]')
        for k, v in ff['variables']:
            out.append('%s %s' % (k, v))
    if ff['citations']:
        out += ['[ citations ]', ' '.join(ff['citations'])]
    for pos, it in enumerate(ff['items']):
        for _ in range(ff['extra_tops'].count(pos)):
            out += ['[ citations ]', 'ffref2']          # a top-level section between two contexts
        if it['kind'] == 'block':
            out += ['[ moleculetype ]', '%s %d' % (it['name'], it['nrexcl']), '[ atoms ]']
            for i, a in enumerate(it['atoms']):
                l = '%d %s %d %s %s %d' % (i + 1, a['atype'], a['resid'], a['resname'], a['name'], a['cgr'])
                if 'charge' in a:
                    l += ' %r' % a['charge']
                if 'mass' in a:
                    l += ' %r' % a['mass']
                if 'attrs' in a:
                    l += ' ' + json.dumps(a['attrs'])
                out.append(l)
            cur = None
            for x in it['inters']:
                if x['type'] != cur:
                    out.append('[ %s ]' % x['type'])
                    cur = x['type']
                    if x['type'] in it['smeta']:
                        out.append('#meta ' + json.dumps(it['smeta'][x['type']]))
                refs = [str(r + 1) if x['by_index'] else it['atoms'][r]['name'] for r in x['refs']]
                # a bracketed token right after the last atom would be read as that atom's attributes: use the delimiter
                l = ' '.join(refs) + (' --' if x['delim'] or (x['meta'] and not x['params']) else '') + ' ' + ' '.join(x['params'])
                if x['meta']:
                    l += ' ' + json.dumps(x['meta'])
                out.append(l)
            if it['edges']:
                out.append('[ edges ]')
                for u, v in it['edges']:
                    out.append('%s %s' % (it['atoms'][u]['name'], it['atoms'][v]['name']))
            if it['citation']:
                out += ['[ citation ]', ' '.join(it['citation'])]
        elif it['kind'] == 'link':
            out.append('[ link ]')
            for k, v in it['link_attrs']:
                out.append('%s %s' % (k, v))
            if it['molmeta']:
                out.append('[ molmeta ]')
                for k, v in it['molmeta']:
                    out.append('%s %s' % (k, v))
            out += ['[ features ]', ' '.join(it['features'])]
            cur = None
            for x in it['inters']:
                sec = ('!' if x['remove'] else '') + x['type']
                if sec != cur:
                    out.append('[ %s ]' % sec)
                    cur = sec
                l = ' '.join(ref_text(it['keys'][r]) for r in x['refs']) + (' --' if x['delim'] or (x['meta'] and not x['params']) else '') + ' ' + ' '.join(x['params'])
                if x['meta']:
                    l += ' ' + json.dumps(x['meta'])
                out.append(l)
            if it['edges']:
                out.append('[ edges ]')
                for u, v in it['edges']:
                    out.append('%s %s' % (ref_text(it['keys'][u]), ref_text(it['keys'][v])))
            if it['non_edges']:
                out.append('[ non-edges ]')
                for u, v in it['non_edges']:
                    out.append('%s %s' % (ref_text(it['keys'][u]), ref_text(it['keys'][v], {'marker': 1})))
            if it['patterns']:
                out.append('[ patterns ]')
                for p in it['patterns']:
                    out.append(' '.join(ref_text(it['keys'][r]) for r in p))
        else:
            out += ['[ modification ]', it['name'], '[ atoms ]']
            for a in it['atoms']:
                out.append('%s %s' % (a['name'], json.dumps(a['attrs'])))
            out.append('[ edges ]')
            for u, v in it['edges']:
                out.append('%s %s' % (it['atoms'][u]['name'], it['atoms'][v]['name']))
    return out


def subst(tok, macros):
    for k, v in macros:
        tok = tok.replace('$' + k, v)
    return tok


def check_ff(ff, loaded):
    """Compare the loaded force field with the AST. Returns None or a message."""
    from vermouth.molecule import Choice, NotDefinedOrNot, LinkParameterEffector
    macros = ff['macros']
    blocks = [it for it in ff['items'] if it['kind'] == 'block']
    links = [it for it in ff['items'] if it['kind'] == 'link']
    mods = [it for it in ff['items'] if it['kind'] == 'mod']
    want_vars = {k: json.loads(v) for k, v in ff['variables']}
    if dict(loaded.variables) != want_vars:
        return 'variables: %r != %r' % (dict(loaded.variables), want_vars)
    if list(loaded.blocks) != [b['name'] for b in blocks]:
        return 'blocks declared %r, loaded %r' % ([b['name'] for b in blocks], list(loaded.blocks))
    if len(loaded.links) != len(links):
        return '%d links declared, %d loaded' % (len(links), len(loaded.links))
    if list(loaded.modifications) != [m['name'] for m in mods]:
        return 'modifications declared %r, loaded %r' % ([m['name'] for m in mods], list(loaded.modifications))
    for b in blocks:
        lb = loaded.blocks[b['name']]
        if lb.nrexcl != b['nrexcl']:
            return 'nrexcl of %s' % b['name']
        if list(lb.nodes) != [a['name'] for a in b['atoms']]:
            return 'atoms of %s: %r' % (b['name'], list(lb.nodes))
        for a in b['atoms']:
            nd = lb.nodes[a['name']]
            want = {'atomname': a['name'], 'atype': a['atype'], 'resname': a['resname'], 'resid': a['resid'], 'charge_group': a['cgr']}
            if 'charge' in a:
                want['charge'] = a['charge']
            if 'mass' in a:
                want['mass'] = a['mass']
            want.update(a.get('attrs', {}))
            if dict(nd) != want:
                return 'atom %s of %s: %r != %r' % (a['name'], b['name'], dict(nd), want)
        want_inter = {}
        for x in b['inters']:
            typ = x['type']
            params = [subst(p, macros) for p in x['params']]
            if typ == 'dihedrals' and params and params[0] == '2':
                typ = 'impropers'
            meta = dict(b['smeta'].get(x['type'], {}))
            meta.update(x['meta'] or {})
            want_inter.setdefault(typ, []).append(([b['atoms'][r]['name'] for r in x['refs']], params, meta))
        got_inter = {}
        for typ, lst in lb.interactions.items():
            for i in lst:
                got_inter.setdefault(typ, []).append((list(i.atoms), [p if isinstance(p, str) else repr(p) for p in i.parameters], dict(i.meta)))
        for typ in set(want_inter) | set(got_inter):
            w = [(a, [p if '(' not in p else None for p in ps], m) for a, ps, m in want_inter.get(typ, [])]
            g = [(a, [p if '(' not in str(p) and not str(p).startswith('<') else None for p in ps], m) for a, ps, m in got_inter.get(typ, [])]
            if w != g:
                return 'interactions %s of %s: declared %r loaded %r' % (typ, b['name'], w, g)
        for u, v in b['edges']:
            if not lb.has_edge(b['atoms'][u]['name'], b['atoms'][v]['name']):
                return 'edge missing in %s' % b['name']
        if not set(b['citation'] + ff['citations']) <= set(lb.citations):
            return 'citations of %s: %r' % (b['name'], lb.citations)
    for l, ll in zip(links, loaded.links):
        if l['marker'] not in ll.features:
            return 'links out of order or duplicated: expected %s, features %r' % (l['marker'], ll.features)
        if set(ll.features) != set(l['features']):
            return 'features of %s' % l['marker']
        wide = {}
        for k, v in l['link_attrs']:
            if v.startswith('not('):
                wide[k] = NotDefinedOrNot(json.loads(v[4:-1]))
            elif '|' in v:
                wide[k] = Choice(json.loads(v).split('|'))
            else:
                wide[k] = json.loads(v)
        if dict(ll.molecule_meta) != {k: json.loads(v) for k, v in l['molmeta']}:
            return 'molmeta of %s' % l['marker']
        used = sorted({r for x in l['inters'] for r in x['refs']} | {r for p in l['patterns'] for r in []})
        for r in used:
            k = l['keys'][r]
            if k['key'] not in ll.nodes:
                return 'node %s missing in %s (nodes %r)' % (k['key'], l['marker'], list(ll.nodes))
            want = dict(wide)
            want.update(k['own'])
            want['order'] = k['order']
            want.setdefault('atomname', k['base'])
            if dict(ll.nodes[k['key']]) != want:
                return 'node %s of %s: %r != %r' % (k['key'], l['marker'], dict(ll.nodes[k['key']]), want)
        want_i, want_r = {}, {}
        for x in l['inters']:
            tgt = want_r if x['remove'] else want_i
            typ = x['type']
            if typ == 'dihedrals' and x['params'] and x['params'][0] == '2':
                typ = 'impropers'
            tgt.setdefault(typ, []).append(([l['keys'][r]['key'] for r in x['refs']],
                                                  [subst(p, macros) if '(' not in p else None for p in x['params']], x['meta'] or {}))
        for name, want, got in (('interactions', want_i, ll.interactions), ('removed', want_r, ll.removed_interactions)):
            g = {t: [(list(i.atoms), [p if isinstance(p, str) else None for p in i.parameters], dict(i.meta)) for i in lst]
                 for t, lst in got.items() if lst}
            if g != want:
                return '%s of %s: declared %r loaded %r' % (name, l['marker'], want, g)
        for x in l['inters']:
            for p, lp in zip(x['params'], []):
                pass
        for (u, v), ne in zip(l['non_edges'], ll.non_edges):
            ku, kv = l['keys'][u], l['keys'][v]
            want = dict(wide)
            want.update(kv['own'])
            want['marker'] = 1
            want['order'] = kv['order']
            want.setdefault('atomname', kv['base'])
            if ne[0] != ku['key'] or dict(ne[1]) != want:
                return 'non-edge of %s: %r, expected (%s, %r)' % (l['marker'], ne, ku['key'], want)
        if len(ll.non_edges) != len(l['non_edges']):
            return 'number of non-edges of %s' % l['marker']
        for u, v in l['edges']:
            if not ll.has_edge(l['keys'][u]['key'], l['keys'][v]['key']):
                return 'edge missing in %s' % l['marker']
        if len(ll.patterns) != len(l['patterns']):
            return 'patterns of %s' % l['marker']
    for m in mods:
        lm = loaded.modifications[m['name']]
        if list(lm.nodes) != [a['name'] for a in m['atoms']]:
            return 'atoms of modification %s' % m['name']
        for a in m['atoms']:
            nd = dict(lm.nodes[a['name']])
            want = dict(a['attrs'])
            want.update({'atomname': a['name'], 'order': 0})
            if nd != want:
                return 'atom %s of modification %s: %r != %r' % (a['name'], m['name'], nd, want)
    return None


FAULTS = ['unknown_section', 'undefined_block_atom', 'duplicate_block_atom', 'unbalanced_brace', 'prefix_order_contradiction',
          'wrong_atom_count', 'line_in_unknown_subsection', 'index_out_of_range', 'index_zero', 'too_many_atoms', 'undefined_edge_atom']


def inject_fault(rng, ff, fault):
    """Returns the text of a file that must be rejected, or None if the fault does not apply to this AST."""
    lines = print_ff(ff)
    blocks = [it for it in ff['items'] if it['kind'] == 'block']
    links = [it for it in ff['items'] if it['kind'] == 'link']
    if fault == 'unknown_section':
        pos = rng.randrange(len(lines) + 1)
        return lines[:pos] + ['[ bogus ]', 'x y'] + lines[pos:]
    if fault == 'unbalanced_brace':
        idx = [i for i, l in enumerate(lines) if '{' in l]
        if not idx:
            return None
        i = rng.choice(idx)
        return lines[:i] + [lines[i].replace('}', '', 1) if rng.random() < 0.5 else lines[i].replace('{', '', 1)] + lines[i + 1:]
    if fault in ('undefined_block_atom', 'duplicate_block_atom', 'wrong_atom_count', 'index_out_of_range', 'index_zero', 'too_many_atoms', 'undefined_edge_atom') and blocks:
        b = rng.choice(blocks)
        start = lines.index('%s %d' % (b['name'], b['nrexcl']))
        atoms_end = start + 2 + len(b['atoms'])
        if fault == 'duplicate_block_atom':
            return lines[:atoms_end] + [lines[start + 2]] + lines[atoms_end:]
        if fault == 'undefined_block_atom':
            return lines[:atoms_end] + ['[ bonds ]', '%s NOPE 1 0.3 100' % b['atoms'][0]['name']] + lines[atoms_end:]
        if fault == 'undefined_edge_atom':
            # an [ edges ] line of a block that names an atom the block does not declare
            a = b['atoms'][0]['name']
            return lines[:atoms_end] + ['[ edges ]', '%s NOPE' % a if rng.random() < 0.5 else 'NOPE %s' % a] + lines[atoms_end:]
        if fault == 'too_many_atoms':
            # three atoms before the explicit delimiter of a two-atom interaction
            a = b['atoms'][0]['name']
            return lines[:atoms_end] + ['[ %s ]' % rng.choice(['bonds', 'constraints']), '%s %s %s -- 1 0.3 100' % (a, a, a)] + lines[atoms_end:]
        if fault == 'index_zero':
            # atom indices are 1-based: 0 refers to no atom of the block
            return lines[:atoms_end] + ['[ bonds ]', '0 1 1 0.3 100' if rng.random() < 0.5 else '1 0 1 0.3 100'] + lines[atoms_end:]
        if fault == 'index_out_of_range':
            return lines[:atoms_end] + ['[ bonds ]', '1 %d 1 0.3 100' % (len(b['atoms']) + 3)] + lines[atoms_end:]
        return lines[:atoms_end] + ['[ angles ]', '%s %s -- 1 0.3 100' % (b['atoms'][0]['name'], b['atoms'][0]['name'])] + lines[atoms_end:]
    if fault == 'prefix_order_contradiction' and links:
        return lines + ['[ link ]', '[ bonds ]', 'BB +BB {"order": 2} 1 0.3 100']
    if fault == 'line_in_unknown_subsection' and blocks:
        b = rng.choice(blocks)
        start = lines.index('%s %d' % (b['name'], b['nrexcl']))
        return lines[:start + 1] + ['[ patterns ]', 'BB SC1'] + lines[start + 1:]
    return None


# ---------------------------------------------------------------------------
def gen_itp(rng):
    mols = []
    for i in range(rng.randint(1, 3)):
        n = rng.randint(1, 6)
        atoms = [{'name': 'A%d%d' % (i, j), 'atype': 'P1', 'resid': 1 + j // 3, 'resname': 'M%d' % i, 'cgr': j + 1,
                  'charge': rng.choice([0.0, 1.0])} for j in range(n)]
        inters = []
        for _ in range(rng.randint(0, 4)):
            # number of atoms per directive as in the GROMACS topology format (reference manual, table of interaction types)
            gmx_atoms = {'bonds': 2, 'constraints': 2, 'angles': 3, 'dihedrals': 4, 'position_restraints': 1, 'exclusions': rng.randint(2, 3),
                         'virtual_sitesn': rng.randint(2, 4), 'pairs': 2, 'pairs_nb': 2, 'settles': 1, 'virtual_sites1': 2,
                         'virtual_sites2': 3, 'virtual_sites3': 4, 'virtual_sites4': 5, 'distance_restraints': 2,
                         'dihedral_restraints': 4, 'orientation_restraints': 2, 'angle_restraints': 4, 'angle_restraints_z': 2}
            typ = rng.choice(['bonds', 'angles', 'constraints', 'dihedrals', 'position_restraints', 'exclusions', 'virtual_sitesn']
                             + (sorted(gmx_atoms) if rng.random() < 0.5 else []))
            na = gmx_atoms[typ]
            if n < na:
                continue
            refs = rng.sample(range(n), na)
            params = [] if typ == 'exclusions' else [rng.choice(['1', '2', '0.3', '100']) for _ in range(rng.randint(1, 3))]
            if typ == 'virtual_sitesn':
                params = ['1']
            inters.append({'type': typ, 'refs': refs, 'params': params, 'ifdef': rng.choice([None, None, ('ifdef', 'FLEXIBLE'), ('ifndef', 'X')])})
        mols.append({'name': 'MOL%d' % i, 'nrexcl': rng.choice([1, 3]), 'atoms': atoms, 'inters': inters})
    return mols


def print_itp(mols):
    out = []
    for m in mols:
        out += ['[ moleculetype ]', '%s %d' % (m['name'], m['nrexcl']), '[ atoms ]']
        for j, a in enumerate(m['atoms']):
            out.append('%d %s %d %s %s %d %r' % (j + 1, a['atype'], a['resid'], a['resname'], a['name'], a['cgr'], a['charge']))
        cur = None
        for x in m['inters']:
            if x['type'] != cur:
                out.append('[ %s ]' % x['type'])
                cur = x['type']
            refs = [str(r + 1) for r in x['refs']]
            if x['type'] == 'virtual_sitesn':
                l = ' '.join([refs[0]] + x['params'] + refs[1:])
            else:
                l = ' '.join(refs + x['params'])
            if x['ifdef']:
                out += ['#%s %s' % x['ifdef'], l, '#endif']
            else:
                out.append(l)
    return out


def check_itp(mols, loaded):
    if list(loaded.blocks) != [m['name'] for m in mols]:
        return 'moleculetypes declared %r, loaded %r' % ([m['name'] for m in mols], list(loaded.blocks))
    for m in mols:
        b = loaded.blocks[m['name']]
        if b.nrexcl != m['nrexcl'] or [b.nodes[k]['atomname'] for k in b.nodes] != [a['name'] for a in m['atoms']]:
            return 'atoms of %s' % m['name']
        want = {}
        for x in m['inters']:
            meta = {x['ifdef'][0]: x['ifdef'][1]} if x['ifdef'] else {}
            want.setdefault(x['type'], []).append(([m['atoms'][r]['name'] for r in x['refs']], x['params'], meta))
        got = {t: [([b.nodes[k]['atomname'] for k in i.atoms], list(i.parameters), dict(i.meta)) for i in lst]
               for t, lst in b.interactions.items() if lst}
        if got != want:
            return 'interactions of %s: declared %r loaded %r' % (m['name'], want, got)
    return None


ITP_FIXED = {'bonds': 2, 'constraints': 2, 'angles': 3, 'dihedrals': 4, 'position_restraints': 1, 'pairs': 2, 'pairs_nb': 2, 'settles': 1,
             'virtual_sites1': 2, 'virtual_sites2': 3, 'virtual_sites3': 4, 'virtual_sites4': 5, 'distance_restraints': 2,
             'dihedral_restraints': 4, 'orientation_restraints': 2, 'angle_restraints': 4, 'angle_restraints_z': 2}


def inject_itp_fault(rng, mols):
    """an ITP file in which one line of a fixed-size directive has fewer columns than the directive has atoms"""
    lines = print_itp(mols)
    m = rng.choice(mols)
    typ = rng.choice(sorted(t for t, n in ITP_FIXED.items() if n >= 2))
    na = ITP_FIXED[typ]
    natoms = len(m['atoms'])
    short = ' '.join(str(rng.randint(1, natoms)) for _ in range(rng.randint(1, na - 1)))
    start = lines.index('%s %d' % (m['name'], m['nrexcl']))
    end = start + 2 + natoms
    return lines[:end] + ['[ %s ]' % typ, short] + lines[end:], typ
