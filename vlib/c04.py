"""C04 — atoms are identified by connectivity, not by names (processors/repair_graph.py)."""
from .common import zlit, listlit, blit

ID = 'C04'
COQ_TARGETS = ['C04/Props.vo', 'C04/Corr.vo']
PROPS = 'C04/Props.v'
EXTRACTED = []
CASE_IMPORTS = 'From V Require Import C05.Model C01.Model C06.Model C04.Model C04.Corr.'
RULE = ('molecules of 1-3 residues from 6 synthetic blocks of 4-8 atoms (symmetric ones on purpose: two equivalent '
        'hydrogens, a methyl, a carboxylate, a 4-ring, a branched side chain), bonded head to tail; per residue one of the '
        'presentations {as is, names scrambled, names permuted among the atoms, atoms re-keyed in random order, 1-3 atoms '
        'missing, 1-2 extra atoms attached, hydrogens stripped, mutation requested, modification requested (patched '
        'reference), combinations}; real make_reference + repair_graph; the initial and final correspondences are read '
        'from the reference graph. non-trivial = some atom re-added and some atom flagged, or a scrambled complete '
        'residue; distinct by input')
ASSUMPTIONS = ['the reference block handed to repair_residue (after _get_reference_residue / _patch_modification) is taken from the '
               'implementation; it is compared with a recomputation from the force field (block of the mutation / residue name plus the extra atoms of the requested modifications bonded to their anchors): validated, not modelled in Coq',
               'the largest-common-subgraph search is judged per input by C06\'s proved checkers (valid, maximum) for residues of at most 8 atoms']
TRUSTED = ['make_residue_graph (grouping atoms into residues)']

EL = {'H': 1, 'C': 6, 'N': 7, 'O': 8, 'P': 15, 'S': 16, 'F': 9, 'Z': 30}
BLOCKS = {
    'GLY': (['N', 'H', 'CA', 'HA1', 'HA2', 'C', 'O'], [('N', 'H'), ('N', 'CA'), ('CA', 'HA1'), ('CA', 'HA2'), ('CA', 'C'), ('C', 'O')]),
    'ACE': (['CH3', 'H1', 'H2', 'H3', 'C', 'O'], [('CH3', 'H1'), ('CH3', 'H2'), ('CH3', 'H3'), ('CH3', 'C'), ('C', 'O')]),
    'CBX': (['N', 'CA', 'C', 'O1', 'O2'], [('N', 'CA'), ('CA', 'C'), ('C', 'O1'), ('C', 'O2')]),
    'RNG': (['N', 'C1', 'C2', 'C3', 'C4', 'C'], [('N', 'C1'), ('C1', 'C2'), ('C2', 'C3'), ('C3', 'C4'), ('C4', 'C1'), ('C3', 'C')]),
    'SER': (['N', 'CA', 'C', 'O', 'CB', 'OG', 'HG'], [('N', 'CA'), ('CA', 'C'), ('C', 'O'), ('CA', 'CB'), ('CB', 'OG'), ('OG', 'HG')]),
    'GLX': (['CA', 'HA', 'CB', 'HB1', 'HB2', 'CD', 'OE1', 'OE2'], [('CA', 'HA'), ('CA', 'CB'), ('CB', 'HB1'), ('CB', 'HB2'), ('CB', 'CD'), ('CD', 'OE1'), ('CD', 'OE2')]),
    'ARX': (['CZ', 'NE', 'HE', 'NH1', 'NH2', 'HH1', 'HH2'], [('CZ', 'NE'), ('NE', 'HE'), ('CZ', 'NH1'), ('CZ', 'NH2'), ('NH1', 'HH1'), ('NH2', 'HH2')]),
    'VAL': (['N', 'CA', 'C', 'O', 'CB', 'CG1', 'CG2', 'SD'], [('N', 'CA'), ('CA', 'C'), ('C', 'O'), ('CA', 'CB'), ('CB', 'CG1'), ('CB', 'CG2'), ('CG1', 'SD')]),
}


def element_of(name):
    if name[0] == 'H':
        return 'H'
    return name[0] if name[0] in EL else 'C'


def gen_residue(rng, resid, force=None):
    resname = rng.choice(sorted(BLOCKS)) if force is None else force[0]
    names, bonds = BLOCKS[resname]
    atoms = [{'name': n, 'el': element_of(n), 'ref': n} for n in names]
    bonds = [list(b) for b in bonds]
    pres = rng.choice(['asis', 'scramble', 'permute_names', 'missing', 'missing', 'extra', 'extra', 'noH', 'mutation', 'modification', 'modification', 'modification',
                       'scramble+missing', 'scramble+extra', 'missing+extra', 'noH+scramble']) if force is None else force[1]
    req = {}
    if 'missing' in pres:
        for _ in range(rng.randint(1, 3)):
            if len(atoms) > 1:
                a = rng.choice(atoms)
                atoms.remove(a)
                bonds = [b for b in bonds if a['ref'] not in b]
    if 'noH' in pres:
        gone = {a['ref'] for a in atoms if a['el'] == 'H'}
        atoms = [a for a in atoms if a['ref'] not in gone]
        bonds = [b for b in bonds if b[0] not in gone and b[1] not in gone]
    if 'extra' in pres or pres == 'modification':
        anchor = 'CA' if pres == 'modification' and any(a['ref'] == 'CA' for a in atoms) else rng.choice(atoms)['ref']
        n_extra = 1 if pres == 'modification' else rng.randint(1, 2)
        prev = anchor
        for i in range(n_extra):
            nm = 'XP' if pres == 'modification' else 'X%d' % i
            atoms.append({'name': nm, 'el': 'P' if pres == 'modification' else rng.choice(['C', 'O', 'P']), 'ref': nm})
            bonds.append([prev, nm])
            prev = nm if rng.random() < 0.5 else anchor
    if pres == 'modification' and 'CA' in names:
        req['modification'] = ['MOD']
        if 'N' in names and any(a['ref'] == 'N' for a in atoms) and rng.random() < 0.5:
            # a second modification requested on the same residue: both must end up in the reference
            atoms.append({'name': 'XS', 'el': 'S', 'ref': 'XS'})
            bonds.append(['N', 'XS'])
            req['modification'] = ['MOD', 'MOD2'] if rng.random() < 0.5 else ['MOD2', 'MOD']
    elif pres == 'modification':
        req['modification'] = ['none']
    if pres == 'mutation':
        req['mutation'] = [rng.choice(sorted(BLOCKS))]
    if 'scramble' in pres:
        for i, a in enumerate(atoms):
            a['name'] = rng.choice(['Q%d' % i, 'Z%d' % rng.randint(0, 3), names[rng.randrange(len(names))]])
    if pres == 'permute_names':
        ns = [a['name'] for a in atoms]
        rng.shuffle(ns)
        for a, n in zip(atoms, ns):
            a['name'] = n
    if pres == 'permute_same_degree':
        # names moved around among atoms of one element with the same number of bonds: the graph of the residue, numbered
        # by name, keeps its degree sequence and its element classes
        deg = {}
        for u, v in bonds:
            deg[u] = deg.get(u, 0) + 1
            deg[v] = deg.get(v, 0) + 1
        classes = {}
        for a in atoms:
            classes.setdefault((deg.get(a['ref'], 0), a['el']), []).append(a)
        for cl in classes.values():
            ns = [a['name'] for a in cl]
            rng.shuffle(ns)
            for a, n in zip(cl, ns):
                a['name'] = n
    return {'resname': resname, 'resid': resid, 'atoms': atoms, 'bonds': bonds, 'req': req, 'presentation': pres}


def _mark_via_annotate(rng, case):
    reqs = [a['req'] for a in case['atoms'] if a['req']]
    if reqs and not any('none' in r.get('modification', []) for r in reqs) and not case.get('ff') and rng.random() < 0.5:
        case['via_annotate'] = True
    return case


def gen_case(rng, force=None):
    return _mark_via_annotate(rng, _gen_case(rng, force))


def _gen_case(rng, force=None):
    if force is None and rng.random() < 0.3:
        # the same residue type several times in one molecule, first as it is in the force field, then with its names
        # permuted / scrambled: the matcher keeps what it learnt about the symmetry of the first for the later ones
        rn = rng.choice(sorted(BLOCKS))
        residues = [gen_residue(rng, 1, (rn, rng.choice(['asis', 'asis', 'noH'])))]
        for i in range(rng.choice([1, 1, 2])):
            residues.append(gen_residue(rng, i + 2, (rn, rng.choice(['permute_same_degree', 'permute_same_degree', 'permute_names', 'scramble', 'asis', 'noH+scramble']))))
    else:
        residues = [gen_residue(rng, i + 1, force) for i in range(1 if force else rng.choice([1, 1, 2, 2, 3]))]
    # flatten with keys
    n_atoms = sum(len(r['atoms']) for r in residues)
    style = rng.random()
    keys = list(range(n_atoms)) if style < 0.4 else (rng.sample(range(0, 3 * n_atoms + 5), n_atoms) if style < 0.8 else sorted(rng.sample(range(0, 60), n_atoms)))
    ki = 0
    atoms, bonds = [], []
    link_prev = None
    for r in residues:
        local = {}
        order = list(r['atoms'])
        if rng.random() < 0.5:
            rng.shuffle(order)
        for a in order:
            local[a['ref']] = keys[ki]
            atoms.append({'key': keys[ki], 'name': a['name'], 'el': a['el'], 'resname': r['resname'], 'resid': r['resid'], 'req': r['req'], 'ref': a['ref']})
            ki += 1
        for u, v in r['bonds']:
            bonds.append([local[u], local[v]])
        head = local.get('N', local[order[0]['ref']])
        if link_prev is not None:
            bonds.append([link_prev, head])
        link_prev = local.get('C', local[order[-1]['ref']])
    return {'atoms': atoms, 'bonds': bonds, 'presentations': [r['presentation'] for r in residues]}


REAL_RES = ['GLU', 'ASP', 'ARG', 'PHE', 'TYR', 'HIS', 'LEU', 'VAL', 'THR', 'ASN', 'GLN', 'MET', 'LYS', 'TRP', 'PRO', 'ILE', 'SER', 'ALA', 'GLY', 'CYS']
_REAL = {}


def real_ff():
    if 'ff' not in _REAL:
        import vermouth.forcefield
        _REAL['ff'] = vermouth.forcefield.get_native_force_field('charmm')
    return _REAL['ff']


def gen_real_case(rng):
    """one residue of the shipped charmm force field: hydrogens stripped or some atoms missing, names scrambled, random order"""
    ff = real_ff()
    # residues with a symmetric pair of heavy atoms are drawn more often
    resname = rng.choice(REAL_RES + ['GLU', 'GLU', 'GLU', 'GLU', 'ASP', 'ASP', 'ARG', 'ARG', 'GLU', 'GLU'])
    block = ff.blocks[resname]
    names = list(block.nodes)
    el = {n: (block.nodes[n].get('element') or [c for c in block.nodes[n]['atomname'] if c.isalpha()][0]) for n in names}
    # (ISMAGS needs minutes on some hydrogen-complete aromatic residues with atoms missing: those are left out)
    pres = rng.choice(['noH+scramble', 'noH+scramble', 'noH+scramble', 'scramble' if len(names) <= 14 else 'noH+scramble'])
    keep = [n for n in names if not ('noH' in pres and el[n] == 'H')]
    if 'missing' in pres:
        for _ in range(rng.randint(1, 3)):
            keep.remove(rng.choice(keep))
    rng.shuffle(keep)
    keys = rng.sample(range(0, 3 * len(keep) + 5), len(keep))
    atoms = [{'key': k, 'name': rng.choice(['Q%d' % i, 'Z%d' % rng.randint(0, 5), names[rng.randrange(len(names))]]), 'el': el[n],
              'resname': resname, 'resid': 1, 'req': {}, 'ref': n} for i, (k, n) in enumerate(zip(keys, keep))]
    kof = {a['ref']: a['key'] for a in atoms}
    bonds = [[kof[u], kof[v]] for u, v in block.edges if u in kof and v in kof]
    return {'atoms': atoms, 'bonds': bonds, 'presentations': ['real:' + pres], 'ff': 'charmm'}


def gen_real_pair_case(rng):
    """two complete residues (all hydrogens) of one type of the shipped charmm force field in one molecule: the first as
    the force field has it, the second with its names moved around among atoms of one element and degree, names listed in
    block order: the matcher's symmetry bookkeeping of the first must not be applied to the second"""
    ff = real_ff()
    resname = rng.choice(['LEU', 'VAL', 'LEU', 'GLU', 'ASP', 'ILE', 'THR', 'ALA', 'LYS'])
    block = ff.blocks[resname]
    names = list(block.nodes)
    el = {n: (block.nodes[n].get('element') or [c for c in block.nodes[n]['atomname'] if c.isalpha()][0]) for n in names}
    deg = {n: block.degree(n) for n in names}
    atoms, bonds = [], []
    key = iter(rng.sample(range(0, 200), 2 * len(names)) if rng.random() < 0.3 else range(10 ** 6))
    prev_c = None
    for resid in (1, 2):
        given = {n: n for n in names}                 # true block atom -> name written in the input
        if resid == 2:
            classes = {}
            for n in names:
                classes.setdefault((deg[n], el[n]), []).append(n)
            for cl in classes.values():
                ns = list(cl)
                rng.shuffle(ns)
                for n, g in zip(cl, ns):
                    given[n] = g
        inverse = {g: n for n, g in given.items()}
        local = {}
        for g in names:                               # the names appear in block order
            n = inverse[g]
            k = next(key)
            local[n] = k
            atoms.append({'key': k, 'name': g, 'el': el[n], 'resname': resname, 'resid': resid, 'req': {}, 'ref': n})
        bonds += [[local[u], local[v]] for u, v in block.edges]
        if prev_c is not None and 'N' in local:
            bonds.append([prev_c, local['N']])
        prev_c = local.get('C')
    return {'atoms': atoms, 'bonds': bonds, 'presentations': ['real:asis', 'real:permute_same_degree'], 'ff': 'charmm'}


def generate(rng, tier):
    cases = [gen_case(rng) for _ in range(260 if tier == 'quick' else 4000)]
    # symmetric heavy-atom pairs, hydrogens stripped, names scrambled, many atom orders
    for _ in range(700 if tier == 'quick' else 6000):
        cases.append(gen_case(rng, force=(rng.choice(['GLX', 'ARX', 'CBX']), 'noH+scramble')))
    for _ in range(400 if tier == 'quick' else 4000):
        cases.append(gen_real_case(rng))
    for _ in range(40 if tier == 'quick' else 400):
        cases.append(gen_real_pair_case(rng))
    return cases


# ---------------------------------------------------------------- implementation
def _ff():
    import vermouth.forcefield
    import vermouth.molecule as vm
    ff = vermouth.forcefield.ForceField(name='ffc04')
    for resname, (names, bonds) in BLOCKS.items():
        b = vm.Block(force_field=ff)
        b.name = resname
        for i, n in enumerate(names):
            b.add_node(n, atomname=n, resname=resname, resid=1, element=element_of(n), charge_group=i + 1, atype='X')
        for u, v in bonds:
            b.add_edge(u, v)
        ff.blocks[resname] = b
    mod = vm.Link(force_field=ff)
    mod.name = 'MOD'
    mod.add_node('CA', atomname='CA', PTM_atom=False, element='C')
    mod.add_node('XP', atomname='XP', PTM_atom=True, element='P')
    mod.add_edge('CA', 'XP')
    ff.modifications['MOD'] = mod
    mod2 = vm.Link(force_field=ff)
    mod2.name = 'MOD2'
    mod2.add_node('N', atomname='N', PTM_atom=False, element='N')
    mod2.add_node('XS', atomname='XS', PTM_atom=True, element='S')
    mod2.add_edge('N', 'XS')
    ff.modifications['MOD2'] = mod2
    return ff


def run_impl(inp):
    import vermouth.molecule as vm
    from vermouth.processors import repair_graph as rg
    ff = real_ff() if inp.get('ff') else _ff()
    mol = vm.Molecule(force_field=ff)
    for a in inp['atoms']:
        req = {} if inp.get('via_annotate') else a['req']
        mol.add_node(a['key'], atomname=a['name'], element=a['el'], resname=a['resname'], resid=a['resid'], chain='A', **req)
    for u, v in inp['bonds']:
        mol.add_edge(u, v)
    if inp.get('via_annotate'):
        # the requests reach the residues the way they do in martinize2: through the real AnnotateMutMod
        import vermouth.system
        from vermouth.processors.annotate_mut_mod import AnnotateMutMod
        wanted = {}
        for a in inp['atoms']:
            if a['req']:
                wanted[(a['resname'], a['resid'])] = a['req']
        mods = [('A-%s%d' % key, m) for key, r in wanted.items() for m in r.get('modification', [])]
        muts = [('A-%s%d' % key, m) for key, r in wanted.items() for m in r.get('mutation', [])]
        system = vermouth.system.System(force_field=ff)
        system.add_molecule(mol)
        AnnotateMutMod(modifications=mods, mutations=muts).run_system(system)
    names = {}

    def code(n):
        return names.setdefault(n, len(names) + 1)

    atoms0 = [[a['key'], code(a['name']), EL[a['el']], bool(a['req'])] for a in inp['atoms']]
    reference_graph = rg.make_reference(mol)
    jobs = []
    for residx in reference_graph:
        nd = reference_graph.nodes[residx]
        ref = nd['reference']
        refkeys = {k: i for i, k in enumerate(ref.nodes)}
        jobs.append({'ref': [[refkeys[k], code(ref.nodes[k]['atomname']), EL[ref.nodes[k]['element']], bool(ref.nodes[k].get('PTM_atom', False))] for k in ref.nodes],
                     'redges': [[refkeys[u], refkeys[v]] for u, v in ref.edges],
                     'found': list(nd['found'].nodes),
                     'fedges': [list(e) for e in nd['found'].edges],
                     'fel': [[k, EL[nd['found'].nodes[k]['element']]] for k in nd['found'].nodes],
                     'match': [[refkeys[r], m] for r, m in nd['match'].items()],
                     'req': bool(nd.get('mutation') or nd.get('modification')),
                     # by construction: residue atom -> block atom it was made from (a witness, judged in Coq)
                     'witness': [[a['key'], refkeys[a['ref']]] for a in inp['atoms'] if a['key'] in nd['found'].nodes and a.get('ref') in refkeys],
                     '_refkeys': refkeys, '_residx': residx})
    # the reference a residue is compared with, recomputed from the force field by the documented rule: the block named
    # by the mutation (else by the residue name), plus the extra atoms of every requested modification bonded to their
    # anchors (by atom name)
    ref_problem = None
    for j in jobs:
        nd = reference_graph.nodes[j['_residx']]
        ref = nd['reference']
        # what was asked for this residue, from the input (not from what the annotation stage left on the atoms)
        asked = next((a['req'] for a in inp['atoms'] if a['resid'] == nd['resid'] and a['req']), {})
        name = asked['mutation'][0] if asked.get('mutation') else next(a['resname'] for a in inp['atoms'] if a['resid'] == nd['resid'])
        blk = ff.blocks[name]
        want_nodes = {blk.nodes[k]['atomname']: False for k in blk.nodes}
        want_edges = {frozenset((blk.nodes[u]['atomname'], blk.nodes[v]['atomname'])) for u, v in blk.edges}
        for modname in asked.get('modification', []) or []:
            if modname == 'none':
                continue
            mod = ff.modifications[modname]
            for k in mod.nodes:
                if mod.nodes[k].get('PTM_atom'):
                    want_nodes[mod.nodes[k]['atomname']] = True
            for u, v in mod.edges:
                if mod.nodes[u].get('PTM_atom') or mod.nodes[v].get('PTM_atom'):
                    want_edges.add(frozenset((mod.nodes[u]['atomname'], mod.nodes[v]['atomname'])))
        got_nodes = {ref.nodes[k]['atomname']: bool(ref.nodes[k].get('PTM_atom', False)) for k in ref.nodes}
        got_edges = {frozenset((ref.nodes[u]['atomname'], ref.nodes[v]['atomname'])) for u, v in ref.edges}
        if len(got_nodes) != len(ref.nodes) or got_nodes != want_nodes or got_edges != want_edges:
            ref_problem = ref_problem or ('reference of residue %s (mutation %r, modification %r): atoms %r bonds %r, expected atoms %r bonds %r' % (
                name, nd.get('mutation'), nd.get('modification'), sorted(got_nodes.items()), sorted(map(sorted, got_edges)),
                sorted(want_nodes.items()), sorted(map(sorted, want_edges))))
    rg.repair_graph(mol, reference_graph)
    for j in jobs:
        nd = reference_graph.nodes[j.pop('_residx')]
        rk = j.pop('_refkeys')
        j['final'] = [[rk[r], m] for r, m in nd['match'].items()]
    out_atoms = [[k, code(mol.nodes[k].get('atomname')), EL[mol.nodes[k]['element']], bool(mol.nodes[k].get('PTM_atom', False))] for k in mol.nodes]
    return {'atoms0': atoms0, 'jobs': jobs, 'atoms': out_atoms, 'edges': [list(e) for e in mol.edges], 'ref_problem': ref_problem}


# ---------------------------------------------------------------- emission
def pairs_lit(l):
    return listlit(l, lambda p: '(%s, %s)' % (zlit(p[0]), zlit(p[1])))


def atom_lit(a, ptm=False):
    return '{| a_key := %s; a_name := %s; a_el := %s; a_ptm := %s; a_req := %s |}' % (zlit(a[0]), zlit(a[1]), zlit(a[2]), blit(ptm), blit(False))


def emit(inp, out):
    jobs = []
    for j in out['jobs']:
        J = '{| j_ref := %s; j_redges := %s; j_found := %s; j_match := %s; j_req := %s |}' % (
            listlit(j['ref'], lambda n: '{| n_key := %s; n_name := %s; n_el := %s; n_ptm := %s |}' % (zlit(n[0]), zlit(n[1]), zlit(n[2]), blit(n[3]))),
            pairs_lit(j['redges']), listlit(j['found'], zlit), pairs_lit(j['match']), blit(j['req']))
        R = '{| g_nodes := %s; g_edges := %s |}' % (pairs_lit(j['fel']), listlit(j['fedges'], lambda e: '(%s, %s, 1)' % (zlit(e[0]), zlit(e[1]))))
        B = '{| g_nodes := %s; g_edges := %s |}' % (pairs_lit([[n[0], n[2]] for n in j['ref']]),
                                                    listlit(j['redges'], lambda e: '(%s, %s, 1)' % (zlit(e[0]), zlit(e[1]))))
        small = len(j['found']) <= 8 and len(j['ref']) <= 9
        jobs.append('{| rj := %s; rj_final := %s; rj_R := %s; rj_B := %s; rj_small := %s; rj_witness := %s |}' % (J, pairs_lit(j['final']), R, B, blit(small), pairs_lit(j['witness'])))
    atoms0 = listlit(out['atoms0'], lambda a: '{| a_key := %s; a_name := %s; a_el := %s; a_ptm := false; a_req := %s |}' % (
        zlit(a[0]), zlit(a[1]), zlit(a[2]), blit(a[3])))
    iatoms = listlit(out['atoms'], lambda a: atom_lit(a, a[3]))
    return 'CRepair [%s] %s %s %s %s' % ('; '.join(jobs), atoms0, pairs_lit(inp['bonds']), iatoms, pairs_lit(out['edges']))


def py_prop(inp, out):
    return out.get('ref_problem')


def nontrivial(inp, out):
    added = len(out['atoms']) > 0 and any(len(j['final']) > len(j['match']) for j in out['jobs'])
    flagged = any(a[3] for a in out['atoms'])
    scrambled_complete = any(p in ('scramble', 'permute_names') for p in inp['presentations'])
    if (added and flagged) or scrambled_complete:
        return str(inp)
    return None


def describe(inp, out):
    return {'n_residues': len(inp['presentations']), 'presentation': inp['presentations'][0],
            'n_added': min(sum(len(j['final']) - len(j['match']) for j in out['jobs']), 6),
            'n_flagged': min(sum(1 for a in out['atoms'] if a[3]), 4),
            'n_removed': min(max(0, len(out['atoms0']) + sum(len(j['final']) - len(j['match']) for j in out['jobs']) - len(out['atoms'])), 3),
            'requests': any(j['req'] for j in out['jobs'])}


def shrink(inp):
    resids = sorted({a['resid'] for a in inp['atoms']})
    for r in resids:
        if len(resids) > 1:
            keep = [a for a in inp['atoms'] if a['resid'] != r]
            ks = {a['key'] for a in keep}
            yield dict(inp, atoms=keep, bonds=[b for b in inp['bonds'] if b[0] in ks and b[1] in ks],
                       presentations=[p for p, rr in zip(inp['presentations'], resids) if rr != r])
