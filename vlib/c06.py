"""C06 — sub-graph matching is sound, complete and symmetry-reduced (vermouth/ismags.py)."""
import itertools

from .common import zlit, listlit, blit

ID = 'C06'
IMPL_TIMEOUT = 60          # seconds for one session; generated sessions take well under a second
COQ_TARGETS = ['C06/Props.vo', 'C06/Corr.vo']
PROPS = 'C06/Props.v'
EXTRACTED = []
CASE_IMPORTS = 'From V Require Import C01.Model C06.Model C06.LookAhead C06.Search C06.Lcs C06.Corr.'
RULE = ('sessions of 1-3 matcher runs sharing one symmetry cache (as repair_graph does): (a) every pattern on <= 3 nodes against '
        'every graph on <= 4 nodes (quick; <= 4 against <= 5 sampled in thorough), unlabelled, keys relabelled at random; (b) '
        'random graphs of 3-7 nodes with 1-3 node colours and 1-2 edge colours, patterns cut out of the graph (induced, '
        're-keyed) or random, connected or not; (c) highly symmetric patterns of 4-6 nodes (paths, stars, cycles, two '
        'triangles, two disjoint paths, K_{3,3}, K_4, triangle with pendant pairs) against themselves and against graphs '
        'containing them; (d) the same pattern keys and edges with a different colouring run after each other on the shared '
        'cache. Each run: find_isomorphisms with and without symmetry, largest_common_subgraph with and without symmetry; '
        'the constraints the implementation derived are shipped to the model of the backtracking core. non-trivial = a '
        'symmetric run with more isomorphisms than representatives; distinct by input')
ASSUMPTIONS = ['node / edge equality = equality of a colour attribute (every transitive equality is a colouring)',
               'the shrinking search of largest_common_subgraph and analyze_symmetry are judged through the proved checkers only (not modelled)']
TRUSTED = ['the reference enumeration is exponential: patterns up to 6 nodes, graphs up to 7 nodes']


def all_graphs(n):
    pairs = list(itertools.combinations(range(n), 2))
    for mask in range(1 << len(pairs)):
        yield [list(p) for i, p in enumerate(pairs) if mask >> i & 1]


def relabel(rng, n, edges, colours=None, ecolours=None, lo=0, hi=30):
    keys = rng.sample(range(lo, hi), n)
    nodes = [[keys[i], (colours[i] if colours else 1)] for i in range(n)]
    es = [[keys[a], keys[b], (ecolours[j] if ecolours else 1)] for j, (a, b) in enumerate(edges)]
    rng.shuffle(es)
    if rng.random() < 0.5:
        rng.shuffle(nodes)
    return {'nodes': nodes, 'edges': es}


def random_graph(rng, n, p, nc, nec):
    edges = [[a, b] for a, b in itertools.combinations(range(n), 2) if rng.random() < p]
    return relabel(rng, n, edges, [rng.randint(1, nc) for _ in range(n)], [rng.randint(1, nec) for _ in edges])


def induced(rng, G, k):
    pick = rng.sample(G['nodes'], k)
    ks = {n[0] for n in pick}
    new = dict(zip([n[0] for n in pick], rng.sample(range(100, 140), k)))
    nodes = [[new[n[0]], n[1]] for n in pick]
    edges = [[new[e[0]], new[e[1]], e[2]] for e in G['edges'] if e[0] in ks and e[1] in ks]
    return {'nodes': nodes, 'edges': edges}


SPECIAL = {
    'path4': (4, [(0, 1), (1, 2), (2, 3)]), 'star4': (4, [(0, 1), (0, 2), (0, 3)]), 'cycle4': (4, [(0, 1), (1, 2), (2, 3), (3, 0)]),
    'k4': (4, [(0, 1), (0, 2), (0, 3), (1, 2), (1, 3), (2, 3)]), 'cycle5': (5, [(0, 1), (1, 2), (2, 3), (3, 4), (4, 0)]),
    'two_triangles': (6, [(0, 1), (1, 2), (2, 0), (3, 4), (4, 5), (5, 3)]),
    'two_paths': (6, [(0, 1), (1, 2), (3, 4), (4, 5)]), 'k33': (6, [(a, b) for a in range(3) for b in range(3, 6)]),
    'tri_pendants': (6, [(0, 1), (1, 2), (2, 0), (0, 3), (1, 4), (2, 5)]), 'cycle6': (6, [(i, (i + 1) % 6) for i in range(6)]),
    'two_edges_and_two': (6, [(0, 1), (2, 3)]), 'star5': (5, [(0, 1), (0, 2), (0, 3), (0, 4)]),
    'prism': (6, [(0, 1), (1, 2), (2, 0), (3, 4), (4, 5), (5, 3), (0, 3), (1, 4), (2, 5)]),
}


CUBIC_FIXED = [
    [(0, 3), (1, 2), (1, 7), (1, 8), (3, 5), (4, 0), (4, 6), (4, 8), (6, 0), (6, 2), (7, 5), (8, 2), (9, 3), (9, 5), (9, 7)],
    [(0, 3), (0, 10), (0, 11), (1, 2), (1, 9), (1, 11), (2, 9), (3, 4), (3, 6), (5, 6), (6, 4), (7, 5), (7, 8), (8, 4), (8, 9),
     (10, 5), (10, 7), (11, 2)],
    [(1, 10), (2, 1), (2, 10), (3, 0), (3, 6), (3, 9), (4, 1), (4, 5), (5, 7), (6, 0), (6, 4), (8, 0), (8, 7), (8, 11), (9, 5),
     (9, 10), (11, 2), (11, 7)],
]


def regular3(rng, n):
    """a random 3-regular simple graph on n nodes (n even), by the pairing model with rejection"""
    while True:
        pts = [v for v in range(n) for _ in range(3)]
        rng.shuffle(pts)
        es = set()
        ok = True
        for i in range(0, len(pts), 2):
            a, b = pts[i], pts[i + 1]
            if a == b or (min(a, b), max(a, b)) in es:
                ok = False
                break
            es.add((min(a, b), max(a, b)))
        if ok:
            return [list(e) for e in sorted(es)]


def special_case(rng):
    name = rng.choice(sorted(SPECIAL))
    n, edges = SPECIAL[name]
    P = relabel(rng, n, [list(e) for e in edges], lo=100, hi=140)
    if rng.random() < 0.5:
        G = relabel(rng, n, [list(e) for e in edges])
    else:
        extra = rng.choice([1, 1, 2]) if n <= 5 else 1
        es = [list(e) for e in edges] + [[rng.randrange(n), n + i] for i in range(extra)]
        G = relabel(rng, n + extra, es)
    return P, G


def gen_session(rng, tier, small=None):
    steps = []
    if small is not None:
        P, G = small
        steps.append({'P': P, 'G': G})
    else:
        r = rng.random()
        if r < 0.4:
            P, G = special_case(rng)
            steps.append({'P': P, 'G': G})
        else:
            n = rng.randint(3, 7 if r < 0.8 else 6)
            G = random_graph(rng, n, rng.choice([0.3, 0.5, 0.7]), rng.choice([1, 1, 2, 3]), rng.choice([1, 1, 2]))
            k = rng.randint(1, min(5, n))
            if rng.random() < 0.7:
                P = induced(rng, G, k)
            else:
                P = random_graph(rng, k, 0.5, 1, 1)
                P = {'nodes': [[a + 100, c] for a, c in P['nodes']], 'edges': [[a + 100, b + 100, c] for a, b, c in P['edges']]}
            steps.append({'P': P, 'G': G})
    # follow-ups on the same cache: same keys and edges, another colouring; or the same again
    for _ in range(rng.choice([0, 1, 1, 2])):
        prev = steps[-1]
        P2 = {'nodes': [[k, c] for k, c in prev['P']['nodes']], 'edges': [list(e) for e in prev['P']['edges']]}
        G2 = {'nodes': [[k, c] for k, c in prev['G']['nodes']], 'edges': [list(e) for e in prev['G']['edges']]}
        if rng.random() < 0.8 and P2['nodes']:
            i = rng.randrange(len(P2['nodes']))
            newc = rng.choice([c for c in (1, 2, 3) if c != P2['nodes'][i][1]])
            P2['nodes'][i][1] = newc
            # give the graph a node of that colour too
            j = rng.randrange(len(G2['nodes']))
            G2['nodes'][j][1] = newc
        steps.append({'P': P2, 'G': G2})
    if rng.random() < 0.4:
        for st in steps:
            st['reuse'] = True          # one matcher object answers all four queries of the step
    return {'steps': steps}


def generate(rng, tier):
    cases = []
    if tier == 'quick':
        pats = [(n, e) for n in (1, 2, 3) for e in all_graphs(n)]
        graphs = [(n, e) for n in (1, 2, 3, 4) for e in all_graphs(n)]
        pairs = [(p, g) for p in pats for g in graphs]
    else:
        pats = [(n, e) for n in (1, 2, 3, 4) for e in all_graphs(n)]
        graphs = [(n, e) for n in (2, 3, 4, 5) for e in all_graphs(n)]
        pairs = [(rng.choice(pats), rng.choice(graphs)) for _ in range(8000)]
    for (pn, pe), (gn, ge) in pairs:
        cases.append(gen_session(rng, tier, small=(relabel(rng, pn, pe, lo=100, hi=140), relabel(rng, gn, ge))))
    for _ in range(220 if tier == 'quick' else 6000):
        cases.append(gen_session(rng, tier))
    # patterns whose symmetry interchanges parts that are themselves symmetric: what the symmetry analysis finds depends on
    # the node numbering, so each is taken under several numberings, against itself and against itself plus one node
    for name in ('two_triangles', 'k33', 'two_paths', 'two_edges_and_two', 'prism', 'tri_pendants', 'cycle6'):
        for _ in range(6 if tier == 'quick' else 60):
            n, edges = SPECIAL[name]
            P = relabel(rng, n, [list(e) for e in edges], lo=100, hi=140)
            if rng.random() < 0.6:
                G = relabel(rng, n, [list(e) for e in edges])
            else:
                G = relabel(rng, n + 1, [list(e) for e in edges] + [[rng.randrange(n), n]])
            cases.append({'steps': [{'P': P, 'G': G, 'reuse': rng.random() < 0.3}]})
    # cubic graphs of 8 and 10 nodes against themselves: too large for the exhaustive judges, but the matcher has to
    # answer (3-regular graphs make the partition refinement branch)
    for n in (8, 10, 10, 12) * (5 if tier == 'quick' else 60):
        edges = regular3(rng, n)
        P = relabel(rng, n, edges, lo=100, hi=160)
        G = relabel(rng, n, edges)
        cases.append({'steps': [{'P': P, 'G': G, 'queries': ['iso_1']}], 'large': True})
    # three cubic graphs with small symmetry groups, matched against themselves under the same numbering
    for edges in CUBIC_FIXED:
        n = 1 + max(max(e) for e in edges)
        g = {'nodes': [[k, 1] for k in range(n)], 'edges': [[a, b, 1] for a, b in edges]}
        cases.append({'steps': [{'P': g, 'G': g, 'queries': ['iso_1']}], 'large': True})
    rng.shuffle(cases)          # balance the evaluation shards
    return cases


# ---------------------------------------------------------------- implementation
def _nx(g):
    import networkx as nx
    G = nx.Graph()
    for k, c in g['nodes']:
        G.add_node(k, c=c)
    for a, b, c in g['edges']:
        G.add_edge(a, b, c=c)
    return G


def _canon(P, m):
    """{graph node: pattern node} -> [(pattern node, graph node)] in pattern node order"""
    inv = {v: k for k, v in m.items()}
    return [[k, inv[k]] for k, _ in P['nodes'] if k in inv]


def _autos(P):
    keys = [k for k, _ in P['nodes']]
    col = dict((k, c) for k, c in P['nodes'])
    E = {frozenset((a, b)): c for a, b, c in P['edges']}
    out = []
    for perm in itertools.permutations(keys):
        f = dict(zip(keys, perm))
        if any(col[k] != col[f[k]] for k in keys):
            continue
        if all(E.get(frozenset((a, b))) == E.get(frozenset((f[a], f[b]))) for a, b in itertools.combinations(keys, 2)):
            out.append(f)
    return out


def _find_base(P, cosets):
    """an order of the coset keys for which the cosets are the orbits of a stabiliser chain (a proposal; Coq checks it)"""
    if len(P['nodes']) > 6:
        return None
    A = _autos(P)
    keys = [k for k, _ in P['nodes']]
    cons = {(b, t) for b, ts in cosets.items() for t in ts if t != b}

    def ok(base):
        exp, pre = set(), []
        for b in base:
            for a in A:
                if all(a[p] == p for p in pre) and a[b] != b:
                    exp.add((b, a[b]))
            pre.append(b)
        return cons == exp and all(all(a[x] == x for x in keys) for a in A if all(a[p] == p for p in base))
    base = list(cosets.keys())
    if ok(base):
        return base
    moved = [b for b in base if any(t != b for t in cosets[b])]
    rest = [b for b in base if b not in moved]
    if len(moved) <= 6:
        for perm in itertools.permutations(moved):
            if ok(list(perm) + rest):
                return list(perm) + rest
    return None


def run_impl(inp):
    from vermouth.ismags import ISMAGS
    cache = {}
    out = []
    for st in inp['steps']:
        G, P = _nx(st['G']), _nx(st['P'])
        res = {}
        eq = lambda a, b: a['c'] == b['c']
        # one matcher object may serve several queries one after the other (st['reuse']), or every query gets a fresh one
        if st.get('queries'):
            # large graphs: only the symmetric isomorphism query; it has to return
            ism = ISMAGS(G, P, node_match=eq, edge_match=eq, cache=cache)
            res['iso_1'] = [_canon(st['P'], m) for m in ism.find_isomorphisms(symmetry=True)]
            out.append(res)
            continue
        shared = ISMAGS(G, P, node_match=eq, edge_match=eq, cache=cache) if st.get('reuse') else None
        for sym in (False, True):
            ism = shared or ISMAGS(G, P, node_match=eq, edge_match=eq, cache=cache)
            res['iso_%d' % sym] = [_canon(st['P'], m) for m in ism.find_isomorphisms(symmetry=sym)]
            ism = shared or ISMAGS(G, P, node_match=eq, edge_match=eq, cache=cache)
            res['lcs_%d' % sym] = [_canon(st['P'], m) for m in ism.largest_common_subgraph(symmetry=sym)]
        ism = ISMAGS(G, P, node_match=eq, edge_match=eq, cache=cache)
        if len(P):
            _, cosets = ism.analyze_symmetry(P, ism._sgn_partitions, ism._sge_colors)
            res['cons'] = sorted([list(c) for c in ism._make_constraints(cosets)])
            res['base'] = _find_base(st['P'], cosets)
        else:
            res['cons'] = []
            res['base'] = []
        out.append(res)
    return {'steps': out}


# ---------------------------------------------------------------- emission
def graph_lit(g):
    return '{| g_nodes := %s; g_edges := %s |}' % (
        listlit(g['nodes'], lambda n: '(%s, %s)' % (zlit(n[0]), zlit(n[1]))),
        listlit(g['edges'], lambda e: '(%s, %s, %s)' % (zlit(e[0]), zlit(e[1]), zlit(e[2]))))


def maps_lit(ms):
    return listlit(ms, lambda m: listlit(m, lambda p: '(%s, %s)' % (zlit(p[0]), zlit(p[1]))))


def emit(inp, out):
    if inp.get('large'):
        return None          # beyond the exhaustive judges: only run on the implementation (it has to return)
    terms = []
    for st, res in zip(inp['steps'], out['steps']):
        P, G = graph_lit(st['P']), graph_lit(st['G'])
        for sym in (0, 1):
            cons = listlit(res['cons'] if sym else [], lambda c: '(%s, %s)' % (zlit(c[0]), zlit(c[1])))
            base = 'None' if (not sym or res.get('base') is None) else '(Some %s)' % listlit(res['base'], zlit)
            terms.append('CIso %s %s %s %s %s %s' % (P, G, blit(bool(sym)), cons, base, maps_lit(res['iso_%d' % sym])))
            terms.append('CLcs %s %s %s %s' % (P, G, blit(bool(sym)), maps_lit(res['lcs_%d' % sym])))
    return 'CSession [%s]' % '; '.join(terms)


def py_prop(inp, out):
    """large cases (the graph is a renumbered copy of the pattern): all isomorphisms form ONE class under the symmetries of
    the pattern, so the symmetric query must return exactly one mapping, and it must be an isomorphism"""
    if not inp.get('large') or not isinstance(out, dict) or 'steps' not in out:
        return None
    st, res = inp['steps'][0], out['steps'][0]
    ms = res['iso_1']
    if len(ms) != 1:
        return 'pattern and graph are the same graph under two numberings: exactly one representative expected, %d returned' % len(ms)
    m = dict(ms[0])
    pe = {frozenset((a, b)) for a, b, _ in st['P']['edges']}
    ge = {frozenset((a, b)) for a, b, _ in st['G']['edges']}
    if sorted(m) != sorted(k for k, _ in st['P']['nodes']) or len(set(m.values())) != len(m) or {frozenset((m[a], m[b])) for a, b in map(tuple, pe)} != ge:
        return 'the mapping returned for a renumbered copy of the pattern is not an isomorphism: %r' % (ms[0],)
    return None


def known(inp, out):
    # F32: the symmetry analysis accepts couplings that are not automorphisms on regular graphs; the constraints then exclude
    # every isomorphism
    if inp.get('large') and isinstance(out, dict) and 'steps' in out and len(out['steps'][0].get('iso_1', [None])) == 0:
        return 'F32'
    return None


def nontrivial(inp, out):
    if inp.get('large'):
        return str(inp)
    for res in out['steps']:
        if len(res['iso_0']) > len(res['iso_1']) >= 1:
            return str(inp)
    return None


def describe(inp, out):
    st, res = inp['steps'][0], out['steps'][0]
    if inp.get('large'):
        return {'large_cubic': len(st['P']['nodes']), 'n_iso_sym': min(len(res['iso_1']), 6)}
    return {'n_steps': len(inp['steps']), 'p_nodes': len(st['P']['nodes']), 'g_nodes': len(st['G']['nodes']),
            'n_iso': min(len(res['iso_0']), 12), 'n_iso_sym': min(len(res['iso_1']), 6), 'n_constraints': min(len(res['cons']), 6),
            'lcs_size': max([len(m) for m in res['lcs_0']] or [0]),
            'node_colours': len({c for _, c in st['G']['nodes']}), 'recoloured_followup': len(inp['steps']) > 1, 'matcher_reused': bool(st.get('reuse')),
            'lexleader_certificate': all(r.get('base') is not None for r in out['steps'])}


def shrink(inp):
    if len(inp['steps']) > 1:
        for i in range(len(inp['steps'])):
            yield {'steps': inp['steps'][:i] + inp['steps'][i + 1:]}
