"""C17 — per-residue annotations land on the intended residues; DSSP -> Martini translation."""
import itertools

from .common import zlit, strlit, optlit, listlit, blit

ID = 'C17'
COQ_TARGETS = ['C17/Props.vo', 'C17/Corr.vo']
PROPS = 'C17/Props.v'
EXTRACTED = ['dssp_tables']
CASE_IMPORTS = 'From V Require Import C17.Model C17.Corr.'
RULE = ('(a) systems of 1-5 molecules, selected and unselected in every relative order (incl. unselected first), 0-6 '
        'residues each with shuffled node keys so that residue order (lowest key) differs from node order, sequences of '
        'length total / one molecule / 1 / off by one / empty; real AnnotateResidues.run_system with a selector on a '
        'molecule flag; (b) DSSP strings over the 11-letter alphabet with helical runs of length 1-12 separated by single '
        'non-helical residues, plus unknown letters; real convert_dssp_to_martini. thorough adds all strings of length <= 9 '
        'over {H,G,E,T,C}. non-trivial = a system with both selected and unselected molecules or a residue order different '
        'from node order; a DSSP string containing a helical class; distinct by input')
ASSUMPTIONS = ['a residue is identified by one integer standing for (chain, resid, resname, insertion_code)',
               'sequence elements are opaque values (integers)']
TRUSTED = ['construction of test molecules in vlib/c17.py']

DSSP = 'HGIBETSC123'


def gen_system(rng):
    ms = []
    for _ in range(rng.randint(1, 5)):
        nres = rng.choice([0, 1, 1, 2, 3, 3, 4, 6])
        atoms = []
        keys = rng.sample(range(0, 60), sum(rng.randint(1, 3) for _ in range(nres)) if nres else 0)
        resids = list(range(100, 100 + nres))
        rng.shuffle(resids)
        for i, k in enumerate(keys):
            atoms.append([k, resids[i % nres] if i < nres else rng.choice(resids)])
        ms.append({'selected': rng.random() < 0.65, 'atoms': atoms})
    return ms


def nres_of(m):
    return len({r for _, r in m['atoms']})


def gen_assign(rng):
    ms = gen_system(rng)
    total = sum(nres_of(m) for m in ms if m['selected'])
    sel = [nres_of(m) for m in ms if m['selected']]
    mode = rng.choice(['total', 'total', 'one', 'single', 'off', 'empty', 'rand', 'mean', 'mean', 'other'])
    if mode == 'total':
        n = total
    elif mode == 'one':
        n = sel[0] if sel else 1
    elif mode == 'single':
        n = 1
    elif mode == 'off':
        n = max(0, total + rng.choice([-1, 1]))
    elif mode == 'empty':
        n = 0
    elif mode == 'mean':
        # the length of one molecule only when all selected molecules have it: here the mean length of molecules of
        # different lengths (made to divide), which the per-molecule case must not accept
        if len(sel) >= 2 and len(set(sel)) > 1 and total % len(sel) == 0:
            n = total // len(sel)
        else:
            n = sel[-1] if sel else 2
    elif mode == 'other':
        n = rng.choice(sel) if sel else 3          # the length of some selected molecule, not necessarily the first
    else:
        n = rng.randint(0, 8)
    return {'kind': 'assign', 'ms': ms, 'seq': [rng.randint(1, 9) * 10 + i for i in range(n)], 'warm': rng.random() < 0.35}


def gen_dssp(rng):
    s = ''
    for _ in range(rng.randint(0, 6)):
        if rng.random() < 0.6:
            s += rng.choice('HHHGI123') * 1 if False else ''.join(rng.choice('HHHHGI') for _ in range(rng.choice([1, 2, 3, 4, 5, 6, 7, 8, 9, 12])))
        s += ''.join(rng.choice('BETSC') for _ in range(rng.choice([0, 1, 1, 2])))
    if rng.random() < 0.05:
        s += rng.choice('XZ ')
    return {'kind': 'dssp', 'seq': s}


def gen_dsspfile(rng):
    """the residue table of a DSSP output: one line per residue with the class in column 17, and break lines ('!' for a
    discontinuity inside a chain, '!*' for a chain break) that stand for no residue"""
    rows = []
    n = rng.randint(1, 12)
    for i in range(n):
        rows.append(rng.choice('HBEGITS  '))
        if i < n - 1 and rng.random() < 0.2:
            rows.append(rng.choice(['!', '!*']))
    return {'kind': 'dsspfile', 'rows': rows, 'trim_header': rng.random() < 0.3}


def print_dsspfile(inp):
    lines = [] if inp['trim_header'] else ['==== Secondary Structure Definition by the program DSSP, CMBI version 2.0 ====']
    lines += ['REFERENCE W. KABSCH AND C.SANDER, BIOPOLYMERS 22 (1983) 2577-2637', '  # of hydrogen bonds ...', '',
              '  #  RESIDUE AA STRUCTURE BP1 BP2  ACC     N-H-->O    O-->H-N    N-H-->O    O-->H-N    TCO  KAPPA ALPHA  PHI   PSI    X-CA   Y-CA   Z-CA']
    num = 0
    for r in inp['rows']:
        num += 1
        if r.startswith('!'):
            lines.append('%5d        %-2s             0   0    0      0, 0.0     0, 0.0     0, 0.0     0, 0.0   0.000 360.0 360.0 360.0 360.0    0.0    0.0    0.0' % (num, r))
        else:
            lines.append('%5d %4d A A  %s              0   0   50      0, 0.0     2,-0.3     0, 0.0     0, 0.0   0.000 360.0 360.0 360.0 100.0    1.0    2.0    3.0' % (num, num, r))
    return lines


def generate(rng, tier):
    cases = [gen_assign(rng) for _ in range(400 if tier == 'quick' else 6000)]
    cases += [gen_dsspfile(rng) for _ in range(60 if tier == 'quick' else 600)]
    cases += [gen_dssp(rng) for _ in range(500 if tier == 'quick' else 8000)]
    for s in ['', 'H', 'HH', 'HHHH', 'HHHHH', 'HHHHHHH', 'HHHHHHHH', 'HHHHHHHHH', 'CHC', 'HCH', 'HCHCH', 'HHHHCHHHH',
              'HHHHHHHHCHHHHHHHH', 'G', 'GHI', 'CCCC', 'HHHHHHHHHHHHHHHHHHHH']:
        cases.append({'kind': 'dssp', 'seq': s})
    if tier == 'thorough':
        for n in range(0, 9):
            for t in itertools.product('HGETC', repeat=n):
                cases.append({'kind': 'dssp', 'seq': ''.join(t)})
    return cases


def run_impl(inp):
    import vermouth
    import vermouth.system
    import vermouth.molecule
    from vermouth.dssp.dssp import AnnotateResidues, convert_dssp_to_martini
    if inp['kind'] == 'dsspfile':
        from vermouth.dssp.dssp import read_dssp2
        want = ['C' if r == ' ' else r for r in inp['rows'] if not r.startswith('!')]
        try:
            got = read_dssp2(print_dsspfile(inp))
        except IOError as e:
            return {'msg': 'a well-formed DSSP residue table was rejected: %s' % e}
        return {'msg': None if got == want else 'DSSP residue table with classes %r (break lines stand for no residue) read as %r' % (want, got)}
    if inp['kind'] == 'dssp':
        try:
            return {'out': convert_dssp_to_martini(inp['seq'])}
        except KeyError:
            return {'out': None}
    system = vermouth.system.System()
    for m in inp['ms']:
        mol = vermouth.molecule.Molecule()
        mol.meta['flag'] = m['selected']
        for k, r in m['atoms']:
            mol.add_node(k, chain='A', resid=r, resname='R%d' % (r % 3), insertion_code='', atomname='X')
        system.add_molecule(mol)
    proc = AnnotateResidues('tag', list(inp['seq']), molecule_selector=lambda mol: mol.meta['flag'])
    if inp.get('warm'):
        # the processor object has been used before, on a system of another shape (two selected molecules with as many
        # residues as the sequence is long, which always succeeds): what it does here may not depend on that
        other = vermouth.system.System()
        for j in range(2):          # two molecules as long as the sequence: the sequence is repeated for each of them
            mol = vermouth.molecule.Molecule()
            mol.meta['flag'] = True
            for i in range(max(1, len(inp['seq']))):
                mol.add_node(i, chain='Z', resid=900 + i, resname='W', insertion_code='', atomname='X')
            other.add_molecule(mol)
        try:
            proc.run_system(other)
        except ValueError:
            pass
    try:
        proc.run_system(system)
    except ValueError:
        return {'out': None}
    return {'out': [[[k, mol.nodes[k].get('tag')] for k in mol.nodes] for mol in system.molecules]}


def ms_lit(ms):
    return listlit(ms, lambda m: '(%s, %s)' % (blit(m['selected']), listlit(
        m['atoms'], lambda a: '{| a_key := %s; a_res := %s |}' % (zlit(a[0]), zlit(a[1])))))


def py_prop(inp, out):
    return out.get('msg') if inp['kind'] == 'dsspfile' else None


def emit(inp, out):
    if inp['kind'] == 'dsspfile':
        return None
    if inp['kind'] == 'dssp':
        return 'CConvert %s %s' % (strlit(inp['seq']), optlit(out['out'], strlit))
    o = out['out']
    impl = 'None' if o is None else '(Some %s)' % listlit(o, lambda m: listlit(
        m, lambda kv: '(%s, %s)' % (zlit(kv[0]), optlit(kv[1], zlit))))
    return 'CAssign %s %s %s' % (ms_lit(inp['ms']), listlit(inp['seq'], zlit), impl)


def nontrivial(inp, out):
    if inp['kind'] == 'dsspfile':
        return str(inp) if any(r.startswith('!') for r in inp['rows']) else None
    if inp['kind'] == 'dssp':
        return ('d', inp['seq']) if any(c in 'HGI123' for c in inp['seq']) else None
    sel = [m['selected'] for m in inp['ms']]
    if not (any(sel) and not all(sel)):
        reordered = any([r for _, r in sorted(m['atoms'])] != [r for _, r in m['atoms']] for m in inp['ms'])
        if not reordered:
            return None
    return str(inp)


def describe(inp, out):
    if inp['kind'] == 'dsspfile':
        return {'kind': 'dsspfile', 'break_lines': sum(1 for r in inp['rows'] if r.startswith('!'))}
    if inp['kind'] == 'dssp':
        return {'kind': 'dssp', 'dssp_len': min(len(inp['seq']), 40) // 5 * 5, 'dssp_error': out['out'] is None}
    sel = [m['selected'] for m in inp['ms']]
    return {'kind': 'assign', 'error': out['out'] is None, 'n_mols': len(sel), 'unselected_first': bool(sel) and not sel[0] and any(sel),
            'mixed_selection': any(sel) and not all(sel), 'seq_len': len(inp['seq'])}


def shrink(inp):
    if inp['kind'] == 'dsspfile':
        rows = inp['rows']
        for i in range(len(rows)):
            if len(rows) > 1:
                yield dict(inp, rows=rows[:i] + rows[i + 1:])
        return
    if inp['kind'] == 'dssp':
        s = inp['seq']
        for i in range(len(s)):
            yield {'kind': 'dssp', 'seq': s[:i] + s[i + 1:]}
        return
    ms = inp['ms']
    for i in range(len(ms)):
        if len(ms) > 1:
            yield dict(inp, ms=ms[:i] + ms[i + 1:])
    if inp['seq']:
        yield dict(inp, seq=inp['seq'][:-1])
