"""C14 — every unrecognised atom is explained or reported (processors/canonicalize_modifications.py)."""
import logging

from .common import zlit, natlit, optlit, listlit, blit

ID = 'C14'
COQ_TARGETS = ['C14/Props.vo', 'C14/Corr.vo']
PROPS = 'C14/Props.v'
EXTRACTED = []
CASE_IMPORTS = 'From V Require Import C01.Model C06.Model C14.Model C14.Corr.'
RULE = ('peptide-like molecules of 1-4 residues (N-CA-C backbone, optional CB), residue numbers with gaps; 0-3 groups of '
        'unexplained atoms per molecule drawn from: phosphate (P), phosphate with oxygen (P-O), P with two equivalent '
        'oxygens, amide hydrogen on N, a sulphur bridging C(i) and N(i+1), a group on CB, an atom of an element no '
        'modification has, a group whose first atom carries the NAME of an anchor, two groups on one residue; '
        'modification sets drawn from: the matching modifications, sub-patterns of one another (P / P-O / P-O2), an '
        'anchor-only modification, modifications with replace (rename, remove), a residue-spanning modification; real '
        'fix_ptm with identify_ptms / find_ptm_atoms wrapped to read groups, residues and identified placements; '
        'warnings captured; shipped data: peptides built from the shipped charmm blocks with terminal / protonation groups '
        '(C-ter, COOH-ter, N-ter, NH2-ter, GLU-HE2, ASP-HD2, N-cap, zinc, phosphorus) attached under arbitrary names and the 16 '
        'shipped charmm modifications (sub-patterns of one another). non-trivial = at least one identified and one failed group, or a sub-pattern choice; distinct by input')
ASSUMPTIONS = ['atoms already labelled with modifications by RepairGraph (the used_mods branch of identify_ptms) are not generated',
               'which of several equivalent placements is taken depends on networkx enumeration order: the correspondence compares which modifications were identified, the statement is judged on the placements the implementation reports']
TRUSTED = ['networkx GraphMatcher (replaced by C06\'s reference enumeration in the model)',
           'wrapping of identify_ptms / find_ptm_atoms by the harness to observe intermediate values (no change of behaviour)']

NAME = {'N': 1, 'CA': 2, 'C': 3, 'CB': 4, 'P': 5, 'O1': 6, 'O2': 7, 'HN': 8, 'SX': 9, 'PX': 10, 'QQ': 11, 'ZN': 12, 'OX': 13, 'XB': 14}
ELEM = {'H': 1, 'C': 6, 'N': 7, 'O': 8, 'P': 15, 'S': 16, 'Zn': 30}
BACKBONE_EL = {'N': 'N', 'CA': 'C', 'C': 'C', 'CB': 'C'}

# modification library: nodes (key, name, element, ptm, replace-name: absent / name / None), edges
MODS = {
    'PHOS': ([(0, 'CA', 'C', False, '-'), (1, 'P', 'P', True, '-')], [(0, 1)]),
    'PHOSO': ([(0, 'CA', 'C', False, '-'), (1, 'P', 'P', True, '-'), (2, 'O1', 'O', True, '-')], [(0, 1), (1, 2)]),
    'PHOSO2': ([(0, 'CA', 'C', False, '-'), (1, 'P', 'P', True, '-'), (2, 'O1', 'O', True, '-'), (3, 'O2', 'O', True, '-')], [(0, 1), (1, 2), (1, 3)]),
    'AMIDE': ([(0, 'N', 'N', False, '-'), (1, 'HN', 'H', True, '-')], [(0, 1)]),
    'AMIDE_RN': ([(0, 'N', 'N', False, '-'), (1, 'HN', 'H', True, 'QQ')], [(0, 1)]),                 # renames the added atom
    'AMIDE_RM': ([(0, 'N', 'N', False, '-'), (1, 'HN', 'H', True, None)], [(0, 1)]),                 # removes the added atom (name None)
    'BRIDGE': ([(0, 'C', 'C', False, '-'), (1, 'N', 'N', False, '-'), (2, 'SX', 'S', True, '-')], [(0, 1), (0, 2), (2, 1)]),
    'CBP': ([(0, 'CA', 'C', False, '-'), (1, 'CB', 'C', False, '-'), (2, 'PX', 'P', True, '-')], [(0, 1), (1, 2)]),
    'ANCH': ([(0, 'CA', 'C', False, '-')], []),                                                      # anchor only
    'OXY': ([(0, 'CA', 'C', False, 'XB'), (1, 'OX', 'O', True, '-')], [(0, 1)]),                    # renames its anchor
}
MOD_ID = {n: i + 1 for i, n in enumerate(sorted(MODS))}


def gen_case(rng):
    nres = rng.randint(1, 4)
    atoms, bonds = [], []
    key = iter(rng.sample(range(0, 200), 120) if rng.random() < 0.4 else range(1000))
    resid = rng.choice([1, 5])
    prevC = None
    res = []
    for r in range(nres):
        local = {}
        names = ['N', 'CA', 'C'] + (['CB'] if rng.random() < 0.6 else [])
        for n in names:
            k = next(key)
            local[n] = k
            atoms.append({'key': k, 'name': n, 'el': BACKBONE_EL[n], 'resid': resid, 'ptm': False})
        bonds += [[local['N'], local['CA']], [local['CA'], local['C']]]
        if 'CB' in local:
            bonds.append([local['CA'], local['CB']])
        if prevC is not None:
            bonds.append([prevC, local['N']])
        prevC = local['C']
        res.append((resid, local))
        resid += rng.choice([1, 1, 2])
    wanted = set()
    used_anchor = set()
    for _ in range(rng.choice([0, 1, 1, 2, 2, 3])):
        ri = rng.randrange(nres)
        rid, local = res[ri]
        kind = rng.choice(['P', 'PO', 'PO2', 'H', 'H', 'bridge', 'cbp', 'unknown', 'named_anchor', 'oxy', 'PO', 'ring', 'ring'])

        def add(name, el, to):
            k = next(key)
            atoms.append({'key': k, 'name': name, 'el': el, 'resid': rid, 'ptm': True})
            bonds.append([to, k])
            return k
        if kind in ('P', 'PO', 'PO2') and ('CA', ri) not in used_anchor:
            used_anchor.add(('CA', ri))
            p = add(rng.choice(['P', 'X1', 'P']), 'P', local['CA'])
            if kind != 'P':
                add('X2', 'O', p)
            if kind == 'PO2':
                add('X3', 'O', p)
            wanted.update({'P': ['PHOS'], 'PO': ['PHOSO', 'PHOS'], 'PO2': ['PHOSO2', 'PHOSO', 'PHOS']}[kind])
        elif kind == 'ring' and ('CA', ri) not in used_anchor:
            # two P-O branches on one anchor; one of them also closes a ring back onto the anchor: the phosphate pattern
            # fits the open branch as it is, and the ring branch only if the extra bond is ignored
            used_anchor.add(('CA', ri))
            first = rng.random() < 0.5
            for closes in ([False, True] if first else [True, False]) if rng.random() < 0.8 else [True]:
                p = add('X1', 'P', local['CA'])
                o = add('X2', 'O', p)
                if closes:
                    bonds.append([o, local['CA']])
            wanted.update(['PHOSO', 'PHOS'])
        elif kind == 'H' and ('N', ri) not in used_anchor:
            used_anchor.add(('N', ri))
            add('H', 'H', local['N'])
            wanted.add(rng.choice(['AMIDE', 'AMIDE', 'AMIDE_RN', 'AMIDE_RM']))
        elif kind == 'bridge' and ri + 1 < nres and ('C', ri) not in used_anchor:
            used_anchor.add(('C', ri))
            s = add('S', 'S', local['C'])
            bonds.append([s, res[ri + 1][1]['N']])
            wanted.add('BRIDGE')
        elif kind == 'cbp' and 'CB' in local and ('CB', ri) not in used_anchor:
            used_anchor.add(('CB', ri))
            add('X9', 'P', local['CB'])
            wanted.add('CBP')
        elif kind == 'unknown':
            add('ZN', 'Zn', local[rng.choice(['CA', 'N'])])
        elif kind == 'named_anchor' and 'CB' not in local:
            # an unexplained carbon that is CALLED CB, carrying a phosphate
            cb = add('CB', 'C', local['CA'])
            add('X8', 'P', cb)
            wanted.add('CBP')
        elif kind == 'oxy' and ('CA', ri) not in used_anchor:
            used_anchor.add(('CA', ri))
            add('X7', 'O', local['CA'])
            wanted.add('OXY')
    mods = set()
    for w in wanted:
        if rng.random() < 0.85:
            mods.add(w)
    for extra in rng.sample(sorted(MODS), rng.choice([0, 1, 2])):
        if len([m for m in mods | {extra} if m.startswith('AMIDE')]) <= 1:
            mods.add(extra)
    # at most one of the AMIDE variants (they are the same pattern)
    am = sorted(m for m in mods if m.startswith('AMIDE'))
    for m in am[1:]:
        mods.discard(m)
    order = sorted(mods)
    rng.shuffle(order)
    return {'atoms': atoms, 'bonds': bonds, 'mods': order}


# ---------------------------------------------------------------- shipped data
REAL_PTMS = {
    'cter': ('C', [('O', 'x1', 'C')]), 'cooh': ('C', [('O', 'x1', 'C'), ('H', 'x2', 'x1')]),
    'nter': ('N', [('H', 'y1', 'N'), ('H', 'y2', 'N')]), 'nh2': ('N', [('H', 'y1', 'N')]),
    'gluh': ('OE2', [('H', 'z1', 'OE2')]), 'asph': ('OD2', [('H', 'z1', 'OD2')]),
    'ncap': ('N', [('C', 'w1', 'N'), ('H', 'w2', 'w1'), ('H', 'w3', 'w1'), ('H', 'w4', 'w1')]),
    'zinc': ('CA', [('Zn', 'q1', 'CA')]), 'phos_no_h': ('CA', [('P', 'q2', 'CA')]),
}


def gen_real_case(rng):
    from . import c01
    seq = [rng.choice(c01.REAL_RESIDUES) for _ in range(rng.randint(1, 4))]
    ptms = []
    for i, r in enumerate(seq):
        for _ in range(rng.choice([0, 1, 1, 2])):
            k = rng.choice(sorted(REAL_PTMS))
            if k == 'gluh' and r != 'GLU' or k == 'asph' and r != 'ASP':
                continue
            if (i, REAL_PTMS[k][0]) not in [(j, REAL_PTMS[q][0]) for j, q in ptms]:
                ptms.append((i, k))
    return {'kind': 'real', 'seq': seq, 'ptms': [[i, k] for i, k in ptms], 'first_resid': rng.choice([1, 3]), 'seed': rng.randrange(10 ** 6)}


class _Codes:
    def __init__(self):
        self.d = {}

    def __call__(self, x):
        return self.d.setdefault(x, len(self.d) + 1)


def run_real(inp):
    import vermouth.molecule as vm
    from vermouth.processors import canonicalize_modifications as cm
    from . import c01
    env = c01.real_env()
    ff = env['ffs']['charmm']
    mol = vm.Molecule(force_field=ff)
    key, resid, prevC = 0, inp['first_resid'], None
    locs = []
    for resname in inp['seq']:
        block = ff.blocks[resname]
        local = {}
        for nme in block.nodes:
            key += 1
            attrs = dict(block.nodes[nme])
            attrs.update(resid=resid, chain='A', atomid=key, element=nme.lstrip('0123456789')[:1])
            mol.add_node(key, **attrs)
            local[nme] = key
        for u, v in block.edges:
            mol.add_edge(local[u], local[v])
        if prevC is not None and 'N' in local:
            mol.add_edge(prevC, local['N'])
        prevC = local.get('C')
        locs.append((resid, resname, local))
        resid += 1
    for i, k in inp['ptms']:
        rid, resname, local = locs[i]
        anchor, extra = REAL_PTMS[k]
        if anchor not in local:
            continue
        new = {}
        for el, tag, to in extra:
            key += 1
            new[tag] = key
            mol.add_node(key, atomname='X%d' % key, element=el, resid=rid, resname=resname, chain='A', atomid=key, PTM_atom=True)
            mol.add_edge(key, local[to] if to in local else new[to])
    names, els = _Codes(), _Codes()
    atoms = [{'key': k, 'name': names(mol.nodes[k]['atomname']), 'el': els(mol.nodes[k].get('element')), 'resid': mol.nodes[k]['resid'],
              'ptm': bool(mol.nodes[k].get('PTM_atom'))} for k in mol.nodes]
    bonds = [list(e) for e in mol.edges]
    mods = []
    mod_index = {}
    for mi, (mname, m) in enumerate(ff.modifications.items()):
        mk = {k: i for i, k in enumerate(m.nodes)}
        mod_index[mname] = mi + 1
        nodes = []
        for k, nd in m.nodes(data=True):
            rep = nd.get('replace', {})
            nodes.append([mk[k], names(nd['atomname']), els(nd.get('element')), bool(nd.get('PTM_atom')),
                          '-' if 'atomname' not in rep else (None if rep['atomname'] is None else names(rep['atomname']))])
        mods.append({'id': mi + 1, 'nodes': nodes, 'edges': [[mk[u], mk[v]] for u, v in m.edges], '_mk': mk})
    groups, runs = [], []
    orig_find, orig_ident = cm.find_ptm_atoms, cm.identify_ptms

    def find_wrapper(molecule):
        out = orig_find(molecule)
        groups.extend([[sorted(a), sorted(b)] for a, b in out])
        return out

    def ident_wrapper(residue, residue_ptms, known_ptms):
        rec = {'residue': sorted(residue.nodes), 'groups': [[sorted(a), sorted(b)] for a, b in residue_ptms]}
        runs.append(rec)
        try:
            out = orig_ident(residue, residue_ptms, known_ptms)
        except KeyError:
            rec['identified'] = None
            raise
        rec['identified'] = [[mod_index[p.graph['name']], [[mods[mod_index[p.graph['name']] - 1]['_mk'][v], k] for k, v in m.items()]] for p, m in out]
        return out
    handler = _Catch()
    lg = logging.getLogger('vermouth')
    lg.addHandler(handler)
    cm.find_ptm_atoms, cm.identify_ptms = find_wrapper, ident_wrapper
    try:
        cm.CanonicalizeModifications().run_molecule(mol)
    finally:
        cm.find_ptm_atoms, cm.identify_ptms = orig_find, orig_ident
        lg.removeHandler(handler)
    final = []
    for k in mol.nodes:
        nd = mol.nodes[k]
        nm = nd.get('atomname')
        final.append({'key': k, 'name': None if nm is None else names(nm), 'labels': [mod_index[m.graph['name']] for m in nd.get('modifications', [])]})
    for m in mods:
        m.pop('_mk')
    warnings = sum(1 for r in handler.records if 'Could not identify the modifications' in str(r.msg))
    return {'atoms': atoms, 'bonds': bonds, 'mods': mods, 'groups': groups, 'runs': runs, 'final': final, 'warnings': warnings}


def generate(rng, tier):
    cases = [gen_case(rng) for _ in range(500 if tier == 'quick' else 8000)]
    cases += [gen_real_case(rng) for _ in range(60 if tier == 'quick' else 1000)]
    return cases


# ---------------------------------------------------------------- implementation
class _Catch(logging.Handler):
    def __init__(self):
        super().__init__(level=logging.WARNING)
        self.records = []

    def emit(self, record):
        self.records.append(record)


def run_impl(inp):
    if inp.get('kind') == 'real':
        return run_real(inp)
    import vermouth.forcefield
    import vermouth.molecule as vm
    from vermouth.processors import canonicalize_modifications as cm
    ff = vermouth.forcefield.ForceField(name='ffc14')
    for name in inp['mods']:
        nodes, edges = MODS[name]
        mod = vm.Link(force_field=ff)
        mod.name = name
        for k, nm, el, ptm, rep in nodes:
            attrs = {'atomname': nm, 'element': el, 'PTM_atom': ptm}
            if rep != '-':
                attrs['replace'] = {'atomname': rep}
                if rep == 'QQ':
                    attrs['replace']['tag'] = 5        # a requested change that introduces an attribute the atom does not have yet
            mod.add_node(k, **attrs)
        for u, v in edges:
            mod.add_edge(u, v)
        ff.modifications[name] = mod
    mol = vm.Molecule(force_field=ff)
    for a in inp['atoms']:
        mol.add_node(a['key'], atomname=a['name'], element=a['el'], resid=a['resid'], resname='RES', chain='A', atomid=a['key'] + 1,
                     **({'PTM_atom': True} if a['ptm'] else {}))
    for u, v in inp['bonds']:
        mol.add_edge(u, v)
    groups, runs = [], []
    orig_find, orig_ident = cm.find_ptm_atoms, cm.identify_ptms

    def find_wrapper(molecule):
        out = orig_find(molecule)
        groups.extend([[sorted(a), sorted(b)] for a, b in out])
        return out

    def ident_wrapper(residue, residue_ptms, known_ptms):
        rec = {'residue': sorted(residue.nodes), 'groups': [[sorted(a), sorted(b)] for a, b in residue_ptms]}
        runs.append(rec)
        try:
            out = orig_ident(residue, residue_ptms, known_ptms)
        except KeyError:
            rec['identified'] = None
            raise
        rec['identified'] = [[MOD_ID[p.graph['name']], [[v, k] for k, v in m.items()]] for p, m in out]
        return out
    handler = _Catch()
    lg = logging.getLogger('vermouth')
    lg.addHandler(handler)
    cm.find_ptm_atoms, cm.identify_ptms = find_wrapper, ident_wrapper
    try:
        cm.CanonicalizeModifications().run_molecule(mol)
    finally:
        cm.find_ptm_atoms, cm.identify_ptms = orig_find, orig_ident
        lg.removeHandler(handler)
    final = []
    for k in mol.nodes:
        nd = mol.nodes[k]
        nm = nd.get('atomname')
        final.append({'key': k, 'name': None if nm is None else NAME.get(nm, 99), 'labels': [MOD_ID[m.graph['name']] for m in nd.get('modifications', [])]})
    warnings = sum(1 for r in handler.records if 'Could not identify the modifications' in str(r.msg))
    # every attribute change a modification requests for an atom it covers is carried out: the atom renamed QQ also got its tag
    unreplaced = [k for k in mol.nodes if mol.nodes[k].get('atomname') == 'QQ' and mol.nodes[k].get('tag') != 5]
    return {'groups': groups, 'runs': runs, 'final': final, 'warnings': warnings,
            'replace_problem': ('atom(s) %r were renamed QQ by the modification AMIDE_RN, whose replace entry also sets tag=5, but carry no such tag' % unreplaced) if unreplaced else None}


# ---------------------------------------------------------------- emission
def pairs_lit(l):
    return listlit(l, lambda p: '(%s, %s)' % (zlit(p[0]), zlit(p[1])))


def groups_lit(gs):
    return listlit(gs, lambda g: '(%s, %s)' % (listlit(g[0], zlit), listlit(g[1], zlit)))


def mod_lit(name):
    nodes, edges = MODS[name]

    def newname(rep):
        if rep == '-':
            return 'None'
        return '(Some %s)' % optlit(None if rep is None else NAME[rep], zlit)
    return '{| md_id := %s; md_nodes := %s; md_edges := %s |}' % (
        zlit(MOD_ID[name]),
        listlit(nodes, lambda n: '{| d_key := %s; d_name := %s; d_el := %s; d_ptm := %s; d_newname := %s |}' % (
            zlit(n[0]), zlit(NAME[n[1]]), zlit(ELEM[n[2]]), blit(n[3]), newname(n[4]))),
        pairs_lit(edges))


def emit_real(inp, out):
    def newname(rep):
        if rep == '-':
            return 'None'
        return '(Some %s)' % optlit(rep, zlit)
    mods = listlit(out['mods'], lambda m: '{| md_id := %s; md_nodes := %s; md_edges := %s |}' % (
        zlit(m['id']), listlit(m['nodes'], lambda n: '{| d_key := %s; d_name := %s; d_el := %s; d_ptm := %s; d_newname := %s |}' % (
            zlit(n[0]), zlit(n[1]), zlit(n[2]), blit(n[3]), newname(n[4]))), pairs_lit(m['edges'])))
    atoms = listlit(out['atoms'], lambda a: '{| t_key := %s; t_name := %s; t_el := %s; t_resid := %s; t_ptm := %s |}' % (
        zlit(a['key']), zlit(a['name']), zlit(a['el']), zlit(a['resid']), blit(a['ptm'])))
    runs = listlit(out['runs'], lambda r: '{| r_residue := %s; r_groups := %s; r_identified := %s |}' % (
        listlit(r['residue'], zlit), groups_lit(r['groups']),
        'None' if r['identified'] is None else '(Some %s)' % listlit(r['identified'], lambda im: '(%s, %s)' % (zlit(im[0]), pairs_lit(im[1])))))
    final = listlit(out['final'], lambda a: '{| f_key := %s; f_name := %s; f_labels := %s |}' % (zlit(a['key']), optlit(a['name'], zlit), listlit(a['labels'], zlit)))
    return 'CFix %s %s %s %s %s %s %s' % (mods, atoms, pairs_lit(out['bonds']), groups_lit(out['groups']), runs, final, natlit(out['warnings']))


def emit(inp, out):
    if inp.get('kind') == 'real':
        return emit_real(inp, out)
    atoms = listlit(inp['atoms'], lambda a: '{| t_key := %s; t_name := %s; t_el := %s; t_resid := %s; t_ptm := %s |}' % (
        zlit(a['key']), zlit(NAME.get(a['name'], 50 + sum(map(ord, a['name'])) % 40)), zlit(ELEM[a['el']]), zlit(a['resid']), blit(a['ptm'])))
    runs = listlit(out['runs'], lambda r: '{| r_residue := %s; r_groups := %s; r_identified := %s |}' % (
        listlit(r['residue'], zlit), groups_lit(r['groups']),
        'None' if r['identified'] is None else '(Some %s)' % listlit(r['identified'], lambda im: '(%s, %s)' % (zlit(im[0]), pairs_lit(im[1])))))
    final = listlit(out['final'], lambda a: '{| f_key := %s; f_name := %s; f_labels := %s |}' % (zlit(a['key']), optlit(a['name'], zlit), listlit(a['labels'], zlit)))
    return 'CFix %s %s %s %s %s %s %s' % (listlit(inp['mods'], mod_lit), atoms, pairs_lit(inp['bonds']), groups_lit(out['groups']), runs, final, natlit(out['warnings']))


def py_prop(inp, out):
    return out.get('replace_problem') if isinstance(out, dict) else None


def nontrivial(inp, out):
    if inp.get('kind') == 'real':
        return str(inp) if out['runs'] else None
    ok = [r for r in out['runs'] if r['identified'] is not None]
    failed = [r for r in out['runs'] if r['identified'] is None]
    subpattern = len({'PHOS', 'PHOSO', 'PHOSO2'} & set(inp['mods'])) >= 2 and ok
    if (ok and failed) or subpattern:
        return str(inp)
    return None


def describe(inp, out):
    if inp.get('kind') == 'real':
        return {'real_n_runs': min(len(out['runs']), 4), 'real_failed': sum(1 for r in out['runs'] if r['identified'] is None),
                'real_kinds': '+'.join(sorted({k for _, k in inp['ptms']})) or 'none'}
    return {'n_groups': min(len(out['groups']), 4), 'n_runs': min(len(out['runs']), 4),
            'n_failed': min(sum(1 for r in out['runs'] if r['identified'] is None), 3),
            'n_mods': len(inp['mods']), 'anchor_only_mod': 'ANCH' in inp['mods'],
            'spanning': any(len({a['resid'] for a in inp['atoms'] if a['key'] in g[1]}) > 1 for g in out['groups']),
            'max_identified': max([len(r['identified']) for r in out['runs'] if r['identified'] is not None] or [0])}


def shrink(inp):
    if inp.get('kind') == 'real':
        for i in range(len(inp['ptms'])):
            yield dict(inp, ptms=inp['ptms'][:i] + inp['ptms'][i + 1:])
        return
    for i in range(len(inp['mods'])):
        yield dict(inp, mods=inp['mods'][:i] + inp['mods'][i + 1:])
