"""C11 — the topology depends on the chemistry, not on the presentation (whole pipeline, bin/martinize2)."""
import hashlib
import os
import shutil
import subprocess
import tempfile
from concurrent.futures import ThreadPoolExecutor
from fractions import Fraction

from .common import listlit, blit, qlit

ID = 'C11'
LEVEL = 'other'
COQ_TARGETS = ['C11/Props.vo', 'C11/Corr.vo']
PROPS = 'C11/Props.v'
EXTRACTED = []
CASE_IMPORTS = 'From V Require Import C11.Equivariance C11.Corr.\nFrom Coq Require Import QArith.'
RULE = ('paired runs of the real martinize2 command line (separate processes, so PYTHONHASHSEED is real): shipped test '
        'structures (dipro-termini, trp-cage, beta-sheet mini protein; helix mini protein in thorough) and option sets '
        '(plain, elastic network, backbone position restraints, given secondary structure, cysteine auto, neutral termini); '
        'presentations: atoms permuted within every residue (3 permutations), hydrogens renamed (arbitrary unique H names, '
        'reversed), rigid motions that map the 0.001 A coordinate grid onto itself (the 24 proper rotations of the cube '
        'combined with grid translations, so that the motion is exact in the file), hash seeds 1-3 (1-5 with requested terminus modifications), and combinations; '
        'thorough adds general rational rotations with a parameter tolerance. Compared: every section of every written '
        'ITP token by token (atoms, types, charges, all interactions and parameters; numeric tokens within 1e-9 relative, '
        'since the order of floating-point sums changes with the presentation) and the coarse-grained coordinates '
        'against the moved reference coordinates (evaluated in Coq with exact rationals, tolerance 0.0015 A). non-trivial '
        '= a presentation that changes the input file; distinct by (input, options, presentation)')
ASSUMPTIONS = ['the composition of the stages on the real pipeline is explored by paired runs, not proved: only the stage-level facts '
               '(canonical order, equivariant composition, distances under rigid motion, affine bead positions) are theorems',
               'DSSP is not available in the sandbox: secondary structure is given with -ss or left out']
TRUSTED = ['the PDB rewriting of the harness (permutation, renaming, rotation of ATOM records)', 'token-level ITP comparison in Python']

DATA = '/repo/vermouth/tests/data/integration_tests/tier-0'
INPUTS = {
    'dipro': (DATA + '/dipro-termini/aa.pdb', 'martini3001'),
    'trpcage': (DATA + '/mini-protein3_trp-cage/aa.pdb', 'martini3001'),
    'sheet': (DATA + '/mini-protein1_betasheet/aa.pdb', 'martini22'),
    'helix': (DATA + '/mini-protein2_helix/aa.pdb', 'elnedyn21'),
}
OPTIONS = {
    'plain': [],
    'elastic': ['-elastic', '-ef', '700', '-eu', '0.8'],
    'posres': ['-p', 'backbone'],
    'nt': ['-nt'],
    'cys': ['-cys', 'auto'],
    'scfix_off': ['-noscfix'],
}

# the 24 proper rotations of the cube: signed permutation matrices with determinant +1
def cube_rotations():
    import itertools
    out = []
    for perm in itertools.permutations(range(3)):
        for signs in itertools.product([1, -1], repeat=3):
            M = [[0] * 3 for _ in range(3)]
            for i in range(3):
                M[i][perm[i]] = signs[i]
            det = (M[0][0] * (M[1][1] * M[2][2] - M[1][2] * M[2][1]) - M[0][1] * (M[1][0] * M[2][2] - M[1][2] * M[2][0])
                   + M[0][2] * (M[1][0] * M[2][1] - M[1][1] * M[2][0]))
            if det == 1:
                out.append(M)
    return out


ROT = cube_rotations()
IDENT = [[1, 0, 0], [0, 1, 0], [0, 0, 1]]


def generate(rng, tier):
    cases = []
    inputs = ['dipro', 'trpcage', 'sheet'] + (['helix'] if tier != 'quick' else [])
    for name in inputs:
        opts = {'dipro': ['nt', 'plain'], 'trpcage': ['elastic', 'posres'], 'sheet': ['cys', 'elastic'], 'helix': ['elastic']}[name]
        if tier != 'quick':
            opts = sorted(set(opts + ['plain', 'nt', 'scfix_off']))
        for opt in opts:
            pres = []
            n_each = 1 if tier == 'quick' else 3
            for _ in range(n_each):
                pres.append({'perm': rng.randrange(1, 10 ** 6), 'hseed': 0, 'rename': 0, 'rot': 0, 'trans': [0, 0, 0]})
                pres.append({'perm': 0, 'hseed': 0, 'rename': rng.randrange(1, 10 ** 6), 'rot': 0, 'trans': [0, 0, 0]})
                pres.append({'perm': 0, 'hseed': 0, 'rename': 0, 'rot': rng.randrange(1, 24), 'trans': [rng.randint(-20000, 20000) for _ in range(3)]})
                pres.append({'perm': 0, 'hseed': rng.randint(1, 3), 'rename': 0, 'rot': 0, 'trans': [0, 0, 0]})
                pres.append({'perm': rng.randrange(1, 10 ** 6), 'hseed': rng.randint(1, 3), 'rename': rng.randrange(1, 10 ** 6), 'rot': rng.randrange(1, 24),
                             'trans': [rng.randint(-20000, 20000) for _ in range(3)]})
            pres.append({'perm': 0, 'hseed': 0, 'rename': -1, 'rot': 0, 'trans': [0, 0, 0]})       # hydrogens renamed in reverse order
            if opt == 'nt':
                # requested terminus modifications add several atoms: every hash seed from 1 to 5 on the unchanged presentation
                have = {p['hseed'] for p in pres if not (p['perm'] or p['rename'] or p['rot'])}
                for hs in (1, 2, 3, 4, 5):
                    if hs not in have:
                        pres.append({'perm': 0, 'hseed': hs, 'rename': 0, 'rot': 0, 'trans': [0, 0, 0]})
            for p in pres:
                cases.append({'input': name, 'opt': opt, 'pres': p})
    return cases


# ---------------------------------------------------------------- presentations
def present(pdb_text, pres):
    import random
    lines = pdb_text.splitlines()
    atoms = [l for l in lines if l.startswith(('ATOM', 'HETATM'))]
    M = ROT[pres['rot']] if pres['rot'] else IDENT
    t = pres['trans']
    # group by residue, keeping residue order
    groups, cur, key = [], [], None
    for l in atoms:
        k = (l[21], l[22:27], l[17:20])
        if k != key:
            if cur:
                groups.append(cur)
            cur, key = [], k
        cur.append(l)
    if cur:
        groups.append(cur)
    out = []
    serial = 1
    for gi, g in enumerate(groups):
        g = list(g)
        if pres['rename']:
            hs = [i for i, l in enumerate(g) if (l[76:78].strip() == 'H' or (not l[76:78].strip() and l[12:16].strip().lstrip('0123456789')[:1] == 'H'))]
            if pres['rename'] == -1:
                names = [g[i][12:16] for i in hs][::-1]
            else:
                r = random.Random(pres['rename'] * 1000 + gi)
                names = ['H%02d' % n for n in r.sample(range(1, 99), len(hs))]
                names = [' %-3s' % n if len(n) < 4 else n for n in names]
            for i, nm in zip(hs, names):
                el = g[i][76:78] if g[i][76:78].strip() else ' H'
                g[i] = g[i][:12] + nm + g[i][16:76].ljust(60) + el + g[i][78:]
        if pres['perm']:
            random.Random(pres['perm'] * 1000 + gi).shuffle(g)
        for l in g:
            x, y, z = (int(round(float(l[30 + 8 * i:38 + 8 * i]) * 1000)) for i in range(3))
            p = [M[i][0] * x + M[i][1] * y + M[i][2] * z + t[i] for i in range(3)]
            l = l[:6] + '%5d' % serial + l[11:30] + ''.join('%8.3f' % (c / 1000.0) for c in p) + l[54:]
            out.append(l)
            serial += 1
    return '\n'.join(out) + '\nEND\n'


# ---------------------------------------------------------------- running
def _run(workdir, pdb_text, ff, opts, hseed):
    os.makedirs(workdir, exist_ok=True)
    with open(os.path.join(workdir, 'in.pdb'), 'w') as fh:
        fh.write(pdb_text)
    env = dict(os.environ, PYTHONPATH='/repo', PYTHONHASHSEED=str(hseed))
    cmd = ['/venv/bin/python', '/repo/bin/martinize2', '-f', 'in.pdb', '-o', 'topol.top', '-x', 'cg.pdb', '-ff', ff, '-maxwarn', '100'] + opts
    p = subprocess.run(cmd, cwd=workdir, env=env, capture_output=True, text=True, timeout=900)
    res = {'rc': p.returncode, 'stderr_tail': p.stderr[-600:]}
    if p.returncode == 0 and os.path.exists(os.path.join(workdir, 'cg.pdb')):
        itps = {}
        for fn in sorted(os.listdir(workdir)):
            if fn.endswith('.itp'):
                itps[fn] = parse_itp(open(os.path.join(workdir, fn)).read())
        res['itps'] = itps
        res['xyz'] = [[l[30:38].strip(), l[38:46].strip(), l[46:54].strip()] for l in open(os.path.join(workdir, 'cg.pdb')) if l.startswith(('ATOM', 'HETATM'))]
    return res


def parse_itp(text):
    sections = []
    cur = None
    for line in text.splitlines():
        line = line.split(';')[0].strip()
        if not line or line.startswith('#'):
            if line.startswith('#'):
                sections.append(['#', [line.split()]])
                cur = None
            continue
        if line.startswith('['):
            cur = [line.strip('[] ').strip(), []]
            sections.append(cur)
        elif cur is not None:
            cur[1].append(line.split())
    return sections


def canon_itp(sections):
    out = []
    for name, rows in sections:
        if name in ('atoms', 'moleculetype', '#'):
            out.append([name, rows])
        else:
            out.append([name, sorted(rows)])
    return out


def _tok_eq(a, b):
    if a == b:
        return True
    try:
        x, y = float(a), float(b)
    except ValueError:
        return False
    return abs(x - y) <= 1e-9 * max(1.0, abs(x), abs(y))


def _row_eq(r1, r2):
    return len(r1) == len(r2) and all(_tok_eq(a, b) for a, b in zip(r1, r2))


def _rows_eq(ra, rb):
    """same rows; numeric tokens may differ in the last bits (summation order changes with the presentation)"""
    if len(ra) != len(rb):
        return False
    if all(_row_eq(a, b) for a, b in zip(ra, rb)):
        return True
    rest = list(rb)
    for a in ra:
        for i, b in enumerate(rest):
            if _row_eq(a, b):
                del rest[i]
                break
        else:
            return False
    return True


def run_pair(inp, root):
    path, ff = INPUTS[inp['input']]
    text = open(path).read()
    opts = OPTIONS[inp['opt']]
    tag = hashlib.sha1(repr((inp['input'], inp['opt'])).encode()).hexdigest()[:10]
    base_dir = os.path.join(root, 'base_' + tag)
    marker = os.path.join(base_dir, 'done.json')
    import json
    if os.path.exists(marker):
        base = json.load(open(marker))
    else:
        base = _run(base_dir, present(text, {'perm': 0, 'hseed': 0, 'rename': 0, 'rot': 0, 'trans': [0, 0, 0]}), ff, opts, 0)
        json.dump(base, open(marker, 'w'))
    ptag = hashlib.sha1(repr(inp).encode()).hexdigest()[:10]
    pres = _run(os.path.join(root, 'pres_' + ptag), present(text, inp['pres']), ff, opts, inp['pres']['hseed'])
    ok = base['rc'] == 0 and pres['rc'] == 0 and 'itps' in base and 'itps' in pres
    diffs = []
    if ok:
        if sorted(base['itps']) != sorted(pres['itps']):
            diffs.append('different ITP files: %s vs %s' % (sorted(base['itps']), sorted(pres['itps'])))
        else:
            for fn in base['itps']:
                a, b = canon_itp(base['itps'][fn]), canon_itp(pres['itps'][fn])
                if len(a) != len(b) or any(na != nb or not _rows_eq(ra, rb) for (na, ra), (nb, rb) in zip(a, b)):
                    for (na, ra), (nb, rb) in zip(a, b):
                        if na != nb or not _rows_eq(ra, rb):
                            only_a = [r for r in ra if r not in rb][:3]
                            only_b = [r for r in rb if r not in ra][:3]
                            diffs.append('%s [ %s ]: reference only %s / presentation only %s' % (fn, na, only_a, only_b))
                            break
    return {'ok': ok, 'base_rc': base['rc'], 'pres_rc': pres['rc'], 'stderr': (pres.get('stderr_tail') or '')[-300:] if pres['rc'] else '',
            'diffs': diffs[:5], 'base_xyz': base.get('xyz', []), 'pres_xyz': pres.get('xyz', [])}


def run_impl_all(inputs):
    root = tempfile.mkdtemp(prefix='c11_', dir='/verif/work')
    try:
        # reference runs first (one per input/options), then the presentations in parallel
        seen = {}
        for c in inputs:
            seen.setdefault((c['input'], c['opt']), c)
        with ThreadPoolExecutor(max_workers=16) as ex:
            list(ex.map(lambda c: run_pair(dict(c, pres={'perm': 0, 'hseed': 0, 'rename': 0, 'rot': 0, 'trans': [0, 0, 0]}), root), seen.values()))
            outs = list(ex.map(lambda c: _safe(c, root), inputs))
        return outs
    finally:
        shutil.rmtree(root, ignore_errors=True)


def _safe(c, root):
    try:
        return run_pair(c, root)
    except Exception as e:  # pylint: disable=broad-except
        return {'_exception': '%s: %s' % (type(e).__name__, str(e)[:300])}


def run_impl(inp):
    return run_impl_all([inp])[0]


# ---------------------------------------------------------------- emission
def vec_lit(v):
    return '(%s, %s, %s)' % tuple(qlit(Fraction(str(x))) for x in v)


def emit(inp, out):
    M = ROT[inp['pres']['rot']] if inp['pres']['rot'] else IDENT
    mat = '(%s, %s, %s)' % tuple(vec_lit(r) for r in M)
    t = vec_lit([Fraction(x, 1000) for x in inp['pres']['trans']])
    return 'CPair %s %s %s %s %s %s %s' % (mat, t, qlit(Fraction(15, 10000)), listlit(out['base_xyz'], vec_lit), listlit(out['pres_xyz'], vec_lit),
                                         blit(not out['diffs']), blit(out['ok']))


def py_prop(inp, out):
    if not out['ok']:
        return 'a run failed: reference rc=%s presentation rc=%s %s' % (out['base_rc'], out['pres_rc'], out['stderr'])
    if out['diffs']:
        return 'topologies differ: ' + ' | '.join(out['diffs'])
    return None


def nontrivial(inp, out):
    p = inp['pres']
    if p['perm'] or p['rename'] or p['rot'] or p['hseed']:
        return str(inp)
    return None


def describe(inp, out):
    p = inp['pres']
    return {'input': inp['input'], 'options': inp['opt'],
            'presentation': '+'.join(k for k in ('perm', 'rename', 'rot', 'hseed') if p[k]) or 'identity',
            'n_beads': min(len(out.get('base_xyz', [])), 100) // 10 * 10}


def known(inp, out):
    # F20: hydrogen names permuted among the hydrogens of a residue; make_bonds trusts the names
    if inp['pres']['rename'] == -1:
        return 'F20'
    # F22: neutral termini + renamed hydrogens: which of the equivalent N-terminal hydrogens is left out follows the names
    if inp['opt'] == 'nt' and inp['pres']['rename'] != 0:
        return 'F22'
    return None
