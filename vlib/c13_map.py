"""Generator / printer / expected-value builder for .mapping files (the format of vermouth/map_parser.py), C13.
The expected value is computed from the AST by the grammar written in the docstrings of MappingDirector
(_blocks: shorthand resname[#resid] identifiers, _nodes, _edges, _mapping: `<atom from> <atom to> [weight]` with
weight := float | int, _reference_atoms), independently of the parser."""
import json
from fractions import Fraction

FROM_BLOCKS = {'ALA': (['N', 'CA', 'C', 'O', 'CB', 'HN'], [('N', 'CA'), ('CA', 'C'), ('C', 'O'), ('CA', 'CB'), ('N', 'HN')]),
               'GLY': (['N', 'CA', 'C', 'O'], [('N', 'CA'), ('CA', 'C'), ('C', 'O')]),
               'SER': (['N', 'CA', 'C', 'O', 'CB', 'OG'], [('N', 'CA'), ('CA', 'C'), ('C', 'O'), ('CA', 'CB'), ('CB', 'OG')])}
TO_BLOCKS = {'ALA': (['BB', 'SC1'], [('BB', 'SC1')]), 'GLY': (['BB'], []), 'SER': (['BB', 'SC1'], [('BB', 'SC1')])}
WEIGHTS = [None, None, None, '1', '0', '2', '3', '0.5', '1.5', '0.25']


def make_force_fields():
    import vermouth.forcefield
    from vermouth.molecule import Block
    ffs = {}
    for ffname, table in (('ffa', FROM_BLOCKS), ('ffb', TO_BLOCKS)):
        ff = vermouth.forcefield.ForceField(name=ffname)
        for resname, (atoms, edges) in table.items():
            b = Block(force_field=ff)
            b.name = resname
            for i, a in enumerate(atoms):
                b.add_node(a, atomname=a, resname=resname, resid=1, charge_group=i + 1, atype='X')
            b.add_edges_from(edges)
            ff.blocks[resname] = b
        ffs[ffname] = ff
    return ffs


def gen_mapping(rng, float_weights=True):
    """one [ block ] mapping of 1-2 residues"""
    nres = rng.choice([1, 1, 2, 2])
    resnames = [rng.choice(sorted(FROM_BLOCKS)) for _ in range(nres)]
    explicit_ids = nres > 1 or rng.random() < 0.3             # ALA#1 ALA#2 versus ALA
    lines = []
    for ri, rn in enumerate(resnames, start=1):
        beads = TO_BLOCKS[rn][0]
        for atom in FROM_BLOCKS[rn][0]:
            if rng.random() < 0.12:
                continue                                       # an atom the mapping does not mention
            targets = [rng.choice(beads)]
            if len(beads) > 1 and rng.random() < 0.15:
                targets = list(beads)                          # an atom shared between two particles
            for b in targets:
                w = rng.choice(WEIGHTS if float_weights else [x for x in WEIGHTS if x is None or '.' not in x])
                lines.append({'fres': ri, 'fatom': atom, 'tres': ri, 'tatom': b, 'weight': w,
                              'qualified': nres > 1 or rng.random() < 0.4})
    # atoms that the origin blocks do not have, declared in [ from nodes ] (with or without an identifier and a dict of
    # attributes), bonded in [ from edges ] and mapped like any other atom
    extra = []
    if rng.random() < 0.5:
        cur = None
        for j in range(rng.randint(1, 3)):
            ri = rng.randint(1, nres)
            qualified = nres > 1 and (cur is None or ri != cur or rng.random() < 0.4)
            if nres > 1 and not qualified:
                ri = cur                                       # a bare name goes to the identifier used last
            if nres == 1:
                qualified = rng.random() < 0.4
            cur = ri if qualified or nres > 1 else cur
            attrs = rng.choice([None, None, {'element': 'H'}, {'charge': 1.0}, {'element': 'H', 'mass': 1.008}])
            anchor = rng.choice(FROM_BLOCKS[resnames[ri - 1]][0])
            extra.append({'res': ri, 'name': 'HX%d' % (j + 1), 'attrs': attrs, 'qualified': qualified, 'anchor': anchor,
                          'bead': rng.choice(TO_BLOCKS[resnames[ri - 1]][0]), 'weight': rng.choice(WEIGHTS)})
    if nres > 1 and rng.random() < 0.5:
        # a node written with its identifier and a dict of attributes, followed by nodes without identifier (they go to the
        # same residue) and without attributes of their own
        ri = rng.randint(1, nres)
        extra = [{'res': ri, 'name': 'HX1', 'attrs': rng.choice([{'element': 'H'}, {'charge': 1.0}, {'element': 'H', 'mass': 1.008}]),
                  'qualified': True, 'anchor': rng.choice(FROM_BLOCKS[resnames[ri - 1]][0]),
                  'bead': rng.choice(TO_BLOCKS[resnames[ri - 1]][0]), 'weight': rng.choice(WEIGHTS)}]
        for j in range(rng.randint(1, 2)):
            extra.append({'res': ri, 'name': 'HX%d' % (j + 2), 'attrs': None, 'qualified': False,
                          'anchor': rng.choice(FROM_BLOCKS[resnames[ri - 1]][0]),
                          'bead': rng.choice(TO_BLOCKS[resnames[ri - 1]][0]), 'weight': rng.choice(WEIGHTS)})
    refs = []
    if rng.random() < 0.2 and lines:
        l = rng.choice(lines)
        refs.append({'tres': l['tres'], 'tatom': l['tatom'], 'fres': l['fres'], 'fatom': l['fatom']})
    return {'resnames': resnames, 'explicit_ids': explicit_ids, 'lines': lines, 'refs': refs, 'extra': extra}


def gen_file(rng):
    return {'mappings': [gen_mapping(rng) for _ in range(rng.randint(1, 3))]}


def _ident(m, ri):
    rn = m['resnames'][ri - 1]
    return '%s#%d' % (rn, ri) if m['explicit_ids'] else rn


def print_file(f):
    out = []
    for m in f['mappings']:
        out += ['[ block ]', '[ from ]', 'ffa', '[ to ]', 'ffb']
        ids = ' '.join(_ident(m, ri) for ri in range(1, len(m['resnames']) + 1))
        out += ['[ from blocks ]', ids, '[ to blocks ]', ids]
        many = len(m['resnames']) > 1
        if m.get('extra'):
            out.append('[ from nodes ]')
            for e in m['extra']:
                out.append(('%s:' % _ident(m, e['res']) if e['qualified'] else '') + e['name'] + (' ' + json.dumps(e['attrs']) if e['attrs'] else ''))
            out.append('[ from edges ]')
            for e in m['extra']:
                out.append('%s:%s %s:%s' % (_ident(m, e['res']), e['name'], _ident(m, e['res']), e['anchor']))
        out.append('[ mapping ]')
        for e in m.get('extra', []):
            out.append('%s:%s %s:%s%s' % (_ident(m, e['res']), e['name'], _ident(m, e['res']), e['bead'], '' if e['weight'] is None else ' ' + e['weight']))
        for l in m['lines']:
            fa = ('%s:' % _ident(m, l['fres']) if l['qualified'] else '') + l['fatom']
            ta = ('%s:' % _ident(m, l['tres']) if l['qualified'] else '') + l['tatom']
            out.append('%s %s%s' % (fa, ta, '' if l['weight'] is None else ' ' + l['weight']))
        if m['refs']:
            out.append('[ reference atoms ]')
            for r in m['refs']:
                out.append('%s:%s %s:%s' % (_ident(m, r['tres']), r['tatom'], _ident(m, r['fres']), r['fatom']))
    return out


def expected(m):
    """{(from resid, from atom): {(to resid, bead): weight}}; a later line for the same pair replaces the earlier one"""
    want = {}
    for l in m['lines']:
        w = Fraction(1) if l['weight'] is None else Fraction(l['weight'])
        want.setdefault((l['fres'], l['fatom']), {})[(l['tres'], l['tatom'])] = w
    for e in m.get('extra', []):
        w = Fraction(1) if e['weight'] is None else Fraction(e['weight'])
        want.setdefault((e['res'], e['name']), {})[(e['res'], e['bead'])] = w
    # the extra atoms are written first in [ mapping ]: a later line of the same pair would replace them (names differ, so none does)
    return want


def check_file(f, loaded):
    """loaded: the list of Mapping objects the parser returned. Returns None or a message."""
    if len(loaded) != len(f['mappings']):
        return '%d mappings declared, %d loaded' % (len(f['mappings']), len(loaded))
    for m, lm in zip(f['mappings'], loaded):
        if tuple(lm.names) != tuple(m['resnames']):
            return 'mappings out of order or misnamed: declared %r, loaded %r' % (m['resnames'], lm.names)
        if lm.type != 'block' or lm.ff_from != 'ffa' or lm.ff_to != 'ffb':
            return 'type / force fields of the mapping %r: %r %r %r' % (m['resnames'], lm.type, lm.ff_from, lm.ff_to)
        got = {}
        for fi, tos in lm.mapping.items():
            fn = lm.block_from.nodes[fi] if fi in lm.block_from.nodes else None
            if fn is None:
                return 'mapping %r: a mapped atom is not in the origin block' % (m['resnames'],)
            for ti, w in tos.items():
                tn = lm.block_to.nodes[ti]
                got.setdefault((fn['resid'], fn['atomname']), {})[(tn['resid'], tn['atomname'])] = Fraction(w)
        want = expected(m)
        if got != want:
            return 'mapping %r: declared %r, loaded %r' % (m['resnames'], sorted(want.items()), sorted(got.items()))
        # the origin block keeps exactly the mapped atoms
        have = sorted((d['resid'], d['atomname']) for d in lm.block_from.nodes.values())
        if have != sorted(want):
            return 'mapping %r: origin atoms %r, mapped atoms %r' % (m['resnames'], have, sorted(want))
        # an atom declared in [ from nodes ] has the attributes of its identifier, its name and its own dict: nothing else
        by_name = {(d['resid'], d['atomname']): (k, d) for k, d in lm.block_from.nodes.items()}
        for e in m.get('extra', []):
            k, d = by_name[(e['res'], e['name'])]
            want_attrs = {'resname': m['resnames'][e['res'] - 1], 'resid': e['res'], 'atomname': e['name']}
            want_attrs.update(e['attrs'] or {})
            if dict(d) != want_attrs:
                return 'mapping %r: atom %s declared with %r, loaded with %r' % (m['resnames'], e['name'], want_attrs, dict(d))
            anchor = by_name.get((e['res'], e['anchor']))
            if anchor is not None and not lm.block_from.has_edge(k, anchor[0]):
                return 'mapping %r: the declared bond %s-%s is missing' % (m['resnames'], e['name'], e['anchor'])
        want_refs = {(r['tres'], r['tatom']): (r['fres'], r['fatom']) for r in m['refs']}
        got_refs = {}
        for ti, fi in lm.references.items():
            tn, fn = lm.block_to.nodes[ti], lm.block_from.nodes[fi]
            got_refs[(tn['resid'], tn['atomname'])] = (fn['resid'], fn['atomname'])
        if got_refs != want_refs:
            return 'reference atoms of %r: declared %r, loaded %r' % (m['resnames'], want_refs, got_refs)
    return None


def run(f):
    """load the printed file with the real parser; returns the message of check_file or a rejection message"""
    from vermouth.map_parser import MappingDirector
    lines = print_file(f)
    try:
        loaded = list(MappingDirector(make_force_fields()).parse(iter(lines)))
    except Exception as e:  # pylint: disable=broad-except
        return {'msg': 'a well-formed .mapping file was rejected: %s: %s (cause %r)' % (type(e).__name__, e, e.__cause__), 'text': lines}
    return {'msg': check_file(f, loaded), 'text': lines if len(lines) < 60 else None}


MAP_FAULTS = ['undefined_origin_atom', 'undefined_target_atom', 'unknown_identifier', 'unknown_section', 'undefined_reference_atom']


def inject_fault(rng, f, fault):
    """the text of a .mapping file that must be rejected"""
    lines = print_file(f)
    idx = [i for i, l in enumerate(lines) if l == '[ mapping ]']
    pos = rng.choice(idx) + 1
    m = f['mappings'][idx.index(pos - 1)]
    ident = _ident(m, 1)
    bead = TO_BLOCKS[m['resnames'][0]][0][0]
    atom = FROM_BLOCKS[m['resnames'][0]][0][0]
    if fault == 'undefined_origin_atom':
        new = ['%s:NOPE %s:%s' % (ident, ident, bead)]
    elif fault == 'undefined_target_atom':
        new = ['%s:%s %s:NOPE' % (ident, atom, ident)]
    elif fault == 'unknown_identifier':
        new = ['XXX#7:%s %s:%s' % (atom, ident, bead)]
    elif fault == 'unknown_section':
        return lines[:pos] + ['[ bogus ]', 'x y'] + lines[pos:]
    else:
        # a reference atom that is not an atom of the origin block; the section may already be there
        end = pos
        while end < len(lines) and not lines[end].startswith('['):
            end += 1
        if end < len(lines) and lines[end] == '[ reference atoms ]':
            return lines[:end + 1] + ['%s:%s %s:NOPE' % (ident, bead, ident)] + lines[end + 1:]
        return lines[:end] + ['[ reference atoms ]', '%s:%s %s:NOPE' % (ident, bead, ident)] + lines[end:]
    return lines[:pos] + new + lines[pos:]


def run_fault(f, fault, sub):
    import random
    from vermouth.map_parser import MappingDirector
    lines = inject_fault(random.Random(sub), f, fault)
    try:
        list(MappingDirector(make_force_fields()).parse(iter(lines)))
    except (IOError, KeyError, ValueError, AssertionError):
        return {'msg': None}
    return {'msg': 'a .mapping file with the fault %s was loaded without an error' % fault, 'text': lines}


# ---------------------------------------------------------------- backward .map files (vermouth/map_input.py)
def gen_backmap(rng):
    """a backward mapping file: 1-3 [ molecule ] entries, origin / destination force-field lists in which some force fields
    do not have the block, atoms mapped to one or several beads, '!' markers"""
    mols = []
    for resname in rng.sample(sorted(FROM_BLOCKS), rng.randint(1, 3)):
        beads = TO_BLOCKS[resname][0]
        lines = []
        for atom in FROM_BLOCKS[resname][0]:
            if rng.random() < 0.1:
                continue
            tgt = [rng.choice(beads) for _ in range(rng.choice([1, 1, 2, 3]))]
            tgt = [('!' if rng.random() < 0.15 else '') + b for b in tgt]
            # the same bead with and without '!' for one atom is an error: keep one form per bead
            seen = {}
            tgt = [seen.setdefault(t.lstrip('!'), t) for t in tgt]
            lines.append([atom, tgt])
        from_ffs = rng.choice([['ffa'], ['ffa'], ['nowhere', 'ffa'], ['ffa', 'nowhere']])
        to_ffs = rng.choice([['ffb'], ['ffb'], ['empty', 'ffb'], ['ffb', 'empty'], ['empty', 'ffb', 'nowhere']])
        mols.append({'name': resname, 'from': from_ffs, 'to': to_ffs, 'lines': lines})
    return {'mols': mols}


def print_backmap(f):
    out = []
    for m in f['mols']:
        out += ['[ molecule ]', m['name'], '[ from ]', ' '.join(m['from']), '[ to ]', ' '.join(m['to']), '[ martini ]',
                ' '.join(TO_BLOCKS[m['name']][0]), '[ atoms ]']
        for i, (atom, tgt) in enumerate(m['lines'], start=1):
            out.append('%d %s %s' % (i, atom, ' '.join(tgt)))
    return out


def run_backmap(f):
    """load with read_backmapping_file; every declared (origin, destination) pair whose force fields have the block must
    yield the mapping, with weight multiplicity / number of plain targets and 0 for '!' targets"""
    import vermouth.forcefield
    from vermouth.map_input import read_backmapping_file
    ffs = make_force_fields()
    ffs['empty'] = vermouth.forcefield.ForceField(name='empty')          # a known force field without any block
    lines = print_backmap(f)
    try:
        loaded = read_backmapping_file(lines, ffs)
    except Exception as e:  # pylint: disable=broad-except
        return {'msg': 'a well-formed .map file was rejected: %s: %s' % (type(e).__name__, e), 'text': lines}
    for m in f['mols']:
        for fr in m['from']:
            for to in m['to']:
                have = fr in ffs and to in ffs and m['name'] in ffs[fr].blocks and m['name'] in ffs[to].blocks
                got = loaded.get(fr, {}).get(to, {}).get(m['name'])
                if not have:
                    if got is not None:
                        return {'msg': 'mapping %s %s->%s loaded although a force field lacks the block' % (m['name'], fr, to), 'text': lines}
                    continue
                if got is None:
                    return {'msg': 'the mapping of %s from %s to %s is declared (both force fields have the block) but was not loaded; loaded: %r' % (
                        m['name'], fr, to, {a: {b: sorted(c) for b, c in v.items()} for a, v in loaded.items()}), 'text': lines}
                want = {}
                for atom, tgt in m['lines']:
                    plain = [t for t in tgt if not t.startswith('!')]
                    for t in tgt:
                        b = t.lstrip('!')
                        w = Fraction(0) if t.startswith('!') else Fraction(plain.count(t), len(plain))
                        want.setdefault(atom, {})[b] = w
                have_w = {}
                for fi, tos in got.mapping.items():
                    for ti, w in tos.items():
                        have_w.setdefault(got.block_from.nodes[fi]['atomname'], {})[got.block_to.nodes[ti]['atomname']] = Fraction(w).limit_denominator(10 ** 6)
                if have_w != want:
                    return {'msg': 'weights of %s %s->%s: declared %r loaded %r' % (m['name'], fr, to, want, have_w), 'text': lines}
    return {'msg': None}
