"""Fail-closed translator: reads literals (tables, format strings, field widths,
call sites) from /repo's Python source with `ast` and regenerates
coq/Extracted/*.v.  A file is only rewritten when its content changes, so that
`make` rebuilds exactly what depends on a changed literal."""
import ast
import os


class ExtractError(Exception):
    pass


def write_if_changed(path, text):
    old = None
    if os.path.exists(path):
        old = open(path).read()
    if old != text:
        with open(path, 'w') as f:
            f.write(text)
        return True
    return False


EXTRACTORS = []


def extractor(fn):
    EXTRACTORS.append(fn)
    return fn


def run(repo, outdir):
    os.makedirs(outdir, exist_ok=True)
    results = []
    for fn in EXTRACTORS:
        name = fn.__name__
        try:
            fname, text = fn(repo)
            write_if_changed(os.path.join(outdir, fname), text)
            results.append((name, True, fname))
        except Exception as e:  # pylint: disable=broad-except
            results.append((name, False, repr(e)[:400]))
    return results


def coq_str(s):
    assert all(32 <= ord(ch) <= 126 for ch in s), s
    return '"%s"%%string' % s.replace('"', '""')


def _py_files(repo, sub='vermouth'):
    out = []
    for root, dirs, files in os.walk(os.path.join(repo, sub)):
        dirs[:] = [d for d in dirs if d not in ('tests', '__pycache__', 'data')]
        for fn in sorted(files):
            if fn.endswith('.py'):
                out.append(os.path.join(root, fn))
    return sorted(out)


def _const_str(node):
    if isinstance(node, ast.Constant) and isinstance(node.value, str):
        return node.value
    return None


def _call_name(call):
    f = call.func
    if isinstance(f, ast.Name):
        return f.id
    if isinstance(f, ast.Attribute):
        return f.attr
    return None


def _mode_of(call, name):
    """Mode literal of an open-like call; 'r' when absent; ExtractError if not a literal."""
    for kw in call.keywords:
        if kw.arg == 'mode':
            m = _const_str(kw.value)
            if m is None:
                raise ExtractError('non-literal mode at line %d' % call.lineno)
            return m
    if len(call.args) >= 2:
        m = _const_str(call.args[1])
        if m is None:
            raise ExtractError('non-literal mode at line %d' % call.lineno)
        return m
    return 'r'


@extractor
def write_sites(repo):
    """Every call in vermouth/**.py (tests and file_writer.py itself excluded) that opens a file
    for writing, classified by how it reaches the disk; plus the default of every
    `defer_writing` parameter and every call in bin/martinize2 passing defer_writing."""
    sites = []
    defaults = []
    for path in _py_files(repo):
        rel = os.path.relpath(path, repo)
        if rel == os.path.join('vermouth', 'file_writer.py'):
            continue
        tree = ast.parse(open(path).read())
        funcs = [n for n in ast.walk(tree) if isinstance(n, (ast.FunctionDef, ast.AsyncFunctionDef))]
        covered = set()
        scopes = [(f.name, f) for f in funcs] + [('<module>', tree)]
        for fname, fnode in scopes:
            if fname != '<module>':
                args = fnode.args
                names = [a.arg for a in args.args]
                defs = [None] * (len(names) - len(args.defaults)) + list(args.defaults)
                for n, d in zip(names, defs):
                    if n == 'defer_writing':
                        if not (isinstance(d, ast.Constant) and isinstance(d.value, bool)):
                            raise ExtractError('defer_writing default not a bool literal in %s:%s' % (rel, fname))
                        defaults.append((rel, fname, d.value))
                for n, d in zip([a.arg for a in args.kwonlyargs], args.kw_defaults):
                    if n == 'defer_writing':
                        defaults.append((rel, fname, bool(getattr(d, 'value', False))))
            gated = False
            scratch = False
            for n in ast.walk(fnode):
                if isinstance(n, ast.If) and isinstance(n.test, ast.Name) and n.test.id == 'defer_writing':
                    for st in n.body:
                        if (isinstance(st, ast.Assign) and len(st.targets) == 1 and isinstance(st.targets[0], ast.Name)
                                and st.targets[0].id == 'open' and isinstance(st.value, ast.Name)
                                and st.value.id == 'deferred_open'):
                            gated = True
                if isinstance(n, ast.Call) and _call_name(n) == 'mkstemp':
                    kws = {kw.arg: _const_str(kw.value) for kw in n.keywords}
                    if kws.get('prefix') == 'dssp_in_' and kws.get('dir') == '.':
                        scratch = True
            for n in ast.walk(fnode):
                if not isinstance(n, ast.Call) or id(n) in covered:
                    continue
                cname = _call_name(n)
                if cname not in ('open', '_open', 'deferred_open', 'fdopen'):
                    continue
                if fname == '<module>' and any(id(n) in {id(x) for x in ast.walk(f)} for f in funcs):
                    continue
                covered.add(id(n))
                mode = _mode_of(n, cname)
                if not any(ch in mode for ch in 'wax+'):
                    continue
                if cname == 'deferred_open':
                    kind = 'Deferred'
                elif cname == 'open' and gated:
                    kind = 'Gated'
                elif cname == 'fdopen' and scratch:
                    kind = 'DsspScratch'
                else:
                    kind = 'Plain'
                sites.append((rel, fname, n.lineno, kind))
    # nested functions are walked by their parents too: deduplicate on (file, line)
    seen = {}
    for rel, fname, line, kind in sites:
        key = (rel, line)
        if key not in seen or kind != 'Plain':
            seen[key] = (rel, fname, line, kind)
    sites = sorted(seen.values())
    # the CLI: calls that switch deferral off
    cli = os.path.join(repo, 'bin', 'martinize2')
    tree = ast.parse(open(cli).read())
    off = []
    for f in [n for n in ast.walk(tree) if isinstance(n, ast.FunctionDef)]:
        for n in ast.walk(f):
            if isinstance(n, ast.Call):
                for kw in n.keywords:
                    if kw.arg == 'defer_writing':
                        if not isinstance(kw.value, ast.Constant):
                            raise ExtractError('non-literal defer_writing in CLI line %d' % n.lineno)
                        if kw.value.value is not True:
                            # which debug option guards it: nearest enclosing `if write_X is not None`
                            guard = ''
                            for g in ast.walk(f):
                                if isinstance(g, ast.If) and any(x is n for x in ast.walk(g)):
                                    t = g.test
                                    if (isinstance(t, ast.Compare) and isinstance(t.left, ast.Name)
                                            and len(t.ops) == 1 and isinstance(t.ops[0], ast.IsNot)):
                                        guard = t.left.id
                            off.append((f.name, n.lineno, guard))
    text = ['(* GENERATED by vlib/extract.py from /repo: do not edit *)',
            'From Coq Require Import List String NArith Bool.', 'Import ListNotations.',
            'Inductive site_kind := Deferred | Gated | DsspScratch | Plain.',
            'Definition write_sites : list (string * string * N * site_kind) := [']
    text.append(';\n'.join('  (%s, %s, %d%%N, %s)' % (coq_str(r), coq_str(f), l, k) for r, f, l, k in sites))
    text.append('].')
    text.append('Definition defer_defaults : list (string * string * bool) := [')
    text.append(';\n'.join('  (%s, %s, %s)' % (coq_str(r), coq_str(f), 'true' if v else 'false') for r, f, v in defaults))
    text.append('].')
    text.append('Definition cli_undeferred : list (string * N * string) := [')
    text.append(';\n'.join('  (%s, %d%%N, %s)' % (coq_str(f), l, coq_str(g)) for f, l, g in off))
    text.append('].')
    return 'WriteSites.v', '\n'.join(text) + '\n'


# ---------------------------------------------------------------------------
# C16: format strings and reader field tables
import re as _re
import string as _string

_SPEC_RE = _re.compile(r'(([\s\S])?([<>=\^]))?([\+\- ])?(#)?(0)?(\d*)?(,)?((\.)(\d*))?([sbcdoxXneEfFgGn%])?')


def _coq_char(c):
    assert 32 <= ord(c) <= 126
    return '"%s"%%char' % ('""' if c == '"' else c)


def _fspec(spec):
    trunc = spec.endswith('t')
    if trunc:
        spec = spec[:-1]
    m = _SPEC_RE.fullmatch(spec)
    if not m:
        raise ExtractError('format spec %r' % spec)
    fill, align, sign, alt, zero, width, comma, _, _, prec, typ = m.group(2, 3, 4, 5, 6, 7, 8, 9, 10, 11, 12)
    if sign or alt or zero or comma:
        raise ExtractError('unsupported format spec %r' % spec)
    if typ == 's' and not prec:
        kind = 'KStr'
    elif typ == 'd' and not prec:
        kind = 'KInt'
    elif typ == 'f' and prec:
        kind = '(KFix %d)' % int(prec)
    else:
        raise ExtractError('unsupported type in %r' % spec)
    al = {None: 'None', '<': '(Some AL)', '>': '(Some AR)', '^': '(Some AC)'}.get(align)
    if al is None:
        raise ExtractError('unsupported align in %r' % spec)
    return '{| f_fill := %s; f_align := %s; f_width := %d; f_kind := %s; f_trunc := %s |}' % (
        _coq_char(fill or ' '), al, int(width or 0), kind, 'true' if trunc else 'false')


def _chunks(fmt):
    out = []
    for lit, field, spec, conv in _string.Formatter().parse(fmt):
        if lit:
            out.append('Lit (s2l %s)' % coq_str(lit))
        if field is not None:
            if field != '' or conv:
                raise ExtractError('named/converted field in %r' % fmt)
            out.append('Fld %s' % _fspec(spec))
    return '[' + ';\n    '.join(out) + ']'


def _find_func(tree, name, cls=None):
    for n in ast.walk(tree):
        if cls and isinstance(n, ast.ClassDef) and n.name == cls:
            for f in n.body:
                if isinstance(f, ast.FunctionDef) and f.name == name:
                    return f
        if not cls and isinstance(n, ast.FunctionDef) and n.name == name:
            return n
    raise ExtractError('function %s not found' % name)


def _assigned_const(func, var, pred=lambda v: True):
    found = [n.value.value for n in ast.walk(func)
             if isinstance(n, ast.Assign) and len(n.targets) == 1 and isinstance(n.targets[0], ast.Name)
             and n.targets[0].id == var and isinstance(n.value, ast.Constant) and pred(n.value.value)]
    if len(found) != 1:
        raise ExtractError('expected exactly one literal assignment to %s, found %d' % (var, len(found)))
    return found[0]


def _rfields(func, var='fields'):
    lists = [n.value for n in ast.walk(func)
             if isinstance(n, ast.Assign) and len(n.targets) == 1 and isinstance(n.targets[0], ast.Name)
             and n.targets[0].id == var and isinstance(n.value, ast.List)]
    if len(lists) != 1:
        raise ExtractError('field table %s' % var)
    out = []
    for elt in lists[0].elts:
        if not (isinstance(elt, ast.Tuple) and len(elt.elts) == 3 and isinstance(elt.elts[0], ast.Constant)
                and isinstance(elt.elts[1], ast.Name) and isinstance(elt.elts[2], ast.Constant)):
            raise ExtractError('field tuple shape')
        kind = {'str': 'RStr', 'int': 'RInt', 'float': 'RFloat'}.get(elt.elts[1].id)
        if kind is None:
            raise ExtractError('field type %s' % elt.elts[1].id)
        out.append('{| r_name := %s; r_kind := %s; r_width := %d |}' % (coq_str(elt.elts[0].value), kind, int(elt.elts[2].value)))
    return '[' + ';\n    '.join(out) + ']'


@extractor
def formats(repo):
    pdb = ast.parse(open(os.path.join(repo, 'vermouth', 'pdb', 'pdb.py')).read())
    w = _find_func(pdb, 'write_pdb_string')
    atom_fmt = _assigned_const(w, 'format_string', lambda v: isinstance(v, str) and v.startswith('ATOM'))
    number_fmt = _assigned_const(w, 'number_fmt')
    ter = [n.args[0].value for n in ast.walk(w) if isinstance(n, ast.Call) and _call_name(n) == 'format' and n.args
           and isinstance(n.args[0], ast.Constant) and isinstance(n.args[0].value, str) and n.args[0].value.startswith('TER')]
    if len(ter) != 1:
        raise ExtractError('TER format')
    # fmt = 'CONECT' + number_fmt*(len(current) + 1)
    conect = [n.value for n in ast.walk(w) if isinstance(n, ast.Assign) and isinstance(n.targets[0], ast.Name)
              and n.targets[0].id == 'fmt']
    if not (len(conect) == 1 and isinstance(conect[0], ast.BinOp) and isinstance(conect[0].op, ast.Add)
            and isinstance(conect[0].left, ast.Constant) and isinstance(conect[0].right, ast.BinOp)
            and isinstance(conect[0].right.op, ast.Mult) and isinstance(conect[0].right.left, ast.Name)
            and conect[0].right.left.id == 'number_fmt'):
        raise ExtractError('CONECT format expression')
    conect_prefix = conect[0].left.value
    # current, todo = todo[:4], todo[4:]
    chunk = [n for n in ast.walk(w) if isinstance(n, ast.Subscript) and isinstance(n.value, ast.Name) and n.value.id == 'todo'
             and isinstance(n.slice, ast.Slice) and n.slice.lower is None and isinstance(n.slice.upper, ast.Constant)]
    if len(chunk) != 1:
        raise ExtractError('CONECT chunk size')
    chunk = int(chunk[0].slice.upper.value)
    end = [n.args[0].value for n in ast.walk(w) if isinstance(n, ast.Call) and _call_name(n) == 'append' and n.args
           and isinstance(n.args[0], ast.Constant) and isinstance(n.args[0].value, str) and n.args[0].value.startswith('END')]
    def fmt_args(func, fmtvar):
        calls = [n for n in ast.walk(func) if isinstance(n, ast.Call) and _call_name(n) == 'format' and n.args
                 and isinstance(n.args[0], ast.Name) and n.args[0].id == fmtvar]
        if len(calls) != 1 or not all(isinstance(a, ast.Name) for a in calls[0].args[1:]):
            raise ExtractError('format call on %s' % fmtvar)
        return [a.id for a in calls[0].args[1:]]
    atom_args = fmt_args(w, 'format_string')
    ratom = _rfields(_find_func(pdb, '_atom', 'PDBParser'))
    dc = _find_func(pdb, 'do_conect', 'PDBParser')
    cstart, cwidth = int(_assigned_const(dc, 'start')), int(_assigned_const(dc, 'width'))
    gro = ast.parse(open(os.path.join(repo, 'vermouth', 'gmx', 'gro.py')).read())
    gw = _find_func(gro, 'write_gro')
    names = [a.arg for a in gw.args.args]
    defaults = dict(zip(names[len(names) - len(gw.args.defaults):], gw.args.defaults))
    if not isinstance(defaults.get('precision'), ast.Constant):
        raise ExtractError('write_gro precision default')
    precision = int(defaults['precision'].value)
    # pos_format_string = '{{:{ntx}.3ft}}'.format(ntx=precision + 1)
    pos = [n.value for n in ast.walk(gw) if isinstance(n, ast.Assign) and isinstance(n.targets[0], ast.Name)
           and n.targets[0].id == 'pos_format_string']
    if not (len(pos) == 1 and isinstance(pos[0], ast.Call) and isinstance(pos[0].func, ast.Attribute) and pos[0].func.attr == 'format'
            and isinstance(pos[0].func.value, ast.Constant) and len(pos[0].keywords) == 1 and pos[0].keywords[0].arg == 'ntx'
            and isinstance(pos[0].keywords[0].value, ast.BinOp) and isinstance(pos[0].keywords[0].value.op, ast.Add)
            and isinstance(pos[0].keywords[0].value.left, ast.Name) and pos[0].keywords[0].value.left.id == 'precision'
            and isinstance(pos[0].keywords[0].value.right, ast.Constant)):
        raise ExtractError('pos_format_string expression')
    pos_fmt = pos[0].func.value.value.format(ntx=precision + int(pos[0].keywords[0].value.right.value))
    fs = [n.value for n in ast.walk(gw) if isinstance(n, ast.Assign) and isinstance(n.targets[0], ast.Name)
          and n.targets[0].id == 'format_string']
    if not (len(fs) == 1 and isinstance(fs[0], ast.BinOp) and isinstance(fs[0].op, ast.Add) and isinstance(fs[0].left, ast.Constant)
            and isinstance(fs[0].right, ast.BinOp) and isinstance(fs[0].right.op, ast.Mult)
            and isinstance(fs[0].right.left, ast.Name) and fs[0].right.left.id == 'pos_format_string'
            and isinstance(fs[0].right.right, ast.Constant)):
        raise ExtractError('gro format_string expression')
    gro_fmt = fs[0].left.value + pos_fmt * int(fs[0].right.right.value)
    gro_args = fmt_args(gw, 'format_string')
    gr = _find_func(gro, 'read_gro')

    def lst(var):
        l = [n.value for n in ast.walk(gr) if isinstance(n, ast.Assign) and isinstance(n.targets[0], ast.Name)
             and n.targets[0].id == var and isinstance(n.value, ast.List)]
        if len(l) != 1:
            raise ExtractError('read_gro ' + var)
        return l[0].elts
    types = [e.id for e in lst('field_types')]
    fnames = [e.value for e in lst('field_names')]
    widths = [int(e.value) for e in lst('field_widths')]
    if len(types) != len(fnames) or len(widths) > len(types):
        raise ExtractError('read_gro tables')
    rg = []
    for i, (t, nme) in enumerate(zip(types, fnames)):
        kind = {'str': 'RStr', 'int': 'RInt', 'float': 'RFloat'}[t]
        wd = widths[i] if i < len(widths) else 0      # 0: width = detected precision
        rg.append('{| r_name := %s; r_kind := %s; r_width := %d |}' % (coq_str(nme), kind, wd))
    text = ['(* GENERATED by vlib/extract.py from /repo: do not edit *)',
            'From Coq Require Import List String Ascii ZArith.', 'From V Require Import C16.Model.', 'Import ListNotations.',
            'Definition pdb_atom_w : list chunk :=\n   %s.' % _chunks(atom_fmt),
            'Definition pdb_ter_w : list chunk :=\n   %s.' % _chunks(ter[0]),
            'Definition pdb_conect_prefix : txt := s2l %s.' % coq_str(conect_prefix),
            'Definition pdb_conect_num : list chunk :=\n   %s.' % _chunks(number_fmt),
            'Definition pdb_conect_chunk : nat := %d.' % chunk,
            'Definition pdb_end : txt := s2l %s.' % coq_str(end[0] if len(end) == 1 else '?'),
            'Definition pdb_atom_r : list rfield :=\n   %s.' % ratom,
            'Definition pdb_conect_start : nat := %d.' % cstart,
            'Definition pdb_conect_width : nat := %d.' % cwidth,
            'Definition gro_atom_w : list chunk :=\n   %s.' % _chunks(gro_fmt),
            'Definition gro_atom_r : list rfield :=\n   [%s].' % ';\n    '.join(rg),
            'Definition pdb_atom_args : list string := [%s].' % '; '.join(coq_str(a) for a in atom_args),
            'Definition gro_atom_args : list string := [%s].' % '; '.join(coq_str(a) for a in gro_args)]
    return 'Formats.v', '\n'.join(text) + '\n'


# ---------------------------------------------------------------------------
# C17: DSSP -> Martini tables
@extractor
def dssp_tables(repo):
    tree = ast.parse(open(os.path.join(repo, 'vermouth', 'dssp', 'dssp.py')).read())
    ss = [n.value for n in tree.body if isinstance(n, ast.Assign) and len(n.targets) == 1
          and isinstance(n.targets[0], ast.Name) and n.targets[0].id == 'SS_CG']
    if len(ss) != 1 or not isinstance(ss[0], ast.Dict):
        raise ExtractError('SS_CG')
    table = []
    for k, v in zip(ss[0].keys, ss[0].values):
        a, b = _const_str(k), _const_str(v)
        if a is None or b is None or len(a) != 1 or len(b) != 1:
            raise ExtractError('SS_CG entry')
        table.append((a, b))
    f = _find_func(tree, 'convert_dssp_to_martini')
    pats = [n.value for n in ast.walk(f) if isinstance(n, ast.Assign) and isinstance(n.targets[0], ast.Name)
            and n.targets[0].id == 'patterns']
    if not (len(pats) == 1 and isinstance(pats[0], ast.Call) and _call_name(pats[0]) == 'OrderedDict'
            and len(pats[0].args) == 1 and isinstance(pats[0].args[0], ast.List)):
        raise ExtractError('patterns')
    patterns = []
    for elt in pats[0].args[0].elts:
        if not (isinstance(elt, ast.Tuple) and len(elt.elts) == 2):
            raise ExtractError('pattern tuple')
        p, r = _const_str(elt.elts[0]), _const_str(elt.elts[1])
        if p is None or r is None:
            raise ExtractError('pattern literal')
        patterns.append((p, r))
    # the literals of the wildcard construction: 'H' if x == 'H' else '.', and the flanking '.'
    consts = sorted({n.value for n in ast.walk(f) if isinstance(n, ast.Constant) and isinstance(n.value, str) and len(n.value) == 1})
    if consts != ['.', 'H']:
        raise ExtractError('wildcard literals %r' % consts)
    text = ['(* GENERATED by vlib/extract.py from /repo: do not edit *)',
            'From Coq Require Import List String Ascii.', 'Import ListNotations.',
            'Definition ss_cg : list (ascii * ascii) := [%s].' % '; '.join('(%s, %s)' % (_coq_char(a), _coq_char(b)) for a, b in table),
            'Definition helix_patterns : list (string * string) := [%s].' % '; '.join('(%s, %s)' % (coq_str(p), coq_str(r)) for p, r in patterns)]
    return 'Dssp.v', '\n'.join(text) + '\n'


# ---------------------------------------------------------------------------
# C10: van der Waals radii
@extractor
def vdw_radii(repo):
    from fractions import Fraction
    tree = ast.parse(open(os.path.join(repo, 'vermouth', 'processors', 'make_bonds.py')).read())
    d = [n.value for n in tree.body if isinstance(n, ast.Assign) and len(n.targets) == 1
         and isinstance(n.targets[0], ast.Name) and n.targets[0].id == 'VDW_RADII']
    if len(d) != 1 or not isinstance(d[0], ast.Dict):
        raise ExtractError('VDW_RADII')
    items = []
    for k, v in zip(d[0].keys, d[0].values):
        name = _const_str(k)
        if name is None or not isinstance(v, ast.Constant) or not isinstance(v.value, (int, float)):
            raise ExtractError('VDW_RADII entry')
        fr = Fraction(repr(v.value))
        items.append('(%s, %d # %d)' % (coq_str(name), fr.numerator, fr.denominator))
    text = ['(* GENERATED by vlib/extract.py from /repo: do not edit *)',
            'From Coq Require Import List String QArith.', 'Import ListNotations.',
            'Definition vdw_radii : list (string * Q) := [%s].' % ';\n  '.join(items)]
    return 'Radii.v', '\n'.join(text) + '\n'


# ---------------------------------------------------------------------------
# C13: registered section paths and context-opening headers of the force-field reader
def _section_paths(cls_node):
    paths = []
    for f in cls_node.body:
        if isinstance(f, ast.FunctionDef):
            for dec in f.decorator_list:
                if isinstance(dec, ast.Call) and isinstance(dec.func, ast.Attribute) and dec.func.attr == 'section_parser':
                    names = []
                    for a in dec.args:
                        v = _const_str(a)
                        if v is None:
                            raise ExtractError('non-literal section name in %s' % f.name)
                        names.append(v)
                    ctx = [_const_str(k.value) for k in dec.keywords if k.arg == 'context_type']
                    paths.append((tuple(names), f.name, ctx[0] if ctx else ''))
    return paths


@extractor
def ff_sections(repo):
    tree = ast.parse(open(os.path.join(repo, 'vermouth', 'ffinput.py')).read())
    cls = [n for n in tree.body if isinstance(n, ast.ClassDef) and n.name == 'FFDirector']
    if len(cls) != 1:
        raise ExtractError('FFDirector')
    paths = _section_paths(cls[0])
    base = ast.parse(open(os.path.join(repo, 'vermouth', 'parser_utils.py')).read())
    bcls = [n for n in base.body if isinstance(n, ast.ClassDef) and n.name == 'SectionLineParser']
    paths += _section_paths(bcls[0])
    init = [f for f in cls[0].body if isinstance(f, ast.FunctionDef) and f.name == '__init__'][0]
    acts = [n.value for n in ast.walk(init) if isinstance(n, ast.Assign) and isinstance(n.targets[0], ast.Attribute)
            and n.targets[0].attr == 'header_actions']
    if len(acts) != 1 or not isinstance(acts[0], ast.Dict):
        raise ExtractError('header_actions')
    actions = []
    for k, v in zip(acts[0].keys, acts[0].values):
        if not (isinstance(k, ast.Tuple) and all(_const_str(e) is not None for e in k.elts) and isinstance(v, ast.Attribute)):
            raise ExtractError('header_actions entry')
        actions.append((tuple(_const_str(e) for e in k.elts), v.attr))
    nat = [n.value for n in cls[0].body if isinstance(n, ast.Assign) and isinstance(n.targets[0], ast.Name)
           and n.targets[0].id == 'interactions_natoms']
    if len(nat) != 1 or not isinstance(nat[0], ast.Dict):
        raise ExtractError('interactions_natoms')
    natoms = [(_const_str(k), int(v.value)) for k, v in zip(nat[0].keys, nat[0].values)]

    def path_lit(p):
        return '[%s]' % '; '.join(coq_str(x) for x in p)
    text = ['(* GENERATED by vlib/extract.py from /repo: do not edit *)',
            'From Coq Require Import List String NArith.', 'Import ListNotations.',
            'Definition ff_sections : list (list string * string * string) := [',
            ';\n'.join('  (%s, %s, %s)' % (path_lit(p), coq_str(f), coq_str(c)) for p, f, c in sorted(set(paths)))
            , '].',
            'Definition ff_header_actions : list (list string * string) := [%s].' % '; '.join(
                '(%s, %s)' % (path_lit(p), coq_str(a)) for p, a in actions),
            'Definition ff_natoms : list (string * N) := [%s].' % '; '.join('(%s, %d%%N)' % (coq_str(k), v) for k, v in natoms)]
    return 'FFSections.v', '\n'.join(text) + '\n'
