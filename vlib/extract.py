"""Fail-closed translator: reads literals (tables, format strings, field widths,
call sites) from /repo's Python source with `ast` and regenerates
coq/Extracted/*.v.  A file is only rewritten when its content changes, so that
`make` rebuilds exactly what depends on a changed literal."""
import ast
import os


class ExtractError(Exception):
    pass


def write_if_changed(path, text):
    old = None
    if os.path.exists(path):
        old = open(path).read()
    if old != text:
        with open(path, 'w') as f:
            f.write(text)
        return True
    return False


EXTRACTORS = []


def extractor(fn):
    EXTRACTORS.append(fn)
    return fn


def run(repo, outdir):
    os.makedirs(outdir, exist_ok=True)
    results = []
    for fn in EXTRACTORS:
        name = fn.__name__
        try:
            fname, text = fn(repo)
            write_if_changed(os.path.join(outdir, fname), text)
            results.append((name, True, fname))
        except Exception as e:  # pylint: disable=broad-except
            results.append((name, False, repr(e)[:400]))
    return results


def coq_str(s):
    assert all(32 <= ord(ch) <= 126 for ch in s), s
    return '"%s"%%string' % s.replace('"', '""')


def _py_files(repo, sub='vermouth'):
    out = []
    for root, dirs, files in os.walk(os.path.join(repo, sub)):
        dirs[:] = [d for d in dirs if d not in ('tests', '__pycache__', 'data')]
        for fn in sorted(files):
            if fn.endswith('.py'):
                out.append(os.path.join(root, fn))
    return sorted(out)


def _const_str(node):
    if isinstance(node, ast.Constant) and isinstance(node.value, str):
        return node.value
    return None


def _call_name(call):
    f = call.func
    if isinstance(f, ast.Name):
        return f.id
    if isinstance(f, ast.Attribute):
        return f.attr
    return None


def _mode_of(call, name):
    """Mode literal of an open-like call; 'r' when absent; ExtractError if not a literal."""
    for kw in call.keywords:
        if kw.arg == 'mode':
            m = _const_str(kw.value)
            if m is None:
                raise ExtractError('non-literal mode at line %d' % call.lineno)
            return m
    if len(call.args) >= 2:
        m = _const_str(call.args[1])
        if m is None:
            raise ExtractError('non-literal mode at line %d' % call.lineno)
        return m
    return 'r'


@extractor
def write_sites(repo):
    """Every call in vermouth/**.py (tests and file_writer.py itself excluded) that opens a file
    for writing, classified by how it reaches the disk; plus the default of every
    `defer_writing` parameter and every call in bin/martinize2 passing defer_writing."""
    sites = []
    defaults = []
    for path in _py_files(repo):
        rel = os.path.relpath(path, repo)
        if rel == os.path.join('vermouth', 'file_writer.py'):
            continue
        tree = ast.parse(open(path).read())
        funcs = [n for n in ast.walk(tree) if isinstance(n, (ast.FunctionDef, ast.AsyncFunctionDef))]
        covered = set()
        scopes = [(f.name, f) for f in funcs] + [('<module>', tree)]
        for fname, fnode in scopes:
            if fname != '<module>':
                args = fnode.args
                names = [a.arg for a in args.args]
                defs = [None] * (len(names) - len(args.defaults)) + list(args.defaults)
                for n, d in zip(names, defs):
                    if n == 'defer_writing':
                        if not (isinstance(d, ast.Constant) and isinstance(d.value, bool)):
                            raise ExtractError('defer_writing default not a bool literal in %s:%s' % (rel, fname))
                        defaults.append((rel, fname, d.value))
                for n, d in zip([a.arg for a in args.kwonlyargs], args.kw_defaults):
                    if n == 'defer_writing':
                        defaults.append((rel, fname, bool(getattr(d, 'value', False))))
            gated = False
            scratch = False
            for n in ast.walk(fnode):
                if isinstance(n, ast.If) and isinstance(n.test, ast.Name) and n.test.id == 'defer_writing':
                    for st in n.body:
                        if (isinstance(st, ast.Assign) and len(st.targets) == 1 and isinstance(st.targets[0], ast.Name)
                                and st.targets[0].id == 'open' and isinstance(st.value, ast.Name)
                                and st.value.id == 'deferred_open'):
                            gated = True
                if isinstance(n, ast.Call) and _call_name(n) == 'mkstemp':
                    kws = {kw.arg: _const_str(kw.value) for kw in n.keywords}
                    if kws.get('prefix') == 'dssp_in_' and kws.get('dir') == '.':
                        scratch = True
            for n in ast.walk(fnode):
                if not isinstance(n, ast.Call) or id(n) in covered:
                    continue
                cname = _call_name(n)
                if cname not in ('open', '_open', 'deferred_open', 'fdopen'):
                    continue
                if fname == '<module>' and any(id(n) in {id(x) for x in ast.walk(f)} for f in funcs):
                    continue
                covered.add(id(n))
                mode = _mode_of(n, cname)
                if not any(ch in mode for ch in 'wax+'):
                    continue
                if cname == 'deferred_open':
                    kind = 'Deferred'
                elif cname == 'open' and gated:
                    kind = 'Gated'
                elif cname == 'fdopen' and scratch:
                    kind = 'DsspScratch'
                else:
                    kind = 'Plain'
                sites.append((rel, fname, n.lineno, kind))
    # nested functions are walked by their parents too: deduplicate on (file, line)
    seen = {}
    for rel, fname, line, kind in sites:
        key = (rel, line)
        if key not in seen or kind != 'Plain':
            seen[key] = (rel, fname, line, kind)
    sites = sorted(seen.values())
    # the CLI: calls that switch deferral off
    cli = os.path.join(repo, 'bin', 'martinize2')
    tree = ast.parse(open(cli).read())
    off = []
    for f in [n for n in ast.walk(tree) if isinstance(n, ast.FunctionDef)]:
        for n in ast.walk(f):
            if isinstance(n, ast.Call):
                for kw in n.keywords:
                    if kw.arg == 'defer_writing':
                        if not isinstance(kw.value, ast.Constant):
                            raise ExtractError('non-literal defer_writing in CLI line %d' % n.lineno)
                        if kw.value.value is not True:
                            # which debug option guards it: nearest enclosing `if write_X is not None`
                            guard = ''
                            for g in ast.walk(f):
                                if isinstance(g, ast.If) and any(x is n for x in ast.walk(g)):
                                    t = g.test
                                    if (isinstance(t, ast.Compare) and isinstance(t.left, ast.Name)
                                            and len(t.ops) == 1 and isinstance(t.ops[0], ast.IsNot)):
                                        guard = t.left.id
                            off.append((f.name, n.lineno, guard))
    text = ['(* GENERATED by vlib/extract.py from /repo: do not edit *)',
            'From Coq Require Import List String NArith Bool.', 'Import ListNotations.',
            'Inductive site_kind := Deferred | Gated | DsspScratch | Plain.',
            'Definition write_sites : list (string * string * N * site_kind) := [']
    text.append(';\n'.join('  (%s, %s, %d%%N, %s)' % (coq_str(r), coq_str(f), l, k) for r, f, l, k in sites))
    text.append('].')
    text.append('Definition defer_defaults : list (string * string * bool) := [')
    text.append(';\n'.join('  (%s, %s, %s)' % (coq_str(r), coq_str(f), 'true' if v else 'false') for r, f, v in defaults))
    text.append('].')
    text.append('Definition cli_undeferred : list (string * N * string) := [')
    text.append(';\n'.join('  (%s, %d%%N, %s)' % (coq_str(f), l, coq_str(g)) for f, l, g in off))
    text.append('].')
    return 'WriteSites.v', '\n'.join(text) + '\n'
