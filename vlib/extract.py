"""Fail-closed translator: reads literals (tables, format strings, field widths,
call sites) from /repo's Python source with `ast` and regenerates
coq/Extracted/*.v.  A file is only rewritten when its content changes, so that
`make` rebuilds exactly what depends on a changed literal."""
import ast
import os


class ExtractError(Exception):
    pass


def write_if_changed(path, text):
    old = None
    if os.path.exists(path):
        old = open(path).read()
    if old != text:
        with open(path, 'w') as f:
            f.write(text)
        return True
    return False


EXTRACTORS = []


def extractor(fn):
    EXTRACTORS.append(fn)
    return fn


def run(repo, outdir):
    os.makedirs(outdir, exist_ok=True)
    results = []
    for fn in EXTRACTORS:
        name = fn.__name__
        try:
            fname, text = fn(repo)
            write_if_changed(os.path.join(outdir, fname), text)
            results.append((name, True, fname))
        except Exception as e:  # pylint: disable=broad-except
            results.append((name, False, repr(e)[:400]))
    return results
