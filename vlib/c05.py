"""C05 — links are applied at exactly the places where they fit (processors/do_links.py, molecule.py)."""
import math

from .common import zlit, natlit, optlit, listlit, blit

ID = 'C05'
COQ_TARGETS = ['C05/Props.vo', 'C05/Corr.vo']
PROPS = 'C05/Props.v'
EXTRACTED = []
CASE_IMPORTS = 'From V Require Import C05.Model C05.Corr.'
RULE = ('(order) all pairs of orders in {-2..2, >, >>, >>>, <, <<, *, **, ***} x residue numbers in a window plus random; '
        '(match) molecules of 2-8 beads: numbering with gaps, repeats and non-monotone residue numbers, chains with random '
        'extra bonds (branches, rings, cross-links), optional node attributes; links of 1-4 atoms, 70% derived from a connected '
        'piece of the molecule and then perturbed (one order, one attribute, one bond or absent bond), 30% random; features: '
        'integer / > < / * orders, Choice and NotDefinedOrNot attributes, the modifications attribute (absent / list / value / Choice / NotDefinedOrNot against atoms with 0-2 modification names), non-edges, patterns, molecule meta; real match_link, '
        'compared as a set of placements; (apply) 1-4 links in order with interactions (one per type per link), versioned '
        'interactions, removals by atoms / parameters / atom attributes / meta, attribute replacement, node removal, '
        'geometry-derived parameters (distance, angle) recomputed independently from the matched atoms; real '
        'DoLinks.run_molecule, interactions compared as multisets per type; shipped data: peptides of 2-5 residues built from the '
        'shipped charmm blocks, mapped to martini3001 with the shipped mappings, random secondary structure / scfix / extdih / '
        'idr flags, all 39 shipped martini3001 links applied by the real DoLinks and by the model (pruned enumeration, proved '
        'equivalent). non-trivial = a match case with at least one '
        'placement and at least one rejected injective assignment whose atoms all match, or an apply case where something '
        'was added and something overridden or removed; distinct by input')
ASSUMPTIONS = ['node attributes are plain values',
               'within one link at most one interaction per type; a link\'s replacements never touch attributes its own templates test '
               '(networkx enumerates placements lazily while the molecule is being edited)',
               'the order in which networkx reports placements is not modelled: results are compared as sets / multisets']
TRUSTED = ['networkx VF2 GraphMatcher (replaced in the model by an exhaustive enumeration; agreement is what the correspondence checks)',
           'numpy for geometry-derived parameters (recomputed with math.* in the harness, tolerance 1e-9)']

ATOMNAMES = {1: 'BB', 2: 'SC1', 3: 'SC2'}
RESNAMES = {1: 'ALA', 2: 'GLY', 3: 'LYS'}
KEYNAME = {1: 'atomname', 2: 'resname', 3: 'tag', 4: 'mark', 5: 'mflag', 6: 'comment', 0: 'version'}
TYPES = {1: 'bonds', 2: 'angles', 3: 'dihedrals', 4: 'constraints'}
TYPE_CODE = {v: k for k, v in TYPES.items()}
GEOM_BASE = 9000


def val(k, v):
    if k == 1:
        return ATOMNAMES[v]
    if k == 2:
        return RESNAMES[v]
    if k == 0:
        return v
    return 'v%d' % v


def unval(k, s):
    if k == 1:
        return {v: c for c, v in ATOMNAMES.items()}[s]
    if k == 2:
        return {v: c for c, v in RESNAMES.items()}[s]
    if k == 0:
        return int(s)
    return int(s[1:])


ORDERS = [['n', -2], ['n', -1], ['n', 0], ['n', 1], ['n', 2], ['a', 1], ['a', 2], ['a', 3], ['a', -1], ['a', -2], ['s', 1], ['s', 2], ['s', 3]]


def py_order(o):
    if o[0] == 'n':
        return o[1]
    if o[0] == 'a':
        return '>' * o[1] if o[1] > 0 else '<' * (-o[1])
    return '*' * o[1]


def order_lit(o):
    return '(%s %s)' % ({'n': 'ONum', 'a': 'OAngle', 's': 'OStar'}[o[0]], zlit(o[1]))


# ---------------------------------------------------------------- generation
def gen_mol(rng):
    n = rng.randint(2, 8)
    nodes = []
    resid = rng.choice([1, 1, 5, -2])
    style = rng.random()
    for k in range(n):
        if k:
            if style < 0.6:
                resid += rng.choice([0, 1, 1, 1, 2])
            elif style < 0.85:
                resid += rng.choice([0, 1, 1, 3, -1])
            else:
                resid = rng.randint(1, 4)
        at = {1: rng.choice([1, 1, 1, 2, 3]), 2: rng.choice([1, 1, 2, 3])}
        if rng.random() < 0.3:
            at[3] = rng.randint(1, 2)
        mods = rng.choice([[], [], [], [], [1], [2], [1, 2], [3]])
        nodes.append({'key': k, 'resid': resid, 'attrs': at, 'mods': mods, 'pos': [round(rng.uniform(-1, 1), 3) for _ in range(3)]})
    edges = []
    for k in range(1, n):
        if rng.random() < 0.9:
            edges.append([rng.choice([k - 1, k - 1, k - 1, rng.randrange(k)]), k])
    for _ in range(rng.choice([0, 0, 1, 1, 2, 3])):
        u, v = rng.sample(range(n), 2)
        if [u, v] not in edges and [v, u] not in edges:
            edges.append([u, v])
    meta = {5: rng.randint(1, 2)} if rng.random() < 0.4 else {}
    return {'nodes': nodes, 'edges': edges, 'meta': meta, 'inters': {}}


def _has_edge(edges, u, v):
    return [u, v] in edges or [v, u] in edges


def gen_link(rng, mol, base=100):
    nodes = mol['nodes']
    n = len(nodes)
    k = min(n, rng.choice([1, 2, 2, 3, 3, 4]))
    link = {'nodes': [], 'edges': [], 'non_edges': [], 'patterns': [], 'molmeta': {}, 'inters': [], 'removed': []}
    if rng.random() < 0.7:
        # derive from a connected piece of the molecule
        start = rng.randrange(n)
        piece = [start]
        while len(piece) < k:
            cand = [v for e in mol['edges'] for u, v in (e, e[::-1]) if u in piece and v not in piece]
            if not cand:
                break
            piece.append(rng.choice(cand))
        anchor = nodes[piece[0]]['resid']
        mode = rng.choice(['n', 'n', 'a', 's'])
        resids = sorted({nodes[p]['resid'] for p in piece})
        for i, p in enumerate(piece):
            d = nodes[p]['resid'] - anchor
            if mode == 'n' or d == 0:
                o = ['n', d]
            elif mode == 'a':
                o = ['a', d] if abs(d) <= 3 else ['n', d]
                # '>' runs compare by length only among themselves; against 0 only the sign counts
                o = ['a', max(-3, min(3, d))]
            else:
                o = ['s', 1 + resids.index(nodes[p]['resid']) % 3]
            t = {}
            for key in (1, 2, 3):
                if key in nodes[p]['attrs'] and rng.random() < (0.9 if key == 1 else 0.3):
                    v = nodes[p]['attrs'][key]
                    r = rng.random()
                    t[key] = ['eq', v] if r < 0.6 else (['choice', sorted({v, rng.randint(1, 3)})] if r < 0.85 else ['not', rng.choice([x for x in (1, 2, 3) if x != v])])
                elif key == 3 and rng.random() < 0.15:
                    t[key] = ['not', rng.randint(1, 2)]
            if rng.random() < 0.25:
                m = nodes[p].get('mods', [])
                r = rng.random()
                if r < 0.4:
                    t[7] = ['list', list(m) if rng.random() < 0.7 else list(m)[::-1] + ([1] if rng.random() < 0.3 else [])]
                elif r < 0.6:
                    t[7] = ['eq', m[0] if m else rng.randint(1, 3)]
                elif r < 0.8:
                    t[7] = ['choice', sorted(set(m) | {rng.randint(1, 3)})]
                else:
                    t[7] = ['not', rng.randint(1, 3)]
            link['nodes'].append({'key': base + i, 'order': o, 'tmpl': t, 'replace': None})
        for i, p in enumerate(piece):
            for j, q in enumerate(piece):
                if i < j and _has_edge(mol['edges'], p, q):
                    link['edges'].append([base + i, base + j])
        # perturb
        r = rng.random()
        if r < 0.12 and link['nodes']:
            rng.choice(link['nodes'])['order'] = rng.choice(ORDERS)
        elif r < 0.2 and link['edges']:
            link['edges'].remove(rng.choice(link['edges']))
        elif r < 0.28 and len(link['nodes']) >= 2:
            a, b = rng.sample([x['key'] for x in link['nodes']], 2)
            if not _has_edge(link['edges'], a, b):
                link['edges'].append([a, b])
    else:
        for i in range(k):
            t = {1: ['eq', rng.choice([1, 1, 2])]} if rng.random() < 0.8 else {}
            if rng.random() < 0.2:
                t[2] = rng.choice([['eq', rng.randint(1, 3)], ['choice', [1, 2]], ['not', 1]])
            link['nodes'].append({'key': base + i, 'order': rng.choice(ORDERS), 'tmpl': t, 'replace': None})
        for i in range(1, k):
            if rng.random() < 0.85:
                link['edges'].append([base + rng.randrange(i), base + i])
    keys = [x['key'] for x in link['nodes']]
    if rng.random() < 0.25:
        t = {1: ['eq', rng.choice([1, 2, 3])]} if rng.random() < 0.8 else {}
        link['non_edges'].append([rng.choice(keys + [base + 50]), [rng.choice([['n', 0], ['n', 1], ['n', -1]]), t]])
    if rng.random() < 0.2:
        for _ in range(rng.randint(1, 2)):
            link['patterns'].append([[rng.choice(keys), {rng.choice([1, 2]): ['eq', rng.randint(1, 2)]}] for _ in range(rng.randint(1, 2))])
    if rng.random() < 0.2:
        link['molmeta'] = {5: rng.choice([['eq', 1], ['eq', 2], ['not', 1], ['choice', [1, 2]]])}
    return link


def add_interactions(rng, link, pcode):
    keys = [x['key'] for x in link['nodes']]
    for t in rng.sample([1, 2, 3, 4], rng.choice([0, 1, 1, 2])):
        arity = {1: 2, 2: 3, 3: 4, 4: 2}[t]
        if len(keys) < 1:
            continue
        atoms = [rng.choice(keys) for _ in range(arity)] if len(keys) < arity else rng.sample(keys, arity)
        params = [next(pcode)] if rng.random() < 0.8 else []
        if arity == 2 and atoms[0] != atoms[1] and rng.random() < 0.3:
            params = [GEOM_BASE + 2] + params           # distance between the two atoms
        elif arity == 3 and len(set(atoms)) == 3 and rng.random() < 0.3:
            params = params + [GEOM_BASE + 3]           # angle between the three atoms
        meta = {}
        if rng.random() < 0.25:
            meta[0] = rng.randint(1, 2)
        if rng.random() < 0.2:
            meta[6] = rng.randint(1, 3)
        link['inters'].append([t, {'atoms': atoms, 'params': params, 'meta': meta}])


def gen_apply(rng):
    mol = gen_mol(rng)
    n = len(mol['nodes'])
    counter = iter(range(1, 10 ** 6))
    # pre-existing interactions with distinct (atoms, version)
    seen = set()
    for _ in range(rng.choice([0, 1, 2, 4])):
        t = rng.choice([1, 2])
        arity = {1: 2, 2: 3}[t]
        if n < arity:
            continue
        atoms = rng.sample(range(n), arity)
        meta = {0: rng.randint(1, 2)} if rng.random() < 0.3 else {}
        ident = (t, tuple(atoms), meta.get(0, 0))
        if ident in seen:
            continue
        seen.add(ident)
        mol['inters'].setdefault(t, []).append({'atoms': atoms, 'params': [next(counter)], 'meta': meta})
    links = []
    for li in range(rng.randint(1, 4)):
        if links and rng.random() < 0.35:
            # the same shape again: a later link that overrides the earlier one
            import copy
            link = copy.deepcopy(rng.choice(links))
            link['inters'] = []
            link['removed'] = []
            for x in link['nodes']:
                x['replace'] = None
            prev = links[-1]
            for t, i in prev['inters']:
                if rng.random() < 0.8 and all(a in [x['key'] for x in link['nodes']] for a in i['atoms']) and t not in [q[0] for q in link['inters']]:
                    link['inters'].append([t, {'atoms': list(i['atoms']), 'params': [next(counter)], 'meta': dict(i['meta']) if rng.random() < 0.8 else {}}])
            if not link['inters']:
                add_interactions(rng, link, counter)
        else:
            link = gen_link(rng, mol)
            add_interactions(rng, link, counter)
        keys = [x['key'] for x in link['nodes']]
        mode = rng.random()
        if mode < 0.25:
            # removals: designate by atoms, optionally params / atom attrs / meta
            own = {(t, frozenset(i['atoms'])) for t, i in link['inters']}
            for _ in range(rng.randint(1, 2)):
                t = rng.choice([1, 2])
                arity = {1: 2, 2: 3}[t]
                if len(keys) < arity:
                    continue
                atoms = rng.sample(keys, arity)
                if (t, frozenset(atoms)) in own or t in [q[0] for q in link['inters']]:
                    continue
                r = {'atoms': atoms, 'params': [], 'atom_tmpl': [{} for _ in atoms], 'meta': {}}
                if rng.random() < 0.3:
                    r['meta'] = {0: ['eq', rng.randint(1, 2)]}
                if rng.random() < 0.2:
                    r['atom_tmpl'][0] = {1: ['eq', rng.randint(1, 2)]}
                if rng.random() < 0.2:
                    r['params'] = [rng.randint(1, 6)]
                link['removed'].append([t, r])
        elif mode < 0.4 and link['nodes']:
            x = rng.choice(link['nodes'])
            # never touch what this link's own templates (nodes, non-edges, patterns) test: only the 'mark' attribute
            x['replace'] = [{4: rng.randint(1, 3)}, False]
        elif mode < 0.47 and link['nodes']:
            rng.choice(link['nodes'])['replace'] = [{}, True]
        links.append(link)
    # make removals hit something: existing interactions on the first placement-like atoms
    return {'kind': 'apply', 'mol': mol, 'links': links}


def gen_removal_case(rng):
    """A chain whose neighbouring beads carry several versions of a bond; a link designates one of them for removal."""
    n = rng.randint(2, 5)
    nodes = [{'key': k, 'resid': 1 + k + (2 if k > 2 and rng.random() < 0.3 else 0), 'attrs': {1: 1, 2: rng.choice([1, 2])},
              'pos': [round(rng.uniform(-1, 1), 3) for _ in range(3)]} for k in range(n)]
    edges = [[k - 1, k] for k in range(1, n)]
    counter = iter(range(1, 10 ** 6))
    inters = {1: []}
    for k in range(1, n):
        versions = rng.choice([[0], [1], [2], [0, 2], [1, 2], [2, 1], [0, 1, 2]])
        for v in versions:
            meta = {0: v} if v else {}
            if rng.random() < 0.3:
                meta[6] = rng.randint(1, 2)
            inters[1].append({'atoms': [k - 1, k], 'params': [next(counter)], 'meta': meta})
    mol = {'nodes': nodes, 'edges': edges, 'meta': {}, 'inters': inters}
    link = {'nodes': [{'key': 100, 'order': ['n', 0], 'tmpl': {1: ['eq', 1]}, 'replace': None},
                      {'key': 101, 'order': rng.choice([['n', 1], ['a', 1], ['s', 1]]), 'tmpl': {1: ['eq', 1]}, 'replace': None}],
            'edges': [[100, 101]], 'non_edges': [], 'patterns': [], 'molmeta': {}, 'inters': [], 'removed': []}
    r = {'atoms': [100, 101], 'params': [], 'atom_tmpl': [{}, {}], 'meta': {}}
    what = rng.random()
    if what < 0.6:
        r['meta'] = {0: ['eq', rng.randint(1, 2)]}
    elif what < 0.75:
        r['meta'] = {6: ['eq', rng.randint(1, 2)]}
    elif what < 0.85:
        r['atom_tmpl'][1] = {2: ['eq', rng.randint(1, 2)]}
    link['removed'].append([1, r])
    if rng.random() < 0.4:
        # the link that removes a bond also states its own bond on the same atoms: what it states must survive its own removal
        own_meta = {} if rng.random() < 0.6 else {0: rng.randint(1, 2)}
        link['inters'].append([1, {'atoms': [100, 101], 'params': [next(counter)], 'meta': own_meta}])
    links = [link]
    if rng.random() < 0.3:
        other = {'nodes': [dict(x) for x in link['nodes']], 'edges': [[100, 101]], 'non_edges': [], 'patterns': [], 'molmeta': {},
                 'inters': [[2 if rng.random() < 0.5 else 4, {'atoms': [100, 101, 100][:2], 'params': [next(counter)], 'meta': {}}]], 'removed': []}
        links.insert(rng.randrange(2), other)
    return {'kind': 'apply', 'mol': mol, 'links': links}


def gen_rename_case(rng):
    """A link that renames the residues it fits on (replace), followed by a link that asks for the NEW residue name: the later
    link has to see the molecule as the earlier one left it."""
    n = rng.randint(2, 5)
    old, new_ = rng.sample([1, 2, 3], 2)
    nodes = [{'key': k, 'resid': 1 + k, 'attrs': {1: 1, 2: old if rng.random() < 0.8 else rng.choice([1, 2, 3])},
              'pos': [round(rng.uniform(-1, 1), 3) for _ in range(3)]} for k in range(n)]
    edges = [[k - 1, k] for k in range(1, n)]
    mol = {'nodes': nodes, 'edges': edges, 'meta': {}, 'inters': {}}
    renamer = {'nodes': [{'key': 100, 'order': ['n', 0], 'tmpl': {2: ['eq', old]}, 'replace': [{2: new_}, False]}],
               'edges': [], 'non_edges': [], 'patterns': [], 'molmeta': {}, 'inters': [], 'removed': []}
    user = {'nodes': [{'key': 100, 'order': ['n', 0], 'tmpl': {2: ['eq', new_]}, 'replace': None},
                      {'key': 101, 'order': ['n', 1], 'tmpl': {2: ['eq', rng.choice([new_, new_, old])]}, 'replace': None}],
            'edges': [[100, 101]], 'non_edges': [], 'patterns': [], 'molmeta': {},
            'inters': [[1, {'atoms': [100, 101], 'params': [rng.randint(1, 99)], 'meta': {}}]], 'removed': []}
    links = [renamer, user] if rng.random() < 0.8 else [user, renamer]
    return {'kind': 'apply', 'mol': mol, 'links': links}


# ---------------------------------------------------------------- shipped data
def gen_real_case(rng):
    from . import c01
    seq = []
    for _ in range(rng.randint(2, 5)):
        seq.append(rng.choice(c01.REAL_RESIDUES))
    return {'kind': 'real', 'seq': seq, 'ss': [rng.choice('CCHHHESTF123') for _ in seq], 'first_resid': rng.choice([1, 1, 5]), 'gap': rng.random() < 0.25,
            'meta': {k: True for k in ('scfix', 'extdih', 'idr') if rng.random() < 0.5}, 'idr': rng.random() < 0.3,
            'seed': rng.randrange(10 ** 6), 'fast': True}


class _Codes:
    def __init__(self):
        self.d = {}

    def __call__(self, x):
        return self.d.setdefault(repr(x), len(self.d) + 1)


def run_real(inp):
    import random
    import numpy as np
    import vermouth.molecule as vm
    from vermouth.processors import do_mapping as dm, do_links
    from vermouth import geometry
    from . import c01
    env = c01.real_env()
    ff_from, ff_to = env['ffs']['charmm'], env['ffs']['martini3001']
    rng = random.Random(inp['seed'])
    mol = vm.Molecule(force_field=ff_from)
    key, resid, prevC = 0, inp['first_resid'], None
    for resname, ss in zip(inp['seq'], inp['ss']):
        block = ff_from.blocks[resname]
        local = {}
        for nme in block.nodes:
            key += 1
            attrs = dict(block.nodes[nme])
            attrs.update(resid=resid, chain='A', cgsecstruct=ss)
            if inp['idr']:
                attrs['cgidr'] = True
            mol.add_node(key, **attrs)
            local[nme] = key
        for u, v in block.edges:
            mol.add_edge(local[u], local[v])
        if prevC is not None and 'N' in local:
            mol.add_edge(prevC, local['N'])
        prevC = local.get('C')
        resid += 2 if inp['gap'] else 1
    cg = dm.do_mapping(mol, env['maps'], ff_to, attribute_keep=('cgsecstruct', 'chain', 'cgidr'), attribute_must=('resname',), attribute_stash=('resid',))
    for k in cg.nodes:
        cg.nodes[k]['position'] = np.array([round(rng.uniform(-2, 2), 3) for _ in range(3)])
    cg.meta.update(inp['meta'])
    links = list(ff_to.links)
    # ---- encode
    akey, aval, tcode, pcode, mkey, mval = _Codes(), _Codes(), _Codes(), _Codes(), _Codes(), _Codes()
    tmpl_keys = set()
    for l in links:
        for _, nd in l.nodes(data=True):
            tmpl_keys.update(k for k in nd if k not in ('order', 'replace', 'modifications'))
        for _, t in l.non_edges:
            tmpl_keys.update(k for k in t if k not in ('order', 'replace', 'modifications'))
        for pat in l.patterns:
            for _, t in pat:
                tmpl_keys.update(t)
    metakeys = set()
    for l in links:
        metakeys.update(l.molecule_meta)

    def enc_attrs(d, keys, kc, vc):
        return sorted((kc(k) + 10, vc(d[k])) for k in keys if k in d)

    def enc_meta(meta):
        out = []
        for k, v in meta.items():
            out.append((0, int(v)) if k == 'version' else (mkey(k) + 10, mval(v)))
        return sorted(out)

    def enc_tmpl(t):
        out = []
        for k, v in t.items():
            if k in ('order', 'replace'):
                continue
            if k == 'modifications':
                raise ValueError('modifications in a shipped link: not encoded')
            if isinstance(v, vm.Choice):
                out.append([akey(k) + 10, ['choice', [aval(x) for x in v.value]]])
            elif isinstance(v, vm.NotDefinedOrNot):
                out.append([akey(k) + 10, ['not', aval(v.value)]])
            elif isinstance(v, vm.LinkPredicate):
                raise ValueError('unknown predicate %r' % v)
            else:
                out.append([akey(k) + 10, ['eq', aval(v)]])
        return dict((k, p) for k, p in out)

    def enc_order(o):
        if isinstance(o, str):
            c = o[0]
            if len(set(o)) != 1 or c not in '><*':
                raise ValueError('order %r' % o)
            return ['a', len(o) if c == '>' else -len(o)] if c in '><' else ['s', len(o)]
        return ['n', int(o)]

    def enc_inters(interactions, amap=None):
        out = {}
        for t, lst in interactions.items():
            for i in lst:
                params = []
                for p in i.parameters:
                    params.append(GEOM_BASE + 4 if not isinstance(p, str) else pcode(p))
                out.setdefault(tcode(t), []).append({'atoms': [amap[a] if amap else a for a in i.atoms], 'params': params,
                                                     'meta': dict(enc_meta(i.meta))})
        return out

    m = {'nodes': [{'key': k, 'resid': cg.nodes[k]['resid'], 'attrs': dict(enc_attrs(cg.nodes[k], tmpl_keys, akey, aval)), 'mods': [],
                    'pos': [float(x) for x in cg.nodes[k]['position']]} for k in cg.nodes],
         'edges': [list(e) for e in cg.edges],
         'meta': dict((mkey(k) + 10, mval(v)) for k, v in cg.meta.items() if k in metakeys),
         'inters': enc_inters(cg.interactions)}
    enc_links = []
    for l in links:
        lk = {k: 100 + i for i, k in enumerate(l.nodes)}
        nodes = []
        for k, nd in l.nodes(data=True):
            rep = None
            if 'replace' in nd:
                r = nd['replace']
                rep = [{}, True] if r.get('atomname', False) is None else [dict(enc_attrs(r, r.keys(), akey, aval)), False]
            nodes.append({'key': lk[k], 'order': enc_order(nd.get('order', 0)), 'tmpl': enc_tmpl(nd), 'replace': rep})
        inters = []
        for t, lst in enc_inters(l.interactions, lk).items():
            inters += [[t, i] for i in lst]
        removed = []
        for t, lst in l.removed_interactions.items():
            for r in lst:
                removed.append([tcode(t), {'atoms': [lk[a] for a in r.atoms], 'params': [pcode(p) for p in r.parameters],
                                           'atom_tmpl': [enc_tmpl(a) for a in r.atom_attrs], 'meta': enc_tmpl(r.meta)}])
        enc_links.append({'nodes': nodes, 'edges': [[lk[u], lk[v]] for u, v in l.edges],
                          'non_edges': [[lk.get(f, 99), [enc_order(t.get('order', 0)), enc_tmpl(t)]] for f, t in l.non_edges],
                          'patterns': [[[lk[k], enc_tmpl(t)] for k, t in pat] for pat in l.patterns],
                          'molmeta': dict((mkey(k) + 10, ['eq', mval(v)]) for k, v in l.molecule_meta.items()),
                          'inters': inters, 'removed': removed})
    pos = {k: cg.nodes[k]['position'] for k in cg.nodes}
    do_links.DoLinks().run_molecule(cg)
    out_inters = {}
    for t, lst in cg.interactions.items():
        for i in lst:
            params = []
            for p in i.parameters:
                want = None
                if isinstance(p, str) and len(i.atoms) == 4:
                    # possibly a formatted dihedral phase: recompute it from the interaction's own atoms. This comes first: a
                    # phase computed from the coordinates can read exactly like a literal parameter used somewhere else
                    # ('-120.0'), and would then be taken for that literal
                    want = '{:.01f}'.format(np.degrees(geometry.dihedral_phase(np.stack([pos[a] for a in i.atoms]))))
                if want is not None and p == want:
                    params.append(GEOM_BASE + 4)
                elif isinstance(p, str) and repr(p) in pcode.d:
                    params.append(pcode(p))
                elif want is not None:
                    params.append(-1)
                else:
                    params.append(pcode(p))
            out_inters.setdefault(str(tcode(t)), []).append({'atoms': list(i.atoms), 'params': params, 'meta': dict((str(k), v) for k, v in enc_meta(i.meta))})
    nodes = [{'key': k, 'resid': cg.nodes[k]['resid'], 'attrs': dict((str(a), b) for a, b in enc_attrs(cg.nodes[k], tmpl_keys, akey, aval)), 'mods': []} for k in cg.nodes]
    return {'mol': m, 'links': enc_links, 'inters': out_inters, 'nodes': nodes}


def generate(rng, tier):
    cases = []
    for o1 in ORDERS:
        for o2 in ORDERS:
            for r1, r2 in [(3, 3), (3, 4), (4, 3), (3, 5), (5, 3), (3, 6), (-1, 2)]:
                cases.append({'kind': 'order', 'o1': o1, 'r1': r1, 'o2': o2, 'r2': r2})
    for _ in range(300 if tier == 'quick' else 5000):
        cases.append({'kind': 'order', 'o1': rng.choice(ORDERS), 'r1': rng.randint(-3, 6), 'o2': rng.choice(ORDERS), 'r2': rng.randint(-3, 6)})
    for _ in range(500 if tier == 'quick' else 8000):
        mol = gen_mol(rng)
        cases.append({'kind': 'match', 'mol': mol, 'link': gen_link(rng, mol)})
    for _ in range(400 if tier == 'quick' else 6000):
        cases.append(gen_apply(rng))
    for _ in range(120 if tier == 'quick' else 2000):
        cases.append(gen_removal_case(rng))
    for _ in range(40 if tier == 'quick' else 600):
        cases.append(gen_rename_case(rng))
    for _ in range(30 if tier == 'quick' else 500):
        cases.append(gen_real_case(rng))
    return cases


# ---------------------------------------------------------------- implementation
def _pred(k, p):
    import vermouth.molecule as vm
    if p[0] == 'eq':
        return val(k, p[1])
    if p[0] == 'choice':
        return vm.Choice([val(k, v) for v in p[1]])
    return vm.NotDefinedOrNot(val(k, p[1]))


def _tmpl(t):
    out = {}
    for k, p in t.items():
        if int(k) == 7:
            import vermouth.molecule as vm
            if p[0] == 'list':
                out['modifications'] = ['m%d' % x for x in p[1]]
            elif p[0] == 'eq':
                out['modifications'] = 'm%d' % p[1]
            elif p[0] == 'choice':
                out['modifications'] = vm.Choice(['m%d' % x for x in p[1]])
            else:
                out['modifications'] = vm.NotDefinedOrNot('m%d' % p[1])
        else:
            out[KEYNAME[int(k)]] = _pred(int(k), p)
    return out


class _Mod:
    """stand-in for a modification: only its name (a tuple of names) is looked at by _atoms_match"""
    def __init__(self, name):
        self.name = name


def build_mol(m, ff):
    import vermouth.molecule as vm
    import numpy as np
    mol = vm.Molecule(force_field=ff)
    for nd in m['nodes']:
        extra = {}
        mods = nd.get('mods', [])
        if mods:
            # two names may come from one modification with a two-name tuple or from two modifications
            extra['modifications'] = [_Mod(tuple('m%d' % x for x in mods))] if len(mods) != 2 or nd['key'] % 2 else [_Mod(('m%d' % x,)) for x in mods]
        mol.add_node(nd['key'], resid=nd['resid'], position=np.array(nd['pos']), **extra,
                     **{KEYNAME[int(k)]: val(int(k), v) for k, v in nd['attrs'].items()})
    for u, v in m['edges']:
        mol.add_edge(u, v)
    mol.meta.update({KEYNAME[int(k)]: val(int(k), v) for k, v in m['meta'].items()})
    for t, lst in m['inters'].items():
        for i in lst:
            mol.add_interaction(TYPES[int(t)], tuple(i['atoms']), ['p%d' % c for c in i['params']],
                                {KEYNAME[int(k)]: val(int(k), v) for k, v in i['meta'].items()})
    return mol


def build_link(l, ff):
    import vermouth.molecule as vm
    link = vm.Link(force_field=ff)
    for nd in l['nodes']:
        attrs = _tmpl(nd['tmpl'])
        attrs['order'] = py_order(nd['order'])
        if nd['replace'] is not None:
            upd, remove = nd['replace']
            attrs['replace'] = {'atomname': None} if remove else {KEYNAME[int(k)]: val(int(k), v) for k, v in upd.items()}
        link.add_node(nd['key'], **attrs)
    for u, v in l['edges']:
        link.add_edge(u, v)
    for frm, (o, t) in l['non_edges']:
        attrs = _tmpl(t)
        attrs['order'] = py_order(o)
        link.non_edges.append([frm, attrs])
    for pat in l['patterns']:
        link.patterns.append([[k, _tmpl(t)] for k, t in pat])
    link.molecule_meta.update(_tmpl(l['molmeta']))
    for t, i in l['inters']:
        params = []
        for c in i['params']:
            if c == GEOM_BASE + 2:
                params.append(vm.ParamDistance(list(i['atoms'])))
            elif c == GEOM_BASE + 3:
                params.append(vm.ParamAngle(list(i['atoms'])))
            else:
                params.append('p%d' % c)
        link.interactions[TYPES[t]].append(vm.Interaction(atoms=tuple(i['atoms']), parameters=params,
                                                          meta={KEYNAME[int(k)]: val(int(k), v) for k, v in i['meta'].items()}))
    for t, r in l['removed']:
        link.removed_interactions.setdefault(TYPES[t], []).append(vm.DeleteInteraction(
            atoms=tuple(r['atoms']), atom_attrs=[_tmpl(a) for a in r['atom_tmpl']],
            parameters=['p%d' % c for c in r['params']], meta=_tmpl(r['meta'])))
    return link


def _dist(a, b):
    return math.sqrt(sum((x - y) ** 2 for x, y in zip(a, b)))


def _angle(a, b, c):
    u = [x - y for x, y in zip(a, b)]
    v = [x - y for x, y in zip(c, b)]
    nu, nv = math.sqrt(sum(x * x for x in u)), math.sqrt(sum(x * x for x in v))
    if nu == 0 or nv == 0:
        return float('nan')
    cos = max(-1.0, min(1.0, sum(x * y for x, y in zip(u, v)) / (nu * nv)))
    return math.degrees(math.acos(cos))


def run_impl(inp):
    import vermouth
    import vermouth.forcefield
    import vermouth.molecule
    from vermouth.processors import do_links
    if inp['kind'] == 'real':
        return run_real(inp)
    if inp['kind'] == 'order':
        return {'ok': bool(do_links.match_order(py_order(inp['o1']), inp['r1'], py_order(inp['o2']), inp['r2']))}
    ff = vermouth.forcefield.ForceField(name='testff')
    if inp['kind'] == 'match':
        mol = build_mol(inp['mol'], ff)
        link = build_link(inp['link'], ff)
        return {'matches': [[[k, v] for k, v in m.items()] for m in do_links.match_link(mol, link)]}
    mol = build_mol(inp['mol'], ff)
    ff.links = [build_link(l, ff) for l in inp['links']]
    pos = {nd['key']: nd['pos'] for nd in inp['mol']['nodes']}
    do_links.DoLinks().run_molecule(mol)
    inters = {}
    for tname, lst in mol.interactions.items():
        out = []
        for i in lst:
            params = []
            for p in i.parameters:
                if isinstance(p, str) and p.startswith('p'):
                    params.append(int(p[1:]))
                else:
                    # a geometry-derived value: recompute from the interaction's own atoms
                    ats = [pos[a] for a in i.atoms]
                    ok = False
                    code = -1
                    if len(ats) == 2:
                        ok = abs(float(p) - _dist(*ats)) <= 1e-9
                        code = GEOM_BASE + 2
                    elif len(ats) == 3:
                        e = _angle(*ats)
                        ok = (math.isnan(e) and math.isnan(float(p))) or abs(float(p) - e) <= 1e-7
                        code = GEOM_BASE + 3
                    params.append(code if ok else -1)
            out.append({'atoms': list(i.atoms), 'params': params,
                        'meta': {str({v: k for k, v in KEYNAME.items()}[k]): unval({v: k for k, v in KEYNAME.items()}[k], v) for k, v in i.meta.items()}})
        if out:
            inters[str(TYPE_CODE[tname])] = out
    nodes = []
    rev = {v: k for k, v in KEYNAME.items()}
    for k in mol.nodes:
        nd = mol.nodes[k]
        attrs = {str(rev[a]): unval(rev[a], v) for a, v in nd.items() if a in rev}
        nodes.append({'key': k, 'resid': nd['resid'], 'attrs': attrs,
                      'mods': [int(n[1:]) for mo in nd.get('modifications', []) for n in mo.name]})
    return {'inters': inters, 'nodes': nodes}


# ---------------------------------------------------------------- emission
def attrs_lit(d):
    return listlit(sorted((int(k), v) for k, v in d.items()), lambda kv: '(%s, %s)' % (zlit(kv[0]), zlit(kv[1])))


def pred_lit(p):
    if p[0] == 'list':
        return '(PList %s)' % listlit(p[1], zlit)
    if p[0] == 'eq':
        return '(PEq %s)' % zlit(p[1])
    if p[0] == 'choice':
        return '(PChoice %s)' % listlit(p[1], zlit)
    return '(PNot %s)' % zlit(p[1])


def tmpl_lit(t):
    return listlit(sorted((int(k), p) for k, p in t.items()), lambda kp: '(%s, %s)' % (zlit(kp[0]), pred_lit(kp[1])))


def inter_lit(i):
    return '{| i_atoms := %s; i_params := %s; i_meta := %s |}' % (listlit(i['atoms'], zlit), listlit(i['params'], zlit), attrs_lit(i['meta']))


def node_lit(nd):
    return '{| m_key := %s; m_resid := %s; m_attrs := %s; m_mods := %s |}' % (zlit(nd['key']), zlit(nd['resid']), attrs_lit(nd['attrs']), listlit(nd.get('mods', []), zlit))


def mol_lit(m):
    inters = listlit(sorted((int(t), l) for t, l in m['inters'].items()), lambda tl: '(%s, %s)' % (zlit(tl[0]), listlit(tl[1], inter_lit)))
    return '{| nodes := %s; edges := %s; inters := %s; meta := %s |}' % (
        listlit(m['nodes'], node_lit), listlit(m['edges'], lambda e: '(%s, %s)' % (zlit(e[0]), zlit(e[1]))), inters, attrs_lit(m['meta']))


def link_lit(l):
    def ln(nd):
        if nd['replace'] is None:
            rep = 'None'
        else:
            rep = '(Some (%s, %s))' % (attrs_lit(nd['replace'][0]), blit(nd['replace'][1]))
        return '{| l_key := %s; l_order := %s; l_tmpl := %s; l_replace := %s |}' % (zlit(nd['key']), order_lit(nd['order']), tmpl_lit(nd['tmpl']), rep)
    return ('{| lnodes := %s; ledges := %s; non_edges := %s; patterns := %s; molmeta := %s; linters := %s; lremoved := %s |}' % (
        listlit(l['nodes'], ln),
        listlit(l['edges'], lambda e: '(%s, %s)' % (zlit(e[0]), zlit(e[1]))),
        listlit(l['non_edges'], lambda ne: '(%s, (%s, %s))' % (zlit(ne[0]), order_lit(ne[1][0]), tmpl_lit(ne[1][1]))),
        listlit(l['patterns'], lambda pat: listlit(pat, lambda kt: '(%s, %s)' % (zlit(kt[0]), tmpl_lit(kt[1])))),
        tmpl_lit(l['molmeta']),
        listlit(l['inters'], lambda ti: '(%s, %s)' % (zlit(ti[0]), inter_lit(ti[1]))),
        listlit(l['removed'], lambda tr: '(%s, {| r_atoms := %s; r_params := %s; r_atom_tmpl := %s; r_meta := %s |})' % (
            zlit(tr[0]), listlit(tr[1]['atoms'], zlit), listlit(tr[1]['params'], zlit), listlit(tr[1]['atom_tmpl'], tmpl_lit), tmpl_lit(tr[1]['meta'])))))


def emit(inp, out):
    if inp['kind'] == 'real':
        inp = dict(inp, kind='apply', mol=out['mol'], links=out['links'])
    if inp['kind'] == 'order':
        return 'COrder %s %s %s %s %s' % (order_lit(inp['o1']), zlit(inp['r1']), order_lit(inp['o2']), zlit(inp['r2']), blit(out['ok']))
    if inp['kind'] == 'match':
        return 'CMatch %s %s %s' % (link_lit(inp['link']), mol_lit(inp['mol']),
                                    listlit(out['matches'], lambda m: listlit(m, lambda kv: '(%s, %s)' % (zlit(kv[0]), zlit(kv[1])))))
    return 'CApply %s %s %s %s %s' % (blit(bool(inp.get('fast'))), listlit(inp['links'], link_lit), mol_lit(inp['mol']),
                                   listlit(sorted((int(t), l) for t, l in out['inters'].items()), lambda tl: '(%s, %s)' % (zlit(tl[0]), listlit(tl[1], inter_lit))),
                                   listlit(out['nodes'], node_lit))


def nontrivial(inp, out):
    if inp['kind'] == 'real':
        return str(inp)
    if inp['kind'] == 'order':
        return ('o', str(inp))
    if inp['kind'] == 'match':
        if out['matches'] and len(inp['mol']['nodes']) > len(inp['link']['nodes']):
            return str(inp)
        return None
    n_after = sum(len(l) for l in out['inters'].values())
    n_before = sum(len(l) for l in inp['mol']['inters'].values())
    added = sum(len(l['inters']) for l in inp['links'])
    if n_after > n_before and added and (len(inp['links']) > 1):
        return str(inp)
    return None


def describe(inp, out):
    if inp['kind'] == 'real':
        return {'kind': 'real', 'real_n_res': len(inp['seq']), 'real_meta': '+'.join(sorted(inp['meta'])) or 'none',
                'real_n_inters': min(sum(len(v) for v in out['inters'].values()), 60) // 10 * 10}
    if inp['kind'] == 'order':
        return {'kind': 'order', 'result': out['ok']}
    if inp['kind'] == 'match':
        l = inp['link']
        return {'kind': 'match', 'n_matches': min(len(out['matches']), 3), 'link_size': len(l['nodes']),
                'non_edges': bool(l['non_edges']), 'patterns': bool(l['patterns']), 'molmeta': bool(l['molmeta']),
                'order_kinds': ''.join(sorted({n['order'][0] for n in l['nodes']}))}
    return {'kind': 'apply', 'n_links': len(inp['links']), 'removals': any(l['removed'] for l in inp['links']),
            'replace': any(n['replace'] is not None for l in inp['links'] for n in l['nodes']),
            'geometry': any(c >= GEOM_BASE for l in inp['links'] for _, i in l['inters'] for c in i['params']),
            'n_inters_after': min(sum(len(l) for l in out['inters'].values()), 6)}


def shrink(inp):
    if inp['kind'] == 'real':
        for i in range(len(inp['seq'])):
            if len(inp['seq']) > 2:
                yield dict(inp, seq=inp['seq'][:i] + inp['seq'][i + 1:], ss=inp['ss'][:i] + inp['ss'][i + 1:])
    if inp['kind'] == 'apply':
        for i in range(len(inp['links'])):
            if len(inp['links']) > 1:
                yield dict(inp, links=inp['links'][:i] + inp['links'][i + 1:])
        for t in list(inp['mol']['inters']):
            m = dict(inp['mol'], inters={k: v for k, v in inp['mol']['inters'].items() if k != t})
            yield dict(inp, mol=m)
