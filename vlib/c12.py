"""C12 — editing operations of vermouth.molecule.Molecule keep atoms, bonds and interactions consistent."""
import itertools

from .common import zlit, natlit, optlit, listlit

ID = 'C12'
COQ_TARGETS = ['C12/Props.vo', 'C12/Corr.vo']
PROPS = 'C12/Props.v'
EXTRACTED = []
CASE_IMPORTS = 'From V Require Import C12.Model C12.Spec C12.Corr.'
RULE = ('random histories (5-40 operations) over a heap of 1-6 live molecules with sparse, negative and unordered integer '
        'keys: add_node (consecutive / existing / arbitrary key), add_nodes_from, remove_node (present / absent), '
        'remove_nodes_from (list or one-shot generator), add_edge, add_interaction (incl. unknown atoms), '
        'add_or_replace_interaction (with citations), remove_interaction, copy, subgraph (any order, unknown keys), '
        'merge_molecule (incl. into empty, nrexcl mismatch), Block.to_molecule, MergeAllMolecules; directed streams: '
        'merge right after every other operation kind; the state after EVERY operation is compared for histories of '
        '<= 14 operations, the final heap for all. non-trivial = history containing a merge/copy/subgraph/to_molecule '
        'and an interaction or edge; distinct by the operation list')
ASSUMPTIONS = ['node attributes are reduced to resid, charge_group and one opaque tag; interaction meta to version',
               'add_edge is only called on existing, distinct endpoints (networkx would create nodes behind the cache)',
               'log_entries, meta, force_field and self-loops are not modelled; molecules are not merged into themselves']
TRUSTED = ['canonicalisation in vlib/c12.py (edge set sorted, citations as a set, interaction types as a set)']


def A(r, c, t):
    return {'resid': r, 'cg': c, 'tag': t}


class Tracker:
    """Light bookkeeping used only to generate mostly-valid operations."""

    def __init__(self):
        self.keys = []      # per heap entry: list of keys
        self.inter = []     # per heap entry: list of (type, atoms, version)

    def new(self, keys=(), inter=()):
        self.keys.append(list(keys))
        self.inter.append(list(inter))


def gen_attrs(rng, tagc):
    tagc[0] += 1
    return A(rng.choice([None, 1, 2, 3, 5, rng.randint(1, 30)]), rng.choice([None, 1, 2, rng.randint(1, 9)]), tagc[0])


def gen_inter(rng, tr, i, valid=True):
    ks = tr.keys[i]
    n = rng.choice([1, 2, 2, 3, 4])
    if valid and ks:
        atoms = [rng.choice(ks) for _ in range(n)]
    else:
        atoms = [rng.choice(ks + [99, -7]) if ks else rng.randint(0, 5) for _ in range(n)]
    return {'atoms': atoms, 'params': rng.randint(0, 9), 'version': rng.choice([None, None, 0, 1, 2])}


def rand_key(rng, ks):
    r = rng.random()
    if ks and r < 0.35:
        return max(ks) + 1
    if ks and r < 0.5:
        return rng.choice(ks)
    return rng.choice([rng.randint(-5, 25), rng.randint(0, 12)])


def gen_op(rng, tr, tagc, kinds=None):
    n = len(tr.keys)
    kinds = kinds or ['addnode'] * 4 + ['addnodes'] * 2 + ['rmnode'] * 2 + ['rmnodes'] * 2 + ['addedge'] * 3 + \
        ['addint'] * 4 + ['addorrep'] * 3 + ['rmint'] * 2 + ['copy', 'subgraph', 'subgraph'] + ['merge'] * 4 + \
        ['tomol', 'newempty', 'mergeall']
    for _ in range(20):
        k = rng.choice(kinds)
        i = rng.randrange(n) if n else None
        if i is None and k not in ('newempty',):
            k = 'newempty'
        if k == 'newempty':
            nr = rng.choice([None, 1, 1, 3])
            tr.new()
            return ['NewEmpty', nr]
        ks = tr.keys[i]
        if k == 'addnode':
            key = rand_key(rng, ks)
            if key not in ks:
                ks.append(key)
            return ['AddNode', i, key, gen_attrs(rng, tagc)]
        if k == 'addnodes':
            l = []
            for _ in range(rng.choice([1, 2, 3])):
                key = rand_key(rng, ks)
                if key not in ks:
                    ks.append(key)
                l.append([key, gen_attrs(rng, tagc)])
            return ['AddNodesFrom', i, l]
        if k == 'rmnode':
            key = rng.choice(ks) if ks and rng.random() < 0.85 else rng.randint(-3, 30)
            if key in ks:
                ks.remove(key)
                tr.inter[i] = [x for x in tr.inter[i] if key not in x[1]]
            return ['RemoveNode', i, key]
        if k == 'rmnodes':
            sel = [rng.choice(ks) for _ in range(rng.choice([1, 2, 3]))] if ks else []
            if rng.random() < 0.2:
                sel.append(77)
            for key in sel:
                if key in ks:
                    ks.remove(key)
                    tr.inter[i] = [x for x in tr.inter[i] if key not in x[1]]
            return ['RemoveNodesFrom', i, sel, rng.random() < 0.5]
        if k == 'addedge':
            if len(ks) < 2:
                continue
            u, v = rng.sample(ks, 2)
            return ['AddEdge', i, u, v]
        if k == 'addint':
            x = gen_inter(rng, tr, i, valid=rng.random() < 0.85)
            t = rng.choice([0, 0, 1, 2])
            if all(a in ks for a in x['atoms']):
                tr.inter[i].append((t, list(x['atoms']), x['version']))
            return ['AddInteraction', i, t, x]
        if k == 'addorrep':
            if tr.inter[i] and rng.random() < 0.6:
                t, atoms, v = rng.choice(tr.inter[i])
                x = {'atoms': list(atoms), 'params': rng.randint(10, 19), 'version': rng.choice([v, v, None, 0, 1])}
            else:
                x = gen_inter(rng, tr, i, valid=rng.random() < 0.85)
                t = rng.choice([0, 1, 2])
            if all(a in ks for a in x['atoms']):
                tr.inter[i].append((t, list(x['atoms']), x['version']))
            return ['AddOrReplace', i, t, x, rng.choice([[], [], [5], [5, 6], [7]])]
        if k == 'rmint':
            if tr.inter[i] and rng.random() < 0.8:
                t, atoms, v = rng.choice(tr.inter[i])
                ver = v if v is not None else 0
                if rng.random() < 0.15:
                    ver += 1
            else:
                t, atoms, ver = rng.choice([0, 1]), [rng.randint(0, 5)], 0
            return ['RemoveInteraction', i, t, list(atoms), ver]
        if k == 'copy':
            tr.new(ks, tr.inter[i])
            return ['Copy', i]
        if k == 'subgraph':
            sel = rng.sample(ks, rng.randint(0, len(ks))) if ks else []
            if rng.random() < 0.1:
                sel.append(55)
            if 55 not in sel:
                tr.new(sel, [x for x in tr.inter[i] if all(a in sel for a in x[1])])
            return ['Subgraph', i, sel]
        if k == 'merge':
            if n < 2:
                continue
            j = rng.choice([x for x in range(n) if x != i])
            base = max(ks) if ks else 0
            mp = {old: base + 1 + idx for idx, old in enumerate(tr.keys[j])}
            tr.inter[i] += [(t, [mp[a] for a in atoms], v) for t, atoms, v in tr.inter[j]]
            tr.keys[i] = ks + [mp[o] for o in tr.keys[j]]
            return ['Merge', i, j]
        if k == 'tomol':
            off = rng.choice([0, 1, 5, 10])
            mp = {old: off + idx for idx, old in enumerate(ks)}
            tr.new([mp[o] for o in ks], [(t, [mp[a] for a in atoms], v) for t, atoms, v in tr.inter[i]])
            return ['ToMolecule', i, off, rng.choice([0, 1, 4]), rng.choice([0, 2])]
        if k == 'mergeall':
            if n < 2:
                continue
            ids = rng.sample(range(n), rng.choice([2, 2, 3]) if n >= 3 else 2)
            first = ids[0]
            for j in ids[1:]:
                base = max(tr.keys[first]) if tr.keys[first] else 0
                mp = {old: base + 1 + idx for idx, old in enumerate(tr.keys[j])}
                tr.inter[first] += [(t, [mp[a] for a in atoms], v) for t, atoms, v in tr.inter[j]]
                tr.keys[first] = tr.keys[first] + [mp[o] for o in tr.keys[j]]
            return ['MergeAll', ids]
    tr.new()
    return ['NewEmpty', None]


def gen_history(rng, length, directed=None):
    tr = Tracker()
    tagc = [100]
    ops = []
    ops.append(gen_op(rng, tr, tagc, ['newempty']))
    ops.append(gen_op(rng, tr, tagc, ['addnodes']))
    if rng.random() < 0.7:
        ops.append(gen_op(rng, tr, tagc, ['newempty']))
        ops.append(gen_op(rng, tr, tagc, ['addnodes', 'addnode']))
    if directed:
        for _ in range(rng.randint(0, 4)):
            ops.append(gen_op(rng, tr, tagc, ['addint', 'addedge', 'addnode']))
        ops.append(gen_op(rng, tr, tagc, ['merge']))
        ops.append(gen_op(rng, tr, tagc, [directed]))
        ops.append(gen_op(rng, tr, tagc, ['merge']))
        ops.append(gen_op(rng, tr, tagc, ['merge', 'addint']))
        return ops
    while len(ops) < length:
        ops.append(gen_op(rng, tr, tagc))
    return ops


def gen_cached_then_subgraph(rng):
    """a molecule whose highest key is known from a merge (and from consecutive additions after it), a copy or a part of it
    that may leave the highest key out, and then merges into that new molecule"""
    tagc = [500]
    k0 = rng.sample(range(0, 9), rng.randint(1, 3))
    k1 = rng.sample(range(0, 9), rng.randint(1, 3))
    ops = [['NewEmpty', 1], ['AddNodesFrom', 0, [[k, gen_attrs(rng, tagc)] for k in k0]],
           ['NewEmpty', 1], ['AddNodesFrom', 1, [[k, gen_attrs(rng, tagc)] for k in k1]],
           ['Merge', 0, 1]]
    keys = list(k0) + [max(k0) + 1 + i for i in range(len(k1))]
    for _ in range(rng.choice([0, 0, 1, 2])):
        keys.append(max(keys) + 1)                      # consecutive additions keep the cached highest key
        ops.append(['AddNode', 0, keys[-1], gen_attrs(rng, tagc)])
    mode = rng.choice(['drop_top', 'drop_top', 'keep_top', 'copy', 'empty'])
    if mode == 'copy':
        ops.append(['Copy', 0])
        sel = list(keys)
    else:
        top = max(keys)
        rest = [k for k in keys if k != top]
        sel = [] if mode == 'empty' else rng.sample(rest, rng.randint(1, len(rest))) if rest else []
        if mode == 'keep_top':
            sel.append(top)
        rng.shuffle(sel)
        ops.append(['Subgraph', 0, sel])
    ops.append(['Merge', 2, rng.choice([0, 1])])
    if sel and rng.random() < 0.5:
        ops.append(['AddInteraction', 2, 0, {'atoms': [rng.choice(sel)], 'params': 3, 'version': None}])
    if rng.random() < 0.5:
        ops.append(['Merge', 2, 1])
    return ops


def gen_multiterm_merge(rng):
    """the molecule merged in carries several interactions on the same atoms with the same version (multi-term dihedrals): a
    merge keeps every one of them"""
    tagc = [700]
    k0 = rng.sample(range(0, 9), rng.randint(1, 3))
    k1 = rng.sample(range(0, 9), rng.randint(2, 4))
    ops = [['NewEmpty', 1], ['AddNodesFrom', 0, [[k, gen_attrs(rng, tagc)] for k in k0]],
           ['NewEmpty', 1], ['AddNodesFrom', 1, [[k, gen_attrs(rng, tagc)] for k in k1]]]
    atoms = rng.sample(k1, rng.randint(1, min(3, len(k1))))
    ver = rng.choice([None, None, 1])
    t = rng.choice([0, 1])
    for j in range(rng.randint(2, 3)):
        ops.append(['AddInteraction', 1, t, {'atoms': list(atoms), 'params': 40 + j, 'version': ver}])
    if rng.random() < 0.5:
        ops.append(['AddInteraction', 0, t, {'atoms': [rng.choice(k0)], 'params': 3, 'version': None}])
    ops.append(['Merge', 0, 1])
    if rng.random() < 0.4:
        ops.append(['Merge', 0, 1])
    return ops


def generate(rng, tier):
    n = 330 if tier == 'quick' else 4000
    cases = []
    for _ in range(20 if tier == 'quick' else 200):
        cases.append({'ops': gen_multiterm_merge(rng)})
    for _ in range(25 if tier == 'quick' else 300):
        cases.append({'ops': gen_cached_then_subgraph(rng)})
    kinds = ['addnode', 'addnodes', 'rmnode', 'rmnodes', 'addedge', 'addint', 'addorrep', 'rmint', 'copy', 'subgraph',
             'tomol', 'mergeall']
    for d in kinds:
        for _ in range(5 if tier == 'quick' else 40):
            cases.append({'ops': gen_history(rng, 0, directed=d)})
    for i in range(n):
        cases.append({'ops': gen_history(rng, rng.choice([5, 8, 10, 12, 14, 20, 30, 40]))})
    if tier == 'thorough':
        # exhaustive: all histories of length <= 4 over a 10-op alphabet on two molecules with a 3-key universe
        pre = [['NewEmpty', 1], ['AddNodesFrom', 0, [[2, A(1, 1, 1)], [0, A(2, None, 2)]]], ['AddEdge', 0, 2, 0],
               ['AddInteraction', 0, 0, {'atoms': [2, 0], 'params': 1, 'version': None}],
               ['NewEmpty', 1], ['AddNodesFrom', 1, [[1, A(None, 3, 3)]]]]
        alpha = [['AddNode', 0, 1, A(4, 4, 4)], ['AddNode', 0, 3, A(5, 5, 5)], ['AddNodesFrom', 0, [[5, A(1, 1, 6)]]],
                 ['RemoveNode', 0, 2], ['RemoveNodesFrom', 0, [0], True], ['Merge', 0, 1], ['Merge', 1, 0],
                 ['Subgraph', 0, [0]], ['Copy', 0], ['AddOrReplace', 0, 0, {'atoms': [2, 0], 'params': 7, 'version': None}, [9]]]
        for ln in (1, 2, 3, 4):
            for seq in itertools.product(alpha, repeat=ln):
                cases.append({'ops': pre + [list(x) for x in seq]})
    return cases


def canon_mol(m):
    nodes = []
    for k in m.nodes:
        a = m.nodes[k]
        nodes.append([k, a.get('resid'), a.get('charge_group'), a.get('tag', -1)])
    edges = sorted([min(u, v), max(u, v)] for u, v in m.edges)
    inters = {}
    for t, l in m.interactions.items():
        if l:
            inters[int(t)] = [[list(x.atoms), x.parameters[0], x.meta.get('version')] for x in l]
    cites = sorted(0 if c == 'vermouth' else int(c) for c in m.citations)
    return {'nodes': nodes, 'edges': edges, 'inters': inters, 'nrexcl': m.nrexcl, 'cites': cites}


def _attrs_kw(a):
    kw = {'tag': a['tag']}
    if a['resid'] is not None:
        kw['resid'] = a['resid']
    if a['cg'] is not None:
        kw['charge_group'] = a['cg']
    return kw


def run_impl(inp):
    import networkx as nx
    from vermouth.molecule import Molecule, Block
    from vermouth.system import System
    from vermouth.processors.merge_all_molecules import MergeAllMolecules
    heap = []
    outs = []
    each = []
    track_each = len(inp['ops']) <= 14
    for op in inp['ops']:
        k = op[0]
        o = 'OK'
        idx = ([] if k == 'NewEmpty' else list(op[1]) if k == 'MergeAll' else [op[1], op[2]] if k == 'Merge' else [op[1]])
        if any(not 0 <= i < len(heap) for i in idx) or (k == 'Merge' and op[1] == op[2]) or \
                (k == 'MergeAll' and len(set(op[1])) != len(op[1])) or \
                (k == 'AddEdge' and not (op[2] in heap[op[1]] and op[3] in heap[op[1]] and op[2] != op[3])):
            outs.append('Unsupported')
            if track_each:
                each.append([canon_mol(m) for m in heap])
            continue
        try:
            if k == 'NewEmpty':
                heap.append(Molecule(nrexcl=op[1]))
            elif k == 'AddNode':
                heap[op[1]].add_node(op[2], **_attrs_kw(op[3]))
            elif k == 'AddNodesFrom':
                heap[op[1]].add_nodes_from([(key, _attrs_kw(a)) for key, a in op[2]])
            elif k == 'RemoveNode':
                heap[op[1]].remove_node(op[2])
            elif k == 'RemoveNodesFrom':
                heap[op[1]].remove_nodes_from((x for x in op[2]) if op[3] else list(op[2]))
            elif k == 'AddEdge':
                heap[op[1]].add_edge(op[2], op[3])
            elif k == 'AddInteraction':
                x = op[3]
                heap[op[1]].add_interaction(op[2], tuple(x['atoms']), [x['params']],
                                            meta=({} if x['version'] is None else {'version': x['version']}))
            elif k == 'AddOrReplace':
                x = op[3]
                heap[op[1]].add_or_replace_interaction(op[2], tuple(x['atoms']), [x['params']],
                                                       meta=({} if x['version'] is None else {'version': x['version']}),
                                                       citations=set(op[4]))
            elif k == 'RemoveInteraction':
                heap[op[1]].remove_interaction(op[2], tuple(op[3]), version=op[4])
            elif k == 'Copy':
                heap.append(heap[op[1]].copy())
            elif k == 'Subgraph':
                heap.append(heap[op[1]].subgraph(list(op[2])))
            elif k == 'Merge':
                heap[op[1]].merge_molecule(heap[op[2]])
            elif k == 'ToMolecule':
                src = heap[op[1]]
                blk = Block()
                blk.add_nodes_from((key, dict(src.nodes[key])) for key in src.nodes)
                blk.add_edges_from(src.edges)
                for t, l in src.interactions.items():
                    for x in l:
                        blk.interactions[t].append(x)
                blk.nrexcl = src.nrexcl
                blk.citations = set(src.citations)
                heap.append(blk.to_molecule(atom_offset=op[2], offset_resid=op[3], offset_charge_group=op[4]))
            elif k == 'MergeAll':
                s = System()
                s.molecules = [heap[i] for i in op[1]]
                MergeAllMolecules().run_system(s)
            else:
                raise RuntimeError('unknown op ' + k)
        except KeyError:
            o = 'KeyErr'
        except ValueError:
            o = 'ValueErr'
        except nx.NetworkXError:
            o = 'NxErr'
        outs.append(o)
        if track_each:
            each.append([canon_mol(m) for m in heap])
    return {'outcomes': outs, 'heap': [canon_mol(m) for m in heap], 'each': each}


def attrs_lit(a):
    return '{| resid := %s; cg := %s; tag := %s |}' % (optlit(a['resid'], zlit), optlit(a['cg'], zlit), zlit(a['tag']))


def inter_lit(x):
    return '{| i_atoms := %s; i_params := %s; i_version := %s |}' % (listlit(x['atoms'], zlit), zlit(x['params']), optlit(x['version'], zlit))


def op_lit(op):
    k = op[0]
    if k == 'NewEmpty':
        return 'NewEmpty %s' % optlit(op[1], zlit)
    if k == 'AddNode':
        return 'AddNode %s %s %s' % (natlit(op[1]), zlit(op[2]), attrs_lit(op[3]))
    if k == 'AddNodesFrom':
        return 'AddNodesFrom %s %s' % (natlit(op[1]), listlit(op[2], lambda ka: '(%s, %s)' % (zlit(ka[0]), attrs_lit(ka[1]))))
    if k == 'RemoveNode':
        return 'RemoveNode %s %s' % (natlit(op[1]), zlit(op[2]))
    if k == 'RemoveNodesFrom':
        return 'RemoveNodesFrom %s %s' % (natlit(op[1]), listlit(op[2], zlit))
    if k == 'AddEdge':
        return 'AddEdge %s %s %s' % (natlit(op[1]), zlit(op[2]), zlit(op[3]))
    if k == 'AddInteraction':
        return 'AddInteraction %s %s %s' % (natlit(op[1]), zlit(op[2]), inter_lit(op[3]))
    if k == 'AddOrReplace':
        return 'AddOrReplace %s %s %s %s' % (natlit(op[1]), zlit(op[2]), inter_lit(op[3]), listlit(op[4], zlit))
    if k == 'RemoveInteraction':
        return 'RemoveInteraction %s %s %s %s' % (natlit(op[1]), zlit(op[2]), listlit(op[3], zlit), zlit(op[4]))
    if k == 'Copy':
        return 'Copy %s' % natlit(op[1])
    if k == 'Subgraph':
        return 'Subgraph %s %s' % (natlit(op[1]), listlit(op[2], zlit))
    if k == 'Merge':
        return 'Merge %s %s' % (natlit(op[1]), natlit(op[2]))
    if k == 'ToMolecule':
        return 'ToMolecule %s %s %s %s' % (natlit(op[1]), zlit(op[2]), zlit(op[3]), zlit(op[4]))
    if k == 'MergeAll':
        return 'MergeAll %s' % listlit(op[1], natlit)
    raise ValueError(k)


def mol_lit(m):
    nodes = listlit(m['nodes'], lambda n: '(%s, {| resid := %s; cg := %s; tag := %s |})' % (
        zlit(n[0]), optlit(n[1], zlit), optlit(n[2], zlit), zlit(n[3])))
    edges = listlit(m['edges'], lambda e: '(%s, %s)' % (zlit(e[0]), zlit(e[1])))
    inters = listlit(sorted(m['inters'].items(), key=lambda kv: int(kv[0])), lambda kv: '(%s, %s)' % (zlit(int(kv[0])), listlit(
        kv[1], lambda x: '{| i_atoms := %s; i_params := %s; i_version := %s |}' % (listlit(x[0], zlit), zlit(x[1]), optlit(x[2], zlit)))))
    return '{| nodes := %s; edges := %s; inters := %s; max_node := None; nrexcl := %s; cites := %s |}' % (
        nodes, edges, inters, optlit(m['nrexcl'], zlit), listlit(m['cites'], zlit))


def emit(inp, out):
    return 'CHist %s %s %s %s' % (
        '[' + '; '.join(op_lit(o) for o in inp['ops']) + ']',
        '[' + '; '.join(out['outcomes']) + ']',
        listlit(out['heap'], mol_lit),
        listlit(out['each'], lambda h: listlit(h, mol_lit)))


def nontrivial(inp, out):
    kinds = {o[0] for o in inp['ops']}
    if not kinds & {'Merge', 'Copy', 'Subgraph', 'ToMolecule', 'MergeAll'}:
        return None
    if not kinds & {'AddInteraction', 'AddOrReplace', 'AddEdge'}:
        return None
    return str(inp['ops'])


def describe(inp, out):
    d = {'n_ops': min(len(inp['ops']), 45) // 5 * 5, 'heap_size': len(out['heap']),
         'errors': sum(1 for o in out['outcomes'] if o != 'OK'),
         'merges': sum(1 for o in inp['ops'] if o[0] in ('Merge', 'MergeAll')),
         'max_nodes': max([len(m['nodes']) for m in out['heap']] + [0]) // 5 * 5}
    for o, r in zip(inp['ops'], out['outcomes']):
        d.setdefault('op_' + o[0], 0)
    return d


def extra_coverage():
    return {}


def shrink(inp):
    ops = inp['ops']
    for i in range(len(ops) - 1, -1, -1):
        cand = ops[:i] + ops[i + 1:]
        # dropping an op that creates a heap entry shifts indices: only drop non-creating ops, or trailing ones
        if ops[i][0] in ('NewEmpty', 'Copy', 'Subgraph', 'ToMolecule') and i != len(ops) - 1:
            continue
        yield {'ops': cand}
    for n in range(len(ops) - 1, 0, -1):
        yield {'ops': ops[:n]}
