"""Shared harness for the Coq-based checks (see DESIGN.md section 2).

A property module (vlib/cXX.py) provides

  ID            'C08'
  COQ_TARGETS   list of .vo targets (relative to coq/) that must build
  PROPS         'C08/Props.v' -- file holding the property theorems
  CASE_IMPORTS  Coq header for generated case files; must leave in scope
                  corr : case -> bool   (model output == implementation output)
                  prop : case -> bool   (proved-sound checker on implementation output)
  generate(rng, tier) -> list of inputs (JSON-serialisable)
  run_impl(inp)       -> canonical output of the real code (JSON-serialisable)
  emit(inp, out)      -> Gallina term of type `case` (or None: not shipped to Coq)
  nontrivial(inp,out) -> hashable key if the case exercises a deciding conjunct, else None
  describe(inp,out)   -> dict of histogram keys (optional)
  shrink(inp)         -> iterable of smaller inputs (optional)
  known(inp,out)      -> finding id or None (optional)
  extra_obligations(ctx) -> list of (name, ok, detail)  (optional; e.g. extracted tables)
  py_prop(inp,out)    -> None | str: python-side pre-check (optional, never decisive alone)
"""
import fcntl
import hashlib
import json
import os
import random
import re
import shutil
import subprocess
import sys
import tempfile
import time
from concurrent.futures import ThreadPoolExecutor

VERIF = os.path.dirname(os.path.dirname(os.path.abspath(__file__)))
COQ = os.path.join(VERIF, 'coq')
REPO = os.environ.get('VERIF_REPO', '/repo')
PY = '/venv/bin/python'
WORK = os.path.join(VERIF, 'work')
REPLAYS = os.path.join(VERIF, 'replays')
EVIDENCE = os.path.join(VERIF, 'evidence')
CORPUS = os.path.join(VERIF, 'corpus')
KNOWN_FILE = os.path.join(VERIF, 'known_findings.json')
NCPU = min(16, os.cpu_count() or 4)

FORBIDDEN = re.compile(
    r'\b(Admitted|admit|Axiom|Axioms|Parameter|Parameters|Conjecture|Conjectures|'
    r'bypass_check|Admit Obligations)\b|Unset Guard|Unset Positivity|Unset Universe|'
    r'type-in-type|impredicative-set')


def log(*a):
    print(*a, file=sys.stderr, flush=True)


# --------------------------------------------------------------------------
# Coq literal emitters
def zlit(n):
    n = int(n)
    return '(%d)%%Z' % n if n < 0 else '%d%%Z' % n


def nlit(n):
    return '%d%%N' % int(n)


def natlit(n):
    assert 0 <= int(n) < 5000
    return '%d%%nat' % int(n)


def blit(b):
    return 'true' if b else 'false'


def strlit(s):
    """Coq string literal; non printable-ASCII content goes through Harness.sob."""
    if isinstance(s, bytes):
        data = s
    else:
        data = s.encode('utf-8')
    if all(32 <= b <= 126 for b in data):
        return '"%s"%%string' % data.decode('ascii').replace('"', '""')
    return '(sob [%s])' % ';'.join('%d%%N' % b for b in data)


def optlit(x, f):
    return 'None' if x is None else '(Some %s)' % f(x)


def listlit(xs, f):
    return '[' + '; '.join(f(x) for x in xs) + ']'


def pairlit(p, f, g):
    return '(%s, %s)' % (f(p[0]), g(p[1]))


def qlit(fr):
    """A fractions.Fraction / (num, den) as a Q literal."""
    if isinstance(fr, (tuple, list)):
        n, d = fr
    else:
        n, d = fr.numerator, fr.denominator
    assert d > 0
    return '(Qmake %s %d%%positive)' % (('(%d)%%Z' % n) if n < 0 else ('%d%%Z' % n), d)


# --------------------------------------------------------------------------
def sh(cmd, timeout=600, cwd=None, env=None):
    p = subprocess.run(cmd, shell=isinstance(cmd, str), cwd=cwd, env=env,
                       stdout=subprocess.PIPE, stderr=subprocess.STDOUT,
                       timeout=timeout, text=True, errors='replace')
    return p.returncode, p.stdout


class Lock:
    def __init__(self, name):
        os.makedirs(WORK, exist_ok=True)
        self.path = os.path.join(WORK, name)

    def __enter__(self):
        self.f = open(self.path, 'w')
        fcntl.flock(self.f, fcntl.LOCK_EX)
        return self

    def __exit__(self, *a):
        fcntl.flock(self.f, fcntl.LOCK_UN)
        self.f.close()


def forbidden_scan():
    """grep gate: no Admitted/Axiom/... anywhere in the development."""
    hits = []
    for root, _, files in os.walk(COQ):
        for fn in files:
            if not fn.endswith('.v'):
                continue
            p = os.path.join(root, fn)
            txt = open(p, errors='replace').read()
            txt_nc = strip_coq_comments(txt)
            for m in FORBIDDEN.finditer(txt_nc):
                hits.append('%s: %s' % (os.path.relpath(p, VERIF), m.group(0)))
    return hits


def strip_coq_comments(txt):
    out = []
    depth = 0
    i = 0
    n = len(txt)
    instr = False
    while i < n:
        if depth == 0 and txt[i] == '"':
            instr = not instr
            out.append(txt[i])
            i += 1
            continue
        if not instr and txt.startswith('(*', i):
            depth += 1
            i += 2
            continue
        if not instr and depth and txt.startswith('*)', i):
            depth -= 1
            i += 2
            continue
        if depth == 0:
            out.append(txt[i])
        i += 1
    return ''.join(out)


def run_extract():
    """Regenerate coq/Extracted/*.v from /repo (fail-closed).  Returns list of
    (name, ok, detail)."""
    from . import extract
    return extract.run(REPO, os.path.join(COQ, 'Extracted'))


def ensure_makefile():
    mk = os.path.join(COQ, 'Makefile')
    proj = os.path.join(COQ, '_CoqProject')
    if (not os.path.exists(mk)) or os.path.getmtime(mk) < os.path.getmtime(proj):
        rc, out = sh('coq_makefile -f _CoqProject -o Makefile', cwd=COQ)
        if rc:
            raise RuntimeError('coq_makefile failed: ' + out)


def make_targets(targets, timeout=1500):
    """Build the given .vo targets (full .vo build).  Returns (ok, log)."""
    with Lock('make.lock'):
        ensure_makefile()
        rc, out = sh(['timeout', str(timeout), 'make', '-j%d' % NCPU, '-k', 'Base/Harness.vo'] + list(targets),
                     cwd=COQ, timeout=timeout + 30)
    return rc == 0, out


def check_props(props_file):
    """Re-compile the Props file on its own and harvest theorem names and the
    Print Assumptions output.  Returns dict."""
    src = open(os.path.join(COQ, props_file)).read()
    src_nc = strip_coq_comments(src)
    theorems = re.findall(r'^\s*(?:Theorem|Example)\s+([A-Za-z0-9_\']+)', src_nc, re.M)
    printed = re.findall(r'^\s*Print Assumptions\s+([A-Za-z0-9_\']+)', src_nc, re.M)
    tmpd = tempfile.mkdtemp(prefix='props_', dir=WORK)
    try:
        vo = os.path.join(tmpd, 'Props.vo')
        rc, out = sh(['timeout', '900', 'coqc', '-Q', '.', 'V', '-o', vo, props_file], cwd=COQ, timeout=930)
    finally:
        shutil.rmtree(tmpd, ignore_errors=True)
    out = '\n'.join(l for l in out.splitlines() if 'conda' not in l)
    closed = out.count('Closed under the global context')
    axiom_blocks = re.findall(r'Axioms:\n((?:.+\n?)+?)(?=\n\S|\Z)', out)
    axioms = sorted(set(re.findall(r'^([A-Za-z_][\w\.\']*)\s*:', '\n'.join(axiom_blocks), re.M)))
    return dict(ok=(rc == 0), theorems=theorems, printed=printed, closed=closed,
                axiom_blocks=len(axiom_blocks), axioms=axioms, log=out[-4000:])


# --------------------------------------------------------------------------
def parse_verdict(out):
    """Parse '= ([i; j], [k])' printed by Eval vm_compute in (verdict ...)."""
    m = re.search(r'=\s*\((\[[^\]]*\])\s*,\s*(\[[^\]]*\])\s*\)', out.replace('\n', ' '))
    if not m:
        return None
    def idx(s):
        return [int(x) for x in re.findall(r'\d+', s.replace('%N', ''))]
    return idx(m.group(1)), idx(m.group(2))


def coq_eval_cases(mod, terms, workdir, tag, shard=None):
    """terms: list of Gallina `case` terms.  Returns (bad_corr, bad_prop, errors)
    as lists of indices into terms."""
    os.makedirs(workdir, exist_ok=True)
    if shard is None:
        # spread the cases over the cores; at most 400 cases per file
        shard = max(20, min(400, -(-len(terms) // NCPU)))
    coq_eval_cases.last_shard = shard
    nfiles = -(-len(terms) // shard) if terms else 0
    # file j gets the cases j, j + nfiles, j + 2 nfiles, ...: generators emit their expensive kinds of cases in blocks,
    # and a contiguous split would put a whole block into one file
    groups = [list(range(j, len(terms), nfiles)) for j in range(nfiles)]

    def write_cases(fn, idxs):
        with open(fn, 'w') as f:
            f.write('From Coq Require Import ZArith NArith QArith List String Ascii Bool.\n')
            f.write('From V Require Import Base.Harness.\n')
            f.write(mod.CASE_IMPORTS + '\n')
            f.write('Import ListNotations.\nLocal Open Scope list_scope.\n')
            f.write('Definition cases : list case := [\n')
            f.write(';\n'.join(terms[i] for i in idxs))
            f.write('\n].\n')
            f.write('Eval vm_compute in (verdict corr prop cases).\n')

    files = []
    for j, idxs in enumerate(groups):
        fn = os.path.join(workdir, 'cases_%s_%d.v' % (tag, j))
        write_cases(fn, idxs)
        files.append((idxs, fn))

    def one(kf, limit=900):
        idxs, fn = kf
        rc, out = sh('ulimit -s unlimited 2>/dev/null; timeout %d coqc -Q %s V %s' % (limit, COQ, fn),
                     cwd=workdir, timeout=limit + 30)
        v = parse_verdict(out) if rc == 0 else None
        return idxs, fn, rc, out, v

    bad_corr, bad_prop, errors = [], [], []
    slow = []
    with ThreadPoolExecutor(max_workers=NCPU) as ex:
        for idxs, fn, rc, out, v in ex.map(one, files):
            if v is None:
                if rc == 124 and len(idxs) > 1:
                    slow.append((idxs, fn))          # ran out of time: evaluated again below, in small pieces
                else:
                    errors.append((fn, out[-3000:]))
                continue
            bad_corr += [idxs[i] for i in v[0]]
            bad_prop += [idxs[i] for i in v[1]]
    # a file of cases that ran out of time is split into pieces of a few cases, each with a longer limit of its own, so
    # that a few expensive cases sharing a file (or a busy machine) do not turn into a failed obligation
    if slow:
        pieces = []
        for idxs, fn0 in slow:
            step = max(1, len(idxs) // 16)
            for j in range(0, len(idxs), step):
                fn = fn0[:-2] + '_retry_%d.v' % j
                write_cases(fn, idxs[j:j + step])
                pieces.append((idxs[j:j + step], fn))
        with ThreadPoolExecutor(max_workers=NCPU) as ex:
            for idxs, fn, rc, out, v in ex.map(lambda kf: one(kf, 2400), pieces):
                if v is None:
                    errors.append((fn, out[-3000:]))
                    continue
                bad_corr += [idxs[i] for i in v[0]]
                bad_prop += [idxs[i] for i in v[1]]
    return sorted(bad_corr), sorted(bad_prop), errors


# --------------------------------------------------------------------------
def load_known():
    if not os.path.exists(KNOWN_FILE):
        return {'findings': [], 'fixed': []}
    return json.load(open(KNOWN_FILE))


def validate_json(obj, schema_path):
    """jsonschema lives in the tooling venv (python3-vt), not in /venv."""
    code = ("import json,sys,jsonschema; obj=json.load(sys.stdin); "
            "jsonschema.validate(obj, json.load(open(%r)))" % schema_path)
    try:
        p = subprocess.run(['python3-vt', '-c', code], input=json.dumps(obj, default=str), text=True,
                           stdout=subprocess.PIPE, stderr=subprocess.PIPE, timeout=60)
    except (OSError, subprocess.TimeoutExpired):
        return None
    if p.returncode == 0:
        return None
    if 'ModuleNotFoundError' in p.stderr:
        return None
    return p.stderr.strip().splitlines()[-1][:500] if p.stderr.strip() else 'invalid'


def validate_evidence(ev):
    return validate_json(ev, '/root/.vp/EVIDENCE.schema.json')


def write_evidence(pid, ev):
    os.makedirs(EVIDENCE, exist_ok=True)
    err = validate_evidence(ev)
    if err:
        log('evidence does not validate:', err)
        ev.setdefault('coverage', {})['schema_error'] = err
    with open(os.path.join(EVIDENCE, pid + '.json'), 'w') as f:
        json.dump(ev, f, indent=1, sort_keys=True, default=str)
        f.write('\n')


def write_replay(pid, name, payload):
    os.makedirs(REPLAYS, exist_ok=True)
    p = os.path.join(REPLAYS, '%s_%s.json' % (pid, name))
    with open(p, 'w') as f:
        json.dump(payload, f, indent=1, default=str)
        f.write('\n')
    return p


def corpus_cases(pid):
    d = os.path.join(CORPUS, pid)
    out = []
    if os.path.isdir(d):
        for fn in sorted(os.listdir(d)):
            if fn.endswith('.json'):
                j = json.load(open(os.path.join(d, fn)))
                out.append((fn, j['input'] if isinstance(j, dict) and 'input' in j else j))
    return out


def canon_key(x):
    return hashlib.sha1(json.dumps(x, sort_keys=True, default=str).encode()).hexdigest()


# --------------------------------------------------------------------------
class Result:
    def __init__(self):
        self.violations = []     # (kind, replay_path, no_input)
        self.known = []


def run_property(mod, tier='quick', seed=0, replay=None):
    t0 = time.time()
    pid = mod.ID
    os.makedirs(WORK, exist_ok=True)
    workdir = tempfile.mkdtemp(prefix='%s_' % pid, dir=WORK)
    ev = {'property_id': pid, 'tier': tier, 'seed': seed, 'level': getattr(mod, 'LEVEL', 'proof'),
          'coverage': {}, 'assumptions': list(getattr(mod, 'ASSUMPTIONS', [])), 'wall_s': 0.0, 'violations': 0}
    cov = ev['coverage']
    violations = []   # dicts
    known_lines = []
    obligations = []  # (name, ok, detail)
    try:
        # 0. gate
        hits = forbidden_scan()
        obligations.append(('grep-gate:no-Admitted/Axiom/Parameter', not hits, '; '.join(hits[:5])))
        # 1. extraction
        try:
            ex = run_extract()
        except Exception as e:  # fail closed
            ex = [('extract', False, repr(e)[:300])]
        wanted = getattr(mod, 'EXTRACTED', None)
        for name, ok, detail in ex:
            if wanted is None or name in wanted:
                obligations.append(('extract:' + name, ok, detail))
        # 2. build
        # the model / checker side (needed to evaluate cases) is built first, the theorems separately, so
        # that a broken proof obligation does not stop the search for a concrete failing input
        core = [t for t in mod.COQ_TARGETS if not t.endswith('Props.vo')]
        ok, mlog = make_targets(core)
        obligations.append(('build:' + ','.join(core), ok, '' if ok else mlog[-1500:]))
        build_ok = ok
        rest = [t for t in mod.COQ_TARGETS if t.endswith('Props.vo')]
        if rest:
            ok2, mlog2 = make_targets(rest)
            obligations.append(('build:' + ','.join(rest), ok2, '' if ok2 else mlog2[-1500:]))
        pr = None
        if getattr(mod, 'PROPS', None):
            pr = check_props(mod.PROPS)
            if pr['ok']:
                for th in pr['theorems']:
                    obligations.append(('theorem:' + th, True, ''))
                unexpected = [a for a in pr['axioms'] if a not in getattr(mod, 'ALLOWED_AXIOMS', [])]
                obligations.append(('assumptions:closed-or-allowed', not unexpected and
                                    pr['closed'] + pr['axiom_blocks'] == len(pr['printed']),
                                    'axioms=%s closed=%d printed=%d' % (pr['axioms'], pr['closed'], len(pr['printed']))))
            else:
                failing = re.findall(r'File "\./([^"]+)", line (\d+)', pr['log'])
                obligations.append(('theorems:%s' % mod.PROPS, False, pr['log'][-1500:]))
        if tier == 'thorough' and getattr(mod, 'PROPS', None) and pr and pr['ok'] and not os.environ.get('VERIF_NO_COQCHK'):
            # independent re-check of the compiled property theorems and everything they depend on
            lib = 'V.' + mod.PROPS[:-2].replace('/', '.')
            rc, out = sh(['timeout', '1500', 'coqchk', '-silent', '-o', '-Q', '.', 'V', lib], cwd=COQ, timeout=1530)
            out = '\n'.join(l for l in out.splitlines() if 'conda' not in l)
            axioms_none = 'Axioms: <none>' in out
            clean = out.count('<none>') >= 4
            obligations.append(('coqchk:%s' % lib, rc == 0 and axioms_none and clean,
                                'rc=%d %s' % (rc, out[-600:].replace('\n', ' | '))))
        if hasattr(mod, 'extra_obligations'):
            obligations += list(mod.extra_obligations())
        # 3. cases
        rng = random.Random(seed)
        inputs = []
        if replay:
            j = json.load(open(replay))
            inputs = [('replay', j['input'])]
        else:
            inputs = [('corpus/' + fn, c) for fn, c in corpus_cases(pid)]
            gen = mod.generate(rng, tier)
            inputs += [('gen', c) for c in gen]
        if hasattr(mod, 'run_impl_all'):
            outs = mod.run_impl_all([c for _, c in inputs])
        else:
            outs = []
            timeouts = 0
            for _, c in inputs:
                try:
                    # a module may bound the time the implementation gets for one case (IMPL_TIMEOUT, seconds: orders of
                    # magnitude above what any generated case needs); once one case has run out of time the verdict is
                    # settled, and the remaining cases get a short limit so that the check still ends
                    limit = getattr(mod, 'IMPL_TIMEOUT', None)
                    outs.append(call_with_timeout(mod.run_impl, c, limit if not timeouts else min(limit, 5)) if limit
                                else mod.run_impl(c))
                except ImplTimeout as e:
                    timeouts += 1
                    outs.append({'_exception': 'no result after %s s (the implementation does not return on this input)' % e,
                                 '_where': 'time limit'})
                except Exception as e:  # pylint: disable=broad-except
                    # an exception the harness does not expect from the implementation on a valid input
                    import traceback
                    outs.append({'_exception': '%s: %s' % (type(e).__name__, str(e)[:300]),
                                 '_where': traceback.format_exc()[-600:]})
        terms, tidx = [], []
        hist = {}
        nontriv = set()
        py_bad = []
        for i, ((src, c), o) in enumerate(zip(inputs, outs)):
            if isinstance(o, dict) and '_exception' in o:
                py_bad.append((i, 'implementation raised ' + o['_exception']))
                continue
            k = mod.nontrivial(c, o) if hasattr(mod, 'nontrivial') else canon_key(c)
            if k is not None:
                nontriv.add(canon_key([k]) if not isinstance(k, str) else k)
            if hasattr(mod, 'describe'):
                for hk, hv in mod.describe(c, o).items():
                    hist.setdefault(hk, {})
                    hist[hk][str(hv)] = hist[hk].get(str(hv), 0) + 1
            if hasattr(mod, 'py_prop'):
                msg = mod.py_prop(c, o)
                if msg:
                    py_bad.append((i, msg))
            t = mod.emit(c, o) if build_ok else None
            if t is not None:
                terms.append(t)
                tidx.append(i)
        bad_corr, bad_prop, errors = ([], [], [])
        if terms:
            bc, bp, errors = coq_eval_cases(mod, terms, workdir, 'main')
            bad_corr = [tidx[i] for i in bc]
            bad_prop = [tidx[i] for i in bp]
        for fn, out in errors:
            obligations.append(('correspondence-batch:' + os.path.basename(fn), False, out[-800:]))
        shard_size = getattr(coq_eval_cases, 'last_shard', 400)
        nbatches = (len(terms) + shard_size - 1) // shard_size if terms else 0
        for b in range(nbatches - len(errors)):
            obligations.append(('correspondence-batch:%d' % b, True, ''))
        # 4. verdict
        known = load_known()
        known_ids = {f['id']: f for f in known.get('findings', []) if f.get('property') == pid}
        reported_known = set()

        def classify(i, kind, msg=''):
            src, c = inputs[i]
            o = outs[i]
            fid = mod.known(c, o) if hasattr(mod, 'known') else None
            if fid and fid in known_ids:
                if fid not in reported_known:
                    reported_known.add(fid)
                    known_lines.append('KNOWN-FINDING: property=%s %s: %s' % (pid, fid, known_ids[fid]['what']))
                return
            violations.append(dict(kind=kind, index=i, source=src, input=c, impl_output=o, message=msg))

        for i in bad_prop:
            classify(i, 'property-checker-false-on-implementation-output')
        for i, msg in py_bad:
            if i not in bad_prop:
                classify(i, 'python-side-property-check', msg)
        only_corr = [i for i in bad_corr if i not in bad_prop and i not in [j for j, _ in py_bad]]
        failed_obl = [o for o in obligations if not o[1]]
        replay_paths = []
        if violations:
            # shrink the first one
            v = violations[0]
            small = shrink_case(mod, v['input'], workdir, want='prop') if hasattr(mod, 'shrink') else None
            if small is not None and small[1] is not None:
                v['shrunk_input'], v['shrunk_impl_output'] = small
            p = write_replay(pid, 'violation', dict(property=pid, seed=seed, tier=tier, kind=v['kind'],
                                                    input=v.get('shrunk_input', v['input']),
                                                    original_input=v['input'],
                                                    impl_output=v.get('shrunk_impl_output', v['impl_output']),
                                                    message=v.get('message', ''),
                                                    n_failing=len(violations)))
            replay_paths.append((p, False))
        elif only_corr or failed_obl:
            # model != code, or an obligation no longer checks: the property is no longer shown.
            found = None
            if hasattr(mod, 'directed_search') and not replay:
                found = mod.directed_search(rng, tier, dict(bad_corr=[inputs[i][1] for i in only_corr],
                                                            failed=[o[0] for o in failed_obl]))
            if found is not None:
                c, o, msg = found
                fid = mod.known(c, o) if hasattr(mod, 'known') else None
                if fid and fid in known_ids:
                    known_lines.append('KNOWN-FINDING: property=%s %s: %s' % (pid, fid, known_ids[fid]['what']))
                    found = None
                else:
                    p = write_replay(pid, 'violation', dict(property=pid, seed=seed, tier=tier,
                                                            kind='directed-search', input=c, impl_output=o, message=msg,
                                                            broken=[o2[0] for o2 in failed_obl],
                                                            disagreeing=[inputs[i][1] for i in only_corr[:3]]))
                    replay_paths.append((p, False))
            if found is None and (only_corr or failed_obl):
                # known-finding suppression for pure correspondence disagreements
                rest = []
                for i in only_corr:
                    src, c = inputs[i]
                    fid = mod.known(c, outs[i]) if hasattr(mod, 'known') else None
                    if fid and fid in known_ids:
                        if fid not in reported_known:
                            reported_known.add(fid)
                            known_lines.append('KNOWN-FINDING: property=%s %s: %s' % (pid, fid, known_ids[fid]['what']))
                    else:
                        rest.append(i)
                if rest or failed_obl:
                    first = rest[0] if rest else None
                    small = None
                    if first is not None and hasattr(mod, 'shrink'):
                        small = shrink_case(mod, inputs[first][1], workdir, want='corr')
                    p = write_replay(pid, 'unproved', dict(
                        property=pid, seed=seed, tier=tier, kind='no-failing-input-found',
                        broken_obligations=[dict(name=o2[0], detail=o2[2]) for o2 in failed_obl],
                        correspondence_disagreements=len(rest),
                        input=(small[0] if small else (inputs[first][1] if first is not None else None)),
                        impl_output=(small[1] if small else (outs[first] if first is not None else None)),
                        note='model and implementation disagree or a proof obligation no longer checks; '
                             'the proved checker accepted every implementation output explored'))
                    replay_paths.append((p, True))
        # 5. evidence
        cov['obligations'] = len(obligations)
        cov['discharged'] = sum(1 for o in obligations if o[1])
        cov['obligation_list'] = [o[0] + ('' if o[1] else ' [FAILED]') for o in obligations]
        cov['checker_cmd'] = 'make -C coq %s && coqc -Q coq V coq/%s  (Coq 8.16.1 kernel; vm_compute for case evaluation)' % (
            ' '.join(mod.COQ_TARGETS), getattr(mod, 'PROPS', ''))
        tb = ['Coq 8.16.1 kernel (coqc), vm_compute; no native_compute',
              'hand-written Gallina model tied to /repo by in-Coq correspondence evaluation of generated cases',
              'harness vlib/common.py + vlib/%s.py (generators, canonicalisation, literal emission)' % pid.lower()]
        if pr:
            tb.append('Print Assumptions: %d theorems closed under the global context; axioms: %s' %
                      (pr['closed'], ', '.join(pr['axioms']) or 'none'))
        tb += list(getattr(mod, 'TRUSTED', []))
        cov['trusted_base'] = tb
        cov['evaluations'] = len(inputs)
        cov['distinct_nontrivial'] = len(nontriv)
        cov['rule'] = getattr(mod, 'RULE', '')
        cov['traces_validated_against_impl'] = len(terms)
        cov['bad_corr'] = len(bad_corr)
        cov['bad_prop'] = len(bad_prop)
        cov['histograms'] = hist
        cov['samples'] = [dict(input=inputs[i][1], impl_output=outs[i]) for i in sample_idx(len(inputs), rng)]
        cov['known_findings_seen'] = sorted(reported_known)
        if hasattr(mod, 'extra_coverage'):
            cov.update(mod.extra_coverage())
        ev['violations'] = len(replay_paths)
        ev['wall_s'] = round(time.time() - t0, 2)
        write_evidence(pid, ev)
        for l in known_lines:
            print(l)
        for p, noinput in replay_paths:
            print('VIOLATION property=%s replay=%s%s' % (pid, p, ' no-failing-input-found' if noinput else ''))
        print('%s %s: %d cases, %d in Coq, obligations %d/%d, bad_corr=%d bad_prop=%d, %.1fs' % (
            pid, tier, len(inputs), len(terms), cov['discharged'], cov['obligations'],
            len(bad_corr), len(bad_prop), ev['wall_s']))
        return 1 if replay_paths else 0
    finally:
        shutil.rmtree(workdir, ignore_errors=True)


def sample_idx(n, rng, k=4):
    if n == 0:
        return []
    return sorted(set([0] + [rng.randrange(n) for _ in range(k - 1)]))


def shrink_case(mod, inp, workdir, want='prop', rounds=12):
    """Greedy shrinking: at each round evaluate all candidates (impl + Coq) and keep
    the first that still fails in the wanted way."""
    cur = inp
    cur_out = safe_impl(mod, cur)
    for r in range(rounds):
        cands = list(mod.shrink(cur))[:60]
        if not cands:
            break
        outs = [safe_impl(mod, c) for c in cands]
        terms, idx = [], []
        for i, (c, o) in enumerate(zip(cands, outs)):
            if o is None:
                continue
            t = mod.emit(c, o)
            if t is not None:
                terms.append(t)
                idx.append(i)
        if not terms:
            break
        bc, bp, errors = coq_eval_cases(mod, terms, workdir, 'shrink%d' % r)
        bad = bp if want == 'prop' else bc
        if not bad:
            break
        j = idx[bad[0]]
        cur, cur_out = cands[j], outs[j]
    return cur, cur_out


class ImplTimeout(Exception):
    pass


def call_with_timeout(fn, arg, seconds):
    import signal

    def handler(signum, frame):
        raise ImplTimeout(str(seconds))
    old = signal.signal(signal.SIGALRM, handler)
    signal.alarm(int(seconds))
    try:
        return fn(arg)
    finally:
        signal.alarm(0)
        signal.signal(signal.SIGALRM, old)


def safe_impl(mod, c):
    try:
        limit = getattr(mod, 'IMPL_TIMEOUT', None)
        return call_with_timeout(mod.run_impl, c, min(limit, 5)) if limit else mod.run_impl(c)
    except (Exception, ImplTimeout):  # pylint: disable=broad-except
        return None
