"""C02 — a written ITP states exactly the molecule held in memory (vermouth/gmx/itp.py)."""
import io
import re

from .common import zlit, strlit, optlit, listlit

ID = 'C02'
COQ_TARGETS = ['C02/Props.vo', 'C02/Corr.vo']
PROPS = 'C02/Props.v'
EXTRACTED = []
CASE_IMPORTS = 'From V Require Import C02.Model C02.Spec C02.Corr.'
RULE = ('random molecules: 1-9 atoms with sparse / negative / unordered node keys; atomid a permutation, partly or wholly '
        'absent, or with duplicates; 0-6 interaction types out of bonds angles dihedrals impropers constraints pairs '
        'exclusions position_restraints virtual_sites2/3 virtual_sitesn, parameters as ints/floats/strings incl. 0 and 0.0, '
        'versions, groups, #ifdef/#ifndef mixes (also both: error), comments, header, define block, with/without '
        'charge and mass. The real write_molecule_itp output is tokenised (split on blanks; a canonical decimal token is '
        'an index) and (i) compared line by line with the model, (ii) read by the independent Coq reader and compared '
        'with the canonical molecule. non-trivial = atom order differs from node order or keys are not 1..N, and at '
        'least one interaction; distinct by molecule')
ASSUMPTIONS = ['pre/post_section_lines are not generated (unused by the pipeline)',
               'a molecule with mass but no charge is excluded (mass lands in the charge column; cannot come from the force-field parser)',
               'tokens contain no blanks or ";"; decimal printing/parsing of indices is Python str()/the harness tokeniser',
               'interactions have the number of atoms their section requires (the reader splits by the GROMACS column table)']
TRUSTED = ['tokeniser of the real output in vlib/c02.py (split on blanks, first ";" starts a comment)',
           'str() of ints/floats is what str.format produces for a field without type']

SECTIONS = {'bonds': 2, 'angles': 3, 'dihedrals': 4, 'impropers': 4, 'constraints': 2, 'pairs': 2,
            'exclusions': None, 'position_restraints': 1, 'virtual_sites2': 3, 'virtual_sites3': 4,
            'virtual_sitesn': 'n'}
ATYPES = ['P1', 'Qd', 'SC4', 'TN6d', 'C1', '5']
RESNAMES = ['ALA', 'GLY', 'PO4', 'W', 'A1']
ANAMES = ['BB', 'SC1', 'SC2', 'CA', 'N', 'O1P', 'H']


def gen_param(rng):
    r = rng.random()
    if r < 0.3:
        return rng.choice([0, 1, 2, 3, 9, 1000, 1250])
    if r < 0.6:
        return rng.choice([0.0, 0.47, 1.5, -120.0, 1e-05, 25.0, 0.1 + 0.2])
    return rng.choice(['1', '0', '0.350', 'POSRES_FC', '-1.5', '2', 'a_b', '1e3'])


def gen_mol(rng):
    n = rng.randint(1, 9)
    keys = rng.sample(range(-5, 40), n)
    mode = rng.choice(['perm', 'perm', 'none', 'partial', 'dup', 'same'])
    base = rng.choice([1, 1, 0, 0, 5])                # atom ids of the input need not start at 1 (0-based numbering exists)
    ids = list(range(base, n + base))
    rng.shuffle(ids)
    with_charge = rng.random() < 0.7
    with_mass = with_charge and rng.random() < 0.5
    atoms = []
    for j, k in enumerate(keys):
        if mode == 'perm':
            aid = ids[j]
        elif mode == 'none':
            aid = None
        elif mode == 'partial':
            aid = ids[j] if rng.random() < 0.6 else None
        elif mode == 'dup':
            aid = rng.randint(base, max(base, n // 2))
        else:
            aid = j + base
        a = {'key': k, 'atomid': aid, 'atype': rng.choice(ATYPES), 'resid': rng.choice([1, 2, 3, 10, 12, 100]),
             'resname': rng.choice(RESNAMES), 'atomname': rng.choice(ANAMES), 'charge_group': rng.randint(1, 12)}
        if with_charge:
            a['charge'] = rng.choice([0.0, 1.0, -1.0, 0.5, 0, -0.25])
        if with_mass:
            a['mass'] = rng.choice([72.0, 36, 45.0, 0])
        atoms.append(a)
    inters = []
    for name in rng.sample(sorted(SECTIONS), rng.randint(0, 6)):
        lst = []
        for _ in range(rng.randint(1, 5)):
            ar = SECTIONS[name]
            if ar is None:
                na, params = rng.randint(2, 4), []
            elif ar == 'n':
                na, params = rng.randint(2, 5), [rng.choice([1, 2, 3])]
            else:
                na, params = ar, [gen_param(rng) for _ in range(rng.choice([0, 1, 2, 3, 4]))]
            if rng.random() < 0.03:
                na += 1     # wrong arity: outside wf, only the model/code comparison applies
            meta = {}
            r = rng.random()
            if r < 0.2:
                meta['ifdef'] = rng.choice(['FLEXIBLE', 'POSRES', 'A'])
            elif r < 0.35:
                meta['ifndef'] = rng.choice(['FLEXIBLE', 'POSRES', 'B'])
            elif r < 0.355:
                meta['ifdef'] = 'X'
                meta['ifndef'] = 'Y'
            if rng.random() < 0.3:
                meta['group'] = rng.choice(['Backbone bonds', 'Side chain', 'g', 'Rubber band'])
            if rng.random() < 0.2:
                meta['comment'] = rng.choice(['a comment', 'BB-SC1', 'x'])
            if rng.random() < 0.2:
                meta['version'] = rng.choice([0, 1, 2])
            pool = keys if rng.random() < 0.995 else keys + [99]
            lst.append({'atoms': [rng.choice(pool) for _ in range(na)], 'params': params, 'meta': meta})
        inters.append([name, lst])
    header = rng.choice([[], [], ['header line'], ['This is', 'a header']])
    define = rng.choice([{}, {}, {'POSRES_FC': 1000}, {'A': 1, 'B': '2.5'}])
    return {'moltype': rng.choice(['molecule_0', 'Protein', 'M1']), 'nrexcl': rng.choice([1, 3]), 'header': header,
            'define': define, 'atoms': atoms, 'inters': inters}


def generate(rng, tier):
    n = 600 if tier == 'quick' else 8000
    return [gen_mol(rng) for _ in range(n)]


def canonical_decimal(t):
    return re.fullmatch(r'0|[1-9][0-9]*', t) is not None


def tok(t):
    return ['i', int(t)] if canonical_decimal(t) else ['s', t]


def tokenise(text):
    lines = []
    for raw in text.split('\n')[:-1] if text.endswith('\n') else text.split('\n'):
        s = raw.strip()
        if not s:
            lines.append(['blank'])
        elif s.startswith('['):
            lines.append(['sec', s.strip('[]').strip()])
        elif s.startswith('#ifdef '):
            lines.append(['if', True, s.split(None, 1)[1].strip()])
        elif s.startswith('#ifndef '):
            lines.append(['if', False, s.split(None, 1)[1].strip()])
        elif s.startswith('#define '):
            p = s.split(None, 2)
            lines.append(['define', p[1], p[2] if len(p) > 2 else ''])
        elif s == '#endif':
            lines.append(['endif'])
        elif s.startswith(';'):
            lines.append(['comment', s[1:].strip()])
        else:
            body, sep, comment = s.partition(';')
            lines.append(['toks', [tok(t) for t in body.split()], comment.strip() if sep else None])
    return lines


def build(inp):
    import vermouth
    mol = vermouth.molecule.Molecule(nrexcl=inp['nrexcl'])
    mol.meta['moltype'] = inp['moltype']
    if inp['define']:
        mol.meta['define'] = dict(inp['define'])
    for a in inp['atoms']:
        attrs = {k: v for k, v in a.items() if k not in ('key', 'atomid')}
        if a['atomid'] is not None:
            attrs['atomid'] = a['atomid']
        mol.add_node(a['key'], **attrs)
    for name, lst in inp['inters']:
        for x in lst:
            mol.interactions[name].append(vermouth.molecule.Interaction(atoms=tuple(x['atoms']), parameters=list(x['params']),
                                                                        meta=dict(x['meta'])))
    return mol


def run_impl(inp):
    import vermouth.gmx.itp as itp
    mol = build(inp)
    out = io.StringIO()
    try:
        itp.write_molecule_itp(mol, out, header=list(inp['header']))
    except (ValueError, KeyError) as e:
        return {'error': type(e).__name__}
    return {'lines': tokenise(out.getvalue()), 'text': out.getvalue() if len(out.getvalue()) < 1500 else None}


def tok_lit(t):
    return '(TIdx %s)' % zlit(t[1]) if t[0] == 'i' else '(TStr %s)' % strlit(t[1])


def line_lit(l):
    k = l[0]
    if k == 'blank':
        return 'LBlank'
    if k == 'sec':
        return '(LSec %s)' % strlit(l[1])
    if k == 'if':
        return '(LIf %s %s)' % ('true' if l[1] else 'false', strlit(l[2]))
    if k == 'define':
        return '(LDefine %s %s)' % (strlit(l[1]), strlit(l[2]))
    if k == 'endif':
        return 'LEndif'
    if k == 'comment':
        return '(LComment %s)' % strlit(l[1])
    return '(LToks %s %s)' % (listlit(l[1], tok_lit), optlit(l[2], strlit))


def mol_lit(inp):
    def atom(a):
        return ('{| a_key := %s; a_atomid := %s; a_atype := %s; a_resid := %s; a_resname := %s; a_atomname := %s; '
                'a_cgrp := %s; a_charge := %s; a_mass := %s |}') % (
            zlit(a['key']), optlit(a['atomid'], zlit), strlit(str(a['atype'])), strlit(str(a['resid'])),
            strlit(str(a['resname'])), strlit(str(a['atomname'])), strlit(str(a['charge_group'])),
            optlit(str(a['charge']) if 'charge' in a else None, strlit),
            optlit(str(a['mass']) if 'mass' in a else None, strlit))

    def inter(x):
        m = x['meta']
        return ('{| i_atoms := %s; i_params := %s; i_ifdef := %s; i_ifndef := %s; i_group := %s; i_comment := %s |}') % (
            listlit(x['atoms'], zlit), listlit([str(p) for p in x['params']], strlit), optlit(m.get('ifdef'), strlit),
            optlit(m.get('ifndef'), strlit), optlit(m.get('group'), strlit), optlit(m.get('comment'), strlit))
    return ('{| m_moltype := %s; m_nrexcl := %s; m_header := %s; m_define := %s; m_atoms := %s; m_inters := %s |}') % (
        strlit(inp['moltype']), strlit(str(inp['nrexcl'])), listlit(inp['header'], strlit),
        listlit(list(inp['define'].items()), lambda nv: '(%s, %s)' % (strlit(nv[0]), strlit(str(nv[1])))),
        listlit(inp['atoms'], atom),
        listlit(inp['inters'], lambda tl: '(%s, %s)' % (strlit(tl[0]), listlit(tl[1], inter))))


def emit(inp, out):
    if 'error' in out:
        return 'CItp %s None' % mol_lit(inp)
    return 'CItp %s (Some %s)' % (mol_lit(inp), listlit(out['lines'], line_lit))


def nontrivial(inp, out):
    if 'error' in out or not inp['inters']:
        return None
    keys = [a['key'] for a in inp['atoms']]
    ids = [a['atomid'] for a in inp['atoms']]
    if keys == list(range(1, len(keys) + 1)) and ids == sorted(i for i in ids if i is not None) and None not in ids:
        return None
    return str(inp)


def describe(inp, out):
    ids = [a['atomid'] for a in inp['atoms']]
    return {'error': out.get('error', 'none'), 'n_atoms': len(inp['atoms']), 'n_sections': len(inp['inters']),
            'atomid': 'none' if all(i is None for i in ids) else 'partial' if None in ids else
            'dup' if len(set(ids)) < len(ids) else 'perm',
            'guards': sum(1 for _, l in inp['inters'] for x in l if 'ifdef' in x['meta'] or 'ifndef' in x['meta']) > 0,
            'has_vsn': any(n == 'virtual_sitesn' for n, _ in inp['inters']),
            'has_impropers': any(n == 'impropers' for n, _ in inp['inters'])}


def shrink(inp):
    for i in range(len(inp['inters'])):
        yield dict(inp, inters=inp['inters'][:i] + inp['inters'][i + 1:])
        name, lst = inp['inters'][i]
        for j in range(len(lst)):
            if len(lst) > 1:
                yield dict(inp, inters=inp['inters'][:i] + [[name, lst[:j] + lst[j + 1:]]] + inp['inters'][i + 1:])
    used = {a for _, l in inp['inters'] for x in l for a in x['atoms']}
    for i, a in enumerate(inp['atoms']):
        if a['key'] not in used and len(inp['atoms']) > 1:
            yield dict(inp, atoms=inp['atoms'][:i] + inp['atoms'][i + 1:])
    if inp['header']:
        yield dict(inp, header=[])
    if inp['define']:
        yield dict(inp, define={})
