"""C15 — elastic-network bonds are exactly the pairs meeting every stated criterion (apply_rubber_band.py)."""
import logging
import math
from fractions import Fraction

from .common import zlit, natlit, optlit, listlit, blit, qlit

ID = 'C15'
COQ_TARGETS = ['C15/Props.vo', 'C15/Corr.vo']
PROPS = 'C15/Props.v'
EXTRACTED = []
CASE_IMPORTS = 'From V Require Import C15.Model C15.Corr.\nFrom Coq Require Import QArith.'
RULE = ('molecules of 2-12 particles in 1-3 chains with numbering gaps and cross-links, irregular selections (not a '
        'prefix, not all), the three domain criteria (molecule, chain, residue regions on _old_resid/resid), residue '
        'separation 0-3, parameter sets in which each criterion is the only failing one: distances at upper*(1 +- 1e-9) '
        'and exactly on the cut-off, force constants just below / above the minimum force, decay with integer and '
        'fractional power (NaN below the lower bound), constants above the base constant (capping), NaN and missing '
        'coordinates, negative minimum force (outside the statement). The distance and decay matrices are computed by '
        'the real numeric kernels on the same coordinates and shipped as exact rationals. non-trivial = at least two '
        'selected atoms and at least one pair deciding differently from another; distinct by input')
ASSUMPTIONS = ['self_distance_matrix and compute_decay are taken from the implementation (validated: d^2 against exact rational arithmetic within 1e-12; the decay against exp(-a(d-lower)^p) recomputed with the math module within 1e-9, NaN for a negative base with a fractional power)',
               'bond lengths are compared within 6e-6 (rounded to 5 decimals), force constants within 1e-9 relative',
               'negative minimum force is outside the property (known finding F11)']
TRUSTED = ['numeric kernels (numpy sqrt/exp)']


def gen_case(rng):
    n = rng.randint(2, 12)
    nodes = []
    resid = 1
    chain = 0
    for i in range(n):
        if i and rng.random() < 0.15:
            chain += 1
        if i and rng.random() < 0.7:
            resid += rng.choice([1, 1, 1, 2, 3])
        nodes.append({'key': None, 'sel': rng.random() < 0.75, 'chain': None if rng.random() < 0.05 else chain, 'resid': resid,
                      'old_resid': None if rng.random() < 0.4 else resid + 100 + rng.choice([0, 0, 1]),
                      'resname': rng.choice(['ALA', 'GLY']), 'pos': 'ok'})
    keys = rng.sample(range(0, 40), n)
    for nd, k in zip(nodes, keys):
        nd['key'] = k
    # geometry: a jittered line so that many distances sit around the cut-offs
    spacing = rng.choice([0.15, 0.2, 0.3, 0.38])
    for i, nd in enumerate(nodes):
        nd['xyz'] = [round(spacing * i + rng.uniform(-0.05, 0.05), 4), round(rng.uniform(-0.2, 0.2), 4), round(rng.uniform(-0.2, 0.2), 4)]
    upper = rng.choice([0.5, 0.7, 0.9, 1.2])
    lower = rng.choice([0.0, 0.3, 0.5])
    mode = rng.random()
    if mode < 0.25 and n >= 2:
        # put one pair exactly on / just around the upper cut-off
        i, j = sorted(rng.sample(range(n), 2))
        f = rng.choice([1.0, 1 + 1e-9, 1 - 1e-9])
        nodes[i]['xyz'] = [0.0, 0.0, 0.0]
        nodes[j]['xyz'] = [upper * f, 0.0, 0.0]
    r = rng.random()
    if r < 0.04:
        rng.choice(nodes)['pos'] = 'nan'
    elif r < 0.07:
        rng.choice(nodes)['pos'] = 'missing'
    edges = []
    for i in range(n - 1):
        if nodes[i]['chain'] == nodes[i + 1]['chain'] and rng.random() < 0.9:
            edges.append([nodes[i]['key'], nodes[i + 1]['key']])
    for _ in range(rng.choice([0, 0, 1, 2])):
        i, j = rng.sample(range(n), 2)
        edges.append([nodes[i]['key'], nodes[j]['key']])
    decay = rng.choice([(0.0, 0.0), (0.0, 0.0), (1.5, 1.0), (6.0, 6.0), (2.0, 0.5), (0.8, 2.0), (3.0, 1.0)])
    base = rng.choice([500.0, 700.0, 1000.0])
    minf = rng.choice([0.0, 0.0, 0.0, 100.0, 350.0, 499.0, 1e-9, 700.0 if rng.random() < 0.3 else 10.0, -1.0 if rng.random() < 0.1 else 0.0])
    crit = rng.choice([['always'], ['chain'], ['chain'], ['region', [[101, 103], [104, 120]]], ['region', [[1, 3], [103, 101]]], ['regions'], ['regions']])
    if crit == ['regions']:
        # 1-3 residue regions over the effective residue numbers of this molecule: disjoint, overlapping or nested, in any order
        eff = sorted({nd['old_resid'] if nd['old_resid'] is not None else nd['resid'] for nd in nodes})
        regs = []
        for _ in range(rng.randint(1, 3)):
            a, b = sorted([rng.choice(eff), rng.choice(eff)])
            regs.append([a - rng.choice([0, 0, 1]), b + rng.choice([0, 0, 2])])
        crit = ['region', regs]
    return {'nodes': nodes, 'edges': edges, 'lower': lower, 'upper': upper, 'decay_factor': decay[0], 'decay_power': decay[1],
            'base': base, 'minf': minf, 'sep': rng.choice([0, 0, 1, 1, 2, 2, 3]), 'crit': crit, 'via_processor': rng.random() < 0.5}


def generate(rng, tier):
    return [gen_case(rng) for _ in range(300 if tier == 'quick' else 7000)]


class _Catch(logging.Handler):
    def __init__(self):
        super().__init__(level=logging.WARNING)
        self.records = []

    def emit(self, record):
        self.records.append((record.levelno, getattr(record, 'type', None)))


def run_impl(inp):
    import numpy as np
    import vermouth
    import vermouth.molecule
    from vermouth.processors import apply_rubber_band as arb
    import vermouth.forcefield
    ff = vermouth.forcefield.ForceField(name='ffc15')
    # what the force field would choose when the caller gives nothing: must lose against explicit arguments, 0 included
    ff.variables['elastic_network_res_min_dist'] = 5
    ff.variables['elastic_network_bond_type'] = 1
    mol = vermouth.molecule.Molecule(force_field=ff)
    mol.meta['moltype'] = 'm'
    for nd in inp['nodes']:
        attrs = {'sel': nd['sel'], 'resid': nd['resid'], 'resname': nd['resname'], 'atomname': 'BB'}
        if nd['chain'] is not None:
            attrs['chain'] = 'ABCDEFGH'[nd['chain']]
        if nd['old_resid'] is not None:
            attrs['_old_resid'] = nd['old_resid']
        if nd['pos'] == 'ok':
            attrs['position'] = np.array(nd['xyz'], dtype=float)
        elif nd['pos'] == 'nan':
            attrs['position'] = np.array([float('nan'), 0.0, 0.0])
        mol.add_node(nd['key'], **attrs)
    mol.add_edges_from([e for e in inp['edges'] if e[0] != e[1]])
    crit = inp['crit']
    criterion = {'always': arb.always_true, 'chain': arb.same_chain}.get(crit[0]) or arb.make_same_region_criterion(
        [tuple(r) for r in crit[1]])
    handler = _Catch()
    lg = logging.getLogger('vermouth')
    lg.addHandler(handler)
    res = {}
    try:
        with np.errstate(all='ignore'):
            if inp.get('via_processor'):
                # through the processor, with every choice given explicitly
                arb.ApplyRubberBand(inp['lower'], inp['upper'], inp['decay_factor'], inp['decay_power'], inp['base'], inp['minf'],
                                    res_min_dist=inp['sep'], bond_type=6, selector=lambda a: a.get('sel'),
                                    domain_criterion=criterion).run_molecule(mol)
            else:
                arb.apply_rubber_band(mol, lambda a: a.get('sel'), inp['lower'], inp['upper'], inp['decay_factor'],
                                      inp['decay_power'], inp['base'], inp['minf'], 6, criterion, inp['sep'])
        res['bonds'] = [[list(b.atoms), [float(x) for x in b.parameters[1:]]] for b in mol.interactions.get('bonds', [])]
    except ValueError:
        res['error'] = 'missing'
    except TypeError:
        res['error'] = 'missing'       # ' '.join of integer keys in the error message itself
    finally:
        lg.removeHandler(handler)
    res['warned'] = any(t == 'unmapped-atom' for _, t in handler.records)
    sel = [nd for nd in inp['nodes'] if nd['sel']]
    dm, km = [], []
    if sel and all(nd['pos'] == 'ok' for nd in sel):
        coords = np.stack([np.array(nd['xyz'], dtype=float) for nd in sel])
        d = arb.self_distance_matrix(coords)
        with np.errstate(all='ignore'):
            k = arb.compute_decay(d, inp['lower'], inp['decay_factor'], inp['decay_power']) * inp['base']
        dm = [[str(Fraction(float(x))) for x in row] for row in d]
        km = [[None if math.isnan(float(x)) else ('inf' if math.isinf(float(x)) else str(Fraction(float(x)))) for x in row] for row in k]
        # kernel check: d^2 against exact rational arithmetic
        worst = 0.0
        for i, a in enumerate(sel):
            for j, b in enumerate(sel):
                ex = sum((Fraction(a['xyz'][t]) - Fraction(b['xyz'][t])) ** 2 for t in range(3))
                got = Fraction(float(d[i][j])) ** 2
                if ex:
                    worst = max(worst, abs(float((got - ex) / ex)))
        res['kernel_rel_err'] = worst
        # the documented decay exp(-a (d - lower)^p), recomputed with the math module from the distances
        a, pw, lower = inp['decay_factor'], inp['decay_power'], inp['lower']
        bad = None
        for i in range(len(sel)):
            for j in range(len(sel)):
                x = float(d[i][j]) - lower
                got = float(k[i][j]) / inp['base'] if inp['base'] else None
                if got is None:
                    continue
                if x < 0 and pw != int(pw):
                    want = float('nan')                      # no real value: numpy gives NaN
                else:
                    try:
                        want = math.exp(-a * math.pow(x, pw))
                    except (OverflowError, ValueError, ZeroDivisionError):
                        continue
                if math.isnan(want) != math.isnan(got) or (not math.isnan(want) and abs(got - want) > 1e-9 * max(1.0, abs(want))):
                    bad = bad or 'decay for distance %r (lower bound %r, factor %r, power %r): %r, documented exp(-a(d-lower)^p) = %r' % (
                        float(d[i][j]), lower, a, pw, got, want)
        res['decay_mismatch'] = bad
    res['dm'], res['km'] = dm, km
    return res


def q(x):
    return qlit(Fraction(x))


def crit_lit(c):
    if c[0] == 'always':
        return 'AlwaysTrue'
    if c[0] == 'chain':
        return 'SameChain'
    return '(SameRegion %s)' % listlit(c[1], lambda r: '(%s, %s)' % (zlit(r[0]), zlit(r[1])))


def emit(inp, out):
    if any(x == 'inf' for row in out['km'] for x in row):
        return None
    resmap = {}
    def res_id(nd):
        key = (nd['chain'], nd['resid'], nd['resname'])
        return resmap.setdefault(key, len(resmap))
    nodes = listlit(inp['nodes'], lambda nd: ('{| n_key := %s; n_selected := %s; n_chain := %s; n_resid := %s; n_old_resid := %s; '
                                              'n_res := %s; n_pos := %s |}') % (
        zlit(nd['key']), blit(nd['sel']), optlit(nd['chain'], zlit), zlit(nd['resid']), optlit(nd['old_resid'], zlit),
        zlit(res_id(nd)), {'ok': '(Some false)', 'nan': '(Some true)', 'missing': 'None'}[nd['pos']]))
    P = '{| p_upper := %s; p_base := %s; p_minf := %s; p_sep := %s; p_crit := %s |}' % (
        q(float(inp['upper'])), q(float(inp['base'])), q(float(inp['minf'])), natlit(inp['sep']), crit_lit(inp['crit']))
    if out.get('error'):
        impl = 'IErrMissing'
    elif not any(nd['sel'] for nd in inp['nodes']):
        impl = 'INothing'
    elif any(nd['sel'] and nd['pos'] == 'nan' for nd in inp['nodes']) and not out['bonds']:
        impl = '(IWarnNaN %s)' % blit(out['warned'])
    else:
        impl = '(IBonds %s)' % listlit(out['bonds'], lambda b: '(%s, %s, %s, %s)' % (
            zlit(b[0][0]), zlit(b[0][1]), q(b[1][0]), q(b[1][1])))
    return 'CRb %s %s %s %s %s %s' % (
        P, nodes, listlit([e for e in inp['edges'] if e[0] != e[1]], lambda e: '(%s, %s)' % (zlit(e[0]), zlit(e[1]))),
        listlit(out['dm'], lambda row: listlit(row, q)), listlit(out['km'], lambda row: listlit(row, lambda x: optlit(x, q))), impl)


def known(inp, out):
    # F11: a negative minimum force makes every masked pair (constant 0) and the diagonal pass `0 > minimum_force`
    return 'F11' if inp['minf'] < 0 else None


def py_prop(inp, out):
    if out.get('kernel_rel_err', 0.0) > 1e-12:
        return 'distance kernel deviates from exact arithmetic by %g' % out['kernel_rel_err']
    if out.get('decay_mismatch'):
        return out['decay_mismatch']
    return None


def nontrivial(inp, out):
    nsel = sum(1 for nd in inp['nodes'] if nd['sel'])
    if nsel < 2 or 'bonds' not in out:
        return None
    npairs = nsel * (nsel - 1) // 2
    if len(out['bonds']) in (0, npairs):
        return None
    return str(inp)


def describe(inp, out):
    return {'n_nodes': len(inp['nodes']), 'n_selected': sum(1 for nd in inp['nodes'] if nd['sel']), 'crit': inp['crit'][0], 'via_processor': bool(inp.get('via_processor')), 'regions_overlap': inp['crit'][0] == 'region' and any(a[0] <= b[1] and b[0] <= a[1] for i, a in enumerate(inp['crit'][1]) for b in inp['crit'][1][i + 1:]),
            'sep': inp['sep'], 'n_bonds': min(len(out.get('bonds', [])), 20), 'error': out.get('error', 'none'),
            'warned_nan': out['warned'], 'negative_minf': inp['minf'] < 0,
            'decay': (inp['decay_factor'], inp['decay_power']) != (0.0, 0.0)}


def shrink(inp):
    nodes = inp['nodes']
    for i in range(len(nodes)):
        if len(nodes) > 2:
            k = nodes[i]['key']
            yield dict(inp, nodes=nodes[:i] + nodes[i + 1:], edges=[e for e in inp['edges'] if k not in e])
    for i in range(len(inp['edges'])):
        yield dict(inp, edges=inp['edges'][:i] + inp['edges'][i + 1:])
