"""C13 — force-field, topology and mapping files load to exactly what they declare."""
from fractions import Fraction

from . import c13_ff
from . import c13_map
from .common import zlit, natlit, strlit, optlit, listlit, blit, qlit

ID = 'C13'
LEVEL = 'proof'
COQ_TARGETS = ['C13/Props.vo', 'C13/Corr.vo']
PROPS = 'C13/Props.v'
EXTRACTED = ['ff_sections']
CASE_IMPORTS = 'From V Require Import C13.Tokenizer C13.Mechanisms C13.Lines C13.Corr.\nFrom Coq Require Import QArith.'
RULE = ('mechanisms (evaluated in Coq against the real functions): random interaction lines over blanks/braces/tokens for '
        '_tokenize; macro tables and lines for _substitute_macros; node keys x order attributes for _treat_atom_prefix; '
        'backward-mapping lines with multiplicities and ! markers for _compute_weights; event sequences (top-level '
        'headers of every kind in any order and number, sub-section headers, lines) printed as .ff files and loaded by '
        'read_ff; token lists of interaction lines of a block (declared names, 1-based indices incl. 0 / out of range / leading '
        'zeros, undeclared and prefixed names, bracketed attribute tokens, the -- delimiter, parameters, meta; free and fixed '
        'section sizes 1-4; random token soups) for _base_parser, and [ atoms ] lines (duplicates, missing columns, non-integer '
        'numbers, trailing attributes) for _parse_block_atom. whole files (validated in Python, not proved): random ASTs of the .ff grammar (macros, variables, '
        'citations, blocks with atoms/interactions/#meta/edges, links with attributes, choices, not(), order prefixes or '
        'order attributes, removals, non-edges, patterns, features, molmeta, modifications) and .itp files (several '
        'moleculetypes, #ifdef) and .mapping files (1-3 block mappings of 1-2 residues, shorthand identifiers with and without '
        '#resid, qualified and bare atom names, integer and float weights, atoms shared between particles, unmapped atoms, reference '
        'atoms), and backward .map files (1-3 molecules, origin / destination force-field lists in which some force fields lack the '
        'block or are unknown, repeated and ! targets) are printed, loaded and compared field by field; each listed fault is injected at a random '
        'position and must be rejected. non-trivial = a file with >= 2 contexts or a mechanism case exercising an error '
        'or a bracket; distinct by input')
ASSUMPTIONS = ['whole-file equality is differential testing against an expected value computed from the AST (partial: see DESIGN)',
               'macro values do not refer to themselves (the real substitution would not terminate)',
               'JSON attribute decoding is Python json (trusted)']
TRUSTED = ['printer and expected-value builder in vlib/c13_ff.py']

TOK_ALPHA = ['a', 'b', 'BB', '+', '1', ' ', ' ', '\t', '{', '}', '{"x": 1}', '--', '$', '"']


def gen_tok(rng):
    return {'kind': 'tok', 'line': ''.join(rng.choice(TOK_ALPHA) for _ in range(rng.randint(0, 9)))}


def gen_macro(rng):
    macros = [['x', '1.5'], ['yy', 'abc'], ['z', '$x'], ['w', '{$yy}']][:rng.randint(0, 4)]
    pieces = ['$x', '$yy', '$z', '$w', '$q', 'a', ' ', '{', '}', '"', '$', '\t']
    return {'kind': 'macro', 'macros': macros, 'line': ''.join(rng.choice(pieces) for _ in range(rng.randint(0, 7)))}


def gen_prefix(rng):
    prefix = rng.choice(['', '', '+', '-', '++', '--', '>', '<<', '*', '+-', '><', '***'])
    base = rng.choice(['BB', 'SC1', 'C', '', 'X1'])
    order = rng.choice([None, None, 0, 1, -1, 2, -2, '>', '<<', '*', '**', '+', '><', 3, True])
    name = rng.choice([None, None, 'NM'])
    return {'kind': 'prefix', 'ref': prefix + base, 'order': order, 'name': name}


def gen_weights(rng):
    lines = []
    for a in range(rng.randint(1, 4)):
        to = []
        for _ in range(rng.randint(1, 5)):
            to.append([rng.random() < 0.25, rng.randint(1, 3)])
        lines.append({'from': a, 'to': to})
    return {'kind': 'weights', 'lines': lines}


LINE_NAMES = ['BB', 'SC1', 'SC2', 'CA', 'N1']
ATTR_TOKENS = ['{"a": 1}', '{"v": 2}', '{"a": {"b": 3}}']


def gen_line(rng):
    """tokens of one interaction line of a block handed to _base_parser"""
    names = rng.sample(LINE_NAMES, rng.randint(1, 4))
    if rng.random() < 0.08:
        names.append('+BB')                  # a block atom whose name starts with an order character cannot be referred to
    natoms = rng.choice([None, None, 1, 2, 2, 3, 4])
    if rng.random() < 0.55:
        # a line in the documented shape: references (names or 1-based indices), attributes, delimiter, parameters, meta
        n = natoms if natoms is not None and rng.random() < 0.75 else rng.randint(0, 5)
        toks = []
        for _ in range(n):
            r = rng.random()
            if r < 0.6:
                toks.append(rng.choice(names))
            elif r < 0.85:
                toks.append(str(rng.randint(1, len(names))))
            elif r < 0.9:
                toks.append(rng.choice(['0', '00', str(len(names) + 1), '9', '01']))
            else:
                toks.append(rng.choice(['ZZ', '+BB', '-SC1']))
            if rng.random() < 0.25:
                toks.append(rng.choice(ATTR_TOKENS))
        if natoms is None or rng.random() < 0.5:
            toks.append('--')
        toks += [rng.choice(['1', '0.3', '100', '2', 'BB']) for _ in range(rng.randint(0, 3))]
        if rng.random() < 0.3:
            toks.append(rng.choice(ATTR_TOKENS))
    else:
        alpha = names + ['ZZ', '0', '1', '2', '3', '9', '--', '1', '0.3'] + ATTR_TOKENS
        toks = [rng.choice(alpha) for _ in range(rng.randint(0, 8))]
    return {'kind': 'line', 'names': names, 'natoms': natoms, 'delete': rng.random() < 0.05, 'tokens': toks}


def gen_atomlines(rng):
    """the [ atoms ] lines of one block handed to _parse_block_atom one after the other"""
    lines = []
    pool = ['BB', 'SC1', 'SC2', 'CA', 'N1', 'BB']
    for i in range(rng.randint(1, 5)):
        toks = [str(i + 1), rng.choice(['P1', 'C3']), rng.choice(['1', '2', '12', '-3', '+4']), 'ALA', rng.choice(pool), str(i + 1)]
        r = rng.random()
        if r < 0.08:
            toks[2] = rng.choice(['x', '1.5'])
        elif r < 0.14:
            toks[5] = rng.choice(['y', '2.0'])
        elif r < 0.22:
            toks = toks[:rng.randint(0, 5)]
        if len(toks) == 6 and rng.random() < 0.6:
            toks.append(rng.choice(['0.0', '1.0', '-0.5']))
            if rng.random() < 0.5:
                toks.append(rng.choice(['72.0', '36']))
                if rng.random() < 0.1:
                    toks.append('extra')
        if rng.random() < 0.25:
            toks.append(rng.choice(ATTR_TOKENS))
        lines.append(toks)
    return {'kind': 'atomlines', 'lines': lines}


def gen_sections(rng):
    es = []
    for _ in range(rng.randint(1, 12)):
        r = rng.random()
        if r < 0.4:
            es.append(['top', rng.choice(['block', 'link', 'link', 'mod', 'other', 'other2'])])
        elif r < 0.5:
            es.append(['sub'])
        else:
            es.append(['line', len(es)])
    if es[0][0] != 'top':
        es.insert(0, ['top', rng.choice(['block', 'link', 'mod', 'other'])])
    return {'kind': 'sections', 'events': es}


def print_sections(events):
    out = []
    top = None
    sub = None
    tid = -1
    for e in events:
        if e[0] == 'top':
            tid += 1
            top = e[1]
            sub = None
            if top == 'block':
                out += ['[ moleculetype ]', 'B%d 1' % tid]
            elif top == 'link':
                out += ['[ link ]']
            elif top == 'mod':
                out += ['[ modification ]', 'M%d' % tid]
            elif top == 'other':
                out += ['[ citations ]']
            else:
                out += ['[ macros ]']
        elif e[0] == 'sub':
            if top in ('block', 'link', 'mod'):
                out += ['[ citation ]']
                sub = 'citation'
        else:
            p = e[1]
            if top == 'block':
                if sub != 'atoms':
                    out += ['[ atoms ]']
                    sub = 'atoms'
                out += ['1 P1 1 RES A%d 1' % p]
            elif top in ('link', 'mod'):
                if sub != 'atoms':
                    out += ['[ atoms ]']
                    sub = 'atoms'
                out += ['A%d {"element": "C"}' % p]
            elif top == 'other':
                out += ['cite%d' % p]
            else:
                out += ['m%d v%d' % (p, p)]
    return out


def generate(rng, tier):
    k = 1 if tier == 'quick' else 12
    cases = []
    cases += [gen_tok(rng) for _ in range(300 * k)]
    for l in ['BB {"a": 1}+BB{"b": {"c": 2}} -- 1', 'a}{b', '{a}}', 'a {b', '{', '}', '{}{}', 'a{b}c', ' \t a  b\t', '']:
        cases.append({'kind': 'tok', 'line': l})
    cases += [gen_macro(rng) for _ in range(150 * k)]
    cases += [gen_prefix(rng) for _ in range(200 * k)]
    cases += [gen_weights(rng) for _ in range(100 * k)]
    cases += [gen_sections(rng) for _ in range(150 * k)]
    cases += [gen_line(rng) for _ in range(400 * k)]
    cases += [gen_atomlines(rng) for _ in range(150 * k)]
    for _ in range(120 * k):
        cases.append({'kind': 'ff', 'ff': c13_ff.gen_ff(rng)})
    for i in range(80 * k):
        cases.append({'kind': 'fault', 'ff': c13_ff.gen_ff(rng), 'fault': c13_ff.FAULTS[i % len(c13_ff.FAULTS)], 'sub': rng.randrange(10 ** 6)})
    for _ in range(60 * k):
        cases.append({'kind': 'itp', 'mols': c13_ff.gen_itp(rng)})
    for _ in range(60 * k):
        cases.append({'kind': 'itpfault', 'mols': c13_ff.gen_itp(rng), 'sub': rng.randrange(10 ** 6)})
    for _ in range(100 * k):
        cases.append({'kind': 'mapping', 'file': c13_map.gen_file(rng)})
    for _ in range(60 * k):
        cases.append({'kind': 'backmap', 'file': c13_map.gen_backmap(rng)})
    for i in range(40 * k):
        cases.append({'kind': 'mapfault', 'file': c13_map.gen_file(rng), 'fault': c13_map.MAP_FAULTS[i % len(c13_map.MAP_FAULTS)], 'sub': rng.randrange(10 ** 6)})
    return cases


def run_impl(inp):
    import random
    import vermouth
    import vermouth.forcefield
    from vermouth import ffinput, parser_utils, map_input
    from vermouth.gmx import itp_read
    k = inp['kind']
    if k == 'tok':
        try:
            return {'tokens': parser_utils._tokenize(inp['line'])}
        except IOError:
            return {'tokens': None}
    if k == 'macro':
        try:
            return {'line': parser_utils._substitute_macros(inp['line'], dict(inp['macros']))}
        except (KeyError, UnboundLocalError):
            # a '$' at the very end of the line makes the real function fail with UnboundLocalError instead of
            # KeyError (observation recorded in DESIGN); both count as "rejected"
            return {'line': None}
    if k == 'prefix':
        attrs = {}
        if inp['order'] is not None:
            attrs['order'] = inp['order']
        if inp['name'] is not None:
            attrs['atomname'] = inp['name']
        try:
            key, out = ffinput._treat_atom_prefix(inp['ref'], attrs)
            return {'ok': True, 'key': key, 'order': out['order'], 'atomname': out['atomname']}
        except IOError:
            return {'ok': False}
    if k == 'weights':
        mapping = {'a%d' % l['from']: [('!' if null else '') + 'b%d' % t for null, t in l['to']] for l in inp['lines']}
        try:
            w = map_input._compute_weights(mapping, 'test')
            return {'weights': [[int(to[1:]), [[int(fr[1:]), str(Fraction(wt).limit_denominator(10 ** 6))] for fr, wt in fw.items()]] for to, fw in w.items()]}
        except IOError:
            return {'weights': None}
    ff0 = vermouth.forcefield.ForceField(name='testff')
    if k == 'line':
        import collections
        import json
        from vermouth.molecule import Block
        block = Block()
        block.name = 'X'
        for n in inp['names']:
            block.add_node(n, atomname=n)
        try:
            ffinput._base_parser(collections.deque(inp['tokens']), block, 'block', 'bonds', natoms=inp['natoms'], delete=inp['delete'])
        except IOError:
            return {'line': None}
        (inter,) = block.interactions['bonds']
        meta = None
        if inter.meta:
            (meta,) = [t for t in ATTR_TOKENS if json.loads(t) == dict(inter.meta)]
        return {'line': [list(inter.atoms), [str(p) for p in inter.parameters], meta]}
    if k == 'atomlines':
        import collections
        from vermouth.molecule import Block
        block = Block()
        block.name = 'X'
        try:
            for toks in inp['lines']:
                ffinput._parse_block_atom(collections.deque(toks), block)
        except (IOError, ValueError, IndexError):
            return {'atoms': None}
        return {'atoms': list(block.nodes)}
    ff = vermouth.forcefield.ForceField(name='testff')
    if k == 'sections':
        ffinput.read_ff(print_sections(inp['events']), ff)
        blocks = [[int(name[1:]), [int(a[1:]) for a in b.nodes]] for name, b in ff.blocks.items()]
        links = [[None, [int(a[1:]) for a in l.nodes]] for l in ff.links]
        mods = [[int(name[1:]), [int(a[1:]) for a in m.nodes]] for name, m in ff.modifications.items()]
        return {'blocks': blocks, 'links': links, 'mods': mods}
    if k == 'ff':
        lines = c13_ff.print_ff(inp['ff'])
        try:
            ffinput.read_ff(lines, ff)
        except Exception as e:  # pylint: disable=broad-except
            return {'msg': 'a well-formed file was rejected: %s: %s (cause %r)' % (type(e).__name__, e, e.__cause__), 'text': lines}
        return {'msg': c13_ff.check_ff(inp['ff'], ff), 'text': lines if len(lines) < 80 else None}
    if k == 'fault':
        lines = c13_ff.inject_fault(random.Random(inp['sub']), inp['ff'], inp['fault'])
        if lines is None:
            return {'msg': None, 'skipped': True}
        try:
            ffinput.read_ff(lines, ff)
        except (IOError, KeyError, ValueError):
            return {'msg': None}
        return {'msg': 'a file with the fault %s was loaded without an error' % inp['fault'], 'text': lines}
    if k == 'itpfault':
        lines, typ = c13_ff.inject_itp_fault(random.Random(inp['sub']), inp['mols'])
        try:
            itp_read.read_itp(lines, ff0)
        except (IOError, KeyError, ValueError, IndexError):
            return {'msg': None, 'directive': typ}
        return {'msg': 'an ITP file with a [ %s ] line that has fewer columns than the directive has atoms was loaded without an error' % typ,
                'text': lines, 'directive': typ}
    if k == 'mapping':
        return c13_map.run(inp['file'])
    if k == 'backmap':
        return c13_map.run_backmap(inp['file'])
    if k == 'mapfault':
        return c13_map.run_fault(inp['file'], inp['fault'], inp['sub'])
    if k == 'itp':
        lines = c13_ff.print_itp(inp['mols'])
        try:
            itp_read.read_itp(lines, ff)
        except Exception as e:  # pylint: disable=broad-except
            return {'msg': 'a well-formed itp was rejected: %s: %s' % (type(e).__name__, e), 'text': lines}
        return {'msg': c13_ff.check_itp(inp['mols'], ff), 'text': lines if len(lines) < 80 else None}
    raise ValueError(k)


def iorder_lit(o):
    if isinstance(o, bool):
        return None
    if isinstance(o, int):
        return '(IONum %s)' % zlit(o)
    return '(IOStr %s)' % strlit(o)


def emit(inp, out):
    k = inp['kind']
    if k == 'tok':
        return 'CTok %s %s' % (strlit(inp['line']), optlit(out['tokens'], lambda ts: listlit(ts, strlit)))
    if k == 'macro':
        return 'CMacro %s %s %s' % (listlit(inp['macros'], lambda kv: '(%s, %s)' % (strlit(kv[0]), strlit(kv[1]))),
                                    strlit(inp['line']), optlit(out['line'], strlit))
    if k == 'prefix':
        if isinstance(inp['order'], bool):
            return None
        ao = 'None' if inp['order'] is None else '(Some %s)' % iorder_lit(inp['order'])
        impl = 'None' if not out['ok'] else '(Some (%s, %s, %s))' % (strlit(out['key']), iorder_lit(out['order']), strlit(out['atomname']))
        return 'CPrefix %s %s %s %s' % (strlit(inp['ref']), ao, optlit(inp['name'], strlit), impl)
    if k == 'weights':
        lines = listlit(inp['lines'], lambda l: '{| m_from := %s; m_to := %s |}' % (
            zlit(l['from']), listlit(l['to'], lambda t: '(%s, %s)' % (blit(t[0]), zlit(t[1])))))
        w = out['weights']
        impl = 'None' if w is None else '(Some %s)' % listlit(w, lambda pw: '(%s, %s)' % (
            zlit(pw[0]), listlit(pw[1], lambda aw: '(%s, %s)' % (zlit(aw[0]), qlit(Fraction(aw[1]))))))
        return 'CWeights %s %s' % (lines, impl)
    if k == 'line':
        impl = 'None' if out['line'] is None else '(Some (%s, %s, %s))' % (
            listlit(out['line'][0], strlit), listlit(out['line'][1], strlit), optlit(out['line'][2], strlit))
        return 'CLine %s %s %s %s %s' % (listlit(inp['names'], strlit), optlit(inp['natoms'], natlit), blit(inp['delete']),
                                         listlit(inp['tokens'], strlit), impl)
    if k == 'atomlines':
        return 'CAtomLines %s %s' % (listlit(inp['lines'], lambda l: listlit(l, strlit)), optlit(out['atoms'], lambda a: listlit(a, strlit)))
    if k == 'sections':
        es = []
        for e in inp['events']:
            if e[0] == 'top':
                es.append('Top %s' % {'block': '(Some KBlock)', 'link': '(Some KLink)', 'mod': '(Some KMod)'}.get(e[1], 'None'))
            elif e[0] == 'sub':
                es.append('Sub')
            else:
                es.append('Line %s' % natlit(e[1]))
        # links carry no name: their header index is recovered from their position among the link headers
        link_ids = [i for i, t in enumerate([e for e in inp['events'] if e[0] == 'top']) if t[1] == 'link']
        links = [[link_ids[i] if i < len(link_ids) else 999, l[1]] for i, l in enumerate(out['links'])]

        def ctxs(l):
            return listlit(l, lambda c: '(%s, %s)' % (natlit(c[0]), listlit(c[1], natlit)))
        return 'CSections [%s] %s %s %s' % ('; '.join(es), ctxs(out['blocks']), ctxs(links), ctxs(out['mods']))
    return None


def py_prop(inp, out):
    if inp['kind'] in ('ff', 'fault', 'itp', 'itpfault', 'mapping', 'mapfault', 'backmap'):
        return out.get('msg')
    return None


def known(inp, out):
    # F23: the 1-based atom index 0 of a block interaction is read as the last atom (Python's negative index)
    if inp['kind'] == 'fault' and inp['fault'] == 'index_zero' and 'loaded without an error' in (out.get('msg') or ''):
        return 'F23'
    if inp['kind'] in ('ff', 'fault') and 'section is unknown' in (out.get('msg') or '') and "'settle'" in (out.get('msg') or ''):
        return 'F33'
    if inp['kind'] == 'line' and out.get('line') is not None and any(t.strip('0') == '' for t in inp['tokens'] if t.isdigit()):
        return 'F23'
    return None


def nontrivial(inp, out):
    k = inp['kind']
    if k == 'tok':
        return ('t', inp['line']) if ('{' in inp['line'] or '}' in inp['line']) and len(inp['line']) > 1 else None
    if k in ('ff', 'itp'):
        n = len(inp['ff']['items']) if k == 'ff' else len(inp['mols'])
        return str(inp) if n >= 2 else None
    if k == 'fault':
        return None if out.get('skipped') else str(inp['fault']) + str(inp['sub'])
    if k == 'sections':
        return str(inp['events']) if sum(1 for e in inp['events'] if e[0] == 'top') >= 2 else None
    return str(inp)


def describe(inp, out):
    d = {'kind': inp['kind']}
    if inp['kind'] == 'tok':
        d['tok_error'] = out['tokens'] is None
    if inp['kind'] == 'prefix':
        d['prefix_ok'] = out['ok']
    if inp['kind'] == 'line':
        d['line_accepted'] = out['line'] is not None
        d['line_natoms'] = inp['natoms']
        d['line_has_delim'] = '--' in inp['tokens']
        d['line_by_index'] = any(t.isdigit() for t in (out['line'] or [[]])[0]) or any(t.isdigit() for t in inp['tokens'][:2])
    if inp['kind'] == 'mapfault':
        d['mapping_fault'] = inp['fault']
    if inp['kind'] == 'itpfault':
        d['itp_short_line'] = out.get('directive')
    if inp['kind'] == 'mapping':
        ms = inp['file']['mappings']
        d['mapping_residues'] = max(len(m['resnames']) for m in ms)
        d['mapping_float_weights'] = any(l['weight'] and '.' in l['weight'] for m in ms for l in m['lines'])
        d['mapping_refs'] = any(m['refs'] for m in ms)
    if inp['kind'] == 'atomlines':
        d['atomlines_accepted'] = out['atoms'] is not None
    if inp['kind'] == 'fault':
        d['fault'] = inp['fault'] + ('(skipped)' if out.get('skipped') else '')
    if inp['kind'] == 'ff':
        d['ff_items'] = len(inp['ff']['items'])
        d['ff_kinds'] = ''.join(sorted({it['kind'][0] for it in inp['ff']['items']}))
        d['ff_removal_sections'] = ','.join(sorted({'!' + x['type'] for it in inp['ff']['items'] if it['kind'] == 'link' for x in it['inters'] if x['remove']})) or '-'
    return d


def shrink(inp):
    if inp['kind'] == 'ff' or inp['kind'] == 'fault':
        items = inp['ff']['items']
        for i in range(len(items)):
            if len(items) > 1:
                yield dict(inp, ff=dict(inp['ff'], items=items[:i] + items[i + 1:], extra_tops=[]))
    if inp['kind'] == 'tok':
        l = inp['line']
        for i in range(len(l)):
            yield {'kind': 'tok', 'line': l[:i] + l[i + 1:]}
    if inp['kind'] == 'sections':
        es = inp['events']
        for i in range(1, len(es)):
            yield {'kind': 'sections', 'events': es[:i] + es[i + 1:]}
