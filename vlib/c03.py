"""C03 — coordinates, molecule types and the system topology agree atom for atom."""
import copy
import os
import re
import shutil
import tempfile

from .common import WORK, zlit, natlit, strlit, optlit, listlit, blit

ID = 'C03'
COQ_TARGETS = ['C03/Props.vo', 'C03/Corr.vo']
PROPS = 'C03/Props.v'
EXTRACTED = []
CASE_IMPORTS = 'From V Require Import C03.Model C03.Corr.'
RULE = ('systems of 1-8 molecules drawn from 1-3 templates (node keys in arbitrary order, permuted / absent atom ids), '
        'identical chains adjacent and interleaved with other molecules, copies differing only in ignored attributes '
        '(position, chain) and near-copies differing in exactly one compared aspect (atom-id permutation, one attribute, '
        'nrexcl, one bond, interactions, the stashed input residue numbers), with and without deduplication, with and without the '
        '-resid input step of martinize2 (stashed residue numbers written back after naming). The real NameMolType + write_gmx_topology + '
        'write_pdb + DeferredFileWriter.write run in a scratch directory; topol.top, every molecule_<i>.itp and the PDB are '
        'parsed and (i) compared with the model, (ii) checked directly: k-th coordinate record = k-th atom of the ITP of the '
        'molecule type, [ molecules ] expands to the coordinate order, each ITP included exactly once. non-trivial = >= 2 '
        'molecules sharing a name or a near-copy present; distinct by system')
ASSUMPTIONS = ['numeric attributes are either equal or differ by more than the numpy.isclose tolerance of share_moltype_with',
               'names / residue names / numbers fit their PDB columns (overflow is the subject of C16)',
               'attributes reduced to atomid, atomname, resname, resid, one tag for the other written attributes and one for the ignored ones']
TRUSTED = ['parsers of .top/.itp/.pdb text in vlib/c03.py']

NAMES = ['BB', 'SC1', 'SC2', 'W', 'NA', 'CA']


def gen_template(rng):
    n = rng.randint(1, 6)
    keys = rng.sample(range(0, 25), n)
    mode = rng.choice(['perm', 'perm', 'none', 'partial', 'same'])
    ids = list(range(1, n + 1))
    rng.shuffle(ids)
    nodes = []
    for j, k in enumerate(keys):
        aid = {'perm': ids[j], 'none': None, 'partial': ids[j] if rng.random() < 0.5 else None, 'same': j + 1}[mode]
        nodes.append({'key': k, 'atomid': aid, 'name': rng.choice(NAMES), 'resname': rng.choice(['ALA', 'GLY', 'W']),
                      'resid': rng.choice([1, 2, 3, 10]), 'other': rng.randint(0, 3), 'ignored': 0})
    if n >= 2 and rng.random() < 0.15:
        # atoms that differ in nothing but their key, without atom ids: only the order of the keys tells two such molecules apart
        for nd in nodes:
            nd.update(atomid=None, name=nodes[0]['name'], resname=nodes[0]['resname'], resid=nodes[0]['resid'], other=nodes[0]['other'])
    edges = set()
    for _ in range(rng.choice([0, 1, 2, 3])):
        if n >= 2:
            u, v = rng.sample(keys, 2)
            edges.add((min(u, v), max(u, v)))
    if rng.random() < 0.4:
        # residue numbers of the input file stashed next to the new ones (what martinize2 keeps as _old_resid)
        off = rng.choice([0, 10, 100])
        for nd in nodes:
            nd['old'] = nd['resid'] + off
    return {'nrexcl': rng.choice([1, 1, 3]), 'nodes': nodes, 'edges': sorted(edges), 'inter': rng.randint(0, 3)}


def perturb(rng, t):
    m = copy.deepcopy(t)
    for nd in m['nodes']:
        nd['ignored'] = rng.randint(0, 5)
    r = rng.random()
    kind = 'copy'
    if r < 0.45:
        return m, kind
    nodes = m['nodes']
    choice = rng.choice(['atomid', 'attr', 'nrexcl', 'edge', 'inter', 'order', 'order', 'order', 'name', 'oldresid', 'oldresid', 'morei', 'morei', 'dropid', 'dropid'])
    if choice == 'dropid' and any(nd['atomid'] is not None for nd in nodes):
        # the same molecule without an attribute the other one has (the atom ids): absent is not equal to present
        for nd in nodes:
            nd['atomid'] = None
        return m, 'dropid'
    if choice == 'morei':
        # the same molecule with one more interaction at the end of a list: the shorter list is a prefix of the longer
        m['xinter'] = m.get('xinter', 0) + 1
        return m, 'morei'
    if choice == 'oldresid' and any(nd.get('old') is not None for nd in nodes):
        # the same chain with another input numbering: identical but for the stashed residue numbers
        shift = rng.choice([1, 5, 20])
        for nd in nodes:
            if nd.get('old') is not None:
                nd['old'] += shift
        return m, 'oldresid'
    if choice == 'atomid' and len(nodes) >= 2 and all(nd['atomid'] is not None for nd in nodes):
        i, j = rng.sample(range(len(nodes)), 2)
        nodes[i]['atomid'], nodes[j]['atomid'] = nodes[j]['atomid'], nodes[i]['atomid']
        kind = 'atomid'
    elif choice == 'attr':
        rng.choice(nodes)['other'] += 5
        kind = 'attr'
    elif choice == 'nrexcl':
        m['nrexcl'] += 1
        kind = 'nrexcl'
    elif choice == 'edge' and len(nodes) >= 2:
        u, v = rng.sample([nd['key'] for nd in nodes], 2)
        e = (min(u, v), max(u, v))
        m['edges'] = sorted(set(m['edges']) ^ {e})
        kind = 'edge'
    elif choice == 'inter':
        m['inter'] += 7
        kind = 'inter'
    elif choice == 'order' and len(nodes) >= 2:
        i, j = rng.sample(range(len(nodes)), 2)
        nodes[i], nodes[j] = nodes[j], nodes[i]
        kind = 'order'
    elif choice == 'name':
        nd = rng.choice(nodes)
        nd['name'] = rng.choice([x for x in NAMES if x != nd['name']])
        kind = 'name'
    return m, kind


def generate(rng, tier):
    n = 200 if tier == 'quick' else 3000
    cases = []
    for i in range(n):
        templates = [gen_template(rng) for _ in range(rng.randint(1, 3))]
        ms, kinds = [], []
        for _ in range(rng.randint(1, 8)):
            m, kind = perturb(rng, rng.choice(templates))
            ms.append(m)
            kinds.append(kind)
        if i % 7 == 0 and len(templates) >= 2:       # the interleaved pattern A B A
            a, _ = perturb(rng, templates[0])
            b, _ = perturb(rng, templates[1])
            ms = [copy.deepcopy(templates[0]), b, a] + ms[:3]
            kinds = ['copy'] * 3 + kinds[:3]
        cases.append({'dedup': rng.random() < 0.8, 'ms': ms, 'kinds': kinds, 'resid_input': rng.random() < 0.5})
    return cases


def _build(inp):
    import numpy as np
    import vermouth
    system = vermouth.system.System()
    system.meta['header'] = ['generated']
    for m in inp['ms']:
        mol = vermouth.molecule.Molecule(nrexcl=m['nrexcl'])
        for nd in m['nodes']:
            attrs = dict(atomname=nd['name'], resname=nd['resname'], resid=nd['resid'], atype='T%d' % nd['other'],
                         charge_group=1, charge=0.5 * nd['other'], chain='ABCDEF'[nd['ignored'] % 6],
                         position=np.array([0.1 * nd['ignored'], 0.3, 0.01 * nd['key']]))
            if nd['atomid'] is not None:
                attrs['atomid'] = nd['atomid']
            if nd.get('old') is not None:
                attrs['_old_resid'] = nd['old']
            mol.add_node(nd['key'], **attrs)
        mol.add_edges_from(m['edges'])
        keys = sorted(nd['key'] for nd in m['nodes'])          # interactions name atoms by key, whatever the node order
        if len(keys) >= 2:
            mol.add_interaction('bonds', (keys[0], keys[1]), ['1', '0.%d' % (30 + m['inter']), '1250'])
        else:
            mol.add_interaction('position_restraints', (keys[0],), ['1', str(m['inter']), '0', '0'])
        for x in range(m.get('xinter', 0)):
            if len(keys) >= 2:
                mol.add_interaction('bonds', (keys[-1], keys[0]), ['1', '0.9%d' % x, '500'])
            else:
                mol.add_interaction('position_restraints', (keys[0],), ['1', '77%d' % x, '0', '0'])
        system.add_molecule(mol)
    return system


def run_impl(inp):
    import vermouth
    import vermouth.file_writer as fw
    from vermouth.gmx.topology import write_gmx_topology
    from vermouth.processors.name_moltype import NameMolType
    system = _build(inp)
    NameMolType(deduplicate=inp['dedup']).run_system(system)
    names = [int(m.meta['moltype'].rsplit('_', 1)[1]) for m in system.molecules]
    if inp.get('resid_input'):
        # martinize2 -resid input (bin/martinize2 l.1129-1132), after the molecule types are named
        import networkx as nx
        for molecule in system.molecules:
            old_resids = nx.get_node_attributes(molecule, "_old_resid")
            nx.set_node_attributes(molecule, old_resids, "resid")
    os.makedirs(WORK, exist_ok=True)
    d = tempfile.mkdtemp(prefix='c03_', dir=WORK)
    cwd = os.getcwd()
    w = fw.DeferredFileWriter()
    w.close()
    try:
        os.chdir(d)
        write_gmx_topology(system, 'topol.top')
        vermouth.pdb.write_pdb(system, 'out.pdb')
        w.write()
        top = open('topol.top').read().split('\n')
        includes = [int(m.group(1)) for l in top for m in [re.match(r'#include "molecule_(\d+)\.itp"', l.strip())] if m]
        other_includes = [l for l in top if l.startswith('#include') and 'molecule_' not in l and 'martini.itp' not in l]
        idx = [i for i, l in enumerate(top) if l.strip() == '[ molecules ]'][0]
        molecules = []
        for l in top[idx + 1:]:
            p = l.split()
            if len(p) == 2:
                molecules.append([int(p[0].rsplit('_', 1)[1]), int(p[1])])
        pdb, cur = [], []
        for l in open('out.pdb').read().split('\n'):
            if l.startswith('ATOM'):
                cur.append([l[12:16].strip(), l[17:20].strip(), int(l[22:26])])
            elif l.startswith('TER'):
                pdb.append(cur)
                cur = []
        itps = []
        for fn in sorted(os.listdir('.')):
            m = re.fullmatch(r'molecule_(\d+)\.itp', fn)
            if not m:
                continue
            atoms, sec = [], None
            for l in open(fn).read().split('\n'):
                s = l.split(';')[0].strip()
                if s.startswith('['):
                    sec = s.strip('[] ')
                elif sec == 'atoms' and s:
                    t = s.split()
                    atoms.append([t[4], t[3], int(t[2])])
            itps.append([int(m.group(1)), atoms])
        return {'names': names, 'molecules': molecules, 'includes': includes, 'pdb': pdb, 'itps': itps,
                'other_includes': other_includes}
    finally:
        os.chdir(cwd)
        try:
            w.close()
        except Exception:  # pylint: disable=broad-except
            pass
        shutil.rmtree(d, ignore_errors=True)


def mol_lit(m, resid_input=False):
    # the stashed input residue number is one of the compared attributes: it goes into the tag of the other attributes,
    # together with the residue number at naming time; with -resid input the residue number that is written is the stashed one
    def other(nd):
        return nd['other'] + 10 * nd['resid'] + 1000 * (1 + nd['old'] if nd.get('old') is not None else 0)

    def written_resid(nd):
        return nd['old'] if resid_input and nd.get('old') is not None else nd['resid']
    nodes = listlit(m['nodes'], lambda nd: ('{| n_key := %s; n_atomid := %s; n_name := %s; n_resname := %s; n_resid := %s; '
                                           'n_other := %s; n_ignored := %s |}') % (
        zlit(nd['key']), optlit(nd['atomid'], zlit), strlit(nd['name']), strlit(nd['resname']), zlit(written_resid(nd)),
        zlit(other(nd)), zlit(nd['ignored'])))
    return '{| m_nrexcl := %s; m_nodes := %s; m_edges := %s; m_inter := %s |}' % (
        zlit(m['nrexcl']), nodes, listlit(m['edges'], lambda e: '(%s, %s)' % (zlit(e[0]), zlit(e[1]))), zlit(m['inter'] + 100 * m.get('xinter', 0)))


def ident_lit(a):
    return '(%s, %s, %s)' % (strlit(a[0]), strlit(a[1]), zlit(a[2]))


def emit(inp, out):
    return 'CSys %s %s %s %s %s %s %s' % (
        blit(inp['dedup']), listlit(inp['ms'], lambda m: mol_lit(m, inp.get('resid_input', False))), listlit(out['names'], natlit),
        listlit(out['molecules'], lambda p: '(%s, %s)' % (natlit(p[0]), natlit(p[1]))),
        listlit(out['includes'], natlit), listlit(out['pdb'], lambda l: listlit(l, ident_lit)),
        listlit(out['itps'], lambda p: '(%s, %s)' % (natlit(p[0]), listlit(p[1], ident_lit))))


def nontrivial(inp, out):
    if len(set(out['names'])) == len(out['names']) and all(k == 'copy' for k in inp['kinds']):
        return None
    return str(inp['ms']) + str(inp['dedup'])


def describe(inp, out):
    names = out['names']
    interleaved = any(names[i] == names[k] and any(names[j] != names[i] for j in range(i + 1, k))
                      for i in range(len(names)) for k in range(i + 2, len(names)))
    return {'n_mols': len(inp['ms']), 'dedup': inp['dedup'], 'distinct_names': len(set(names)),
            'interleaved_same_name': interleaved, 'near_copies': sum(1 for k in inp['kinds'] if k != 'copy'),
            'resid_input': bool(inp.get('resid_input')), 'other_input_numbering': sum(1 for k in inp['kinds'] if k == 'oldresid')}


def shrink(inp):
    ms = inp['ms']
    for i in range(len(ms)):
        if len(ms) > 1:
            yield dict(inp, ms=ms[:i] + ms[i + 1:], kinds=inp['kinds'][:i] + inp['kinds'][i + 1:])
