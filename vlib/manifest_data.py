"""Source of MANIFEST.json (run tools/mkmanifest.py after editing)."""
CHECKS = {
    'C08': dict(
        category='proof',
        text=('Theorems (Coq, closed under the global context) about a line-by-line Gallina model of '
              'ignore_warnings_and_count, number_of_counts_by and the maxwarn parser: leftover = stated formula for every '
              'counter and every list of allowances, non-negativity, zero iff all covered, errors never waived, absent '
              'types irrelevant, independence of dict order and allowance order. The model is tied to /repo on every run '
              'by evaluating model and proved checker inside Coq (vm_compute) on the outputs of the real logging stack and '
              'the real maxwarn parser.'),
        design_ref='DESIGN.md section 5, C08',
        note=('Trusted: Coq kernel + vm_compute; hand-written model (tie is differential: ~1400 cases quick); Python int() '
              'modelled for ASCII input; types both named and limited are excluded as the property leaves them unspecified.'),
        technique='Coq proof (induction over the type dict with generalised blanket) + in-Coq correspondence evaluation'),
    'C07': dict(
        category='proof',
        text=('Coq theorems about a Gallina model of DeferredFileWriter (open/_open_tmp_file/_find_free_path/write/_write_file/'
              '_append_file/close) with finalisation compiled to its list of file-system calls: user files untouched by any '
              'history of opens/writes/discards; for every prefix of the call list, also with the next call half done, every '
              'pre-existing file is intact under its own or a backup name (induction over the pending list under a proved '
              'guard invariant); exactness of the whole pending list (every destination holds what was written, every replaced file under the first backup name free before, nothing else changes) incl. first-free backup index; the CLI gate; and a finite theorem '
              'over the write call-sites regenerated from the source. Tie: histories run on the real writer in a scratch '
              'directory with fault injection at every call, snapshots compared with the model and evaluated by proved-sound '
              'checkers inside Coq; real martinize2 runs for the gate.'),
        design_ref='DESIGN.md section 5, C07',
        note=('Trusted: Coq kernel + vm_compute; hand-written model tied by differential runs; OS modelled as atomic rename / '
              'partial copy / partial append; mkstemp freshness; exactness and crash safety assume distinct destinations, none a backup name of another (checked per case).'),
        technique='Coq proof (guard invariant over the finalisation call list, induction over pending entries) + extracted call-site table + in-Coq correspondence with fault injection'),
    'C12': dict(
        category='proof',
        text=('Coq theorems about a Gallina model of the Molecule editing API over a heap of live molecules: a '
              'well-formedness invariant (unique keys, every interaction atom and bond endpoint present, valid max_node '
              'cache, unique interaction types) is preserved by each of 14 operations and hence by every history '
              '(induction over the operation list); an operation changes no molecule but its target (copy/subgraph '
              'independence); a merge of well-formed molecules keeps all atoms/bonds/interactions of both, assigns fresh '
              'distinct keys (freshness follows from the cache invariant), shifts resid/charge_group uniformly, and can only '
              'fail on an nrexcl mismatch. Tie: random and directed histories run on the real Molecule/Block/MergeAllMolecules; '
              'the state after every operation is compared with the model and evaluated by proved-sound checkers '
              '(consistentb, merge_okb, frame) inside Coq.'),
        design_ref='DESIGN.md section 5, C12',
        note=('Trusted: Coq kernel + vm_compute; hand-written model (attributes reduced to resid/charge_group/tag, meta to '
              'version); add_edge only on existing endpoints; log_entries not modelled; differential tie is sampling.'),
        technique='Coq proof (invariant preserved by every operation, induction over histories; merge refinement to a loop-free spec) + in-Coq correspondence on operation histories'),
    'C02': dict(
        category='proof',
        text=('Coq theorem read_write: for every well-formed molecule the line/token model of write_molecule_itp produces '
              'lines from which an independent reader (written from the GROMACS directive table, using nothing of the '
              'writer) recovers exactly the canonical molecule: atoms in stable atomid order numbered 1..N (the reader '
              'rejects gaps), every interaction with atoms translated by rank, same parameters, right section (impropers '
              'under dihedrals, virtual_sitesn function type after the first atom) and same #ifdef/#ifndef guard; plus '
              'permutation theorems (no atom/interaction dropped, duplicated or moved) and the meaning of the written index. '
              'Tie: the real writer output is tokenised and compared line by line with the model, and the proved-sound '
              'oracle holds_on (= reader + canon) is evaluated on the real output inside Coq.'),
        design_ref='DESIGN.md section 5, C02',
        note=('Trusted: Coq kernel + vm_compute; hand-written model at token level (column padding and decimal printing '
              'are outside the model; the harness tokeniser and Python str() are trusted); pre/post_section_lines and '
              'mass-without-charge excluded; arities per GROMACS table.'),
        technique='Coq proof (writer model composed with an independent reader; induction over sections, groups and lines) + in-Coq correspondence and oracle evaluation on real output'),
    'C16': dict(
        category='proof',
        text=('Coq theorems about a model of TruncFormatter and fixed-column records: with the t option a field has exactly '
              'its width for every value, so in any layout the columns of field i hold exactly the formatted value i '
              '(overflow cannot shift or corrupt another field); fitting integers and names are read back unchanged by '
              'slice+strip+convert (decimal print/parse inverse from Coq DecimalString), and so are fixed-point numbers of '
              'any size and sign with p decimals (digit-string value, concatenation and no-leading-zero lemmas over the '
              'standard-library decimal parser); over-long values keep their significant end. The PDB ATOM/TER/CONECT and GRO format strings and the readers field tables are '
              'regenerated from the source on every run and proved compatible (finite vm_compute theorems). A structural '
              'theorem shows the bonds rebuilt from CONECT records are exactly the bonds written (injective serials, '
              'chunking loses nothing). Tie: real formatter/writers compared character for character with the model; '
              'real PDBParser/read_gro results evaluated by the round-trip checker in Coq; Python-only 10 050-atom sweep.'),
        design_ref='DESIGN.md section 5, C16',
        note=('Trusted: Coq kernel + vm_compute; translator vlib/extract.py (format mini-language -> layout); float '
              'parsing/printing validated within 1e-9, not proved; altloc, blanks in names, empty molecules excluded; '
              'MODEL/multi-model files and CRYST1 not modelled.'),
        technique='Coq proof (exact-width lemma, field-in-place theorem by induction over the layout, decimal round trip, CONECT set equality) + tables regenerated from source + in-Coq correspondence'),
    'C03': dict(
        category='proof',
        text=('Coq theorems about a model of share_moltype_with, NameMolType (with/without deduplication), the '
              '[ molecules ]/#include bookkeeping of write_gmx_topology and the record order shared by the PDB and ITP '
              'writers: equal names imply share_moltype (invariant over the representative list + symmetry/transitivity), '
              'share_moltype implies identical written atoms/order/nrexcl/interactions/bonds (sorting commutes with '
              'forgetting ignored attributes), hence the k-th coordinate record of every molecule equals the k-th atom of '
              'the ITP written from the first bearer of its name; [ molecules ] expands to the name sequence; each name is '
              'included exactly once. Tie: the real NameMolType/write_gmx_topology/write_pdb/DeferredFileWriter run in a '
              'scratch directory, .top/.itp/.pdb are parsed, compared with the model and checked directly by the '
              'property evaluated in Coq.'),
        design_ref='DESIGN.md section 5, C03',
        note=('Trusted: Coq kernel + vm_compute; hand-written model with attributes reduced to tags; numpy.isclose '
              'tolerance of share_moltype_with declared (values generated equal or clearly different); write_gro is '
              'outside the property (node order, see DESIGN F13); file parsers of the harness.'),
        technique='Coq proof (invariant of the deduplication loop, equivalence properties, sort/projection commutation) + in-Coq correspondence on files written by the real code'),
    'C17': dict(
        category='proof',
        text=('Coq theorems about a model of AnnotateResidues.run_system / annotate_residues_from_sequence (residues '
              'ordered by lowest node key) and of convert_dssp_to_martini as character-level str.replace rewriting over the '
              'SS_CG and pattern tables regenerated from the source: the slicing loop equals direct indexing into the '
              'reconciled sequence over the SELECTED molecules (unselected get nothing), the three documented length '
              'cases and only those succeed; conversion preserves length and maps non-helical classes by the table for '
              'every string (invariant: every pattern keeps its dot positions); the helical run rule is proved for strings of '
              'EVERY length (convert_run_rule): the nine patterns have the shapes .h. / .h / h. , on a string of '
              'dot-terminated segments str.replace and the while-loop act segment by segment (fuel-free replace, a pass '
              'function per shape, a decreasing count for the loop), and the composition on a run of n H is the documented '
              'text; an exhaustive kernel computation up to length 15 is kept as a cross-check. Tie: real '
              'AnnotateResidues and convert_dssp_to_martini compared with model and spec inside Coq.'),
        design_ref='DESIGN.md section 5, C17',
        note=('Trusted: Coq kernel + vm_compute; translator for the two tables; model of Python str.replace '
              '(leftmost, non-overlapping; while pattern in s) validated by the correspondence runs (random runs up to 12 '
              'per helix, strings up to ~45).'),
        technique='Coq proof (loop/indexing refinement by induction; dot-mask invariant of the rewriting; segment-wise characterisation of str.replace for the three pattern shapes and induction over runs for the helix rule) + tables regenerated from source + in-Coq correspondence'),
    'C09': dict(
        category='proof',
        text=('Coq theorems over exact rationals about a model of do_average_bead / DoAverageBead: the position is '
              'sum(w p)/sum(w) over the positioned constituents with weight mapping_weight x centre weight; inside the '
              'bounding box for non-negative weights; equivariant under EVERY affine map (hence every rigid motion); '
              'constituents without coordinates never contribute; NaN exactly when |sum w| < 1e-7; invariant under '
              'reordering constituents with their weights. No real-number axioms (Q, lra/nra/field). Tie: the real '
              'DoAverageBead (one instance over several molecules/force fields) compared with the exact model within '
              '1e-9, the clauses evaluated on the real numbers, and metamorphic before/after-motion pairs.'),
        design_ref='DESIGN.md section 5, C09',
        note=('Trusted: Coq kernel + vm_compute; floating point (numpy.average, sum) validated inside a 1e-9 band, not '
              'proved; weight sums within 0.1% of the 1e-7 threshold excluded.'),
        technique='Coq proof over Q (induction on the constituent list, lra/nra/field) + in-Coq correspondence within a stated band + metamorphic pairs'),
    'C15': dict(
        category='proof',
        text=('Coq theorems about a model of the decision logic of apply_rubber_band (compute_force_constants after the '
              'decay kernel, residue-graph connectivity, domain criteria, masking, upper-triangle emission): for a '
              'non-negative minimum force a pair gets a bond iff it is two different selected atoms, linkable (same '
              'domain, no walk of <= separation residue-graph edges), d <= upper and min(k0, base) > minimum force (NaN '
              'never); the written constant is min(k0, base); the network is exactly the set of passing unordered pairs, '
              'hence independent of atom order, with exactly one bond per pair; squared distances are invariant under '
              'every rigid motion (over Q); NaN coordinates give no network. Tie: the real apply_rubber_band with the '
              'distance/decay matrices of the real kernels shipped as exact rationals; bonds compared with the model and '
              'with the statement evaluated pair by pair in Coq.'),
        design_ref='DESIGN.md section 5, C15',
        note=('Trusted: Coq kernel + vm_compute; numpy sqrt/exp kernels taken from the implementation (d^2 checked against '
              'exact arithmetic within 1e-12; exp not re-derived); bond length rounding compared within 6e-6; negative '
              'minimum_force is a known finding outside the statement (F11).'),
        technique='Coq proof (case analysis over the threshold chain with lra over Q, bounded-walk characterisation, set-of-pairs theorem by induction over the upper triangle) + in-Coq correspondence with kernel outputs as exact rationals'),
    'C18': dict(
        category='proof',
        text=('Coq theorems about a model of VirtualSiteCreator.add_virtual_sites and of the contact loop of '
              'ComputeStructuralGoBias: exactly one virtual site per backbone particle, in order, constructed from it, '
              'with fresh pairwise-distinct keys appended after all atoms, same residue identity and shared position, '
              'zero mass/charge, type <moltype>_<resid> (unique when backbone residue numbers are); the '
              'store-or-emit loop over the contact map emits a contact exactly when it passes the filters and its reverse '
              'occurred among the earlier passing contacts (invariant proof, for contact lists without repeated keys); '
              'the separation filter is symmetric (walk reversal). Tie: the real processors on generated coarse-grained '
              'molecules and contact maps; atoms, virtual_sitesn, atomtypes, nonbond_params (sigma through (d/sigma)^6 = 2) '
              'and exclusions compared with the model and with the statement evaluated in Coq.'),
        design_ref='DESIGN.md section 5, C18',
        note=('Trusted: Coq kernel + vm_compute; backbone distances from numpy shipped as exact rationals; residue '
              'reconstruction in the harness; GoPipeline glue and contact-map file reading are not modelled.'),
        technique='Coq proof (list induction for the sites; loop invariant relating the stored list to all earlier eligible contacts; walk reversal) + in-Coq correspondence'),
    'C19': dict(
        category='proof',
        text=('Coq theorems about a model of parse_residue_spec, residue_matches/_terminal_matches, annotate_modifications '
              'and the reporting rule of AnnotateMutMod.run_system: a residue matches a request iff it agrees with every '
              'given part (nter/cter: protein residue with a single neighbour of higher/lower number); the labels on an atom '
              'are exactly the requests matching its residue (all atoms of a residue alike, no other residue); a request is '
              'reported iff it matches no residue of the whole system; an unknown target that matches is an error. Tie: '
              'real parser on specification strings (plus an independent spell-back oracle), real AnnotateMutMod.run_system '
              'with captured warnings on generated systems; marks and reports compared with the model and with the '
              'statement evaluated from the INTENDED parts of each request in Coq.'),
        design_ref='DESIGN.md section 5, C19',
        note=('Trusted: Coq kernel + vm_compute; residue graph (degree, first neighbour, protein flag) taken from the real '
              'make_residue_graph; the post-repair clause (atoms of the requested block) is covered by C04, not here; '
              'the parse/format round trip is proved for well-formed specifications (spelled_request_reads_back).'),
        technique='Coq proof (characterisation of matching, list reasoning for marks and reports) + in-Coq correspondence with an independent parse oracle'),
    'C10': dict(
        category='proof',
        text=('Coq theorems about a model of make_bonds (residue loop with name-based bonds, fallback and final distance '
              'passes, split into molecules along the residue graph): a distance pass adds a bond exactly for the candidate '
              'pairs passing the test and removes nothing; the test is: not a block non-bond, not H-H, no hydrogen to '
              'another residue, both radii known, d <= fudge*(r1+r2)/2 (exact, on squared distances); every pre-existing '
              'bond is kept; name-based bonds are exactly the block bonds among present names; the molecule of an atom is '
              'a function of its residue (mol_idx is part of the residue identity), residues of one molecule are '
              'connected and connected residues share their molecule (closure sound and complete: molecules = components); the VDW_RADII table regenerated from the source equals Bondi (finite '
              'theorem). Tie: real MakeBonds.run_system on generated systems; bonds, molecules and warnings compared with '
              'the model, and the statement evaluated with the LITERAL Bondi table on the real output in Coq.'),
        design_ref='DESIGN.md section 5, C10',
        note=('Trusted: Coq kernel + vm_compute; scipy KDTree distances vs exact squared distances (pairs within 1e-9 of a '
              'threshold not generated, except exactly representable ones); translator for VDW_RADII.'),
        technique='Coq proof (fold invariant of the distance pass, closure soundness, finite table theorem) + table regenerated from source + in-Coq correspondence with an independent radius table'),
    'C13': dict(
        category='proof',
        text=('PARTIAL. Coq theorems about the mechanisms the property names: the tokeniser (a fold over characters with a '
              'signed bracket counter) reads back every list of well-formed tokens joined by blanks or glued to bracketed '
              'tokens, and rejects every line whose brackets do not balance; order prefixes and order attributes give the '
              'same node, contradictions / mixed prefixes / empty bases are rejected; the section/context machine of the '
              'force-field reader registers every declared block, link and modification exactly once, in file order, with '
              'exactly its own lines, for every sequence of headers and lines; backward-mapping weights are '
              'multiplicity/total with ! as zero and sum to one; the section table regenerated from the source is '
              'consistent (every sub-section handled in the context of its top-level section); the content lines of a block at '
              'token level (_get_atoms, _base_parser, block references, _parse_block_atom): a line written as declared names, '
              'delimiter, parameters and meta is read back as that, a fixed-size section takes exactly its atoms, too few / too '
              'many atoms in front of the delimiter and undeclared names are rejected, accepted references are declared atoms '
              'and an index i>=1 is the i-th atom (index 0 is REFUTED with a witness: finding F23), block atoms are the fifth '
              'columns once and in order, duplicates rejected. The equality '
              'load(print(AST)) = AST for whole .ff, .itp and .mapping files, and rejection of each listed fault, is differential '
              'testing against an expected value computed from the AST (not a theorem).'),
        design_ref='DESIGN.md section 5, C13',
        note=('Trusted: Coq kernel + vm_compute; translator for the section/arity tables; printer and expected-value '
              'builder of the harness; Python json; new-style .mapping files and read_backmapping_file beyond the weight '
              'computation are not covered.'),
        technique='Coq proof of parser mechanisms (induction over characters / events) + extracted section table + in-Coq correspondence; whole-file differential testing (declared partial)'),
    'C05': dict(
        category='proof',
        text=('Coq theorems about a model of do_links.py / molecule.py: match_order decides exactly the relation of its '
              'documentation table (numbers fix the residue difference, 0 against > or < fixes the direction, > < runs '
              'compare by length, * runs name equal / different residues) and is symmetric; the placements tried are '
              'exactly the injective assignments of molecule atoms to link atoms and a placement is used iff it satisfies '
              'every condition (attributes with Choice / NotDefinedOrNot, the modifications attribute, required AND absent bonds among matched atoms, '
              'orders, non-edges, patterns, molecule meta), each condition characterised; applying a placement leaves '
              'every interaction of the link present on the matched atoms (or replaced by a later one with the same atoms '
              'and version); after adds, whatever carries an added identity is the later instance (later overrides '
              'earlier); a removal leaves nothing that matches its template; every interaction after all links is an '
              'original one or an instance on a placement that fitted when its link was applied. Tie: real match_order, '
              'match_link (set of placements) and DoLinks.run_molecule (interaction multisets, node attributes, removed '
              'nodes) on generated molecules and links, compared with the model and judged in Coq from the statement.'),
        design_ref='DESIGN.md section 5, C05',
        note=('Trusted: Coq kernel + vm_compute; networkx VF2 is replaced in the model by exhaustive enumeration (agreement '
              'checked, not proved); geometry-derived parameters are recomputed numerically by the harness (not a theorem); '
              'the order in which networkx reports placements is not modelled.'),
        technique='Coq proof (case analysis + lia for the order table, enumeration soundness/completeness, fold invariants for interaction tables) + in-Coq correspondence'),
    'C01': dict(
        category='proof',
        text=('Coq theorems about a model of '
              'Mapping.map + MappingGraphMatcher and of do_mapping / apply_block_mapping / merge_molecule: a mapping is '
              'placed exactly at the injective assignments where names, residue names, bonds among matched atoms (present '
              'and absent) and same-residue parity of bonds agree; processing order is ascending lowest atom key and a '
              'rearrangement of the placements found; every placement yields exactly one copy of its block in that order '
              'on consecutive keys; residues of one-residue blocks are numbered 1,2,3,... (in general: offset by the last '
              'particle); each particle records exactly the atoms and weights its own placement assigns to it, whatever '
              'comes before or after (fresh-key invariant); particles of different placements are connected exactly through '
              'bonded constituent atoms; the unmapped-atom warning is raised iff a non-hydrogen atom belongs to no placement; '
              'the overlap warning iff two placements share an atom. Modification mappings are modelled (groups of labelled atoms, exact cover of their modification names, placements under ptm_resname_match, apply_mod_mapping, the merge loop): the merge loop is an interleaving that keeps both orders and applies a modification exactly after the blocks that start at or below its key. Tie: real Mapping.map (set of placements) and real '
              'do_mapping with log capture on generated molecules and mapping sets; output compared with the model, and the '
              'statement evaluated DIRECTLY (no incremental tables) in Coq on the real output.'),
        design_ref='DESIGN.md section 5, C01',
        note=('Trusted: Coq kernel + vm_compute; networkx VF2 replaced by exhaustive enumeration (agreement checked per case); '
              'references, attribute_must, the disconnected / garbage-attribute and multiple-modification warnings are outside the model; for modification mappings only the merge order is a theorem, their effect is tied by correspondence and the statement checker; '
              'multi-residue blocks whose last particle is not in the last residue are numbered as merge_molecule does (offset '
              'by the last particle), consecutive numbering is proved for one-residue blocks only.'),
        technique='Coq proof (enumeration soundness/completeness, fold invariants with fresh-key argument, insertion-sort order) + in-Coq correspondence + direct statement checker'),
    'C06': dict(
        category='proof',
        text=('PARTIAL. Coq: (1) the specification (induced sub-graph isomorphism with node and edge colours, equivalence '
              'under pattern automorphisms, largest common induced sub-graph) with a reference enumeration proved sound and '
              'complete, and three judges of an output proved sound: every isomorphism exactly once; exactly one '
              'representative per symmetry class; only maximum common sub-graphs and every maximum one (up to symmetry). '
              '(2) a model of the backtracking core _map_nodes / find_isomorphisms proved, by an invariant on the candidate '
              'sets, to return exactly the isomorphisms that respect the ordering constraints, for EVERY next-node heuristic '
              'and EVERY asymmetric constraint set (so independent of the min-candidates rule and of set iteration order). '
              '(3) the lex-leader theorem: ordering constraints that come from a stabiliser chain of a permutation group '
              'select exactly one member of every symmetry class, for every injective placement (existence by a greedy '
              'minimum, uniqueness by the first moved base point); whether the constraints the implementation derived are '
              'such a chain over the pattern\'s automorphism group is a boolean certificate (groupb, chainb, proved '
              'sufficient) evaluated per pattern. Tie: real ISMAGS runs (sessions sharing a symmetry cache) on exhaustive '
              'small and generated graphs; outputs compared with the model run on the constraints the implementation '
              'derived, certificates checked, and outputs judged by the proved checkers. (4) the look-ahead filter never removes a '
              'solution, so the search started from the filtered candidates is still sound and complete; (5) the shrinking search '
              'for the largest common sub-graph without symmetry returns only common induced sub-graphs of one size, none larger '
              'exists, and every one of that size is returned (levels = all node sets of a size, pigeon-hole against the graph size). '
              'Not proved: analyze_symmetry itself (its output is certified per pattern) and the shrinking search WITH symmetry '
              '(judged per input by the proved checker). Beyond the size of the exhaustive judges, cubic graphs of 8-12 nodes are '
              'matched against a renumbered copy of themselves: the matcher must answer within a time limit and return exactly '
              'one representative that is an isomorphism (all isomorphisms onto a copy form one symmetry class): a Python-side '
              'check, which found F31 (repaired) and F32 (known finding: no isomorphism returned for many regular graphs).'),
        design_ref='DESIGN.md section 5, C06',
        note=('Trusted: Coq kernel + vm_compute; networkx only as a graph container; the reference enumeration is exponential '
              '(patterns <= 6 nodes, graphs <= 7 nodes in the correspondence).'),
        technique='Coq proof (verified oracle; invariant proof of the backtracking search for all heuristics) + in-Coq correspondence'),
    'C04': dict(
        category='proof',
        text=('PARTIAL (relative to the matcher, which is judged per input). Coq theorems about a model of repair_residue / '
              'repair_graph: given an injective, element- and bond-respecting (induced) correspondence between block and '
              'residue, after repair every recognised atom - re-added ones included - carries the block\'s name and element, '
              'names are unique, and bonds AND absent bonds among recognised atoms are exactly the block\'s (invariant through '
              'the rebuilding loop, new atoms bonded to every neighbour known by then); the rebuilding loop (which pops from '
              'the list it iterates over) stops only when no missing atom has a known neighbour, hence on a connected block '
              'with something recognised every missing atom is re-added; unrecognised atoms are exactly the residue atoms '
              'outside the match, their number is |residue| - |match|, and with a maximum match no identification flags fewer '
              '(via C06\'s proved maximum); a residue that is the block under any renaming / atom order / keys comes back '
              'complete with nothing flagged. Tie: real make_reference + repair_graph on generated residues and '
              'presentations; result compared with the model; the statement, including validity and maximality of the real '
              'ISMAGS match (C06 checkers), evaluated in Coq on the real output.'),
        design_ref='DESIGN.md section 5, C04',
        note=('Trusted: Coq kernel + vm_compute; make_residue_graph; the reference block (after mutation / modification '
              'patching) is taken from the implementation; maximality of the match is certified per input, not for all inputs.'),
        technique='Coq proof (loop invariant for the embedding, stuck-state argument for the self-modifying loop, counting) + C06 verified oracle + in-Coq correspondence'),
    'C14': dict(
        category='proof',
        text=('Coq theorems about a model of canonicalize_modifications.py: the recursive exact-cover search returns only '
              'covers (placements of the offered modifications in the offered order, each inside the atoms still available '
              'and covering something new) and gives up - removal plus warning - only when no such cover exists '
              '(soundness and completeness against an inductive definition of covers, termination by the shrinking set); '
              'in a cover every atom to be covered lies in a chosen placement and every unexplained atom in exactly one; '
              'the placements offered for a modification are exactly its induced sub-graph isomorphisms with anchors matched '
              'by name and added atoms by element (C06 reference enumeration); the flood fill that forms the groups returns exactly the unexplained atoms chained to its start and exactly the recognised atoms bonded to them as anchors (sound, and complete with the fuel of the model by a potential argument). Tie: real fix_ptm on generated molecules and '
              'modification sets (sub-patterns of one another, anchor-only, residue-spanning, replace / remove, nameless '
              'elements) with find_ptm_atoms / identify_ptms observed; grouping and identify outcome compared with the model; '
              'the statement (induced placement, covered exactly once, canonical names, residue labels, removal with '
              'warning, nothing silently kept) evaluated in Coq on the implementation\'s own placements and final molecule.'),
        design_ref='DESIGN.md section 5, C14',
        note=('Trusted: Coq kernel + vm_compute; networkx GraphMatcher replaced by C06\'s enumeration in the model; harness wrappers '
              'observing find_ptm_atoms / identify_ptms; the branch for atoms already labelled by RepairGraph is not modelled.'),
        technique='Coq proof (soundness and completeness of a backtracking exact cover against an inductive specification) + C06 verified oracle + in-Coq correspondence'),
    'C11': dict(
        category='other',
        text=('PARTIAL BY NATURE: a theorem about the whole pipeline would need a model of the whole pipeline. What is proved '
              'in Coq are the stage-level facts the claim rests on: a canonical order (sorting by a total order) does not depend '
              'on the order of presentation (uniqueness of sorted permutations); stages that commute with a change of '
              'presentation compose to a pipeline that commutes with it; an exact rigid motion preserves every squared '
              'distance (so C10 bond guessing, C15 elastic network, C18 contacts - which see coordinates only through '
              'distances - are unaffected) and weighted means move with it (C09 bead positions); composed (C11/Beads.v): for beads of any number of constituents and any weights, a rigid motion of the atoms keeps every bead and every bead-bead squared distance; together with the '
              'per-property theorems C04 (names and atom order do not matter), C01 (placement order by lowest key), C09, C10, '
              'C15. The composition on the real pipeline is EXPLORED, not proved: paired runs of the real martinize2 command '
              'line in separate processes over presentations (within-residue atom permutations, hydrogen renaming, exact '
              'rigid motions, hash seeds, combinations) and option sets; every ITP section compared token by token, '
              'coordinates compared in Coq against the moved reference with exact rationals.'),
        design_ref='DESIGN.md section 5, C11',
        note=('Trusted: Coq kernel + vm_compute; the PDB rewriting and ITP tokenising of the harness; DSSP unavailable (secondary '
              'structure via -ss or none); level "other": stage theorems plus metamorphic exploration of the composition.'),
        technique='Coq proof of stage-level invariance facts + metamorphic paired runs of the real command line (exploration, declared)'),
}
NOT_APPLICABLE = {}
PENDING_REASON = 'not yet claimed: model and proofs for this property are still being built (see DESIGN.md staging); no check is registered so nothing is asserted'
ALL = ['C%02d' % i for i in range(1, 20)]
