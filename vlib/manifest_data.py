"""Source of MANIFEST.json (run tools/mkmanifest.py after editing)."""
CHECKS = {
    'C08': dict(
        category='proof',
        text=('Theorems (Coq, closed under the global context) about a line-by-line Gallina model of '
              'ignore_warnings_and_count, number_of_counts_by and the maxwarn parser: leftover = stated formula for every '
              'counter and every list of allowances, non-negativity, zero iff all covered, errors never waived, absent '
              'types irrelevant, independence of dict order and allowance order. The model is tied to /repo on every run '
              'by evaluating model and proved checker inside Coq (vm_compute) on the outputs of the real logging stack and '
              'the real maxwarn parser.'),
        design_ref='DESIGN.md section 5, C08',
        note=('Trusted: Coq kernel + vm_compute; hand-written model (tie is differential: ~1400 cases quick); Python int() '
              'modelled for ASCII input; types both named and limited are excluded as the property leaves them unspecified.'),
        technique='Coq proof (induction over the type dict with generalised blanket) + in-Coq correspondence evaluation'),
}
NOT_APPLICABLE = {}
PENDING_REASON = 'not yet claimed: model and proofs for this property are still being built (see DESIGN.md staging); no check is registered so nothing is asserted'
ALL = ['C%02d' % i for i in range(1, 20)]
