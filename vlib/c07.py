"""C07 — deferred file writer (vermouth/file_writer.py) and the CLI gate (bin/martinize2)."""
import os
import re
import shutil
import subprocess
import tempfile
from concurrent.futures import ThreadPoolExecutor

from .common import REPO, PY, WORK, NCPU, zlit, nlit, natlit, strlit, optlit, listlit, blit

ID = 'C07'
COQ_TARGETS = ['C07/Props.vo', 'C07/Corr.vo']
PROPS = 'C07/Props.v'
EXTRACTED = ['write_sites']
CASE_IMPORTS = 'From V Require Import Base.FS C07.Model C07.Spec C07.Corr.\nFrom V Require C08.Model.'
RULE = ('histories of deferred opens (modes w a r+ w+ wb ab w+b, re-opening a path with another mode, reads, failing opens) over '
        'a pool of names incl. literal backup names, on directories with pre-existing files and old backups, both '
        'temp-dir placements; each history is finalised, discarded, or interrupted before / inside every file-system call '
        'of write() (fault injected into shutil.move / os.remove / open as seen from vermouth.file_writer); plus real '
        'martinize2 runs (sub-processes) with chosen warning multisets x -maxwarn specs x pre-seeded outputs. '
        'non-trivial = at least one pending destination; distinct by (fs0, ops, finalisation kind)')
ASSUMPTIONS = ['one directory; file names map to paths by parsing the #name.k# pattern (injective)',
               'modes x and a+ are not generated (write() treats a+ as replace: declared boundary, see DESIGN)',
               'an interrupt inside shutil.move across devices is represented by "destination holds a prefix of the data, temp still there"',
               'mkstemp returns a fresh path outside the user directory (temporary files are a separate store in the model)']
TRUSTED = ['fault-injection shim in vlib/c07.py (patches names in vermouth.file_writer only for the duration of one call)',
           'CLI records are parsed from the console log lines "LEVEL - type - message"']

POOL = ['a.txt', 'b.itp', 'c']
MODES = ['w', 'a', 'r+', 'wb', 'ab', 'w', 'a', 'w+', 'w+b']


def name_to_path(name, table):
    m = re.match(r'^#(.*)\.([1-9][0-9]*)#$', name, re.S)
    if m:
        return ('bk', name_to_path(m.group(1), table), int(m.group(2)))
    if name not in table:
        table[name] = len(table)
    return ('name', table[name])


def path_lit(p):
    if p[0] == 'name':
        return '(Name %s)' % nlit(p[1])
    return '(Bk %s %s)' % (path_lit(p[1]), nlit(p[2]))


def mode_lit(m):
    return '{| m_r := %s; m_w := %s; m_a := %s; m_plus := %s |}' % (
        blit('r' in m), blit('w' in m), blit('a' in m), blit('+' in m))


def fs_lit(d, table):
    return listlit(sorted(d.items()), lambda kv: '(%s, %s)' % (path_lit(name_to_path(kv[0], table)), strlit(kv[1])))


def gen_name(rng):
    base = rng.choice(POOL)
    r = rng.random()
    if r < 0.7:
        return base
    if r < 0.9:
        return '#%s.%d#' % (base, rng.choice([1, 1, 2, 3]))
    return '##%s.1#.%d#' % (base, rng.choice([1, 2]))


def gen_hist(rng, maxops=8):
    fs0 = {}
    for _ in range(rng.choice([0, 1, 2, 3, 4, 5])):
        fs0[gen_name(rng)] = rng.choice(['old', 'OLD-%d\n' % rng.randint(0, 99), '', 'x' * rng.randint(1, 9)])
    if rng.random() < 0.4:      # a run of old backups so that the first free index is > 1
        b = rng.choice(POOL)
        fs0[b] = 'cur'
        for k in range(1, rng.choice([2, 3, 4])):
            fs0['#%s.%d#' % (b, k)] = 'bk%d' % k
    ops = []
    links = []
    if fs0 and rng.random() < 0.2:
        # a pre-existing name that is a symbolic link to a file kept elsewhere (plain names only)
        plain = [n for n in fs0 if not n.startswith('#')]
        if plain:
            links.append(rng.choice(plain))
    gen_hist.links = links
    for _ in range(rng.randint(1, maxops)):
        r = rng.random()
        if r < 0.06:
            ops.append(['close'])
        elif r < 0.14:
            ops.append(['open', gen_name(rng), 'r', ''])
        else:
            ops.append(['open', gen_name(rng), rng.choice(MODES),
                        rng.choice(['new', 'data%d\n' % rng.randint(0, 9), '', 'yy', 'z' * rng.randint(1, 12)])])
    return fs0, ops


def gen_vanish(rng):
    """a temporary file disappears, the writer is closed (discard), more files are opened, then finalisation"""
    fs0, _ = gen_hist(rng, 1)
    ops = []
    names = rng.sample(POOL, min(len(POOL), rng.randint(2, 4)))
    for nme in names:
        ops.append(['open', nme, rng.choice(['w', 'w', 'a', 'w+']), 'first-%s' % nme])
    ops.append(['vanish', rng.randrange(len(names))])
    ops.append(['close'])
    for _ in range(rng.randint(0, 3)):
        ops.append(['open', gen_name(rng), rng.choice(MODES), 'second'])
    return fs0, ops


def generate(rng, tier):
    n = 140 if tier == 'quick' else 1500
    cases = []
    for _ in range(60 if tier == 'quick' else 600):
        fs0, ops = gen_vanish(rng)
        cases.append({'kind': 'hist', 'fs0': fs0, 'ops': ops, 'fin': [rng.choice(['write', 'write', 'close'])], 'tmp': rng.choice(['own', 'system'])})
    for i in range(n):
        fs0, ops = gen_hist(rng, 8 if tier == 'quick' else 12)
        links = list(gen_hist.links)
        if links and ops and ops[0][0] == 'open' and rng.random() < 0.7:
            ops[0][1] = links[0]                       # make sure the link is written to
        tmpdir_mode = rng.choice(['own', 'own', 'system'])
        cases.append({'kind': 'hist', 'fs0': fs0, 'ops': ops, 'fin': ['write'], 'tmp': tmpdir_mode, 'links': links})
        cases.append({'kind': 'hist', 'fs0': fs0, 'ops': ops, 'fin': ['close'], 'tmp': tmpdir_mode, 'links': links})
        # every crash point: the number of calls is not known before running; ask for indices 0..7
        # (indices beyond the last call give the completed state) with and without a partial transfer
        for k in range(0, 8 if tier == 'quick' else 14):
            cases.append({'kind': 'hist', 'fs0': fs0, 'ops': ops, 'fin': ['crash', k, None], 'tmp': tmpdir_mode})
            if rng.random() < 0.6:
                cases.append({'kind': 'hist', 'fs0': fs0, 'ops': ops, 'fin': ['crash', k, rng.choice([0, 1, 2, 5])],
                              'tmp': tmpdir_mode})
    if tier == 'thorough':
        import itertools
        # exhaustive: histories of length <= 3 over 2 names x {w, a} x {exists, backup exists}
        for pre in itertools.product([0, 1], repeat=3):
            fs0 = {}
            if pre[0]:
                fs0['a.txt'] = 'A0'
            if pre[1]:
                fs0['#a.txt.1#'] = 'A1'
            if pre[2]:
                fs0['b.itp'] = 'B0'
            alpha = [(nm, md) for nm in ('a.txt', 'b.itp', '#a.txt.1#') for md in ('w', 'a')]
            for ln in (1, 2, 3):
                for seq in itertools.product(alpha, repeat=ln):
                    ops = [['open', nm, md, 'd%d' % i] for i, (nm, md) in enumerate(seq)]
                    cases.append({'kind': 'hist', 'fs0': fs0, 'ops': ops, 'fin': ['write'], 'tmp': 'own'})
                    for k in range(0, 2 * ln):
                        cases.append({'kind': 'hist', 'fs0': fs0, 'ops': ops, 'fin': ['crash', k, None], 'tmp': 'own'})
                        cases.append({'kind': 'hist', 'fs0': fs0, 'ops': ops, 'fin': ['crash', k, 1], 'tmp': 'own'})
    # a destination with a long run of old backups (the first free index is beyond 100)
    for nb in ([101] if tier == 'quick' else [99, 100, 101, 130]):
        fs0 = {'a.txt': 'cur'}
        for k in range(1, nb + 1):
            fs0['#a.txt.%d#' % k] = 'b%d' % k
        cases.append({'kind': 'hist', 'fs0': fs0, 'ops': [['open', 'a.txt', 'w', 'new']], 'fin': ['write'], 'tmp': 'own'})
    # the library's own writer functions, called as the pipeline calls them
    for i in range(len(API_WRITERS) * (3 if tier == 'quick' else 12)):
        wname = API_WRITERS[i % len(API_WRITERS)]
        cases.append({'kind': 'api', 'writer': wname, 'preexisting': rng.random() < 0.6,
                      'fin': [rng.choice(['write', 'close', 'write'])]})
    # CLI runs
    flagsets = [[], ['-scfix'], ['-scfix', '-collagen'], ['-ed'], ['-scfix', '-ed', '-collagen']]
    specsets = [[], [['1']], [['general']], [['general:1']], [['general:0']], [['missing-feature']], [['5']],
                [['general'], ['missing-feature:1']], [['unmapped-atom', '1']], [['missing-feature:2', 'general:1']]]
    ncli = 8 if tier == 'quick' else 40
    for i in range(ncli):
        cases.append({'kind': 'cli', 'flags': flagsets[i % len(flagsets)] if i < len(flagsets) else rng.choice(flagsets),
                      'specs': rng.choice(specsets), 'preseed': rng.random() < 0.7})
    return cases


API_WRITERS = ['write_pdb', 'write_gro', 'write_gmx_topology', 'write_atomtypes', 'write_nonbond_params']


def _tiny_system():
    import numpy as np
    import vermouth
    import vermouth.forcefield
    import vermouth.molecule
    import vermouth.system
    from vermouth.gmx.topology import Atomtype, NonbondParam
    ff = vermouth.forcefield.ForceField(name='testff')
    mol = vermouth.molecule.Molecule(force_field=ff, nrexcl=1)
    for i in range(3):
        mol.add_node(i, atomname='A%d' % i, resname='RES', resid=1, chain='A', atype='P1', charge_group=i + 1,
                     charge=0.0, mass=72.0, position=np.array([0.1 * i, 0.2, 0.3]))
    mol.add_edge(0, 1)
    mol.add_interaction('bonds', (0, 1), ['1', '0.47', '1250'])
    mol.meta['moltype'] = 'molecule_0'
    system = vermouth.system.System(force_field=ff)
    system.add_molecule(mol)
    system.gmx_topology_params['atomtypes'].append(Atomtype(molecule=mol, node=0, sigma=0.0, epsilon=0.0, meta={}))
    system.gmx_topology_params['nonbond_params'].append(NonbondParam(atoms=('P1', 'P1'), sigma=0.5, epsilon=2.0, meta={}))
    return system


def run_api(inp):
    import vermouth.file_writer as fw
    import vermouth.pdb
    import vermouth.gmx
    from vermouth.gmx import topology
    os.makedirs(WORK, exist_ok=True)
    root = tempfile.mkdtemp(prefix='c07api_', dir=WORK)
    userdir = os.path.join(root, 'user')
    tmpd = os.path.join(root, 'tmp')
    os.makedirs(userdir)
    os.makedirs(tmpd)
    # the module-level `deferred_open` is bound to the process-wide singleton: reuse it, emptied
    w = fw.DeferredFileWriter()
    w.close()
    old_tmpdir = w._tmpdir
    w._tmpdir = tmpd
    cwd = os.getcwd()
    all_tmps = []
    try:
        os.chdir(userdir)
        system = _tiny_system()
        names = {'write_pdb': ['out.pdb'], 'write_gro': ['out.gro'],
                 'write_gmx_topology': ['topol.top', 'molecule_0.itp', 'nb.itp', 'at.itp'],
                 'write_atomtypes': ['at.itp'], 'write_nonbond_params': ['nb.itp']}[inp['writer']]
        fs0 = {}
        if inp['preexisting']:
            for nme in names:
                fs0[nme] = 'OLD ' + nme
                with open(nme, 'w') as f:
                    f.write(fs0[nme])
        if inp['writer'] == 'write_pdb':
            vermouth.pdb.write_pdb(system, 'out.pdb')
        elif inp['writer'] == 'write_gro':
            vermouth.gmx.write_gro(system, 'out.gro')
        elif inp['writer'] == 'write_gmx_topology':
            system.meta['header'] = ['hdr']
            topology.write_gmx_topology(system, 'topol.top', itp_paths={'nonbond_params': 'nb.itp', 'atomtypes': 'at.itp'})
        elif inp['writer'] == 'write_atomtypes':
            topology.write_atomtypes(system, 'at.itp')
        else:
            topology.write_nonbond_params(system, 'nb.itp')
        before = _snapshot(userdir)
        dests = []
        for tmp_path, final, mode in w.open_files:
            all_tmps.append(tmp_path)
            with open(tmp_path, 'rb') as f:
                c = f.read().decode('latin-1')
            dests.append([os.path.basename(str(final)), ('w' in mode or '+' in mode), c])
        if inp['fin'][0] == 'write':
            w.write()
        else:
            w.close()
        after = _snapshot(userdir)
        left = sum(1 for t in set(all_tmps) if os.path.exists(t))
        return {'fs0': fs0, 'before': before, 'dests': dests, 'after': after, 'tmps_left': left}
    finally:
        os.chdir(cwd)
        try:
            w.close()
        except Exception:  # pylint: disable=broad-except
            pass
        w._tmpdir = old_tmpdir
        shutil.rmtree(root, ignore_errors=True)


class Crash(Exception):
    pass


def _snapshot(d):
    out = {}
    for fn in sorted(os.listdir(d)):
        p = os.path.join(d, fn)
        if os.path.isfile(p):
            with open(p, 'rb') as f:
                out[fn] = f.read().decode('latin-1')
    return out


def run_hist(inp):
    import vermouth.file_writer as fw
    os.makedirs(WORK, exist_ok=True)
    root = tempfile.mkdtemp(prefix='c07run_', dir=WORK)
    userdir = os.path.join(root, 'user')
    tmpd = os.path.join(root, 'tmp')
    os.makedirs(userdir)
    os.makedirs(tmpd)
    fw.Singleton._instances.pop(fw.DeferredFileWriter, None)
    w = fw.DeferredFileWriter()
    w._tmpdir = tmpd if inp['tmp'] == 'own' else None
    all_tmps = []
    try:
        elsewhere = os.path.join(root, 'elsewhere')
        os.makedirs(elsewhere)
        for name, content in inp['fs0'].items():
            if name in inp.get('links', []):
                with open(os.path.join(elsewhere, name), 'wb') as f:
                    f.write(content.encode('latin-1'))
                os.symlink(os.path.join('..', 'elsewhere', name), os.path.join(userdir, name))
                continue
            with open(os.path.join(userdir, name), 'wb') as f:
                f.write(content.encode('latin-1'))
        outcomes = []
        for op in inp['ops']:
            if op[0] == 'close':
                all_tmps += [t for t, _, _ in w.open_files]
                w.close()
                outcomes.append('OK')
                continue
            if op[0] == 'vanish':
                # fault: the temporary file of the i-th queued entry disappears
                if op[1] < len(w.open_files):
                    t = list(w.open_files)[op[1]][0]
                    all_tmps.append(t)
                    if os.path.exists(t):
                        os.remove(t)
                outcomes.append('OK')
                continue
            _, name, mode, data = op
            try:
                h = w.open(os.path.join(userdir, name), mode)
                try:
                    if data and mode != 'r':
                        h.write(data.encode('latin-1') if 'b' in mode else data)
                finally:
                    h.close()
                outcomes.append('OK')
            except FileNotFoundError:
                outcomes.append('ErrNotFound')
            except KeyError:
                outcomes.append('ErrMode')
        before = _snapshot(userdir)
        dests = []
        for tmp_path, final, mode in w.open_files:
            all_tmps.append(tmp_path)
            try:
                with open(tmp_path, 'rb') as f:
                    c = f.read().decode('latin-1')
            except FileNotFoundError:
                c = None
            dests.append([os.path.basename(str(final)), ('w' in mode or '+' in mode), c])
        fin = inp['fin']
        ncalls = None
        if fin[0] == 'write':
            w.write()
        elif fin[0] == 'close':
            w.close()
        else:
            ncalls = _crash_write(fw, w, fin[1], fin[2])
        after = _snapshot(userdir)
        left = sum(1 for t in set(all_tmps) if os.path.exists(t)) if fin[0] != 'crash' else 0
        # a file kept elsewhere that a name in the directory merely links to was never opened for writing: unless something
        # is appended through the link it must be what it was, and nothing new may appear next to it
        outside = None
        for name in inp.get('links', []):
            # appending through the name, or through a backup name of it (the link itself is moved there), legitimately
            # changes the file the link points to
            appended = any(op[0] == 'open' and 'a' in op[2] and (op[1] == name or op[1].startswith('#' + name + '.'))
                           for op in inp['ops'])
            try:
                with open(os.path.join(elsewhere, name), 'rb') as f:
                    now = f.read().decode('latin-1')
            except FileNotFoundError:
                now = None
            if (not appended and now != inp['fs0'][name]) or sorted(os.listdir(elsewhere)) != [name]:
                outside = 'the file %r kept elsewhere, to which the destination name is only a symbolic link, held %r and now holds %r; its directory lists %r' % (
                    name, inp['fs0'][name], now, sorted(os.listdir(elsewhere)))
        return {'outcomes': outcomes, 'before': before, 'dests': dests, 'after': after, 'tmps_left': left,
                'ncalls': ncalls, 'outside': outside}
    finally:
        try:
            w.close()
        except Exception:  # pylint: disable=broad-except
            pass
        for t in all_tmps:
            try:
                os.remove(t)
            except OSError:
                pass
        fw.Singleton._instances.pop(fw.DeferredFileWriter, None)
        shutil.rmtree(root, ignore_errors=True)


def _crash_write(fw, w, k, part):
    """Run w.write() with the k-th file-system call (shutil.move / append-open+write / os.remove, as
    seen from vermouth.file_writer) interrupted: before it (part None) or after `part` bytes."""
    state = {'i': 0}
    real_shutil, real_os, real_open = fw.shutil, fw.os, fw._open
    tmp_paths = {t for t, _, _ in w.open_files}

    def tick():
        i = state['i']
        state['i'] += 1
        return i == k

    class ShProxy:
        def __getattr__(self, a):
            return getattr(real_shutil, a)

        @staticmethod
        def move(src, dst):
            if tick():
                if part is not None and src in tmp_paths:
                    with real_open(src, 'rb') as f:
                        data = f.read()
                    with real_open(dst, 'wb') as f:
                        f.write(data[:part])
                raise Crash()
            return real_shutil.move(src, dst)

    class OsProxy:
        def __getattr__(self, a):
            return getattr(real_os, a)

        @staticmethod
        def remove(p):
            if tick():
                raise Crash()
            return real_os.remove(p)

    def open_proxy(path, mode='r', *a, **kw):
        if str(path) not in tmp_paths and ('a' in mode):
            if tick():
                if part is not None:
                    # the destination was opened (created) and `part` bytes got written
                    src = state.get('cur_tmp')
                    with real_open(path, 'ab') as f:
                        pass
                    state['partial_dst'] = str(path)
                    return _PartialWriter(real_open(path, mode, *a, **kw), part)
                raise Crash()
        return real_open(path, mode, *a, **kw)

    class _PartialWriter:
        def __init__(self, h, n):
            self.h, self.n = h, n

        def __enter__(self):
            return self

        def __exit__(self, *exc):
            self.h.close()
            return False

        def write(self, data):
            self.h.write(data[:self.n])
            self.h.flush()
            raise Crash()

    fw.shutil, fw.os, fw._open = ShProxy(), OsProxy(), open_proxy
    try:
        try:
            w.write()
        except Crash:
            pass
    finally:
        fw.shutil, fw.os, fw._open = real_shutil, real_os, real_open
    return state['i']


def parse_log(text):
    counts = {}
    order = []
    for line in text.splitlines():
        m = re.match(r'^\s*(DEBUG|INFO|WARNING|ERROR|CRITICAL) - ([^ ]+) - (.*)$', line)
        if not m:
            continue
        lvl = {'DEBUG': 10, 'INFO': 20, 'WARNING': 30, 'ERROR': 40, 'CRITICAL': 50}[m.group(1)]
        if lvl < 30:
            continue
        if lvl == 40 and 'warnings were encountered after accounting' in m.group(3):
            continue
        counts.setdefault(lvl, {})
        counts[lvl][m.group(2)] = counts[lvl].get(m.group(2), 0) + 1
    return [[lvl, [[t, n] for t, n in tc.items()]] for lvl, tc in counts.items()]


JUNK = 'PRE-EXISTING CONTENT\n'


def run_cli(inp):
    from . import c08
    os.makedirs(WORK, exist_ok=True)
    d = tempfile.mkdtemp(prefix='c07cli_', dir=WORK)
    try:
        pre = {}
        if inp['preseed']:
            pre = {'out.pdb': JUNK + 'pdb', 'topol.top': JUNK + 'top', 'molecule_0.itp': JUNK + 'itp',
                   '#out.pdb.1#': JUNK + 'older'}
            for fn, c in pre.items():
                with open(os.path.join(d, fn), 'w') as f:
                    f.write(c)
        cmd = [PY, '-W', 'ignore', os.path.join(REPO, 'bin', 'martinize2'), '-f',
               os.path.join(REPO, 'vermouth', 'tests', 'data', 'ala5.pdb'), '-x', 'out.pdb', '-o', 'topol.top',
               '-ff', 'martini3001', '-ignh'] + inp['flags']
        for g in inp['specs']:
            cmd += ['-maxwarn'] + g
        env = dict(os.environ, PYTHONPATH=REPO, PYTHONHASHSEED='0')
        env.pop('_VERIF_REEXEC', None)
        p = subprocess.run(cmd, cwd=d, env=env, stdout=subprocess.PIPE, stderr=subprocess.STDOUT, text=True,
                           errors='replace', timeout=600)
        if 'usage: martinize2' in p.stdout:
            raise RuntimeError('harness error: bad CLI invocation: ' + p.stdout[-300:])
        after = _snapshot(d)
        new_files = [fn for fn in after if fn not in pre]
        intact = True
        for fn, c in pre.items():
            ok = after.get(fn) == c or any(v == c and re.match(r'^#%s\.\d+#$' % re.escape(fn), k) for k, v in after.items())
            intact = intact and ok
        expected = all(fn in after and len(after[fn]) > 50 and not after[fn].startswith(JUNK)
                       for fn in ('out.pdb', 'topol.top', 'molecule_0.itp'))
        mw = c08._maxwarn()
        parsed = [[list(mw(s)) for s in g] for g in inp['specs']]
        return {'exit': p.returncode, 'counts': parse_log(p.stdout), 'parsed': parsed, 'new_files': sorted(new_files),
                'intact': intact, 'expected_present': expected, 'tail': p.stdout[-300:] if p.returncode not in (0, 2) else ''}
    finally:
        shutil.rmtree(d, ignore_errors=True)


def py_prop(inp, out):
    return out.get('outside') if isinstance(out, dict) else None


def run_impl(inp):
    if inp['kind'] == 'hist':
        return run_hist(inp)
    if inp['kind'] == 'api':
        return run_api(inp)
    return run_cli(inp)


def run_impl_all(inputs):
    outs = [None] * len(inputs)
    cli = [i for i, c in enumerate(inputs) if c['kind'] == 'cli']
    with ThreadPoolExecutor(max_workers=NCPU) as ex:
        futs = {i: ex.submit(run_cli, inputs[i]) for i in cli}
        for i, c in enumerate(inputs):
            try:
                if c['kind'] == 'hist':
                    outs[i] = run_hist(c)
                elif c['kind'] == 'api':
                    outs[i] = run_api(c)
            except Exception as e:  # pylint: disable=broad-except
                # an exception the writer is not supposed to raise on these histories (finalisation that fails, ...)
                import traceback
                outs[i] = {'_exception': '%s: %s' % (type(e).__name__, str(e)[:300]), '_where': traceback.format_exc()[-600:]}
        for i, f in futs.items():
            outs[i] = f.result()
    return outs


def emit(inp, out):
    if inp['kind'] == 'cli':
        counts = listlit(out['counts'], lambda lt: '(%s, %s)' % (zlit(lt[0]), listlit(lt[1], lambda p: '(%s, %s)' % (strlit(p[0]), zlit(p[1])))))
        specs = listlit(out['parsed'], lambda g: listlit(g, lambda p: '(%s, %s)' % (optlit(p[0], strlit), optlit(p[1], zlit))))
        return 'CCli %s %s %s %s %s %s' % (counts, specs, zlit(out['exit']), nlit(len(out['new_files'])),
                                           blit(out['intact']), blit(out['expected_present']))
    table = {n: i for i, n in enumerate(POOL)}
    if inp['kind'] == 'api':
        dests = listlit(out['dests'], lambda d: '{| d_path := %s; d_write := %s; d_content := %s |}' % (
            path_lit(name_to_path(d[0], table)), blit(d[1]), strlit(d[2])))
        return 'CApi %s %s %s %s %s %s' % (fs_lit(out['fs0'], table), fs_lit(out['before'], table), dests,
                                           'FWrite' if inp['fin'][0] == 'write' else 'FClose',
                                           fs_lit(out['after'], table), nlit(out['tmps_left']))
    ops = []
    for op in inp['ops']:
        if op[0] == 'close':
            ops.append('Close')
        elif op[0] == 'vanish':
            ops.append('(Vanish %s)' % natlit(op[1]))
        else:
            ops.append('Open %s %s %s' % (path_lit(name_to_path(op[1], table)), mode_lit(op[2]),
                                          strlit('' if op[2] == 'r' else op[3])))
    fin = inp['fin']
    if fin[0] == 'write':
        f = 'FWrite'
    elif fin[0] == 'close':
        f = 'FClose'
    else:
        f = '(FCrash %s %s)' % (natlit(fin[1]), optlit(fin[2], natlit))
    if any(c is None for _, _, c in out['dests']):
        return None
    dests = listlit(out['dests'], lambda d: '{| d_path := %s; d_write := %s; d_content := %s |}' % (
        path_lit(name_to_path(d[0], table)), blit(d[1]), strlit(d[2])))
    return 'CHist %s %s %s %s %s %s %s %s' % (
        fs_lit(inp['fs0'], table), '[' + '; '.join(ops) + ']', '[' + '; '.join(out['outcomes']) + ']',
        fs_lit(out['before'], table), dests, f, fs_lit(out['after'], table), nlit(out['tmps_left']))


def nontrivial(inp, out):
    if inp['kind'] == 'cli':
        return ('cli', tuple(inp['flags']), str(inp['specs']), inp['preseed'])
    if inp['kind'] == 'api':
        return ('api', inp['writer'], inp['preexisting'], inp['fin'][0])
    if not out['dests']:
        return None
    return ('h', sorted(inp['fs0'].items()), inp['ops'], inp['fin'])


def describe(inp, out):
    if inp['kind'] == 'cli':
        return {'kind': 'cli', 'cli_exit': out['exit'], 'cli_warning_records': sum(n for l, tc in out['counts'] for _, n in tc)}
    if inp['kind'] == 'api':
        return {'kind': 'api', 'api_writer': inp['writer'], 'api_dests': len(out['dests'])}
    return {'kind': 'hist', 'fin': inp['fin'][0], 'n_ops': len(inp['ops']), 'n_dests': len(out['dests']),
            'n_preexisting': len(inp['fs0']),
            'dest_preexists': sum(1 for d in out['dests'] if d[0] in inp['fs0']),
            'open_errors': sum(1 for o in out['outcomes'] if o != 'OK'),
            'crash_inside_call': inp['fin'][0] == 'crash' and inp['fin'][2] is not None,
            'crash_before_end': inp['fin'][0] == 'crash' and out['ncalls'] is not None and inp['fin'][1] < out['ncalls']}


def shrink(inp):
    if inp['kind'] != 'hist':
        return
    ops, fs0 = inp['ops'], inp['fs0']
    for i in range(len(ops)):
        yield dict(inp, ops=ops[:i] + ops[i + 1:])
    for k in list(fs0):
        yield dict(inp, fs0={a: b for a, b in fs0.items() if a != k})
