"""C08 — warning allowances (log_helpers.ignore_warnings_and_count, bin/martinize2:maxwarn)."""
import argparse
import importlib.machinery
import importlib.util
import logging
import os

from .common import REPO, zlit, strlit, optlit, listlit, pairlit

ID = 'C08'
COQ_TARGETS = ['C08/Props.vo', 'C08/Corr.vo']
PROPS = 'C08/Props.v'
CASE_IMPORTS = 'From V Require Import C08.Model C08.Spec C08.Corr.'
RULE = ('records (level,type) are emitted through the real TypeAdapter/StyleAdapter + CountingHandler; '
        'specs are strings parsed by the real maxwarn(); streams: random, one-deciding-clause (limit / blanket / '
        'named / above-warning each the only non-zero contribution), parser strings incl. malformed; '
        'non-trivial = at least one warning-level record and one allowance that applies to an occurring type, '
        'distinct by canonical (counts, specs)')
ASSUMPTIONS = ['types are printable-ASCII strings; a type both named and limited is excluded (left unspecified by the property)',
               'Python int() is modelled for ASCII input only (sign, digits, single underscores, surrounding whitespace)']
TRUSTED = ['model of Python int() restricted to ASCII (C08/Model.v py_int)']

_mw = None


def _maxwarn():
    global _mw
    if _mw is None:
        loader = importlib.machinery.SourceFileLoader('martinize2_cli', os.path.join(REPO, 'bin', 'martinize2'))
        spec = importlib.util.spec_from_loader('martinize2_cli', loader)
        m = importlib.util.module_from_spec(spec)
        root_handlers = list(logging.getLogger('vermouth').handlers)
        loader.exec_module(m)
        # the CLI module attaches handlers to the 'vermouth' logger at import: remove them again
        lg = logging.getLogger('vermouth')
        for h in list(lg.handlers):
            if h not in root_handlers:
                lg.removeHandler(h)
        _mw = m.maxwarn
    return _mw


TYPES = ['general', 'unmapped-atom', 'inconsistent-data', 'missing-feature', 'x', 'PO4', 'a-b', 'T_1', '9z', '']
LEVELS = [10, 20, 30, 30, 30, 31, 35, 40, 50]


def gen_counts(rng, ntypes=None, maxc=12):
    ntypes = rng.randint(0, 6) if ntypes is None else ntypes
    types = rng.sample(TYPES, ntypes)
    recs = []
    for t in types:
        for _ in range(rng.choice([0, 1, 1, 2, 3, 5, rng.randint(0, maxc)])):
            recs.append((30, t))
    for _ in range(rng.choice([0, 0, 0, 1, 2, 4])):
        recs.append((rng.choice(LEVELS), rng.choice(TYPES)))
    rng.shuffle(recs)
    return recs


def gen_specs(rng, types_present):
    pool = list(types_present) + rng.sample(TYPES, 2)
    groups = []
    named, limited = set(), set()
    for _ in range(rng.choice([0, 1, 1, 2, 3])):
        g = []
        for _ in range(rng.choice([1, 1, 2, 3])):
            k = rng.random()
            if k < 0.3:
                g.append(str(rng.choice([0, 1, 2, 3, 5, 8, 20, 10**9, -1, -5, rng.randint(-3, 30)])))
            elif k < 0.55:
                t = rng.choice(pool)
                if t in limited or py_int_like(t):
                    continue
                named.add(t)
                g.append(t)
            else:
                t = rng.choice(pool)
                if t in named:
                    continue
                limited.add(t)
                n = rng.choice([0, 1, 2, 3, 5, 8, -2, rng.randint(-3, 30)])
                g.append('%s:%s' % (t, rng.choice(['%d', '%d', '+%d', ' %d ', '0%d']) % n if n >= 0 else '%s:%d' % ('', n)).replace('::', ':') if False else '%s:%d' % (t, n))
        if g:
            groups.append(g)
    return groups


def py_int_like(s):
    try:
        int(s)
        return True
    except ValueError:
        return False


PARSE_STRINGS = ['3', '-3', '+4', ' 5', '6 ', '\t7\n', '1_0', '1__0', '_1', '1_', '', ' ', ':', 'a:', ':3', 'a:b', 'a:3',
                 'a:-3', 'a:+3', 'a: 3', 'a:3 ', 'a:3:4', '::', 'a::3', 'general', 'general:15', 'inconsistent-data',
                 '3.0', '0x10', '1e3', '--3', '- 3', '+-3', '007', 'a:007', 'a:1_000', 'a:_1', 'a:', 'a b:2', 'a b',
                 '3:general', '3:4', ' :1', 'a:\x0c2', '\x1c9', '\x1f8\x1e', 'a:9_', '-0', 'a:-0', '+', '-', 'a:+']


def generate(rng, tier):
    n = 1200 if tier == 'quick' else 12000
    cases = []
    for s in PARSE_STRINGS:
        cases.append({'kind': 'parse', 'value': s})
    alphabet = 'ab3-+_: \t19.:'
    for _ in range(150 if tier == 'quick' else 3000):
        cases.append({'kind': 'parse', 'value': ''.join(rng.choice(alphabet) for _ in range(rng.randint(0, 6)))})
    for i in range(n):
        recs = gen_counts(rng)
        present = sorted({t for l, t in recs if l == 30})
        mode = i % 5
        if mode == 0 and present:          # only a limit decides
            t = rng.choice(present)
            c = sum(1 for l, tt in recs if l == 30 and tt == t)
            recs = [(l, tt) for l, tt in recs if l == 30 and tt == t]
            specs = [['%s:%d' % (t, c + rng.choice([-1, 0, 1]))]]
        elif mode == 1 and present:        # only the blanket decides
            recs = [(l, tt) for l, tt in recs if l == 30]
            specs = [[str(len(recs) + rng.choice([-1, 0, 1]))]]
        elif mode == 2 and present:        # named waives everything but one type
            recs = [(l, tt) for l, tt in recs if l == 30]
            keep = rng.choice(present)
            specs = [[t for t in present if t != keep and not py_int_like(t)]]
            specs = [g for g in specs if g]
            if rng.random() < 0.5:
                specs.append(['%s:%d' % (keep, 10**6)])
        elif mode == 3:                    # errors with huge allowances
            recs = recs + [(rng.choice([31, 40, 50]), rng.choice(TYPES))]
            specs = [[str(10**9)] + ['%s:%d' % (t, 10**9) for t in present]]
        else:
            specs = gen_specs(rng, present)
        cases.append({'kind': 'count', 'records': recs, 'specs': specs, 'set_level': rng.random() < 0.7})
    if tier == 'thorough':
        # exhaustive small domain: 3 types x counts 0..2, all spec lists of length <= 2 over a 9-letter alphabet
        import itertools
        alpha = ['0', '1', '2', 'x', 'y', 'x:0', 'x:1', 'y:2', '-1']
        for cx, cy, cz in itertools.product(range(3), repeat=3):
            recs = [(30, 'x')] * cx + [(30, 'y')] * cy + [(30, 'z')] * cz
            for k in range(3):
                for sp in itertools.product(alpha, repeat=k):
                    if ('x' in sp and any(s.startswith('x:') for s in sp)) or ('y' in sp and 'y:2' in sp):
                        continue
                    cases.append({'kind': 'count', 'records': recs, 'specs': [list(sp)] if sp else [], 'set_level': True})
    return cases


def run_impl(inp):
    mw = _maxwarn()
    if inp['kind'] == 'parse':
        try:
            r = mw(inp['value'])
            return {'ok': True, 'type': r[0], 'count': r[1]}
        except argparse.ArgumentTypeError:
            return {'ok': False}
    from vermouth.log_helpers import (StyleAdapter, TypeAdapter, CountingHandler, ignore_warnings_and_count)
    base = logging.getLogger('verif.c08.%d' % id(inp))
    base.propagate = False
    base.setLevel(1)
    handler = CountingHandler()
    if inp.get('set_level', True):
        handler.setLevel(logging.WARNING)
    base.addHandler(handler)
    lg = StyleAdapter(TypeAdapter(base))
    for lvl, t in inp['records']:
        lg.log(lvl, 'message {}', 1, type=t)
    parsed = []
    for g in inp['specs']:
        parsed.append([mw(s) for s in g])
    out = ignore_warnings_and_count(handler, parsed)
    counts = [[lvl, [[t, n] for t, n in tc.items()]] for lvl, tc in handler.counts.items()]
    base.removeHandler(handler)
    return {'counts': counts, 'parsed': [[[t, n] for t, n in g] for g in parsed], 'out': out}


def _spec(p):
    return '(%s, %s)' % (optlit(p[0], strlit), optlit(p[1], zlit))


def emit(inp, out):
    if inp['kind'] == 'parse':
        if out['ok']:
            r = '(PSpec %s)' % _spec((out['type'], out['count']))
        else:
            r = 'PError'
        return 'CParse %s %s' % (strlit(inp['value']), r)
    counts = listlit(out['counts'], lambda lt: '(%s, %s)' % (zlit(lt[0]), listlit(lt[1], lambda p: pairlit(p, strlit, zlit))))
    ss = listlit(inp['specs'], lambda g: listlit(g, strlit))
    ip = listlit(out['parsed'], lambda g: listlit(g, _spec))
    return 'CCount %s %s %s %s' % (counts, ss, ip, zlit(out['out']))


def nontrivial(inp, out):
    if inp['kind'] == 'parse':
        return ('p', inp['value'])
    wc = [tc for lvl, tc in out['counts'] if lvl == 30]
    if not wc or not wc[0]:
        return None
    types = {t for t, _ in wc[0]}
    flat = [p for g in out['parsed'] for p in g]
    if not any(p[0] is None or p[0] in types for p in flat):
        return None
    return ('c', sorted(map(tuple, wc[0])), sorted((str(p[0]), str(p[1])) for p in flat),
            sum(n for lvl, tc in out['counts'] if lvl > 30 for _, n in tc))


def describe(inp, out):
    if inp['kind'] == 'parse':
        return {'kind': 'parse', 'parse_ok': out['ok']}
    return {'kind': 'count', 'n_types': len({t for _, t in inp['records']}),
            'n_spec_groups': len(inp['specs']), 'leftover_zero': out['out'] == 0,
            'has_above_warning': any(l > 30 for l, _ in inp['records'])}


def shrink(inp):
    if inp['kind'] == 'parse':
        v = inp['value']
        for i in range(len(v)):
            yield {'kind': 'parse', 'value': v[:i] + v[i + 1:]}
        return
    recs, specs = inp['records'], inp['specs']
    for i in range(len(recs)):
        yield dict(inp, records=recs[:i] + recs[i + 1:])
    for i in range(len(specs)):
        yield dict(inp, specs=specs[:i] + specs[i + 1:])
        for j in range(len(specs[i])):
            g = specs[i][:j] + specs[i][j + 1:]
            yield dict(inp, specs=specs[:i] + ([g] if g else []) + specs[i + 1:])
