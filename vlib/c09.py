"""C09 — a particle sits at the weighted mean of the atoms it represents (average_beads.py)."""
import math
from fractions import Fraction

from .common import zlit, optlit, listlit, blit, qlit

ID = 'C09'
COQ_TARGETS = ['C09/Props.vo', 'C09/Corr.vo']
PROPS = 'C09/Props.v'
EXTRACTED = []
CASE_IMPORTS = 'From V Require Import C09.Model C09.Proofs C09.Corr.\nFrom Coq Require Import QArith.'
RULE = ('systems of 1-3 molecules handled by ONE DoAverageBead instance, each molecule with its own force field '
        '(centre weight configured or not), 1-4 particles with 0-8 constituents: unequal mapping weights incl. 0, '
        'default weights, negative weights that cancel, atoms shared between particles, particles without constituents (no graph '
        'attribute) anywhere in the molecule, positions left over from an earlier run, constituents with missing '
        'coordinates combined with unequal weights (the case where a mis-paired weight shows), missing centre-weight '
        'attribute (KeyError); plus metamorphic pairs: the same particle before and after a rational rigid motion / '
        'general affine map of all input coordinates. non-trivial = a particle with >= 2 positioned constituents of unequal '
        'effective weight, or a missing position; distinct by input')
ASSUMPTIONS = ['doubles are shipped as exact rationals; model and implementation agree within 1e-9 relative',
               'weight sums within 0.1% of the 1e-7 NaN threshold are not generated']
TRUSTED = ['numpy.average / sum are not modelled bit-exactly (summation order, rounding): validated within the band']

ROTS = [[[1, 0, 0], [0, 1, 0], [0, 0, 1]],
        [[Fraction(3, 5), Fraction(-4, 5), 0], [Fraction(4, 5), Fraction(3, 5), 0], [0, 0, 1]],
        [[0, 0, 1], [1, 0, 0], [0, 1, 0]],
        [[Fraction(2, 3), Fraction(-1, 3), Fraction(2, 3)], [Fraction(2, 3), Fraction(2, 3), Fraction(-1, 3)],
         [Fraction(-1, 3), Fraction(2, 3), Fraction(2, 3)]],
        [[1, 2, 0], [0, Fraction(1, 2), 0], [3, 0, -1]]]          # the last one is a general (non-rigid) affine map


def gen_bead(rng, pool, use_cw):
    n = rng.choice([0, 1, 2, 2, 3, 4, 5, 8])
    cons = []
    keys = rng.sample(range(0, 40), n)
    for k in keys:
        if pool and rng.random() < 0.3:
            c = dict(rng.choice(pool))
            if c['key'] in [x['key'] for x in cons]:
                continue
        else:
            c = {'key': k, 'pos': None if rng.random() < 0.2 else [rng.randint(-5000, 5000) / 1000.0 for _ in range(3)],
                 'cw': rng.choice([1.008, 12.011, 14.007, 15.999, 0.0]) if (use_cw is not None and rng.random() < 0.98) or rng.random() < 0.3 else None}
            pool.append(c)
        if c['key'] in [x['key'] for x in cons]:
            continue
        cons.append(c)
    mw = {}
    for c in cons:
        r = rng.random()
        if r < 0.5:
            mw[c['key']] = rng.choice([0, 0.5, 1, 1, 2, 0.25, 3])
        elif r < 0.55:
            mw[c['key']] = rng.choice([-1, -0.5])
    if rng.random() < 0.1:
        mw[99] = 5      # a weight for an atom that is not a constituent
    return {'cons': cons, 'mw': mw}


def gen_sys(rng):
    mols = []
    for _ in range(rng.randint(1, 3)):
        use_cw = rng.choice([None, None, 'mass'])
        pool = []
        beads = [gen_bead(rng, pool, use_cw) for _ in range(rng.randint(1, 4))]
        if rng.random() < 0.35:
            # particles that represent no atoms (no 'graph' attribute: virtual sites), anywhere in the molecule, and
            # positions left over from an earlier run
            for _ in range(rng.choice([1, 1, 2])):
                beads.insert(rng.randrange(len(beads) + 1), {'nograph': True, 'cons': [], 'mw': {}})
        for b in beads:
            if rng.random() < 0.3:
                b['prior'] = [rng.choice([999.0, -7.5, 0.125]) for _ in range(3)]
        mols.append({'cw': use_cw, 'beads': beads})
    return {'kind': 'sys', 'mols': mols}


def generate(rng, tier):
    n = 300 if tier == 'quick' else 5000
    cases = [gen_sys(rng) for _ in range(n)]
    for i in range(200 if tier == 'quick' else 3000):
        use_cw = rng.choice([None, 'mass'])
        b = gen_bead(rng, [], use_cw)
        for c in b['cons']:
            if use_cw and c['cw'] is None:
                c['cw'] = 1.0
        cases.append({'kind': 'motion', 'cw': use_cw, 'bead': b, 'rot': i % len(ROTS),
                      'shift': [rng.randint(-3000, 3000) / 100.0 for _ in range(3)]})
    return cases


def _run_mols(mols):
    import numpy as np
    import networkx as nx
    import vermouth
    import vermouth.forcefield
    import vermouth.molecule
    from vermouth.processors.average_beads import DoAverageBead
    # martinize2 runs the processor with ignore_missing_graphs=True; without it a particle without a graph is an error
    proc = DoAverageBead(ignore_missing_graphs=True) if any(b.get('nograph') for m in mols for b in m['beads']) else DoAverageBead()
    out = []
    for m in mols:
        ff = vermouth.forcefield.ForceField(name='ff_%s' % m['cw'])
        if m['cw'] is not None:
            ff.variables['center_weight'] = m['cw']
        mol = vermouth.molecule.Molecule(force_field=ff)
        for bi, b in enumerate(m['beads']):
            g = nx.Graph()
            for c in b['cons']:
                attrs = {}
                if c['pos'] is not None:
                    attrs['position'] = np.array(c['pos'], dtype=float)
                if c['cw'] is not None:
                    attrs['mass'] = c['cw']
                g.add_node(c['key'], **attrs)
            if b.get('nograph'):
                mol.add_node(bi, atomname='VS')
            else:
                mol.add_node(bi, graph=g, mapping_weights=dict(b['mw']))
            if b.get('prior') is not None:
                mol.nodes[bi]['position'] = np.array(b['prior'], dtype=float)
        try:
            proc.run_molecule(mol)
            for bi in range(len(m['beads'])):
                p = mol.nodes[bi].get('position')
                if p is None:
                    out.append(['missing'])
                elif any(math.isnan(x) for x in p):
                    out.append(['nan'])
                else:
                    out.append(['pos'] + [str(Fraction(float(x)).limit_denominator(10 ** 12)) for x in p])
        except KeyError:
            out += [['keyerror']] * len(m['beads'])
    return out


def apply_affine(rot, shift, p):
    return [float(sum(Fraction(rot[i][j]) * Fraction(p[j]) for j in range(3)) + Fraction(shift[i])) for i in range(3)]


def run_impl(inp):
    if inp['kind'] == 'sys':
        return {'res': _run_mols(inp['mols'])}
    b = inp['bead']
    rot, shift = ROTS[inp['rot']], inp['shift']
    moved = dict(b, cons=[dict(c, pos=None if c['pos'] is None else apply_affine(rot, shift, c['pos'])) for c in b['cons']])
    r1 = _run_mols([{'cw': inp['cw'], 'beads': [b]}])[0]
    r2 = _run_mols([{'cw': inp['cw'], 'beads': [moved]}])[0]
    return {'before': r1, 'after': r2, 'moved': moved}


def q(x):
    # inputs are decimals with few digits: ship the intended decimal (the double differs by < 1e-15 relative,
    # far inside the comparison band) so that the rationals stay small
    return qlit(Fraction(repr(x)) if isinstance(x, float) else Fraction(x))


def bead_lit(b, use_cw):
    cons = listlit(b['cons'], lambda c: '{| c_key := %s; c_pos := %s; c_cw := %s |}' % (
        zlit(c['key']), optlit(c['pos'], lambda p: '(%s, %s, %s)' % (q(p[0]), q(p[1]), q(p[2]))), optlit(c['cw'], q)))
    mw = listlit(sorted(b['mw'].items()), lambda kv: '(%s, %s)' % (zlit(kv[0]), q(float(kv[1]))))
    return '{| b_graph := %s; b_mw := %s; b_use_cw := %s |}' % (cons, mw, blit(use_cw is not None))


def res_lit(r):
    if r[0] == 'pos':
        return '(IPos %s %s %s)' % tuple(qlit(Fraction(x)) for x in r[1:])
    if r[0] == 'nan':
        return 'INaN'
    if r[0] == 'keyerror':
        return 'IKeyError'
    if r[0] == 'missing':
        return 'IMissing'
    return 'INaN'


def emit(inp, out):
    if inp['kind'] == 'sys':
        mols = []
        i = 0
        for m in inp['mols']:
            items = []
            for b in m['beads']:
                part = 'PNoGraph' if b.get('nograph') else 'PBead %s' % bead_lit(b, m['cw'])
                prior = optlit(b.get('prior'), lambda p: '(%s, %s, %s)' % (q(p[0]), q(p[1]), q(p[2])))
                items.append('(%s, %s, %s)' % (part, prior, res_lit(out['res'][i])))
                i += 1
            mols.append('[%s]' % '; '.join(items))
        return 'CSys [%s]' % '; '.join(mols)
    rot, shift = ROTS[inp['rot']], inp['shift']
    f = ('{| a11 := %s; a12 := %s; a13 := %s; a21 := %s; a22 := %s; a23 := %s; a31 := %s; a32 := %s; a33 := %s; '
         't1 := %s; t2 := %s; t3 := %s |}') % tuple([q(Fraction(rot[i][j])) for i in range(3) for j in range(3)] +
                                                   [q(float(s)) for s in shift])
    # the moved bead is rebuilt inside Coq from exact rationals; its coordinates as doubles differ by rounding
    # from the exact image, which the 1e-9 band absorbs
    return 'CMotion %s %s %s %s' % (f, bead_lit(inp['bead'], inp['cw']), res_lit(out['before']), res_lit(out['after']))


def _nontrivial_bead(b):
    pos = [c for c in b['cons'] if c['pos'] is not None]
    if any(c['pos'] is None for c in b['cons']) and len(pos) >= 1:
        return True
    ws = {(b['mw'].get(c['key'], 1), c['cw']) for c in pos}
    return len(pos) >= 2 and len(ws) >= 2


def nontrivial(inp, out):
    beads = [b for m in inp['mols'] for b in m['beads']] if inp['kind'] == 'sys' else [inp['bead']]
    return str(inp) if any(_nontrivial_bead(b) for b in beads) else None


def describe(inp, out):
    if inp['kind'] == 'motion':
        return {'kind': 'motion', 'motion_result': out['before'][0], 'motion_map': inp['rot']}
    res = [r[0] for r in out['res']]
    beads = [b for m in inp['mols'] for b in m['beads']]
    return {'kind': 'sys', 'n_mols': len(inp['mols']), 'mixed_cw': len({m['cw'] for m in inp['mols']}) > 1,
            'has_nan': 'nan' in res, 'has_keyerror': 'keyerror' in res,
            'graphless_particles': sum(1 for b in beads if b.get('nograph')), 'stale_positions': any(b.get('prior') for b in beads),
            'missing_pos_with_unequal_w': any(_nontrivial_bead(b) and any(c['pos'] is None for c in b['cons']) for b in beads)}


def shrink(inp):
    if inp['kind'] != 'sys':
        return
    mols = inp['mols']
    for i in range(len(mols)):
        if len(mols) > 1:
            yield dict(inp, mols=mols[:i] + mols[i + 1:])
        m = mols[i]
        for j in range(len(m['beads'])):
            if len(m['beads']) > 1:
                yield dict(inp, mols=mols[:i] + [dict(m, beads=m['beads'][:j] + m['beads'][j + 1:])] + mols[i + 1:])
            b = m['beads'][j]
            for k in range(len(b['cons'])):
                nb = dict(b, cons=b['cons'][:k] + b['cons'][k + 1:])
                yield dict(inp, mols=mols[:i] + [dict(m, beads=m['beads'][:j] + [nb] + m['beads'][j + 1:])] + mols[i + 1:])
