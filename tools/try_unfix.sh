#!/bin/bash
# usage: tools/try_unfix.sh <commit> <PROPERTY> [tier] -- temporarily revert a fix: commit in the working tree, run the check, restore
c=$1; p=$2; t=${3:-quick}
git -C /repo diff --quiet || { echo "/repo not clean"; exit 9; }
git -C /repo show $c -- . ':!vermouth/tests' | git -C /repo apply -R || { echo "cannot revert"; exit 9; }
cd /verif && ./check $p --tier $t 2>&1 | grep -v conda | tail -4
git -C /repo checkout -- .
git -C /repo diff --quiet && echo "repo restored"
