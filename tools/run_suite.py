#!/venv/bin/python
"""Run /repo's pinned test suite (xdist) and compare with BASELINE.json stable_pass."""
import json, subprocess, sys, tempfile, os, xml.etree.ElementTree as ET
repo = sys.argv[1] if len(sys.argv) > 1 else '/repo'
base = json.load(open('/root/.vp/BASELINE.json'))
want = set(base['stable_pass'])
with tempfile.TemporaryDirectory() as d:
    x = os.path.join(d, 'j.xml')
    env = dict(os.environ); env.pop('VERMOUTH_VERIF', None); env['PYTHONPATH'] = repo; env['HYPOTHESIS_STORAGE_DIRECTORY'] = os.path.join(d, 'hyp')
    subprocess.run(['/venv/bin/python', '-m', 'pytest', '-q', '-p', 'no:cacheprovider', '--timeout=900',
                    '--continue-on-collection-errors', '-n', '14', '--junitxml=' + x], cwd=repo, env=env,
                   stdout=subprocess.DEVNULL, stderr=subprocess.DEVNULL)
    passed = set()
    for tc in ET.parse(x).getroot().iter('testcase'):
        if not any(ch.tag in ('failure', 'error', 'skipped') for ch in tc):
            passed.add('%s::%s' % (tc.get('classname'), tc.get('name')))
missing = sorted(want - passed)
print('baseline stable_pass=%d passed_now=%d missing=%d' % (len(want), len(passed), len(missing)))
for m in missing[:30]:
    print('  MISSING', m)
sys.exit(1 if missing else 0)
