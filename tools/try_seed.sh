#!/bin/bash
# usage: tools/try_seed.sh <seed-dir> <PROPERTY> [tier]   -- apply a seeded change to /repo, run the check, undo it
d=$1; p=$2; t=${3:-quick}
git -C /repo diff --quiet || { echo "/repo not clean"; exit 9; }
git -C /repo apply "$d/patch.diff" || { echo "patch does not apply"; exit 9; }
cd /verif && ./check $p --tier $t 2>&1 | grep -v conda | tail -4
rc=${PIPESTATUS[0]}
git -C /repo checkout -- .
git -C /repo diff --quiet && echo "repo restored"
exit 0
