#!/bin/bash
# quick pass of every check under several PRNG seeds (looks for checks that are flaky on the unchanged tree)
cd /verif
for seed in "$@"; do
  for p in $(python3 -c "import json; print(' '.join(c['property_id'] for c in json.load(open('MANIFEST.json'))['checks']))"); do
    out=$(VERIF_SEED=$seed ./check $p --tier quick 2>&1); rc=$?
    echo "seed=$seed $p rc=$rc $(echo "$out" | grep -v conda | grep -v '^KNOWN-FINDING' | tail -1)"
    echo "$out" | grep '^VIOLATION'
  done
done
