#!/bin/bash
# run every registered check of one tier on the current tree; one summary line per property
tier=${1:-quick}
cd /verif
rcall=0
for p in $(python3 -c "import json; print(' '.join(c['property_id'] for c in json.load(open('MANIFEST.json'))['checks']))"); do
  out=$(./check $p --tier $tier 2>&1); rc=$?
  echo "$p rc=$rc $(echo "$out" | grep -v conda | grep -v '^KNOWN-FINDING' | tail -1)"
  echo "$out" | grep '^VIOLATION'
  [ $rc -ne 0 ] && rcall=1
done
exit $rcall
