#!/bin/bash
# Re-run every seeded change kept under /verif/seeded against its property's quick check and record the outcome.
# usage: tools/confirm_seeds.sh [source-dir]   (source-dir: where patch.diff/demo.py/meta.json live; default /verif/seeded)
src=${1:-/verif/seeded}
for d in $(ls $src | grep -E "^C[0-9]{2}[a-z]$"); do
  p=${d:0:3}
  mkdir -p /verif/seeded/$d
  for f in patch.diff demo.py meta.json; do [ -f $src/$d/$f ] && [ "$src" != "/verif/seeded" ] && cp $src/$d/$f /verif/seeded/$d/$f; done
  git -C /repo diff --quiet || { echo "/repo not clean"; exit 9; }
  git -C /repo apply /verif/seeded/$d/patch.diff || { echo "$d: patch does not apply" > /verif/seeded/$d/result.txt; continue; }
  ( cd /verif && ./check $p --tier quick 2>&1 | grep -v conda | grep -v '^KNOWN-FINDING' | tail -3 ) > /verif/seeded/$d/result.txt
  git -C /repo checkout -- .
  echo "$d: $(grep -c '^VIOLATION' /verif/seeded/$d/result.txt) violation line(s): $(tail -1 /verif/seeded/$d/result.txt)"
done
