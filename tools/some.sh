#!/bin/bash
# usage: tools/some.sh <tier> C13 C14 ...   -- run the given checks, one summary line each
tier=$1; shift
cd /verif
for p in "$@"; do
  out=$(./check $p --tier $tier 2>&1); rc=$?
  echo "$p rc=$rc $(echo "$out" | grep -v conda | grep -v '^KNOWN-FINDING' | tail -1)"
  echo "$out" | grep '^VIOLATION'
done
