#!/venv/bin/python
import json, os, sys
HERE = os.path.dirname(os.path.dirname(os.path.abspath(__file__)))
sys.path.insert(0, HERE)
from vlib.manifest_data import CHECKS, NOT_APPLICABLE, PENDING_REASON, ALL
m = {
    'version': 1,
    'setup_cmd': './setup.sh',
    'hooks': {'guard': 'VERMOUTH_VERIF', 'enable': 'no hooks: checks drive the unmodified library in-process (PYTHONPATH=/repo) and the CLI in sub-processes',
              'baseline_off_cmd': 'cd /repo && /venv/bin/python -m pytest -ra -q -p no:cacheprovider --timeout=900 --continue-on-collection-errors',
              'source_commits': [], 'add_only': True},
    'engines': [{'name': 'coq-proof+correspondence', 'path': 'check', 'serves_properties': sorted(CHECKS),
                 'kind_free_text': 'Coq 8.16.1 theorems about Gallina models; tie = tables regenerated from source (vlib/extract.py) + in-Coq evaluation of model and proved checker on implementation outputs'}],
    'checks': [],
    'notes': 'See DESIGN.md. known_findings.json lists recorded defects; fix: commits in /repo are listed there as fixed entries.',
    'not_applicable': [],
}
for pid in ALL:
    if pid in CHECKS:
        c = CHECKS[pid]
        m['checks'].append({
            'property_id': pid,
            'quick_cmd': './check %s --tier quick' % pid,
            'thorough_cmd': './check %s --tier thorough' % pid,
            'evidence_file': 'evidence/%s.json' % pid,
            'replay_cmd_template': './check %s --replay {path}' % pid,
            'engine': 'coq-proof+correspondence',
            'level_claimed': {'category': c['category'], 'text': c['text'], 'design_ref': c['design_ref']},
            'level_note': c['note'],
            'technique': c['technique'],
        })
    else:
        m['not_applicable'].append({'property_id': pid, 'reason': NOT_APPLICABLE.get(pid, PENDING_REASON)})
json.dump(m, open(os.path.join(HERE, 'MANIFEST.json'), 'w'), indent=1)
from vlib.common import validate_json
err = validate_json(m, '/root/.vp/MANIFEST.schema.json')
print('MANIFEST', 'INVALID: ' + err if err else 'ok:', len(m['checks']), 'checks')
