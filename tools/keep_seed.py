#!/usr/bin/env python3
"""usage: tools/keep_seed.py <seed-dir> <PROPERTY> [tier]
apply a seeded change to /repo, run the check, undo the change, and keep the seed under /verif/seeded/<name>/ with the
outcome of the check recorded in meta.json (checked_with, check_result)"""
import json, os, shutil, subprocess, sys
d, prop = os.path.abspath(sys.argv[1]), sys.argv[2]
tier = sys.argv[3] if len(sys.argv) > 3 else 'quick'
name = os.path.basename(d)
if subprocess.run(['git', '-C', '/repo', 'diff', '--quiet']).returncode:
    sys.exit('/repo not clean')
subprocess.run(['git', '-C', '/repo', 'apply', os.path.join(d, 'patch.diff')], check=True)
try:
    r = subprocess.run(['./check', prop, '--tier', tier], cwd='/verif', capture_output=True, text=True)
finally:
    subprocess.run(['git', '-C', '/repo', 'checkout', '--', '.'], check=True)
lines = [l for l in r.stdout.splitlines() if l.startswith('VIOLATION') or l.startswith(prop + ' ')]
print('\n'.join(lines), 'rc=%d' % r.returncode)
dst = os.path.join('/verif/seeded', name)
os.makedirs(dst, exist_ok=True)
for f in ('patch.diff', 'demo.py', 'meta.json'):
    if os.path.exists(os.path.join(d, f)) and os.path.abspath(d) != os.path.abspath(dst):
        shutil.copy(os.path.join(d, f), dst)
mp = os.path.join(dst, 'meta.json')
meta = json.load(open(mp)) if os.path.exists(mp) else {}
meta['checked_with'] = '%s %s' % (prop, tier)
meta['check_result'] = lines
meta['check_exit'] = r.returncode
json.dump(meta, open(mp, 'w'), indent=1)
