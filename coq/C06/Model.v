(* C06 — specification of sub-graph matching (vermouth/ismags.py) and an exhaustive reference enumeration.
   Graphs carry node colours and edge colours: a transitive node / edge equality is the same thing as a colouring with
   compatible colour numbers in both graphs.  A mapping is an association list (pattern node, graph node). *)
From Coq Require Import List Bool ZArith Lia.
From V Require Import C01.Model.
Import ListNotations.
Open Scope Z_scope.

Record graph := { g_nodes : list (Z * Z);            (* key, colour *)
                  g_edges : list (Z * Z * Z) }.      (* end, end, colour *)

Definition keys (g : graph) : list Z := map fst (g_nodes g).
Definition ncol (g : graph) (k : Z) : option Z :=
  match find (fun n => Z.eqb (fst n) k) (g_nodes g) with Some n => Some (snd n) | None => None end.
Definition ecol (g : graph) (u v : Z) : option Z :=
  match find (fun e => (Z.eqb (fst (fst e)) u && Z.eqb (snd (fst e)) v) || (Z.eqb (fst (fst e)) v && Z.eqb (snd (fst e)) u)) (g_edges g) with
  | Some e => Some (snd e) | None => None end.

Definition oz_eqb (a b : option Z) : bool := match a, b with Some x, Some y => Z.eqb x y | None, None => true | _, _ => false end.
Fixpoint nodupb (l : list Z) : bool := match l with [] => true | x :: r => negb (zmem x r) && nodupb r end.

Definition mapping := list (Z * Z).
Definition mget (f : mapping) (u : Z) : option Z := match find (fun p => Z.eqb (fst p) u) f with Some p => Some (snd p) | None => None end.

(* a common induced sub-graph: injective, colour preserving, and an edge of colour c between two mapped pattern nodes
   exactly when there is one of colour c between their images *)
Definition is_common (P G : graph) (f : mapping) : bool :=
  nodupb (map fst f) && nodupb (map snd f)
  && forallb (fun p => match ncol P (fst p), ncol G (snd p) with Some a, Some b => Z.eqb a b | _, _ => false end) f
  && forallb (fun pq => Z.eqb (fst (fst pq)) (fst (snd pq)) || oz_eqb (ecol P (fst (fst pq)) (fst (snd pq))) (ecol G (snd (fst pq)) (snd (snd pq))))
             (list_prod f f).

(* ... that covers the whole pattern *)
Definition is_iso (P G : graph) (f : mapping) : bool := is_common P G f && forallb (fun k => zmem k (map fst f)) (keys P).

(* ---------- exhaustive enumeration (reference) ---------- *)
Definition colour_candidates (P G : graph) (u : Z) : list Z :=
  map fst (filter (fun n => oz_eqb (ncol P u) (Some (snd n))) (g_nodes G)).

(* all common sub-graphs whose domain is exactly D, listed in the order of D *)
Definition isos_on (P G : graph) (D : list Z) : list mapping :=
  filter (is_common P G) (map (combine D) (inj_cands (map (colour_candidates P G) D) [])).

Definition all_isos (P G : graph) : list mapping := isos_on P G (keys P).

Fixpoint sublists (l : list Z) : list (list Z) :=
  match l with [] => [[]] | x :: r => map (cons x) (sublists r) ++ sublists r end.

(* the largest size for which some set of pattern nodes has a common sub-graph *)
Definition has_common (P G : graph) (n : nat) : bool :=
  existsb (fun D => if Nat.eqb (List.length D) n then match isos_on P G D with [] => false | _ => true end else false) (sublists (keys P)).
Fixpoint max_common (P G : graph) (n : nat) : nat :=
  match n with O => O | S k => if has_common P G (S k) then S k else max_common P G k end.
Definition lcs_size (P G : graph) : nat := max_common P G (List.length (keys P)).
Definition all_of_size (P G : graph) (n : nat) : list mapping :=
  flat_map (fun D => if Nat.eqb (List.length D) n then isos_on P G D else []) (sublists (keys P)).
Definition all_lcs (P G : graph) : list mapping := all_of_size P G (lcs_size P G).

(* ---------- symmetry ---------- *)
Definition autos (P : graph) : list mapping := all_isos P P.

(* f after a, on the pattern nodes a sends into the domain of f *)
Definition compose (f a : mapping) : mapping :=
  flat_map (fun p => match mget f (snd p) with Some x => [(fst p, x)] | None => [] end) a.

Definition map_eqb (f g : mapping) : bool :=
  Nat.eqb (List.length f) (List.length g) && forallb (fun p => oz_eqb (mget g (fst p)) (Some (snd p))) f.

Definition equivb_in (A : list mapping) (f g : mapping) : bool := existsb (fun a => map_eqb (compose f a) g) A.
Definition equivb (P : graph) (f g : mapping) : bool := equivb_in (autos P) f g.

(* ---------- judging an output ---------- *)
Definition canonical (P : graph) (f : mapping) : bool :=
  existsb (fun D => if Nat.eqb (List.length D) (List.length f) then forallb (fun x => Z.eqb (fst x) (snd x)) (combine D (map fst f)) else false)
          (sublists (keys P)).

Fixpoint count {A} (p : A -> bool) (l : list A) : nat := match l with [] => O | x :: r => (if p x then 1 else 0)%nat + count p r end.

Definition check_full (P G : graph) (out : list mapping) : bool :=
  forallb (fun f => is_iso P G f) out
  && forallb (fun g => Nat.eqb (count (map_eqb g) out) 1) (all_isos P G)
  && Nat.eqb (List.length out) (List.length (all_isos P G)).

Definition check_sym (P G : graph) (out : list mapping) : bool :=
  let A := autos P in
  forallb (fun f => is_iso P G f) out
  && forallb (fun g => Nat.eqb (count (equivb_in A g) out) 1) (all_isos P G).

Definition check_lcs (P G : graph) (sym : bool) (out : list mapping) : bool :=
  let n := lcs_size P G in
  let A := autos P in
  forallb (fun f => is_common P G f && Nat.eqb (List.length f) n && negb (Nat.eqb (List.length f) 0)) out
  && (Nat.eqb n 0
      || forallb (fun g => existsb (fun h => if sym then equivb_in A g h else map_eqb g h) out) (all_of_size P G n)).
