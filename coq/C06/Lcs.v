(* C06 — the shrinking search ISMAGS._largest_common_subgraph (ismags.py l.568-635) without symmetry constraints:
   level after level all node sets of one size are searched with the backtracking core; the first size that yields
   anything is the answer.  Proved: everything returned is a common induced sub-graph, nothing larger exists, and every
   common induced sub-graph of that size is returned. *)
From Coq Require Import List Bool ZArith Lia.
From V Require Import C01.Model C01.Proofs C06.Model C06.Proofs C06.Search C06.SearchProofs.
Import ListNotations.
Open Scope Z_scope.

Section Lcs.
Variables (P G : graph).
Variable choose : list Z -> list (Z * list Z) -> Z.
Hypothesis choose_in : forall left cand, left <> [] -> In (choose left cand) left.

(* the backtracking core restricted to the node set D (to_be_mapped = D), colour candidates, no constraints *)
Definition search_on (D : list Z) : list mapping :=
  match D with
  | [] => [[]]
  | _ :: _ => map_nodes P G [] choose (S (List.length D)) (choose D (initial_candidates P G)) (initial_candidates P G) [] D
  end.

Lemma cand_of_initial' u : In u (keys P) -> cand_of (initial_candidates P G) u = colour_candidates P G u.
Proof.
  unfold initial_candidates, initial_from, cand_of. induction (keys P) as [|k r IH]; [intros []|]. cbn.
  destruct (Z.eqb_spec k u) as [->|Hne]; [reflexivity|]. intros [E|H]; [contradiction|apply IH; exact H].
Qed.

Lemma inv_initial_on D : incl D (keys P) -> inv P G [] D (colour_candidates P G) [] (initial_candidates P G).
Proof.
  intros HD. constructor.
  - constructor; try constructor; intros; try contradiction. intros a b x y [].
  - intros k [].
  - intros u Hu x. apply in_unmapped in Hu as [Hu _]. rewrite cand_of_initial' by (apply HD; exact Hu).
    split; [intros H; split; [exact H|intros s g []]|tauto].
Qed.

Lemma search_on_sound D f : NoDup D -> incl D (keys P) -> In f (search_on D) ->
  good P G [] f /\ (forall u, In u D <-> In u (map fst f)).
Proof.
  intros Hnd HD. unfold search_on. destruct D as [|d r] eqn:E.
  - intros [<-|[]]. split; [|intros u; split; intros []]. constructor; try constructor; intros; try contradiction. intros a b x y [].
  - rewrite <- E in *. intros H.
    assert (Hs : In (choose D (initial_candidates P G)) (unmapped D [])).
    { apply in_unmapped. split; [|intros []]. apply choose_in. rewrite E. discriminate. }
    destruct (map_nodes_sound P G [] choose D choose_in (fun a b (H0 : In (a, b) []) => match H0 with end) (colour_candidates P G) (fun _ _ H0 => H0) _ _ _ _ f (inv_initial_on D HD) Hs H) as (H1 & _ & H3). auto.
Qed.

Lemma search_on_complete D f : NoDup D -> incl D (keys P) ->
  good P G [] f -> (forall u, In u D <-> In u (map fst f)) ->
  exists f', In f' (search_on D) /\ (forall p, In p f <-> In p f').
Proof.
  intros Hnd HD Hg Hd. unfold search_on. destruct D as [|d r] eqn:E.
  - exists []. split; [left; reflexivity|]. intros [u x]. split; [|intros []]. intros Hp.
    assert (X : In u (map fst f)) by (apply in_map_iff; exists (u, x); auto). apply Hd in X. destruct X.
  - rewrite <- E in *.
    apply (map_nodes_complete P G [] choose D choose_in Hnd (fun a b (H0 : In (a, b) []) => match H0 with end) (colour_candidates P G) (fun _ _ H0 => H0)); auto.
    + apply inv_initial_on. exact HD.
    + apply in_unmapped. split; [|intros []]. apply choose_in. rewrite E. discriminate.
    + unfold unmapped. cbn. clear. induction D; cbn; lia.
    + intros p [].
    + intros u x Hin. exact (g_col _ _ _ _ Hg u x Hin).
Qed.

(* ---------- the levels ---------- *)
Fixpoint remove1 (x : Z) (l : list Z) : list Z := match l with [] => [] | y :: r => if Z.eqb x y then r else y :: remove1 x r end.
Definition same_set (a b : list Z) : bool := forallb (fun x => zmem x b) a && forallb (fun x => zmem x a) b.
Fixpoint dedup_sets (l : list (list Z)) : list (list Z) :=
  match l with [] => [] | D :: r => if existsb (same_set D) r then dedup_sets r else D :: dedup_sets r end.
Definition next_level (sets : list (list Z)) : list (list Z) := dedup_sets (flat_map (fun D => map (fun x => remove1 x D) D) sets).

Fixpoint lcs (fuel : nat) (sets : list (list Z)) : list mapping :=
  match fuel with
  | O => []
  | S f =>
      match sets with
      | [] => []
      | D0 :: _ =>
          let size := List.length D0 in
          let found := if Nat.leb size (List.length (keys G)) then flat_map search_on sets else [] in
          match found with
          | _ :: _ => found
          | [] => if Nat.eqb size 1 then [] else lcs f (next_level sets)
          end
      end
  end.

Definition largest_common_subgraph : list mapping :=
  match keys P, keys G with
  | [], _ => [[]]
  | _ :: _, [] => []
  | K, _ => lcs (S (List.length K)) [K]
  end.

Hypothesis P_nodup : NoDup (keys P).
Hypothesis G_nodup : NoDup (keys G).

Definition eqset (a b : list Z) : Prop := forall x, In x a <-> In x b.

Lemma same_set_spec a b : same_set a b = true <-> eqset a b.
Proof.
  unfold same_set, eqset. rewrite andb_true_iff, !forallb_forall. split.
  - intros [H1 H2] x. split; intros H; apply zmem_in; [apply H1|apply H2]; exact H.
  - intros H. split; intros x Hx; apply zmem_in; apply H; exact Hx.
Qed.

Lemma dedup_sets_in l D : In D (dedup_sets l) -> In D l.
Proof. induction l as [|E r IH]; cbn; [tauto|]. destruct (existsb (same_set E) r); [intros H; right; auto|intros [<-|H]; [left; reflexivity|right; auto]]. Qed.

Lemma dedup_sets_covers l : forall D, In D l -> exists D', In D' (dedup_sets l) /\ eqset D D'.
Proof.
  induction l as [|E r IH]; intros D; [intros []|]. intros [<-|H]; cbn.
  - destruct (existsb (same_set E) r) eqn:Ex.
    + apply existsb_exists in Ex as (E' & HE' & Hs). apply same_set_spec in Hs. destruct (IH E' HE') as (D' & HD' & Heq).
      exists D'. split; [exact HD'|]. intros x. rewrite (Hs x). apply Heq.
    + exists E. split; [left; reflexivity|intros x; tauto].
  - destruct (IH D H) as (D' & HD' & Heq). exists D'. split; [|exact Heq]. destruct (existsb (same_set E) r); [exact HD'|right; exact HD'].
Qed.

Lemma remove1_spec x l : NoDup l -> forall y, In y (remove1 x l) <-> In y l /\ y <> x.
Proof.
  induction l as [|a r IH]; intros Hnd y; cbn; [tauto|]. inversion Hnd as [|? ? Ha Hr]; subst.
  destruct (Z.eqb_spec x a) as [->|Hne].
  - split; [intros H; split; [right; exact H|intros ->; contradiction]|intros [[<-|H] Hn]; [contradiction|exact H]].
  - cbn. rewrite (IH Hr). split; [intros [<-|[H1 H2]]; [split; [left; reflexivity|congruence]|split; [right; exact H1|exact H2]]|].
    intros [[<-|H] Hn]; [left; reflexivity|right; split; assumption].
Qed.

Lemma remove1_nodup x l : NoDup l -> NoDup (remove1 x l).
Proof.
  induction l as [|a r IH]; intros Hnd; cbn; [constructor|]. inversion Hnd as [|? ? Ha Hr]; subst.
  destruct (Z.eqb x a); [exact Hr|]. constructor; [|apply IH; exact Hr]. intros H. apply (remove1_spec x r Hr) in H. tauto.
Qed.

Lemma remove1_length x l : In x l -> S (List.length (remove1 x l)) = List.length l.
Proof.
  induction l as [|a r IH]; [intros []|]. cbn. destruct (Z.eqb_spec x a) as [->|Hne]; [reflexivity|]. intros [E|H]; [congruence|]. cbn. rewrite IH by exact H. reflexivity.
Qed.

(* a level: node sets of one size inside the pattern, covering every such set *)
Record level (sets : list (list Z)) (s : nat) : Prop := {
  lv_ok : forall D, In D sets -> NoDup D /\ incl D (keys P) /\ List.length D = s;
  lv_all : forall D', NoDup D' -> incl D' (keys P) -> List.length D' = s -> exists D, In D sets /\ eqset D' D }.

Lemma level_start : level [keys P] (List.length (keys P)).
Proof.
  constructor.
  - intros D [<-|[]]. split; [exact P_nodup|]. split; [intros x Hx; exact Hx|reflexivity].
  - intros D' Hnd Hinc Hlen. exists (keys P). split; [left; reflexivity|]. intros x. split; [apply Hinc|].
    apply (NoDup_length_incl Hnd); [lia|exact Hinc].
Qed.

Lemma level_next sets s : (S s <= List.length (keys P))%nat -> level sets (S s) -> level (next_level sets) s.
Proof.
  intros Hs [Hok Hall]. constructor.
  - intros D HD. unfold next_level in HD. apply dedup_sets_in in HD. apply in_flat_map in HD as (D0 & HD0 & HD).
    apply in_map_iff in HD as (x & <- & Hx). destruct (Hok D0 HD0) as (Hnd & Hinc & Hlen). split; [apply remove1_nodup; exact Hnd|]. split.
    + intros y Hy. apply (remove1_spec x D0 Hnd) in Hy. apply Hinc. tauto.
    + pose proof (remove1_length x D0 Hx). lia.
  - intros D' Hnd Hinc Hlen.
    (* some node of the pattern is outside D' *)
    assert (Hx : exists x, In x (keys P) /\ ~ In x D').
    { destruct (forallb (fun k => zmem k D') (keys P)) eqn:E.
      - exfalso. rewrite forallb_forall in E. assert (Hk : incl (keys P) D') by (intros k Hk; apply zmem_in; apply E; exact Hk).
        pose proof (NoDup_incl_length P_nodup Hk). lia.
      - assert (X : exists k, In k (keys P) /\ zmem k D' = false).
        { clear -E. induction (keys P) as [|k r IH]; [discriminate|]. cbn in E. destruct (zmem k D') eqn:Ek; [destruct (IH E) as (k' & H1 & H2); exists k'; split; [right; exact H1|exact H2]|exists k; split; [left; reflexivity|exact Ek]]. }
        destruct X as (k & Hk & Hz). exists k. split; [exact Hk|]. intros H. apply zmem_in in H. congruence. }
    destruct Hx as (x & HxK & HxD).
    destruct (Hall (x :: D')) as (D0 & HD0 & Heq).
    { constructor; assumption. } { intros y [<-|Hy]; [exact HxK|apply Hinc; exact Hy]. } { cbn. lia. }
    destruct (Hok D0 HD0) as (Hnd0 & _ & _).
    assert (Hx0 : In x D0) by (apply Heq; left; reflexivity).
    destruct (dedup_sets_covers (flat_map (fun D => map (fun x => remove1 x D) D) sets) (remove1 x D0)) as (D1 & HD1 & Heq1).
    { apply in_flat_map. exists D0. split; [exact HD0|]. apply (in_map (fun x0 => remove1 x0 D0)). exact Hx0. }
    exists D1. split; [exact HD1|]. intros y. rewrite <- (Heq1 y). rewrite (remove1_spec x D0 Hnd0). rewrite <- (Heq y). cbn. split.
    + intros Hy. split; [right; exact Hy|intros ->; contradiction].
    + intros [[<-|Hy] Hn]; [contradiction|exact Hy].
Qed.

Lemma eqset_length a b : NoDup a -> NoDup b -> eqset a b -> List.length a = List.length b.
Proof.
  intros Ha Hb H. apply Nat.le_antisymm; apply NoDup_incl_length; try assumption; intros x Hx; apply H; exact Hx.
Qed.

Lemma good_size_le_graph f : good P G [] f -> (List.length f <= List.length (keys G))%nat.
Proof.
  intros Hg. rewrite <- (map_length snd f). apply NoDup_incl_length; [exact (g_img _ _ _ _ Hg)|].
  intros x Hx. apply in_map_iff in Hx as ([u y] & <- & Hin). pose proof (g_col _ _ _ _ Hg u y Hin) as Hc.
  unfold colour_candidates in Hc. apply in_map_iff in Hc as (n & <- & Hn). apply filter_In in Hn as [Hn _]. cbn [snd]. unfold keys. apply (in_map fst). exact Hn.
Qed.

Definition none_bigger (s : nat) : Prop := forall f, good P G [] f -> incl (map fst f) (keys P) -> (List.length f <= s)%nat.

Lemma firstn_sub (l : list Z) n : NoDup l -> (n <= List.length l)%nat -> NoDup (firstn n l) /\ incl (firstn n l) l /\ List.length (firstn n l) = n.
Proof.
  intros Hnd Hn. split; [|split].
  - clear Hn. revert n. induction l as [|a r IH]; intros n; [destruct n; constructor|]. destruct n as [|n]; [constructor|]. cbn.
    inversion Hnd as [|? ? Ha Hr]; subst. constructor; [|apply IH; exact Hr]. intros H. apply Ha. clear -H. revert n H. induction r as [|b r IHr]; intros n H; [destruct n; destruct H|]. destruct n; [destruct H|]. cbn in H. destruct H as [<-|H]; [left; reflexivity|right; eapply IHr; eauto].
  - intros x Hx. rewrite <- (firstn_skipn n l). apply in_or_app. left. exact Hx.
  - apply firstn_length_le. exact Hn.
Qed.

Theorem lcs_spec fuel : forall sets s,
  level sets s -> (1 <= s <= List.length (keys P))%nat -> (s < fuel)%nat -> none_bigger s ->
  let R := lcs fuel sets in
  (* everything returned is a common induced sub-graph inside the pattern, all of one size *)
  (forall f, In f R -> good P G [] f /\ incl (map fst f) (keys P)) /\
  (* that size is the largest possible, and every common sub-graph of that size is returned *)
  (R <> [] -> exists s', (forall f, In f R -> List.length f = s') /\ none_bigger s' /\
       forall f', good P G [] f' -> incl (map fst f') (keys P) -> List.length f' = s' -> exists f, In f R /\ (forall p, In p f' <-> In p f)) /\
  (* nothing is returned only if the graphs have no node in common *)
  (R = [] -> none_bigger 0).
Proof.
  induction fuel as [|fuel IH]; intros sets s Hlv Hs Hfuel Hnb; [lia|]. cbn zeta. cbn [lcs].
  destruct sets as [|D0 rest] eqn:Esets.
  - exfalso. destruct (firstn_sub (keys P) s P_nodup (proj2 Hs)) as (H1 & H2 & H3). destruct (lv_all _ _ Hlv _ H1 H2 H3) as (D & [] & _).
  - rewrite <- Esets in *. assert (Hl0 : List.length D0 = s) by (apply (lv_ok _ _ Hlv D0); rewrite Esets; left; reflexivity). rewrite Hl0.
    (* facts about one level *)
    assert (Hsound : forall f, In f (flat_map search_on sets) -> good P G [] f /\ incl (map fst f) (keys P) /\ List.length f = s).
    { intros f Hf. apply in_flat_map in Hf as (D & HD & Hf). destruct (lv_ok _ _ Hlv D HD) as (Hnd & Hinc & Hlen).
      destruct (search_on_sound D f Hnd Hinc Hf) as [Hg Hd]. split; [exact Hg|]. split.
      - intros u Hu. apply Hinc. apply Hd. exact Hu.
      - rewrite <- (map_length fst f), <- Hlen. symmetry. apply eqset_length; [exact Hnd|exact (g_dom _ _ _ _ Hg)|exact Hd]. }
    assert (Hcompl : forall f', good P G [] f' -> incl (map fst f') (keys P) -> List.length f' = s ->
                     exists f, In f (flat_map search_on sets) /\ (forall p, In p f' <-> In p f)).
    { intros f' Hg Hinc Hlen. destruct (lv_all _ _ Hlv (map fst f') (g_dom _ _ _ _ Hg) Hinc) as (D & HD & Heq); [rewrite map_length; exact Hlen|].
      destruct (lv_ok _ _ Hlv D HD) as (Hnd & HincD & _).
      destruct (search_on_complete D f' Hnd HincD Hg) as (f & Hf & Hp); [intros u; symmetry; apply Heq|].
      exists f. split; [apply in_flat_map; exists D; auto|exact Hp]. }
    destruct (Nat.leb_spec s (List.length (keys G))) as [Hle|Hgt].
    + destruct (flat_map search_on sets) as [|f0 fr] eqn:Ef.
      * (* nothing of this size *)
        assert (Hnb' : none_bigger (s - 1)).
        { intros f Hg Hinc. specialize (Hnb f Hg Hinc). destruct (Nat.eq_dec (List.length f) s) as [E|]; [|lia].
          destruct (Hcompl f Hg Hinc E) as (? & [] & _). }
        destruct (Nat.eqb_spec s 1) as [->|Hne].
        -- split; [intros f []|]. split; [intros H; contradiction|]. intros _. exact Hnb'.
        -- apply (IH (next_level sets) (s - 1)%nat); [|lia|lia|exact Hnb'].
           apply level_next; [lia|]. replace (S (s - 1)) with s by lia. exact Hlv.
      * rewrite <- Ef in *. split; [intros f Hf; destruct (Hsound f Hf) as (H1 & H2 & _); auto|]. split.
        -- intros _. exists s. split; [intros f Hf; apply (Hsound f Hf)|]. split; [exact Hnb|exact Hcompl].
        -- intros H. rewrite Ef in H. discriminate.
    + (* more nodes than the graph has: nothing of this size can exist *)
      assert (Hnb' : none_bigger (s - 1)).
      { intros f Hg Hinc. pose proof (good_size_le_graph f Hg). lia. }
      destruct (Nat.eqb_spec s 1) as [->|Hne].
      * split; [intros f []|]. split; [intros H; contradiction|]. intros _. exact Hnb'.
      * apply (IH (next_level sets) (s - 1)%nat); [|lia|lia|exact Hnb'].
        apply level_next; [lia|]. replace (S (s - 1)) with s by lia. exact Hlv.
Qed.

(* the whole search, started from the full pattern *)
Theorem largest_common_subgraph_spec :
  keys P <> [] -> keys G <> [] ->
  let R := largest_common_subgraph in
  (forall f, In f R -> good P G [] f /\ incl (map fst f) (keys P)) /\
  (R <> [] -> exists s', (forall f, In f R -> List.length f = s') /\ none_bigger s' /\
       forall f', good P G [] f' -> incl (map fst f') (keys P) -> List.length f' = s' -> exists f, In f R /\ (forall p, In p f' <-> In p f)) /\
  (R = [] -> none_bigger 0).
Proof.
  intros HP HG. unfold largest_common_subgraph. destruct (keys P) as [|k0 kr] eqn:EK; [contradiction|]. destruct (keys G) as [|g0 gr] eqn:EG; [contradiction|].
  rewrite <- EK in *. rewrite <- EG in *.
  apply (lcs_spec (S (List.length (keys P))) [keys P] (List.length (keys P))).
  - apply level_start.
  - rewrite EK. cbn. lia.
  - lia.
  - intros f Hg Hinc. rewrite <- (map_length fst f). apply NoDup_incl_length; [exact (g_dom _ _ _ _ Hg)|exact Hinc].
Qed.
End Lcs.
