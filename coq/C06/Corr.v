(* C06 — case type and the two boolean functions evaluated on generated cases. *)
From Coq Require Import List Bool ZArith.
From V Require Import C01.Model C06.Model C06.LookAhead C06.Search C06.Lcs C06.LexCheck.
Import ListNotations.
Open Scope Z_scope.

Inductive case :=
| CIso (P G : graph) (sym : bool) (cs : list (Z * Z)) (base : option (list Z)) (impl : list mapping)     (* find_isomorphisms; cons: the constraints the implementation derived *)
| CLcs (P G : graph) (sym : bool) (impl : list mapping)                           (* largest_common_subgraph *)
| CSession (steps : list case).                                                   (* runs sharing one symmetry cache *)

Definition sets_equal (a b : list mapping) : bool :=
  Nat.eqb (List.length a) (List.length b)
  && forallb (fun f => existsb (map_eqb f) b) a && forallb (fun f => existsb (map_eqb f) a) b.

Definition asym (cs : list (Z * Z)) : bool :=
  forallb (fun c => negb (existsb (fun d => Z.eqb (fst d) (snd c) && Z.eqb (snd d) (fst c)) cs)) cs.

Fixpoint corr (k : case) : bool :=
  match k with
  | CSession steps => forallb corr steps
  | CIso P G sym cs base impl =>
      asym cs && sets_equal (find_isomorphisms_la P G cs (fun l _ => hd 0 l)) impl
      (* certificate for the lex-leader theorem: the automorphisms form a group and the constraints are those of a
         stabiliser chain over the proposed base (then exactly one member of every class satisfies them) *)
      && match base with
         | Some b => let A := autos P in groupb (keys P) A && chainb (keys P) A cs b
         | None => true
         end
  | CLcs P G sym impl =>
      forallb (is_common P G) impl
      (* without symmetry the shrinking search is modelled: same set of mappings *)
      && (if sym then true else sets_equal (largest_common_subgraph P G (fun l _ => hd 0 l)) impl)
  end.

Fixpoint prop (k : case) : bool :=
  match k with
  | CSession steps => forallb prop steps
  | CIso P G sym _ _ impl => if sym then check_sym P G impl else check_full P G impl
  | CLcs P G sym impl => check_lcs P G sym impl
  end.
