From Coq Require Import List Bool ZArith Lia.
From V Require Import C01.Model C01.Proofs C06.Model C06.Proofs C06.LookAhead C06.Search.
Import ListNotations.
Open Scope Z_scope.

Lemma ecol_sym g u v : ecol g u v = ecol g v u.
Proof.
  unfold ecol. replace (find (fun e => (Z.eqb (fst (fst e)) v && Z.eqb (snd (fst e)) u) || (Z.eqb (fst (fst e)) u && Z.eqb (snd (fst e)) v)) (g_edges g))
    with (find (fun e => (Z.eqb (fst (fst e)) u && Z.eqb (snd (fst e)) v) || (Z.eqb (fst (fst e)) v && Z.eqb (snd (fst e)) u)) (g_edges g)); [reflexivity|].
  induction (g_edges g) as [|e r IH]; cbn; [reflexivity|]. rewrite IH. rewrite (orb_comm (_ && _) (_ && _)). reflexivity.
Qed.

Section SearchProofs.
Variables (P G : graph) (cons : list (Z * Z)).
Variable choose : list Z -> list (Z * list Z) -> Z.
Variable tbm : list Z.
Hypothesis choose_in : forall left cand, left <> [] -> In (choose left cand) left.
Hypothesis tbm_nodup : NoDup tbm.
Hypothesis cons_asym : forall a b, In (a, b) cons -> ~ In (b, a) cons.
(* the candidates the search starts from: any subset of the colour-compatible nodes (colour classes alone, or colour
   classes thinned out by the look-ahead filter) *)
Variable base : Z -> list Z.
Hypothesis base_col : forall u x, In x (base u) -> In x (colour_candidates P G u).

Notation compat := (compat P G cons).
Notation has_c := (has_c cons).

Lemma has_c_spec a b : has_c a b = true <-> In (a, b) cons.
Proof.
  unfold Search.has_c. rewrite existsb_exists. split.
  - intros ([x y] & Hin & H). cbn in H. apply andb_true_iff in H as [E1 E2]. apply Z.eqb_eq in E1, E2. subst. exact Hin.
  - intros H. exists (a, b). split; [exact H|]. cbn. rewrite !Z.eqb_refl. reflexivity.
Qed.

Definition cons_sat (f : mapping) : Prop := forall a b x y, In (a, b) cons -> In (a, x) f -> In (b, y) f -> x < y.

(* a (partial) solution: injective both ways, colour-compatible, edges and non-edges preserved, constraints respected *)
Record good (f : mapping) : Prop := {
  g_dom : NoDup (map fst f);
  g_img : NoDup (map snd f);
  g_col : forall u x, In (u, x) f -> In x (colour_candidates P G u);
  g_edge : forall s g u x, In (s, g) f -> In (u, x) f -> s <> u -> ecol P s u = ecol G g x;
  g_cons : cons_sat f }.

Definition unmapped (mp : mapping) : list Z := filter (fun n => negb (zmem n (map fst mp))) tbm.

Record inv (mp : mapping) (cand : list (Z * list Z)) : Prop := {
  i_good : good mp;
  i_sub : incl (map fst mp) tbm;
  i_cand : forall u, In u (unmapped mp) -> forall x,
     In x (cand_of cand u) <-> (In x (base u) /\ forall s g, In (s, g) mp -> compat s g u x = true) }.

Lemma in_unmapped mp u : In u (unmapped mp) <-> In u tbm /\ ~ In u (map fst mp).
Proof.
  unfold unmapped. rewrite filter_In, negb_true_iff. split; intros [H1 H2]; split; try assumption.
  - intros Hin. apply zmem_in in Hin. congruence.
  - destruct (zmem u (map fst mp)) eqn:E; [|reflexivity]. apply zmem_in in E. contradiction.
Qed.

Lemma compat_spec s g u x : compat s g u x = true <->
  ecol P s u = ecol G g x /\ (if has_c s u then g < x else if has_c u s then x < g else True).
Proof.
  unfold Search.compat. rewrite andb_true_iff, oz_eqb_spec. destruct (has_c s u); [rewrite Z.ltb_lt; tauto|].
  destruct (has_c u s); [rewrite Z.ltb_lt; tauto|tauto].
Qed.

Lemma cand_of_map (g : Z * list Z -> Z * list Z) (h : Z -> list Z -> list Z) cand u :
  (forall sc, g sc = (fst sc, h (fst sc) (snd sc))) ->
  cand_of (map g cand) u = match find (fun c => Z.eqb (fst c) u) cand with Some c => h u (snd c) | None => [] end.
Proof.
  intros Hg. unfold cand_of. induction cand as [|[k l] r IH]; cbn; [reflexivity|]. rewrite Hg. cbn.
  destruct (Z.eqb_spec k u) as [->|]; [reflexivity|exact IH].
Qed.

(* one step keeps the invariant *)
Lemma step_inv mp cand sgn gn :
  inv mp cand -> In sgn (unmapped mp) -> In gn (cand_of cand sgn) -> ~ In gn (map snd mp) ->
  let mp' := (sgn, gn) :: mp in
  let left := unmapped mp' in
  inv mp' (map (fun sc => if zmem (fst sc) left then (fst sc, filter (compat sgn gn (fst sc)) (snd sc)) else sc) cand).
Proof.
  intros [Hg Hs Hc] Hsgn Hgn Himg mp' left. pose proof (proj1 (in_unmapped mp sgn) Hsgn) as [Ht Hnd].
  pose proof (proj1 (Hc sgn Hsgn gn) Hgn) as [Hcol Hcomp]. destruct Hg as [D I C E S].
  constructor.
  - constructor.
    + cbn. constructor; assumption.
    + cbn. constructor; assumption.
    + intros u x [[= <- <-]|Hin]; [apply base_col; exact Hcol|apply C; exact Hin].
    + intros s g u x [[= <- <-]|H1] [[= <- <-]|H2] Hne.
      * contradiction.
      * specialize (Hcomp u x H2). apply compat_spec in Hcomp as [Hcomp _]. rewrite ecol_sym, (ecol_sym G). exact Hcomp.
      * specialize (Hcomp s g H1). apply compat_spec in Hcomp as [Hcomp _]. exact Hcomp.
      * apply E; assumption.
    + intros a b x y Hab [[= <- <-]|H1] [[= <- <-]|H2].
      * exfalso. exact (cons_asym _ _ Hab Hab).
      * specialize (Hcomp b y H2). apply compat_spec in Hcomp as [_ Hcomp].
        assert (X : has_c b sgn = false). { destruct (has_c b sgn) eqn:X; [|reflexivity]. apply has_c_spec in X. exfalso. exact (cons_asym _ _ Hab X). }
        rewrite X in Hcomp. apply has_c_spec in Hab. rewrite Hab in Hcomp. exact Hcomp.
      * specialize (Hcomp a x H1). apply compat_spec in Hcomp as [_ Hcomp]. apply has_c_spec in Hab. rewrite Hab in Hcomp. exact Hcomp.
      * eapply S; eauto.
  - intros k [<-|Hk]; [exact Ht|apply Hs; exact Hk].
  - intros u Hu x. pose proof (proj1 (in_unmapped mp' u) Hu) as [Hut Hund].
    assert (Hu0 : In u (unmapped mp)). { apply in_unmapped. split; [exact Hut|]. intros H. apply Hund. right. exact H. }
    rewrite (cand_of_map _ (fun k l => if zmem k left then filter (compat sgn gn k) l else l)).
    2:{ intros [k l]. cbn. destruct (zmem k left); reflexivity. }
    assert (Hzl : zmem u left = true) by (apply zmem_in; exact Hu). rewrite Hzl.
    specialize (Hc u Hu0 x). unfold cand_of in Hc. destruct (find (fun c => Z.eqb (fst c) u) cand) as [c|].
    + rewrite filter_In, Hc. split.
      * intros [[H1 H2] H3]. split; [exact H1|]. intros s g [[= <- <-]|Hin]; [exact H3|apply H2; exact Hin].
      * intros [H1 H2]. split; [split; [exact H1|]|]; [intros s g Hin; apply H2; right; exact Hin|apply H2; left; reflexivity].
    + split; [intros []|]. intros [H1 H2]. apply Hc. split; [exact H1|]. intros s g Hin. apply H2. right. exact Hin.
Qed.

Lemma unmapped_step mp sgn gn : In sgn (unmapped mp) -> (List.length (unmapped ((sgn, gn) :: mp)) < List.length (unmapped mp))%nat.
Proof.
  intros H. apply in_unmapped in H as [Ht Hn]. unfold unmapped. cbn [map fst].
  assert (G0 : forall l, NoDup l -> In sgn l ->
            (List.length (filter (fun n => negb (zmem n (sgn :: map fst mp))) l) < List.length (filter (fun n => negb (zmem n (map fst mp))) l))%nat).
  { induction l as [|a r IH]; intros Hnd Hin; [destruct Hin|]. inversion Hnd as [|? ? Ha Hr]; subst. cbn [filter].
    assert (Hle : forall l', (List.length (filter (fun n => negb (zmem n (sgn :: map fst mp))) l') <= List.length (filter (fun n => negb (zmem n (map fst mp))) l'))%nat).
    { induction l' as [|b l' IHl]; cbn [filter]; [lia|]. unfold zmem at 1. cbn [existsb]. fold (zmem b (map fst mp)).
      destruct (Z.eqb b sgn); cbn [orb negb]; destruct (zmem b (map fst mp)); cbn [negb List.length]; lia. }
    destruct Hin as [->|Hin].
    - unfold zmem at 1. cbn [existsb]. rewrite Z.eqb_refl. cbn [orb negb].
      assert (X : zmem sgn (map fst mp) = false) by (destruct (zmem sgn (map fst mp)) eqn:X; [apply zmem_in in X; contradiction|reflexivity]).
      rewrite X. cbn [negb List.length]. specialize (Hle r). lia.
    - specialize (IH Hr Hin). unfold zmem at 1. cbn [existsb]. fold (zmem a (map fst mp)).
      destruct (Z.eqb a sgn); cbn [orb negb]; destruct (zmem a (map fst mp)); cbn [negb List.length]; lia. }
  apply G0; assumption.
Qed.

(* ---------- soundness: whatever the heuristic, every result is a solution extending the partial mapping ---------- *)
Lemma map_nodes_sound fuel : forall sgn cand mp f,
  inv mp cand -> In sgn (unmapped mp) -> In f (map_nodes P G cons choose fuel sgn cand mp tbm) ->
  good f /\ incl mp f /\ (forall u, In u tbm <-> In u (map fst f)).
Proof.
  induction fuel as [|fuel IH]; intros sgn cand mp f Hinv Hsgn Hf; cbn [map_nodes] in Hf; [destruct Hf|].
  apply in_flat_map in Hf as (gn & Hgn & Hf).
  destruct (zmem gn (map snd mp)) eqn:Ez; [destruct Hf|]. cbn [orb] in Hf. destruct (zmem sgn tbm) eqn:Et; [|destruct Hf]. cbn [negb] in Hf.
  assert (Himg : ~ In gn (map snd mp)) by (intros H; apply zmem_in in H; congruence).
  pose proof (step_inv mp cand sgn gn Hinv Hsgn Hgn Himg) as Hinv'. cbv zeta in Hinv'. fold (unmapped ((sgn, gn) :: mp)) in Hf.
  destruct (unmapped ((sgn, gn) :: mp)) as [|a left] eqn:El.
  - destruct Hf as [<-|[]]. split; [exact (i_good _ _ Hinv')|]. split; [intros p Hp; right; exact Hp|].
    intros u. split.
    + intros Hu. destruct (in_dec Z.eq_dec u (map fst ((sgn, gn) :: mp))) as [|Hn]; [assumption|].
      assert (X : In u (unmapped ((sgn, gn) :: mp))) by (apply in_unmapped; auto). rewrite El in X. destruct X.
    + intros Hu. exact (i_sub _ _ Hinv' u Hu).
  - assert (Hnext : In (choose (a :: left) (map (fun sc => if zmem (fst sc) (a :: left) then (fst sc, filter (compat sgn gn (fst sc)) (snd sc)) else sc) cand)) (unmapped ((sgn, gn) :: mp))).
    { rewrite El. apply choose_in. discriminate. }
    destruct (IH _ _ _ f Hinv' Hnext Hf) as (H1 & H2 & H3). split; [exact H1|]. split; [|exact H3].
    intros p Hp. apply H2. right. exact Hp.
Qed.

(* ---------- completeness: whatever the heuristic, every solution extending the partial mapping is found ---------- *)
Lemma good_fun f u x y : good f -> In (u, x) f -> In (u, y) f -> x = y.
Proof.
  intros [D _ _ _ _] H1 H2. clear -D H1 H2. induction f as [|[k v] r IH]; [destruct H1|]. cbn in D. inversion D as [|? ? Hk Hr]; subst.
  destruct H1 as [E1|H1], H2 as [E2|H2].
  - congruence.
  - exfalso. apply Hk. injection E1 as -> ->. apply in_map_iff. exists (u, y). auto.
  - exfalso. apply Hk. injection E2 as -> ->. apply in_map_iff. exists (u, x). auto.
  - apply IH; assumption.
Qed.

Lemma good_inj f u v x : good f -> In (u, x) f -> In (v, x) f -> u = v.
Proof.
  intros [_ I _ _ _] H1 H2. clear -I H1 H2. induction f as [|[k w] r IH]; [destruct H1|]. cbn in I. inversion I as [|? ? Hk Hr]; subst.
  destruct H1 as [E1|H1], H2 as [E2|H2].
  - congruence.
  - exfalso. apply Hk. injection E1 as -> ->. apply in_map_iff. exists (v, x). auto.
  - exfalso. apply Hk. injection E2 as -> ->. apply in_map_iff. exists (u, x). auto.
  - apply IH; assumption.
Qed.

Lemma map_nodes_complete fuel : forall sgn cand mp f,
  inv mp cand -> In sgn (unmapped mp) -> (List.length (unmapped mp) <= fuel)%nat ->
  good f -> incl mp f -> (forall u, In u tbm <-> In u (map fst f)) ->
  (forall u x, In (u, x) f -> In x (base u)) ->
  exists f', In f' (map_nodes P G cons choose fuel sgn cand mp tbm) /\ (forall p, In p f <-> In p f').
Proof.
  induction fuel as [|fuel IH]; intros sgn cand mp f Hinv Hsgn Hfuel Hgood Hsub Hdom Hbase.
  - destruct (unmapped mp); [destruct Hsgn|cbn in Hfuel; lia].
  - pose proof (proj1 (in_unmapped mp sgn) Hsgn) as [Ht Hnd].
    assert (Hex : exists gn, In (sgn, gn) f).
    { apply Hdom in Ht. apply in_map_iff in Ht as ([k v] & E & Hin). cbn in E. subst. eauto. }
    destruct Hex as [gn Hgn].
    assert (Hcand : In gn (cand_of cand sgn)).
    { apply (i_cand _ _ Hinv sgn Hsgn). split; [exact (Hbase _ _ Hgn)|]. intros s g Hsg.
      assert (Hne : s <> sgn). { intros ->. apply Hnd. apply in_map_iff. exists (sgn, g). auto. }
      apply compat_spec. split; [exact (g_edge _ Hgood _ _ _ _ (Hsub _ Hsg) Hgn Hne)|].
      destruct (has_c s sgn) eqn:E1; [apply has_c_spec in E1; exact (g_cons _ Hgood _ _ _ _ E1 (Hsub _ Hsg) Hgn)|].
      destruct (has_c sgn s) eqn:E2; [apply has_c_spec in E2; exact (g_cons _ Hgood _ _ _ _ E2 Hgn (Hsub _ Hsg))|exact I]. }
    assert (Himg : ~ In gn (map snd mp)).
    { intros H. apply in_map_iff in H as ([s g] & E & Hin). cbn in E. subst g.
      assert (s = sgn) by (eapply good_inj; eauto). subst. apply Hnd. apply in_map_iff. exists (sgn, gn). auto. }
    pose proof (step_inv mp cand sgn gn Hinv Hsgn Hcand Himg) as Hinv'. cbv zeta in Hinv'.
    assert (Hsub' : incl ((sgn, gn) :: mp) f) by (intros p [<-|Hp]; [exact Hgn|apply Hsub; exact Hp]).
    cbn [map_nodes].
    assert (Ez : zmem gn (map snd mp) = false) by (destruct (zmem gn (map snd mp)) eqn:E; [apply zmem_in in E; contradiction|reflexivity]).
    assert (Et : zmem sgn tbm = true) by (apply zmem_in; exact Ht).
    destruct (unmapped ((sgn, gn) :: mp)) as [|a left] eqn:El.
    + exists ((sgn, gn) :: mp). split.
      * apply in_flat_map. exists gn. split; [exact Hcand|]. rewrite Ez, Et. cbn [orb negb]. fold (unmapped ((sgn, gn) :: mp)). rewrite El. left. reflexivity.
      * intros [u x]. split; [|apply Hsub'].
        intros Hp. assert (Hu : In u (map fst ((sgn, gn) :: mp))).
        { destruct (in_dec Z.eq_dec u (map fst ((sgn, gn) :: mp))) as [|Hn]; [assumption|].
          assert (X : In u (unmapped ((sgn, gn) :: mp))). { apply in_unmapped. split; [|exact Hn]. apply Hdom. apply in_map_iff. exists (u, x). auto. }
          rewrite El in X. destruct X. }
        apply in_map_iff in Hu as ([k v] & E & Hin). cbn in E. subst k.
        assert (v = x) by (eapply good_fun; [exact Hgood|apply Hsub'; exact Hin|exact Hp]). subst. exact Hin.
    + set (cand' := map (fun sc => if zmem (fst sc) (a :: left) then (fst sc, filter (compat sgn gn (fst sc)) (snd sc)) else sc) cand) in *.
      assert (Hnext : In (choose (a :: left) cand') (unmapped ((sgn, gn) :: mp))) by (rewrite El; apply choose_in; discriminate).
      pose proof (unmapped_step mp sgn gn Hsgn) as Hlt.
      destruct (IH (choose (a :: left) cand') cand' ((sgn, gn) :: mp) f) as (f' & Hf' & Heq); try assumption; [lia|].
      exists f'. split; [|exact Heq]. apply in_flat_map. exists gn. split; [exact Hcand|]. rewrite Ez, Et. cbn [orb negb].
      fold (unmapped ((sgn, gn) :: mp)). rewrite El. exact Hf'.
Qed.
End SearchProofs.

(* ---------- find_isomorphisms: for every heuristic and every asymmetric set of constraints, exactly the
   isomorphisms that respect the constraints ---------- *)
Section Top.
Variables (P G : graph) (cons : list (Z * Z)).
Variable choose : list Z -> list (Z * list Z) -> Z.
Hypothesis choose_in : forall left cand, left <> [] -> In (choose left cand) left.
Hypothesis P_nodup : NoDup (keys P).
Hypothesis cons_asym : forall a b, In (a, b) cons -> ~ In (b, a) cons.
Variable base : Z -> list Z.
Hypothesis base_col : forall u x, In x (base u) -> In x (colour_candidates P G u).

Lemma cand_of_initial u : In u (keys P) -> cand_of (initial_from P base) u = base u.
Proof.
  unfold initial_from, cand_of. clear P_nodup. induction (keys P) as [|k r IH]; [intros []|]. cbn.
  destruct (Z.eqb_spec k u) as [->|Hne]; [reflexivity|]. intros [E|H]; [contradiction|apply IH; exact H].
Qed.

Lemma inv_initial : inv P G cons (keys P) base [] (initial_from P base).
Proof.
  constructor.
  - constructor; try constructor; intros; try contradiction. intros a b x y _ [].
  - intros k [].
  - intros u Hu x. apply in_unmapped in Hu as [Hu _]. rewrite cand_of_initial by exact Hu. split; [intros H; split; [exact H|intros s g []]|tauto].
Qed.

Theorem find_from_sound f :
  In f (find_isomorphisms_from P G cons choose base) ->
  good P G cons f /\ (forall u, In u (keys P) <-> In u (map fst f)).
Proof.
  unfold find_isomorphisms_from. destruct (keys P) as [|k r] eqn:E.
  - intros [<-|[]]. split; [|intros u; split; intros []]. constructor; try constructor; intros; try contradiction. intros a b x y _ [].
  - intros H. rewrite <- E in *.
    assert (Hs : In (choose (keys P) (initial_from P base)) (unmapped (keys P) [])).
    { apply in_unmapped. split; [|intros []]. apply choose_in. rewrite E. discriminate. }
    destruct (map_nodes_sound P G cons choose (keys P) choose_in cons_asym base base_col _ _ _ _ f inv_initial Hs H) as (H1 & _ & H3). auto.
Qed.

Theorem find_from_complete f :
  good P G cons f -> (forall u, In u (keys P) <-> In u (map fst f)) -> (forall u x, In (u, x) f -> In x (base u)) ->
  exists f', In f' (find_isomorphisms_from P G cons choose base) /\ (forall p, In p f <-> In p f').
Proof.
  intros Hg Hd Hb. unfold find_isomorphisms_from. destruct (keys P) as [|k r] eqn:E.
  - exists []. split; [left; reflexivity|]. intros p. split; [|intros []]. intros Hp. destruct p as [u x].
    assert (X : In u (map fst f)) by (apply in_map_iff; exists (u, x); auto). apply Hd in X. destruct X.
  - rewrite <- E in *.
    apply (map_nodes_complete P G cons choose (keys P) choose_in P_nodup cons_asym base base_col); auto.
    + apply inv_initial.
    + apply in_unmapped. split; [|intros []]. apply choose_in. rewrite E. discriminate.
    + unfold unmapped. cbn. clear. induction (keys P); cbn; lia.
    + intros p [].
Qed.
End Top.

(* colour classes as starting candidates *)
Theorem find_isomorphisms_sound P G cons choose f :
  (forall left cand, left <> [] -> In (choose left cand) left) -> NoDup (keys P) ->
  (forall a b, In (a, b) cons -> ~ In (b, a) cons) ->
  In f (find_isomorphisms P G cons choose) ->
  good P G cons f /\ (forall u, In u (keys P) <-> In u (map fst f)).
Proof. intros H1 H2 H3. apply find_from_sound; auto. Qed.

Theorem find_isomorphisms_complete P G cons choose f :
  (forall left cand, left <> [] -> In (choose left cand) left) -> NoDup (keys P) ->
  (forall a b, In (a, b) cons -> ~ In (b, a) cons) ->
  good P G cons f -> (forall u, In u (keys P) <-> In u (map fst f)) ->
  exists f', In f' (find_isomorphisms P G cons choose) /\ (forall p, In p f <-> In p f').
Proof. intros H1 H2 H3 Hg Hd. apply find_from_complete; auto. intros u x Hin. exact (g_col _ _ _ _ Hg u x Hin). Qed.

(* without constraints "good" is "is_common" (graph keys distinct) *)
Lemma colour_candidates_spec P G u x : NoDup (keys G) ->
  (In x (colour_candidates P G u) <-> exists c, ncol P u = Some c /\ ncol G x = Some c).
Proof.
  intros Hnd. unfold colour_candidates. rewrite in_map_iff. split.
  - intros ([k c] & <- & H). apply filter_In in H as [Hin Hc]. cbn in *. apply oz_eqb_spec in Hc. exists c. split; [exact Hc|].
    unfold ncol, keys in *. clear Hc. induction (g_nodes G) as [|[k' c'] r IH]; [destruct Hin|]. cbn in *. inversion Hnd as [|? ? Hk Hr]; subst.
    destruct Hin as [[= -> ->]|Hin]; [rewrite Z.eqb_refl; reflexivity|].
    destruct (Z.eqb_spec k' k) as [->|]; [exfalso; apply Hk; apply in_map_iff; exists (k, c); auto|apply IH; assumption].
  - intros (c & E1 & E2). exists (x, c). split; [reflexivity|]. apply filter_In. split; [apply ncol_in; exact E2|]. cbn. rewrite E1. cbn. apply Z.eqb_refl.
Qed.

Lemma good_is_common P G f : NoDup (keys G) -> (good P G [] f <-> is_common P G f = true).
Proof.
  intros Hnd. rewrite is_common_spec. split.
  - intros [D I C E _]. repeat split; try assumption. intros u x Hin. apply colour_candidates_spec; [exact Hnd|]. apply C. exact Hin.
  - intros (D & I & C & E). constructor; try assumption.
    + intros u x Hin. apply colour_candidates_spec; [exact Hnd|]. apply C. exact Hin.
    + intros a b x y [].
Qed.

(* ---------- with the look-ahead filter ---------- *)
Lemma good_drop P G cons f : good P G cons f -> good P G [] f.
Proof. intros [D I C E _]. constructor; try assumption. intros a b x y []. Qed.

Lemma la_base_col P G u x : In x (la_base P G u) -> In x (colour_candidates P G u).
Proof. unfold la_base. destruct (lookahead_candidates P G u); [tauto|]. intros H. apply filter_In in H. tauto. Qed.

Theorem find_isomorphisms_la_sound P G cons choose f :
  (forall left cand, left <> [] -> In (choose left cand) left) -> NoDup (keys P) ->
  (forall a b, In (a, b) cons -> ~ In (b, a) cons) ->
  In f (find_isomorphisms_la P G cons choose) ->
  good P G cons f /\ (forall u, In u (keys P) <-> In u (map fst f)).
Proof. intros H1 H2 H3. apply find_from_sound; auto. apply la_base_col. Qed.

(* the filter loses nothing: every isomorphism respecting the constraints is still found *)
Theorem find_isomorphisms_la_complete P G cons choose f :
  (forall left cand, left <> [] -> In (choose left cand) left) -> NoDup (keys P) -> NoDup (keys G) ->
  (forall u v, ecol P u v <> None -> u <> v) ->
  (forall a b, In (a, b) cons -> ~ In (b, a) cons) ->
  good P G cons f -> (forall u, In u (keys P) <-> In u (map fst f)) ->
  exists f', In f' (find_isomorphisms_la P G cons choose) /\ (forall p, In p f <-> In p f').
Proof.
  intros H1 HP HG Hloop H3 Hg Hd. apply find_from_complete; auto; [apply la_base_col|].
  assert (Hiso : is_iso P G f = true).
  { unfold is_iso. apply andb_true_iff. split; [apply good_is_common; [exact HG|eapply good_drop; exact Hg]|].
    apply forallb_forall. intros k Hk. apply zmem_in. apply Hd. exact Hk. }
  intros u x Hin. pose proof (lookahead_never_removes_a_solution P G f u x HP HG Hloop Hiso Hin) as Hla.
  pose proof (g_col _ _ _ _ Hg u x Hin) as Hcol.
  assert (HxG : In x (keys G)).
  { unfold colour_candidates in Hcol. apply in_map_iff in Hcol as (n & <- & Hn). apply filter_In in Hn as [Hn _]. unfold keys. apply (in_map fst). exact Hn. }
  assert (Hin_la : In x (lookahead_candidates P G u)) by (unfold lookahead_candidates; apply filter_In; auto).
  unfold la_base. destruct (lookahead_candidates P G u) as [|l0 lr] eqn:El; [destruct Hin_la|].
  apply filter_In. split; [exact Hcol|]. apply zmem_in. exact Hin_la.
Qed.
