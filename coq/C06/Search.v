(* C06 — model of the backtracking core ISMAGS._map_nodes (ismags.py l.405-478), parametric in the heuristic that
   picks the next pattern node (`choose`; the code takes the node with the smallest candidate set, ties broken by set
   iteration order) and in the set of ordering constraints.  Candidate sets are kept as their intersection (the code
   keeps the family of sets and intersects on use; the family only matters for the heuristic). *)
From Coq Require Import List Bool ZArith Lia.
From V Require Import C01.Model C06.Model C06.LookAhead.
Import ListNotations.
Open Scope Z_scope.

Section Search.
Variables (P G : graph) (cons : list (Z * Z)).
Variable choose : list Z -> list (Z * list Z) -> Z.

Definition has_c (a b : Z) : bool := existsb (fun c => Z.eqb (fst c) a && Z.eqb (snd c) b) cons.

(* may pattern node u go to x, given that s went to g?  (l.447-461: neighbours must be joined by an edge of the same
   colour, non-neighbours by none; an ordering constraint between s and u orders the images) *)
Definition compat (s g u x : Z) : bool :=
  oz_eqb (ecol P s u) (ecol G g x)
  && (if has_c s u then Z.ltb g x else if has_c u s then Z.ltb x g else true).

Definition cand_of (cand : list (Z * list Z)) (u : Z) : list Z :=
  match find (fun c => Z.eqb (fst c) u) cand with Some c => snd c | None => [] end.

Fixpoint map_nodes (fuel : nat) (sgn : Z) (cand : list (Z * list Z)) (mp : mapping) (tbm : list Z) : list mapping :=
  match fuel with
  | O => []
  | S fuel' =>
      flat_map (fun gn =>
        if zmem gn (map snd mp) || negb (zmem sgn tbm) then [] else
        let mp' := (sgn, gn) :: mp in
        let left := filter (fun n => negb (zmem n (map fst mp'))) tbm in
        match left with
        | [] => [mp']
        | _ :: _ =>
            let cand' := map (fun sc => if zmem (fst sc) left then (fst sc, filter (compat sgn gn (fst sc)) (snd sc)) else sc) cand in
            map_nodes fuel' (choose left cand') cand' mp' tbm
        end) (cand_of cand sgn)
  end.

(* find_isomorphisms (l.480-526), started from any family of candidate sets *)
Definition initial_from (base : Z -> list Z) : list (Z * list Z) := map (fun u => (u, base u)) (keys P).

Definition find_isomorphisms_from (base : Z -> list Z) : list mapping :=
  match keys P with
  | [] => [[]]
  | _ :: _ => map_nodes (S (List.length (keys P))) (choose (keys P) (initial_from base)) (initial_from base) [] (keys P)
  end.

(* colour classes only *)
Definition initial_candidates : list (Z * list Z) := initial_from (colour_candidates P G).
Definition find_isomorphisms : list mapping := find_isomorphisms_from (colour_candidates P G).

(* colour classes intersected with the look-ahead candidates (an empty look-ahead set is not intersected, l.511-513) *)
Definition la_base (u : Z) : list Z :=
  match lookahead_candidates P G u with
  | [] => colour_candidates P G u
  | la => filter (fun x => zmem x la) (colour_candidates P G u)
  end.
Definition find_isomorphisms_la : list mapping := find_isomorphisms_from la_base.
End Search.
