(* C06 — connecting the abstract lex-leader theorem with the matcher: boolean checks (evaluated per pattern on the
   constraints the implementation derived) whose truth implies the hypotheses of LexLeader, hence: for every
   isomorphism f exactly one automorphism a makes f o a satisfy the constraints. *)
From Coq Require Import List Bool ZArith Lia.
From V Require Import C01.Model C01.Proofs C06.Model C06.Proofs C06.LexLeader.
Import ListNotations.
Open Scope Z_scope.

Definition app_map (a : mapping) (x : Z) : Z := match mget a x with Some y => y | None => x end.

Section Check.
Variable Vs : list Z.            (* pattern nodes *)
Variable As : list mapping.      (* automorphisms as association lists *)

Definition perm_okb (a : mapping) : bool := forallb (fun x => zmem (app_map a x) Vs) Vs && nodupb (map (app_map a) Vs).
Definition groupb : bool :=
  nodupb Vs
  && forallb perm_okb As
  && existsb (fun e => forallb (fun x => Z.eqb (app_map e x) x) Vs) As
  && forallb (fun a => forallb (fun b => existsb (fun c => forallb (fun x => Z.eqb (app_map c x) (app_map a (app_map b x))) Vs) As) As) As
  && forallb (fun a => existsb (fun c => forallb (fun x => Z.eqb (app_map c (app_map a x)) x && Z.eqb (app_map a (app_map c x)) x) Vs) As) As.

Definition Af : list (Z -> Z) := map app_map As.

Lemma nodup_map_inj (f : Z -> Z) l : NoDup (map f l) -> forall x y, In x l -> In y l -> f x = f y -> x = y.
Proof.
  induction l as [|a r IH]; [intros _ ? ? []|]. cbn. intros H. inversion H as [|? ? Ha Hr]; subst. intros x y [<-|Hx] [<-|Hy] E; try reflexivity.
  - exfalso. apply Ha. rewrite E. apply in_map. exact Hy.
  - exfalso. apply Ha. rewrite <- E. apply in_map. exact Hx.
  - apply IH; assumption.
Qed.

Lemma groupb_sound : groupb = true ->
  (forall a, In a Af -> perm_on Vs a) /\
  (exists e, In e Af /\ forall x, In x Vs -> e x = x) /\
  (forall a b, In a Af -> In b Af -> exists c, In c Af /\ forall x, In x Vs -> c x = a (b x)) /\
  (forall a, In a Af -> exists c, In c Af /\ forall x, In x Vs -> c (a x) = x /\ a (c x) = x).
Proof.
  unfold groupb. rewrite !andb_true_iff. intros [[[[Hnd Hp] Hid] Hc] Hi]. unfold Af. split; [|split; [|split]].
  - intros a Ha. apply in_map_iff in Ha as (a0 & <- & Ha0). rewrite forallb_forall in Hp. specialize (Hp a0 Ha0).
    unfold perm_okb in Hp. apply andb_true_iff in Hp as [H1 H2]. rewrite forallb_forall in H1. apply nodupb_spec in H2. split.
    + intros x Hx. apply zmem_in. apply H1. exact Hx.
    + apply nodup_map_inj. exact H2.
  - apply existsb_exists in Hid as (e & He & H). exists (app_map e). split; [apply in_map; exact He|].
    intros x Hx. rewrite forallb_forall in H. apply Z.eqb_eq. apply H. exact Hx.
  - intros a b Ha Hb. apply in_map_iff in Ha as (a0 & <- & Ha0). apply in_map_iff in Hb as (b0 & <- & Hb0).
    rewrite forallb_forall in Hc. specialize (Hc a0 Ha0). rewrite forallb_forall in Hc. specialize (Hc b0 Hb0).
    apply existsb_exists in Hc as (c & Hcin & H). exists (app_map c). split; [apply in_map; exact Hcin|].
    intros x Hx. rewrite forallb_forall in H. apply Z.eqb_eq. apply H. exact Hx.
  - intros a Ha. apply in_map_iff in Ha as (a0 & <- & Ha0). rewrite forallb_forall in Hi. specialize (Hi a0 Ha0).
    apply existsb_exists in Hi as (c & Hcin & H). exists (app_map c). split; [apply in_map; exact Hcin|].
    intros x Hx. rewrite forallb_forall in H. specialize (H x Hx). apply andb_true_iff in H as [H1 H2]. split; apply Z.eqb_eq; assumption.
Qed.

(* the constraints a base induces *)
Definition cons_of_base (base : list Z) : list (Z * Z) :=
  flat_map (fun lv => map (pair (snd lv)) (filter (fun t => negb (Z.eqb t (snd lv))) (orbit Af (fst lv) (snd lv)))) (levels [] base).

Definition pair_mem (p : Z * Z) (l : list (Z * Z)) : bool := existsb (fun q => Z.eqb (fst p) (fst q) && Z.eqb (snd p) (snd q)) l.
Definition chainb (cons : list (Z * Z)) (base : list Z) : bool :=
  forallb (fun b => zmem b Vs) base
  && forallb (fun p => pair_mem p (cons_of_base base)) cons && forallb (fun p => pair_mem p cons) (cons_of_base base)
  && forallb (fun a => negb (forallb (fun b => Z.eqb (app_map a b) b) base) || forallb (fun x => Z.eqb (app_map a x) x) Vs) As.

Lemma pair_mem_spec p l : pair_mem p l = true <-> In p l.
Proof.
  unfold pair_mem. rewrite existsb_exists. destruct p as [a b]. split.
  - intros ([c d] & Hin & H). cbn in H. apply andb_true_iff in H as [E1 E2]. apply Z.eqb_eq in E1, E2. subst. exact Hin.
  - intros H. exists (a, b). split; [exact H|]. cbn. rewrite !Z.eqb_refl. reflexivity.
Qed.

Definition cons_sat_fn (cons : list (Z * Z)) (h : Z -> Z) : Prop := forall b t, In (b, t) cons -> h b < h t.

Lemma sat_iff_cons m a base : sat Af m a base <-> cons_sat_fn (cons_of_base base) (fun x => m (a x)).
Proof.
  unfold sat, cons_sat_fn, cons_of_base, level_ok. split.
  - intros H b t Hin. apply in_flat_map in Hin as ([pre b'] & Hl & Hin). cbn in Hin. apply in_map_iff in Hin as (t' & [= <- <-] & Ht).
    apply filter_In in Ht as [Ht Hne]. apply negb_true_iff, Z.eqb_neq in Hne. apply (H pre b' Hl t' Ht Hne).
  - intros H pre b Hl t Ht Hne. apply H. apply in_flat_map. exists (pre, b). split; [exact Hl|]. cbn. apply in_map. apply filter_In.
    split; [exact Ht|]. apply negb_true_iff, Z.eqb_neq. exact Hne.
Qed.

(* Exactly one member of every symmetry class satisfies the constraints. *)
Theorem one_representative_per_class cons base :
  groupb = true -> chainb cons base = true ->
  forall m, (forall x y, In x Vs -> In y Vs -> m x = m y -> x = y) ->
  (exists a, In a Af /\ cons_sat_fn cons (fun x => m (a x))) /\
  (forall a a', In a Af -> In a' Af -> cons_sat_fn cons (fun x => m (a x)) -> cons_sat_fn cons (fun x => m (a' x)) ->
     forall x, In x Vs -> a x = a' x).
Proof.
  intros Hg Hc m Hm. destruct (groupb_sound Hg) as (G1 & G2 & G3 & G4).
  unfold chainb in Hc. rewrite !andb_true_iff in Hc. destruct Hc as [[[Hb H1] H2] H3].
  assert (Hbase : incl base Vs). { intros b Hb'. rewrite forallb_forall in Hb. apply zmem_in. apply Hb. exact Hb'. }
  assert (Heq : forall h, cons_sat_fn cons h <-> cons_sat_fn (cons_of_base base) h).
  { intros h. unfold cons_sat_fn. rewrite forallb_forall in H1, H2. split; intros H b t Hin.
    - apply H. apply pair_mem_spec. apply H2. exact Hin.
    - apply H. apply pair_mem_spec. apply H1. exact Hin. }
  split.
  - destruct (representative_exists Vs Af G1 G2 G3 m Hm base Hbase) as (a & Ha & Hs). exists a. split; [exact Ha|].
    apply Heq. apply sat_iff_cons. exact Hs.
  - intros a a' Ha Ha' S S'. apply (representative_unique Vs Af G1 G3 G4 m base a a' Hbase); try assumption.
    + intros g Hgin Hfix x Hx. unfold Af in Hgin. apply in_map_iff in Hgin as (g0 & <- & Hg0). rewrite forallb_forall in H3. specialize (H3 g0 Hg0).
      apply orb_true_iff in H3 as [H3|H3].
      * apply negb_true_iff in H3. assert (X : forallb (fun b => Z.eqb (app_map g0 b) b) base = true).
        { apply forallb_forall. intros b Hb'. apply Z.eqb_eq. apply Hfix. exact Hb'. } congruence.
      * rewrite forallb_forall in H3. apply Z.eqb_eq. apply H3. exact Hx.
    + apply sat_iff_cons. apply Heq. exact S.
    + apply sat_iff_cons. apply Heq. exact S'.
Qed.
End Check.
