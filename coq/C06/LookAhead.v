(* C06 — the look-ahead filter of find_isomorphisms (ismags.py l.326-356, 508-514) never removes a solution:
   if an isomorphism sends pattern node s to graph node g, then for every (edge colour, node colour) the pattern has at
   most as many such neighbours around s as the graph has around g. *)
From Coq Require Import List Bool ZArith Lia.
From V Require Import C01.Model C01.Proofs C06.Model C06.Proofs.
Import ListNotations.
Open Scope Z_scope.

Definition nbr_cols (g : graph) (k ec nc : Z) : list Z :=
  filter (fun u => oz_eqb (ecol g k u) (Some ec) && oz_eqb (ncol g u) (Some nc)) (keys g).

(* the (edge colour, node colour) pairs seen around s in the pattern *)
Definition around (P : graph) (s : Z) : list (Z * Z) :=
  flat_map (fun u => match ecol P s u, ncol P u with Some ec, Some nc => [(ec, nc)] | _, _ => [] end) (keys P).

Definition lookahead_ok (P G : graph) (s g : Z) : bool :=
  forallb (fun en => Nat.leb (List.length (nbr_cols P s (fst en) (snd en))) (List.length (nbr_cols G g (fst en) (snd en)))) (around P s).

Definition lookahead_candidates (P G : graph) (s : Z) : list Z := filter (lookahead_ok P G s) (keys G).

Lemma ncol_some_in g x c : ncol g x = Some c -> In x (keys g).
Proof. intros H. apply ncol_in in H. unfold keys. apply (in_map fst) in H. exact H. Qed.

Theorem lookahead_never_removes_a_solution P G f s g :
  NoDup (keys P) -> NoDup (keys G) -> (forall u v, ecol P u v <> None -> u <> v) ->
  is_iso P G f = true -> In (s, g) f -> lookahead_ok P G s g = true.
Proof.
  intros HP HG Hloop Hiso Hsg. unfold is_iso in Hiso. apply andb_true_iff in Hiso as [Hc Htot].
  apply is_common_spec in Hc as (Hd & Hi & Hcol & Hedge). rewrite forallb_forall in Htot.
  unfold lookahead_ok. apply forallb_forall. intros [ec nc] _. cbn [fst snd]. apply Nat.leb_le.
  (* the image of every counted pattern neighbour is a counted graph neighbour, and f is injective *)
  set (L := nbr_cols P s ec nc).
  assert (Himg : forall u, In u L -> exists x, In (u, x) f /\ In x (nbr_cols G g ec nc)).
  { intros u Hu. unfold L, nbr_cols in Hu. apply filter_In in Hu as [HuK Hu]. apply andb_true_iff in Hu as [He Hn].
    apply oz_eqb_spec in He, Hn. assert (Hdom : In u (map fst f)) by (apply zmem_in; apply Htot; exact HuK).
    apply in_map_iff in Hdom as ([u' x] & E & Hin). cbn in E. subst u'. exists x. split; [exact Hin|].
    unfold nbr_cols. apply filter_In. destruct (Hcol u x Hin) as (c & C1 & C2). split; [eapply ncol_some_in; eauto|].
    assert (Hne : s <> u) by (apply Hloop; rewrite He; discriminate).
    rewrite <- (Hedge s g u x Hsg Hin Hne), He. rewrite C2. rewrite Hn in C1. injection C1 as <-. cbn. rewrite !Z.eqb_refl. reflexivity. }
  assert (HLnd : NoDup L) by (unfold L, nbr_cols; apply NoDup_filter; exact HP).
  set (h := fun u => match mget f u with Some x => x | None => u end).
  assert (Hh : forall u x, In (u, x) f -> h u = x).
  { intros u x Hin. unfold h, mget. destruct (find (fun p => Z.eqb (fst p) u) f) as [[u' x']|] eqn:E.
    - apply find_some in E as [Hin' E]. cbn in E. apply Z.eqb_eq in E. subst u'. cbn.
      clear -Hd Hin Hin'. induction f as [|[a b] r IH]; [destruct Hin|]. cbn in Hd. inversion Hd as [|? ? Ha Hr]; subst.
      destruct Hin as [E1|H1], Hin' as [E2|H2].
      + congruence.
      + exfalso. injection E1 as -> ->. apply Ha. apply in_map_iff. exists (u, x'). auto.
      + exfalso. injection E2 as -> ->. apply Ha. apply in_map_iff. exists (u, x). auto.
      + apply IH; assumption.
    - exfalso. apply (find_none _ _ E) in Hin. cbn in Hin. rewrite Z.eqb_refl in Hin. discriminate. }
  assert (Hinj : forall u v, In u L -> In v L -> h u = h v -> u = v).
  { intros u v Hu Hv E. destruct (Himg u Hu) as (x & Hx & _). destruct (Himg v Hv) as (y & Hy & _).
    rewrite (Hh u x Hx), (Hh v y Hy) in E. subst y.
    clear -Hi Hx Hy. induction f as [|[a b] r IH]; [destruct Hx|]. cbn in Hi. inversion Hi as [|? ? Hb Hr]; subst.
    destruct Hx as [E1|H1], Hy as [E2|H2].
    - congruence.
    - exfalso. injection E1 as -> ->. apply Hb. apply in_map_iff. exists (v, x). auto.
    - exfalso. injection E2 as -> ->. apply Hb. apply in_map_iff. exists (u, x). auto.
    - apply IH; assumption. }
  rewrite <- (map_length h L). apply NoDup_incl_length.
  - clear -HLnd Hinj. induction L as [|u r IH]; cbn; [constructor|]. inversion HLnd as [|? ? Hu Hr]; subst. constructor.
    + intros Hin. apply in_map_iff in Hin as (v & E & Hv). apply Hu. rewrite (Hinj u v (or_introl eq_refl) (or_intror Hv) (eq_sym E)). exact Hv.
    + apply IH; [exact Hr|]. intros a b Ha Hb. apply Hinj; right; assumption.
  - intros y Hy. apply in_map_iff in Hy as (u & <- & Hu). destruct (Himg u Hu) as (x & Hx & Hxn). rewrite (Hh u x Hx). exact Hxn.
Qed.
