(* C06 — property theorems only. *)
From Coq Require Import List Bool ZArith.
From V Require Import C01.Model C06.Model C06.Proofs C06.LookAhead C06.Search C06.SearchProofs C06.Lcs C06.LexLeader C06.LexCheck.
Import ListNotations.
Open Scope Z_scope.

(* --- the specification and its reference enumeration --- *)
Theorem common_subgraph_means : forall P G f,
  is_common P G f = true <->
  NoDup (map fst f) /\ NoDup (map snd f) /\
  (forall u x, In (u, x) f -> exists c, ncol P u = Some c /\ ncol G x = Some c) /\
  (forall u x v y, In (u, x) f -> In (v, y) f -> u <> v -> ecol P u v = ecol G x y).
Proof. exact is_common_spec. Qed.
Print Assumptions common_subgraph_means.

Theorem reference_enumeration_exact : forall P G f, In f (all_isos P G) <-> (is_iso P G f = true /\ map fst f = keys P).
Proof. exact all_isos_spec. Qed.
Print Assumptions reference_enumeration_exact.

(* --- the judges of an output are sound --- *)
Theorem full_output_judged : forall P G out, check_full P G out = true ->
  (forall f, In f out -> is_iso P G f = true) /\
  (forall g, is_iso P G g = true -> map fst g = keys P -> count (map_eqb g) out = 1%nat) /\
  List.length out = List.length (all_isos P G).
Proof. exact check_full_sound. Qed.
Print Assumptions full_output_judged.

Theorem symmetric_output_judged : forall P G out, check_sym P G out = true ->
  (forall f, In f out -> is_iso P G f = true) /\
  (forall g, is_iso P G g = true -> map fst g = keys P ->
     exists l1 x l2, out = l1 ++ x :: l2 /\ equivb P g x = true /\ forall y, In y (l1 ++ l2) -> equivb P g y = false).
Proof.
  intros P G out H. destruct (check_sym_sound P G out H) as [H1 H2]. split; [exact H1|].
  intros g Hg Ek. apply count_one. apply H2; assumption.
Qed.
Print Assumptions symmetric_output_judged.

Theorem lcs_size_is_maximum : forall P G f,
  is_common P G f = true -> In (map fst f) (sublists (keys P)) -> (List.length f <= lcs_size P G)%nat.
Proof. exact lcs_size_max. Qed.
Print Assumptions lcs_size_is_maximum.

Theorem lcs_output_judged : forall P G sym out, check_lcs P G sym out = true ->
  (forall f, In f out -> is_common P G f = true /\ List.length f = lcs_size P G) /\
  (forall g, is_common P G g = true -> In (map fst g) (sublists (keys P)) -> List.length g = lcs_size P G -> lcs_size P G <> O ->
     exists h, In h out /\ (if sym then equivb P g h else map_eqb g h) = true).
Proof. exact check_lcs_sound. Qed.
Print Assumptions lcs_output_judged.

(* --- the backtracking core: for EVERY next-node heuristic and every asymmetric constraint set it returns exactly the
   isomorphisms that respect the constraints --- *)
Theorem backtracking_sound : forall P G cons choose,
  (forall left cand, left <> [] -> In (choose left cand) left) ->
  NoDup (keys P) ->
  (forall a b, In (a, b) cons -> ~ In (b, a) cons) ->
  forall f, In f (find_isomorphisms P G cons choose) ->
  good P G cons f /\ (forall u, In u (keys P) <-> In u (map fst f)).
Proof. intros P G cons choose H1 H2 H3 f Hf. eapply find_isomorphisms_sound; eauto. Qed.
Print Assumptions backtracking_sound.

Theorem backtracking_complete : forall P G cons choose,
  (forall left cand, left <> [] -> In (choose left cand) left) ->
  NoDup (keys P) ->
  (forall a b, In (a, b) cons -> ~ In (b, a) cons) ->
  forall f, good P G cons f -> (forall u, In u (keys P) <-> In u (map fst f)) ->
  exists f', In f' (find_isomorphisms P G cons choose) /\ (forall p, In p f <-> In p f').
Proof. intros P G cons choose H1 H2 H3 f Hg Hd. eapply find_isomorphisms_complete; eauto. Qed.
Print Assumptions backtracking_complete.

Theorem unconstrained_good_is_common : forall P G f, NoDup (keys G) -> (good P G [] f <-> is_common P G f = true).
Proof. exact good_is_common. Qed.
Print Assumptions unconstrained_good_is_common.

(* --- the look-ahead filter never removes a solution, so the search started from the filtered candidates (what the code
   does) still finds every isomorphism respecting the constraints --- *)
Theorem lookahead_is_safe : forall P G f s g,
  NoDup (keys P) -> NoDup (keys G) -> (forall u v, ecol P u v <> None -> u <> v) ->
  is_iso P G f = true -> In (s, g) f -> lookahead_ok P G s g = true.
Proof. exact lookahead_never_removes_a_solution. Qed.
Print Assumptions lookahead_is_safe.

Theorem backtracking_with_lookahead_sound : forall P G cons choose f,
  (forall left cand, left <> [] -> In (choose left cand) left) -> NoDup (keys P) ->
  (forall a b, In (a, b) cons -> ~ In (b, a) cons) ->
  In f (find_isomorphisms_la P G cons choose) ->
  good P G cons f /\ (forall u, In u (keys P) <-> In u (map fst f)).
Proof. exact find_isomorphisms_la_sound. Qed.
Print Assumptions backtracking_with_lookahead_sound.

Theorem backtracking_with_lookahead_complete : forall P G cons choose f,
  (forall left cand, left <> [] -> In (choose left cand) left) -> NoDup (keys P) -> NoDup (keys G) ->
  (forall u v, ecol P u v <> None -> u <> v) ->
  (forall a b, In (a, b) cons -> ~ In (b, a) cons) ->
  good P G cons f -> (forall u, In u (keys P) <-> In u (map fst f)) ->
  exists f', In f' (find_isomorphisms_la P G cons choose) /\ (forall p, In p f <-> In p f').
Proof. exact find_isomorphisms_la_complete. Qed.
Print Assumptions backtracking_with_lookahead_complete.

(* --- the shrinking search for the largest common sub-graph (no symmetry): everything returned is a common induced
   sub-graph, all of one size; nothing larger exists; every common sub-graph of that size is returned --- *)
Theorem shrinking_search_exact : forall P G choose,
  (forall left cand, left <> [] -> In (choose left cand) left) -> NoDup (keys P) -> NoDup (keys G) ->
  keys P <> [] -> keys G <> [] ->
  let R := largest_common_subgraph P G choose in
  (forall f, In f R -> good P G [] f /\ incl (map fst f) (keys P)) /\
  (R <> [] -> exists s', (forall f, In f R -> List.length f = s') /\ none_bigger P G s' /\
       forall f', good P G [] f' -> incl (map fst f') (keys P) -> List.length f' = s' -> exists f, In f R /\ (forall p, In p f' <-> In p f)) /\
  (R = [] -> none_bigger P G 0).
Proof. exact largest_common_subgraph_spec. Qed.
Print Assumptions shrinking_search_exact.

(* --- symmetry breaking: constraints that come from a stabiliser chain of the automorphism group select exactly one
   member of every class { m o a | a automorphism }, for every injective placement m.  groupb / chainb are evaluated
   per pattern on the constraints the implementation derived (correspondence obligation). --- *)
Theorem constraints_select_one_per_class : forall Vs As cons base,
  groupb Vs As = true -> chainb Vs As cons base = true ->
  forall m, (forall x y, In x Vs -> In y Vs -> m x = m y -> x = y) ->
  (exists a, In a (Af As) /\ cons_sat_fn cons (fun x => m (a x))) /\
  (forall a a', In a (Af As) -> In a' (Af As) -> cons_sat_fn cons (fun x => m (a x)) -> cons_sat_fn cons (fun x => m (a' x)) ->
     forall x, In x Vs -> a x = a' x).
Proof. exact one_representative_per_class. Qed.
Print Assumptions constraints_select_one_per_class.

(* non-vacuity: a path a-b-c in a 4-cycle: 8 embeddings, 4 up to the reflection of the path *)
Definition ex_P := {| g_nodes := [(0, 1); (1, 1); (2, 1)]; g_edges := [(0, 1, 1); (1, 2, 1)] |}.
Definition ex_G := {| g_nodes := [(10, 1); (11, 1); (12, 1); (13, 1)]; g_edges := [(10, 11, 1); (11, 12, 1); (12, 13, 1); (13, 10, 1)] |}.
Example ex_counts : List.length (all_isos ex_P ex_G) = 8%nat /\ List.length (autos ex_P) = 2%nat /\
  check_full ex_P ex_G (find_isomorphisms ex_P ex_G [] (fun l _ => hd 0 l)) = true /\
  check_sym ex_P ex_G (find_isomorphisms ex_P ex_G [(0, 2)] (fun l _ => hd 0 l)) = true /\
  groupb (keys ex_P) (autos ex_P) = true /\ chainb (keys ex_P) (autos ex_P) [(0, 2)] [0] = true.
Proof. vm_compute. repeat split. Qed.
