From Coq Require Import List Bool ZArith Lia.
From V Require Import C01.Model C01.Proofs C06.Model.
Import ListNotations.
Open Scope Z_scope.

Lemma nodupb_spec l : nodupb l = true <-> NoDup l.
Proof.
  induction l as [|x r IH]; cbn; [split; [constructor|reflexivity]|].
  rewrite andb_true_iff, negb_true_iff, IH. split.
  - intros [H1 H2]. constructor; [|exact H2]. intros Hin. apply zmem_in in Hin. congruence.
  - intros H. inversion H as [|? ? Hx Hr]; subst. split; [|exact Hr]. destruct (zmem x r) eqn:E; [|reflexivity]. apply zmem_in in E. contradiction.
Qed.

Lemma oz_eqb_spec a b : oz_eqb a b = true <-> a = b.
Proof. destruct a, b; cbn; rewrite ?Z.eqb_eq; split; congruence. Qed.

(* what "common induced sub-graph" says *)
Lemma is_common_spec P G f :
  is_common P G f = true <->
  NoDup (map fst f) /\ NoDup (map snd f) /\
  (forall u x, In (u, x) f -> exists c, ncol P u = Some c /\ ncol G x = Some c) /\
  (forall u x v y, In (u, x) f -> In (v, y) f -> u <> v -> ecol P u v = ecol G x y).
Proof.
  unfold is_common. rewrite !andb_true_iff, !nodupb_spec, !forallb_forall. split.
  - intros [[[H1 H2] H3] H4]. repeat split; try assumption.
    + intros u x Hin. specialize (H3 _ Hin). cbn in H3. destruct (ncol P u) as [a|]; [|discriminate].
      destruct (ncol G x) as [b|]; [|discriminate]. apply Z.eqb_eq in H3. subst. eauto.
    + intros u x v y H5 H6 Hne. specialize (H4 ((u, x), (v, y)) (proj2 (in_prod_iff _ _ _ _) (conj H5 H6))). cbn in H4.
      apply orb_true_iff in H4 as [H4|H4]; [apply Z.eqb_eq in H4; contradiction|apply oz_eqb_spec; exact H4].
  - intros (H1 & H2 & H3 & H4). repeat split; try assumption.
    + intros [u x] Hin. destruct (H3 u x Hin) as (c & E1 & E2). cbn [fst snd]. rewrite E1, E2. apply Z.eqb_refl.
    + intros [[u x] [v y]] Hin. apply in_prod_iff in Hin as [H5 H6]. cbn. destruct (Z.eqb_spec u v) as [|Hne]; [reflexivity|].
      cbn. apply oz_eqb_spec. apply H4; assumption.
Qed.

Lemma combine_fst_snd {A B} (f : list (A * B)) : combine (map fst f) (map snd f) = f.
Proof. induction f as [|[a b] r IH]; cbn; [reflexivity|]. f_equal. exact IH. Qed.

Lemma isos_on_sound P G D f : In f (isos_on P G D) -> is_common P G f = true /\ map fst f = D.
Proof.
  unfold isos_on. rewrite filter_In, in_map_iff. intros [(img & <- & H) Hc]. split; [exact Hc|].
  apply inj_cands_spec in H as (F & _ & _). clear Hc. revert img F. induction D as [|d r IH]; intros img F; cbn in F.
  - inversion F. reflexivity.
  - inversion F as [|x c t r' Hx Ft]; subst. cbn. f_equal. apply IH. exact Ft.
Qed.

Lemma ncol_in g x c : ncol g x = Some c -> In (x, c) (g_nodes g).
Proof.
  unfold ncol. destruct (find _ (g_nodes g)) as [[k c']|] eqn:E; [|discriminate]. intros [= <-].
  apply find_some in E as [Hin Hk]. cbn in Hk. apply Z.eqb_eq in Hk. subst. exact Hin.
Qed.

Lemma isos_on_complete P G f : is_common P G f = true -> In f (isos_on P G (map fst f)).
Proof.
  intros Hc. unfold isos_on. apply filter_In. split; [|exact Hc]. apply in_map_iff. exists (map snd f). split; [apply combine_fst_snd|].
  apply is_common_spec in Hc as (_ & H2 & H3 & _). apply inj_cands_spec. split; [|split; [exact H2|intros x _ []]].
  clear H2. induction f as [|[u x] r IH]; cbn; constructor.
  - destruct (H3 u x (or_introl eq_refl)) as (c & E1 & E2). unfold colour_candidates. apply in_map_iff. exists (x, c).
    split; [reflexivity|]. apply filter_In. split; [apply ncol_in; exact E2|]. cbn. rewrite E1. cbn. apply Z.eqb_refl.
  - apply IH. intros v y Hin. apply H3. right. exact Hin.
Qed.

(* the reference enumeration lists exactly the isomorphisms (written in pattern-node order) *)
Lemma all_isos_spec P G f : In f (all_isos P G) <-> (is_iso P G f = true /\ map fst f = keys P).
Proof.
  unfold all_isos, is_iso. split.
  - intros H. apply isos_on_sound in H as [H1 H2]. split; [|exact H2]. rewrite H1, H2. cbn. apply forallb_forall. intros k Hk. apply zmem_in. exact Hk.
  - intros [H E]. apply andb_true_iff in H as [H _]. rewrite <- E. apply isos_on_complete. exact H.
Qed.

Lemma forallb_in {A} (p : A -> bool) l x : forallb p l = true -> In x l -> p x = true.
Proof. intros H. rewrite forallb_forall in H. apply H. Qed.

(* ---------- the checkers are sound ---------- *)
Lemma check_full_sound P G out : check_full P G out = true ->
  (forall f, In f out -> is_iso P G f = true) /\
  (forall g, is_iso P G g = true -> map fst g = keys P -> count (map_eqb g) out = 1%nat) /\
  List.length out = List.length (all_isos P G).
Proof.
  unfold check_full. rewrite !andb_true_iff. intros [[H1 H2] H3]. split; [|split].
  - intros f Hf. exact (forallb_in _ _ _ H1 Hf).
  - intros g Hg Ek. apply Nat.eqb_eq. apply (forallb_in _ _ g H2). apply all_isos_spec. auto.
  - apply Nat.eqb_eq. exact H3.
Qed.

Lemma check_sym_sound P G out : check_sym P G out = true ->
  (forall f, In f out -> is_iso P G f = true) /\
  (forall g, is_iso P G g = true -> map fst g = keys P -> count (equivb P g) out = 1%nat).
Proof.
  unfold check_sym. cbv zeta. fold (equivb P). rewrite !andb_true_iff. intros [H1 H2]. split.
  - intros f Hf. exact (forallb_in _ _ _ H1 Hf).
  - intros g Hg Ek. apply Nat.eqb_eq. apply (forallb_in _ _ g H2). apply all_isos_spec. auto.
Qed.

(* exactly one element satisfies p *)
Lemma count_one {A} (p : A -> bool) l : count p l = 1%nat ->
  exists l1 x l2, l = l1 ++ x :: l2 /\ p x = true /\ (forall y, In y (l1 ++ l2) -> p y = false).
Proof.
  induction l as [|a r IH]; cbn; [discriminate|]. destruct (p a) eqn:E.
  - intros H. exists [], a, r. split; [reflexivity|]. split; [exact E|]. intros y Hy. cbn in Hy.
    assert (Hz : count p r = 0%nat) by lia. clear -Hz Hy. induction r as [|b r IH]; [destruct Hy|]. cbn in Hz.
    destruct (p b) eqn:Eb; [discriminate|]. destruct Hy as [<-|Hy]; [exact Eb|apply IH; assumption].
  - intros H. destruct (IH H) as (l1 & x & l2 & -> & Hx & Hall). exists (a :: l1), x, l2. split; [reflexivity|]. split; [exact Hx|].
    intros y [<-|Hy]; [exact E|apply Hall; exact Hy].
Qed.

(* ---------- largest common sub-graph ---------- *)
Lemma sublists_length l D : In D (sublists l) -> (List.length D <= List.length l)%nat.
Proof.
  revert D. induction l as [|x r IH]; intros D; cbn; [intros [<-|[]]; cbn; lia|].
  rewrite in_app_iff, in_map_iff. intros [(t & <- & Ht)|H]; [apply IH in Ht; cbn; lia|apply IH in H; lia].
Qed.

Lemma max_common_spec P G n :
  (forall k, (max_common P G n < k <= n)%nat -> has_common P G k = false) /\
  (max_common P G n <> O -> has_common P G (max_common P G n) = true).
Proof.
  induction n as [|n IH]; cbn [max_common]; [split; [intros k Hk; lia|intros H; contradiction]|].
  destruct (has_common P G (S n)) eqn:E.
  - split; [intros k Hk; lia|intros _; exact E].
  - destruct IH as [I1 I2]. split; [|exact I2]. intros k Hk. destruct (Nat.eq_dec k (S n)) as [->|]; [exact E|apply I1; lia].
Qed.

(* no common induced sub-graph (with its nodes in pattern order) is larger than lcs_size *)
Lemma lcs_size_max P G f : is_common P G f = true -> In (map fst f) (sublists (keys P)) -> (List.length f <= lcs_size P G)%nat.
Proof.
  intros Hc Hd. destruct (le_lt_dec (List.length f) (lcs_size P G)) as [|Hlt]; [assumption|exfalso].
  assert (Hh : has_common P G (List.length f) = true).
  { unfold has_common. apply existsb_exists. exists (map fst f). split; [exact Hd|]. rewrite map_length, Nat.eqb_refl.
    pose proof (isos_on_complete P G f Hc) as Hin. destruct (isos_on P G (map fst f)); [destruct Hin|reflexivity]. }
  destruct (max_common_spec P G (List.length (keys P))) as [M1 _]. unfold lcs_size in Hlt.
  rewrite M1 in Hh; [discriminate|]. split; [exact Hlt|]. apply sublists_length in Hd. rewrite map_length in Hd. exact Hd.
Qed.

Lemma all_lcs_spec P G f : In f (all_lcs P G) <->
  (is_common P G f = true /\ In (map fst f) (sublists (keys P)) /\ List.length f = lcs_size P G).
Proof.
  unfold all_lcs, all_of_size. rewrite in_flat_map. split.
  - intros (D & HD & H). destruct (Nat.eqb_spec (List.length D) (lcs_size P G)) as [E|]; [|destruct H].
    apply isos_on_sound in H as [H1 H2]. subst D. rewrite map_length in E. auto.
  - intros (H1 & H2 & H3). exists (map fst f). split; [exact H2|]. rewrite map_length, H3, Nat.eqb_refl. apply isos_on_complete. exact H1.
Qed.

Lemma check_lcs_sound P G sym out : check_lcs P G sym out = true ->
  (forall f, In f out -> is_common P G f = true /\ List.length f = lcs_size P G) /\
  (forall g, is_common P G g = true -> In (map fst g) (sublists (keys P)) -> List.length g = lcs_size P G -> lcs_size P G <> O ->
     exists h, In h out /\ (if sym then equivb P g h else map_eqb g h) = true).
Proof.
  unfold check_lcs. cbv zeta. fold (equivb P). fold (all_lcs P G). rewrite andb_true_iff. intros [H1 H2]. split.
  - intros f Hf. pose proof (forallb_in _ _ _ H1 Hf) as H. cbn in H. rewrite !andb_true_iff in H. destruct H as [[Hc Hl] _].
    apply Nat.eqb_eq in Hl. auto.
  - intros g Hg Hd Hl Hnz. apply orb_true_iff in H2 as [H2|H2]; [apply Nat.eqb_eq in H2; contradiction|].
    pose proof (forallb_in _ _ g H2 (proj2 (all_lcs_spec P G g) (conj Hg (conj Hd Hl)))) as H. cbn in H.
    apply existsb_exists in H. exact H.
Qed.
