(* C06 — why ordering constraints derived from a stabiliser chain select exactly one member of every symmetry class.
   Abstract setting: V a finite set of points (pattern nodes), A a finite group of permutations of V given as a list
   of functions (the pattern's automorphisms), base = b_1 .. b_k a list of points such that only the identity fixes all
   of them.  With  stab pre = the elements fixing every point of pre  and  orbit pre b = images of b under stab pre,
   the constraints are  (b_i, t)  for t in orbit [b_1..b_(i-1)] b_i, t <> b_i,  read "the image of b_i is below the
   image of t".  For every injective placement m of V: exactly one a in A makes m o a satisfy all constraints. *)
From Coq Require Import List Bool ZArith Lia.
Import ListNotations.
Open Scope Z_scope.

Section LexLeader.
Variable V : list Z.
Variable A : list (Z -> Z).
Definition perm_on (a : Z -> Z) : Prop := (forall x, In x V -> In (a x) V) /\ (forall x y, In x V -> In y V -> a x = a y -> x = y).
Hypothesis A_perm : forall a, In a A -> perm_on a.
Hypothesis A_id : exists e, In e A /\ forall x, In x V -> e x = x.
Hypothesis A_comp : forall a b, In a A -> In b A -> exists c, In c A /\ forall x, In x V -> c x = a (b x).
Hypothesis A_inv : forall a, In a A -> exists c, In c A /\ forall x, In x V -> c (a x) = x /\ a (c x) = x.

Definition fixes (pre : list Z) (a : Z -> Z) : bool := forallb (fun b => Z.eqb (a b) b) pre.
Definition stab (pre : list Z) : list (Z -> Z) := filter (fixes pre) A.
Definition orbit (pre : list Z) (b : Z) : list Z := map (fun a => a b) (stab pre).

Lemma fixes_spec pre a : fixes pre a = true <-> forall b, In b pre -> a b = b.
Proof. unfold fixes. rewrite forallb_forall. split; intros H b Hb; [apply Z.eqb_eq|apply Z.eqb_eq]; apply H; exact Hb. Qed.

Lemma stab_spec pre a : In a (stab pre) <-> In a A /\ forall b, In b pre -> a b = b.
Proof. unfold stab. rewrite filter_In, fixes_spec. tauto. Qed.

(* one level of the chain: the base point b with the points fixed before it *)
Definition level_ok (m : Z -> Z) (a : Z -> Z) (pre : list Z) (b : Z) : Prop :=
  forall t, In t (orbit pre b) -> t <> b -> m (a b) < m (a t).

Fixpoint levels (pre rest : list Z) : list (list Z * Z) :=
  match rest with [] => [] | b :: r => (pre, b) :: levels (pre ++ [b]) r end.

Definition sat (m : Z -> Z) (a : Z -> Z) (base : list Z) : Prop :=
  forall pre b, In (pre, b) (levels [] base) -> level_ok m a pre b.

Variable m : Z -> Z.
Hypothesis m_inj : forall x y, In x V -> In y V -> m x = m y -> x = y.

Lemma orbit_closed pre b s t : incl pre V -> In b V -> In s (stab pre) -> In t (orbit pre b) -> In (s t) (orbit pre b).
Proof.
  intros Hpre Hb Hs Ht. unfold orbit in *. apply in_map_iff in Ht as (u & <- & Hu).
  apply stab_spec in Hs as [HsA Hsf]. apply stab_spec in Hu as [HuA Huf].
  destruct (A_comp s u HsA HuA) as (c & Hc & Hcx). apply in_map_iff. exists c. split; [apply Hcx; exact Hb|].
  apply stab_spec. split; [exact Hc|]. intros p Hp. rewrite Hcx by (apply Hpre; exact Hp). rewrite (Huf p Hp). apply Hsf. exact Hp.
Qed.

Lemma orbit_in_V pre b t : In b V -> In t (orbit pre b) -> In t V.
Proof. intros Hb Ht. unfold orbit in Ht. apply in_map_iff in Ht as (u & <- & Hu). apply stab_spec in Hu as [HuA _]. apply (proj1 (A_perm u HuA)). exact Hb. Qed.

(* a minimum of a non-empty list of candidates *)
Lemma argmin {T} (f : T -> Z) (l : list T) : l <> [] -> exists x, In x l /\ forall y, In y l -> f x <= f y.
Proof.
  induction l as [|a r IH]; [contradiction|]. intros _. destruct r as [|b r'].
  - exists a. split; [left; reflexivity|]. intros y [<-|[]]. lia.
  - destruct IH as (x & Hx & Hmin); [discriminate|]. destruct (Z_le_gt_dec (f a) (f x)).
    + exists a. split; [left; reflexivity|]. intros y [<-|Hy]; [lia|]. specialize (Hmin y Hy). lia.
    + exists x. split; [right; exact Hx|]. intros y [<-|Hy]; [lia|apply Hmin; exact Hy].
Qed.

(* ---------- existence ---------- *)
Lemma extend_level pre b a :
  incl pre V -> In b V -> In a A ->
  (forall pre' b', In (pre', b') (levels [] pre) -> level_ok m a pre' b') ->
  (forall pre' b', In (pre', b') (levels [] pre) -> incl pre' pre /\ In b' pre) ->
  exists a', In a' A /\ level_ok m a' pre b /\ (forall pre' b', In (pre', b') (levels [] pre) -> level_ok m a' pre' b').
Proof.
  intros Hpre Hb Ha Hold Hlv.
  assert (Hne : stab pre <> []).
  { destruct A_id as (e & He & Hex). intros H. assert (X : In e (stab pre)) by (apply stab_spec; split; [exact He|intros p Hp; apply Hex; apply Hpre; exact Hp]).
    rewrite H in X. destruct X. }
  destruct (argmin (fun s => m (a (s b))) (stab pre) Hne) as (s & Hs & Hmin).
  pose proof (proj1 (stab_spec pre s) Hs) as [HsA Hsf].
  destruct (A_comp a s Ha HsA) as (a' & Ha' & Hax). exists a'. split; [exact Ha'|]. split.
  - intros t Ht Hne'. pose proof (orbit_in_V pre b t Hb Ht) as HtV. rewrite !Hax by assumption.
    unfold orbit in Ht. apply in_map_iff in Ht as (u & <- & Hu). pose proof (proj1 (stab_spec pre u) Hu) as [HuA Huf].
    destruct (A_comp s u HsA HuA) as (c & Hc & Hcx).
    assert (Hcs : In c (stab pre)).
    { apply stab_spec. split; [exact Hc|]. intros p Hp. rewrite Hcx by (apply Hpre; exact Hp). rewrite (Huf p Hp). apply Hsf. exact Hp. }
    specialize (Hmin c Hcs). cbn in Hmin. rewrite Hcx in Hmin by exact Hb.
    assert (Hneq : m (a (s b)) <> m (a (s (u b)))).
    { intros E. apply Hne'. destruct (A_perm a Ha) as [Ha1 Ha2]. destruct (A_perm s HsA) as [Hs1 Hs2]. destruct (A_perm u HuA) as [Hu1 Hu2].
      apply m_inj in E; [|apply Ha1; apply Hs1; exact Hb|apply Ha1; apply Hs1; apply Hu1; exact Hb].
      apply Ha2 in E; [|apply Hs1; exact Hb|apply Hs1; apply Hu1; exact Hb].
      apply Hs2 in E; [|exact Hb|apply Hu1; exact Hb]. symmetry. exact E. }
    lia.
  - intros pre' b' Hl t Ht Hne'. destruct (Hlv pre' b' Hl) as [Hsub Hb'].
    assert (Hpre'V : incl pre' V) by (intros x Hx; apply Hpre; apply Hsub; exact Hx).
    assert (Hb'V : In b' V) by (apply Hpre; exact Hb').
    pose proof (orbit_in_V pre' b' t Hb'V Ht) as HtV. rewrite !Hax by assumption. rewrite (Hsf b' Hb').
    assert (Hs' : In s (stab pre')) by (apply stab_spec; split; [exact HsA|intros p Hp; apply Hsf; apply Hsub; exact Hp]).
    apply (Hold pre' b' Hl (s t)).
    + apply orbit_closed; assumption.
    + intros E. apply Hne'. destruct (A_perm s HsA) as [_ Hs2]. apply Hs2; [exact HtV|exact Hb'V|]. rewrite E. symmetry. apply Hsf. exact Hb'.
Qed.

Lemma levels_app pre rest : forall acc, levels acc (pre ++ rest) = levels acc pre ++ levels (acc ++ pre) rest.
Proof.
  induction pre as [|p r IH]; intros acc; cbn; [rewrite app_nil_r; reflexivity|]. rewrite IH, <- app_assoc. reflexivity.
Qed.

Lemma levels_within pre : forall acc pre' b', In (pre', b') (levels acc pre) -> incl pre' (acc ++ pre) /\ In b' pre.
Proof.
  induction pre as [|p r IH]; intros acc pre' b'; cbn; [intros []|]. intros [[= <- <-]|H].
  - split; [intros x Hx; apply in_or_app; left; exact Hx|left; reflexivity].
  - apply IH in H as [H1 H2]. split; [|right; exact H2]. intros x Hx. apply H1 in Hx. rewrite <- app_assoc in Hx. exact Hx.
Qed.

Theorem representative_exists base : incl base V -> exists a, In a A /\ sat m a base.
Proof.
  intros Hbase. unfold sat.
  assert (G : forall rest pre, base = pre ++ rest ->
            (exists a, In a A /\ forall pre' b', In (pre', b') (levels [] pre) -> level_ok m a pre' b') ->
            exists a, In a A /\ forall pre' b', In (pre', b') (levels [] base) -> level_ok m a pre' b').
  { induction rest as [|b r IH]; intros pre E Hex.
    - rewrite app_nil_r in E. subst. exact Hex.
    - apply (IH (pre ++ [b])); [rewrite <- app_assoc; exact E|]. destruct Hex as (a & Ha & Hold).
      assert (HpreV : incl pre V) by (intros x Hx; apply Hbase; rewrite E; apply in_or_app; left; exact Hx).
      assert (HbV : In b V) by (apply Hbase; rewrite E; apply in_or_app; right; left; reflexivity).
      destruct (extend_level pre b a HpreV HbV Ha Hold) as (a' & Ha' & Hnew & Hold').
      { intros pre' b' H. apply (levels_within pre [] pre' b') in H. exact H. }
      exists a'. split; [exact Ha'|]. intros pre' b' H. rewrite levels_app in H. apply in_app_iff in H as [H|H]; [apply Hold'; exact H|].
      cbn in H. destruct H as [[= <- <-]|[]]. exact Hnew. }
  apply (G base []); [reflexivity|]. destruct A_id as (e & He & _). exists e. split; [exact He|intros ? ? []].
Qed.

(* ---------- uniqueness ---------- *)
Lemma levels_mid pre b rest : In (pre, b) (levels [] (pre ++ b :: rest)).
Proof. rewrite levels_app. apply in_or_app. right. cbn. left. reflexivity. Qed.

Theorem representative_unique base a a' :
  incl base V ->
  (forall g, In g A -> (forall b, In b base -> g b = b) -> forall x, In x V -> g x = x) ->     (* base: only the identity fixes it *)
  In a A -> In a' A -> sat m a base -> sat m a' base -> forall x, In x V -> a x = a' x.
Proof.
  intros Hbase Htriv Ha Ha' Hs Hs'.
  destruct (A_inv a Ha) as (ai & Hai & Haix). destruct (A_comp ai a' Hai Ha') as (g & Hg & Hgx).
  assert (Hag : forall x, In x V -> a (g x) = a' x).
  { intros x Hx. rewrite Hgx by exact Hx. apply (proj2 (Haix (a' x) (proj1 (A_perm a' Ha') x Hx))). }
  destruct (A_inv g Hg) as (gi & Hgi & Hgix).
  assert (Hfix : forall rest pre, base = pre ++ rest -> (forall p, In p pre -> g p = p) -> forall b, In b base -> g b = b).
  { induction rest as [|b r IH]; intros pre E Hpre b0 Hb0.
    - rewrite app_nil_r in E. subst. apply Hpre. exact Hb0.
    - apply (IH (pre ++ [b])); [rewrite <- app_assoc; exact E| |exact Hb0]. intros p Hp. apply in_app_iff in Hp as [Hp|[<-|[]]]; [apply Hpre; exact Hp|].
      destruct (Z.eq_dec (g b) b) as [|Hne]; [assumption|exfalso].
      assert (HbV : In b V) by (apply Hbase; rewrite E; apply in_or_app; right; left; reflexivity).
      assert (HpreV : incl pre V) by (intros x Hx; apply Hbase; rewrite E; apply in_or_app; left; exact Hx).
      assert (Hlv : In (pre, b) (levels [] base)) by (rewrite E; apply levels_mid).
      assert (Hgs : In g (stab pre)) by (apply stab_spec; split; [exact Hg|exact Hpre]).
      assert (Hgis : In gi (stab pre)).
      { apply stab_spec. split; [exact Hgi|]. intros q Hq. rewrite <- (Hpre q Hq) at 1. apply (proj1 (Hgix q (HpreV q Hq))). }
      (* a: the image of b is below the image of g b *)
      assert (H1 : m (a b) < m (a (g b))).
      { apply (Hs pre b Hlv (g b)); [|exact Hne]. unfold orbit. apply in_map_iff. exists g. split; [reflexivity|exact Hgs]. }
      (* a': the image of b is below the image of gi b, which a' sends where a sends b *)
      assert (Hne' : gi b <> b).
      { intros Eq. apply Hne. rewrite <- Eq at 1. apply (proj2 (Hgix b HbV)). }
      assert (H2 : m (a' b) < m (a' (gi b))).
      { apply (Hs' pre b Hlv (gi b)); [|exact Hne']. unfold orbit. apply in_map_iff. exists gi. split; [reflexivity|exact Hgis]. }
      assert (HgiV : In (gi b) V) by (apply (proj1 (A_perm gi Hgi)); exact HbV).
      rewrite <- (Hag b HbV) in H2. rewrite <- (Hag (gi b) HgiV) in H2. rewrite (proj2 (Hgix b HbV)) in H2. lia. }
  intros x Hx. rewrite <- (Hag x Hx). f_equal. symmetry. apply Htriv; [exact Hg| |exact Hx].
  apply (Hfix base []); [reflexivity|intros p []].
Qed.
End LexLeader.
