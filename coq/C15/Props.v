(* C15 — property theorems only. *)
From Coq Require Import List Bool ZArith QArith Qminmax Permutation.
From V Require Import C15.Model C15.Proofs.
Import ListNotations.
Open Scope Q_scope.

(* For a non-negative minimum force, a pair gets a bond exactly when it is a pair of two
   DIFFERENT selected atoms that can be linked (same domain, residues further apart than the
   minimum separation), whose distance does not exceed the upper cut-off and whose decayed
   force constant, capped at the base constant, exceeds the minimum force (NaN never does). *)
Theorem bond_iff : forall P same_index linked d k0,
  0 <= p_minf P ->
  (emits P (pair_constant P same_index linked d k0) = true <->
   same_index = false /\ linked = true /\ d <= p_upper P /\
   exists k, k0 = Some k /\ p_minf P < Qmin k (p_base P)).
Proof. exact bond_iff_lemma. Qed.
Print Assumptions bond_iff.

Theorem bond_value : forall P linked d k x,
  0 <= p_minf P ->
  pair_constant P false linked d (Some k) = Some x -> emits P (Some x) = true -> x == Qmin k (p_base P).
Proof. exact bond_value_lemma. Qed.
Print Assumptions bond_value.

(* "further apart along the residue graph than the minimum separation": the connectivity
   test is exactly "there is a walk of at most k residue-graph edges" *)
Theorem separation_is_walk_length : forall re k a b, reachb re k a b = true <-> walk re k a b.
Proof. exact reachb_walk. Qed.
Print Assumptions separation_is_walk_length.

(* a bond between u and v exists (in either orientation) iff both are selected and the pair
   passes; so the network does not depend on the order of the atoms *)
Theorem network_is_set_of_passing_pairs : forall P D K L,
  (forall u v, D u v = D v u) -> (forall u v, K u v = K v u) -> (forall u v, L u v = L v u) ->
  forall sel u v,
  (exists b, In b (bonds_fn P D K L sel) /\ ((b_u b = u /\ b_v b = v) \/ (b_u b = v /\ b_v b = u))) <->
  (In u sel /\ In v sel /\ has_bond P D K L u v).
Proof. exact bonds_fn_iff. Qed.
Print Assumptions network_is_set_of_passing_pairs.

Theorem order_independent : forall P D K L,
  (forall u v, D u v = D v u) -> (forall u v, K u v = K v u) -> (forall u v, L u v = L v u) ->
  forall sel sel' u v, Permutation sel sel' ->
  ((exists b, In b (bonds_fn P D K L sel) /\ ((b_u b = u /\ b_v b = v) \/ (b_u b = v /\ b_v b = u))) <->
   (exists b, In b (bonds_fn P D K L sel') /\ ((b_u b = u /\ b_v b = v) \/ (b_u b = v /\ b_v b = u)))).
Proof. exact order_independent_lemma. Qed.
Print Assumptions order_independent.

Theorem exactly_one_bond_per_pair : forall P D K L sel, NoDup sel ->
  NoDup (map (fun b => (b_u b, b_v b)) (bonds_fn P D K L sel)) /\
  (forall b1 b2, In b1 (bonds_fn P D K L sel) -> In b2 (bonds_fn P D K L sel) ->
     b_u b1 = b_v b2 -> b_v b1 = b_u b2 -> b_u b1 = b_v b1).
Proof. exact one_bond_per_pair_lemma. Qed.
Print Assumptions exactly_one_bond_per_pair.

(* the network depends on the coordinates only through distances, and those are invariant
   under every rigid motion (orthogonal matrix + translation), exactly, over Q *)
Theorem rigid_invariant : forall A t p q, orthogonal A -> sqdist (move A t p) (move A t q) == sqdist p q.
Proof. exact rigid_invariant_lemma. Qed.
Print Assumptions rigid_invariant.

(* undefined coordinates in the selection: no network (the result carries the warning) *)
Theorem nan_no_network : forall P ns es dm km,
  existsb (fun n => match n_pos n with None => true | _ => false end) (filter n_selected ns) = false ->
  existsb (fun n => match n_pos n with Some true => true | _ => false end) (filter n_selected ns) = true ->
  rubber_band P ns es dm km = NoNetworkNaN.
Proof.
  intros P ns es dm km H1 H2. unfold rubber_band. rewrite H1. destruct (filter n_selected ns) as [|n r]; [discriminate|].
  rewrite H2. reflexivity.
Qed.
Print Assumptions nan_no_network.

Example nonvacuous :
  let P := {| p_upper := 9 # 10; p_base := 700; p_minf := 0; p_sep := 1; p_crit := SameChain |} in
  emits P (pair_constant P false true (85 # 100) (Some 650)) = true /\
  emits P (pair_constant P false true (95 # 100) (Some 650)) = false /\
  emits P (pair_constant P false true (85 # 100) None) = false /\
  reachb [(1, 2); (2, 3)]%Z 1 1%Z 3%Z = false /\ reachb [(1, 2); (2, 3)]%Z 2 1%Z 3%Z = true.
Proof. vm_compute. repeat split. Qed.
