(* C15 — model of the decision logic of vermouth/processors/apply_rubber_band.py:
   apply_rubber_band (l.226-356), compute_force_constants (l.83-104) after the decay kernel,
   build_connectivity_matrix (l.139-186: residue graph, shortest path length <= separation),
   build_pair_matrix with always_true / same_chain / same_region (l.359-431).
   The numeric kernels (self_distance_matrix, compute_decay) are NOT modelled: their results for
   the selected atoms enter as exact rationals (None = NaN), see DESIGN. *)
From Coq Require Import List Bool ZArith QArith.
Import ListNotations.

Record node := {
  n_key : Z; n_selected : bool; n_chain : option Z; n_resid : Z; n_old_resid : option Z;
  n_res : Z;                       (* residue identity: (chain, resid, resname, insertion_code) *)
  n_pos : option bool }.           (* None: no position attribute; Some true: position contains NaN *)

Inductive criterion := AlwaysTrue | SameChain | SameRegion (regions : list (Z * Z)).

Record params := { p_upper : Q; p_base : Q; p_minf : Q; p_sep : nat; p_crit : criterion }.

(* ---- residue graph and bounded reachability ---- *)
Fixpoint res_of (ns : list node) (k : Z) : option Z :=
  match ns with [] => None | n :: r => if Z.eqb (n_key n) k then Some (n_res n) else res_of r k end.

Definition res_edges (ns : list node) (es : list (Z * Z)) : list (Z * Z) :=
  flat_map (fun e => match res_of ns (fst e), res_of ns (snd e) with
                     | Some a, Some b => if Z.eqb a b then [] else [(a, b)]
                     | _, _ => [] end) es.

Definition nbrs (re : list (Z * Z)) (a : Z) : list Z :=
  flat_map (fun e => (if Z.eqb (fst e) a then [snd e] else []) ++ (if Z.eqb (snd e) a then [fst e] else [])) re.

(* a walk of at most k residue-graph edges from a to b *)
Fixpoint reachb (re : list (Z * Z)) (k : nat) (a b : Z) : bool :=
  Z.eqb a b || match k with O => false | S k' => existsb (fun c => reachb re k' c b) (nbrs re a) end.

(* ---- same domain ---- *)
Definition opt_eqbZ (a b : option Z) : bool :=
  match a, b with Some x, Some y => Z.eqb x y | None, None => true | _, _ => false end.
Definition eff_resid (n : node) : Z := match n_old_resid n with Some r => r | None => n_resid n end.
Definition in_region (r : Z * Z) (x : Z) : bool := Z.leb (Z.min (fst r) (snd r)) x && Z.leb x (Z.max (fst r) (snd r)).
Definition same_domain (c : criterion) (u v : node) : bool :=
  match c with
  | AlwaysTrue => true
  | SameChain => opt_eqbZ (n_chain u) (n_chain v)
  | SameRegion rs => existsb (fun r => in_region r (eff_resid u) && in_region r (eff_resid v)) rs
  end.

(* ---- the force constant of one pair, compute_force_constants + masking ---- *)
Definition Qltb (a b : Q) : bool := negb (Qle_bool b a).

(* k0: exp(-a (d - lower)^p) * base as computed by the kernel; None = NaN *)
Definition pair_constant (P : params) (same_index linked : bool) (d : Q) (k0 : option Q) : option Q :=
  let c1 := if same_index then Some 0 else k0 in                           (* fill_diagonal(0) *)
  match c1 with
  | None => None                                                           (* NaN survives every comparison *)
  | Some c =>
      let c2 := if Qltb c (p_minf P) then 0 else c in                      (* constants[constants < minimum_force] = 0 *)
      let c3 := if Qltb (p_base P) c2 then p_base P else c2 in             (* constants[constants > base] = base *)
      let c4 := if Qltb (p_upper P) d then 0 else c3 in                    (* constants[distance > upper] = 0 *)
      Some (if linked then c4 else 0)                                      (* constants *= can_be_linked *)
  end.

Definition emits (P : params) (c : option Q) : bool :=
  match c with Some x => Qltb (p_minf P) x | None => false end.            (* force_constant > minimum_force *)

Definition linked (P : params) (ns : list node) (es : list (Z * Z)) (u v : node) : bool :=
  negb (reachb (res_edges ns es) (p_sep P) (n_res u) (n_res v)) && same_domain (p_crit P) u v.

(* upper triangle (diagonal included) over the selected nodes in node order, with the matrices
   indexed by position in the selection *)
Fixpoint nthq {A} (l : list A) (i : nat) : option A := nth_error l i.

Definition mat_get {A} (m : list (list A)) (i j : nat) : option A :=
  match nth_error m i with Some row => nth_error row j | None => None end.

Record bond := { b_u : Z; b_v : Z; b_len : Q; b_fc : Q }.

Definition pair_bond (P : params) (ns : list node) (es : list (Z * Z)) (dm : list (list Q)) (km : list (list (option Q)))
           (iu : nat * node) (jv : nat * node) : list bond :=
  match mat_get dm (fst iu) (fst jv), mat_get km (fst iu) (fst jv) with
  | Some d, Some k0 =>
      let c := pair_constant P (Nat.eqb (fst iu) (fst jv)) (linked P ns es (snd iu) (snd jv)) d k0 in
      if emits P c then match c with Some x => [{| b_u := n_key (snd iu); b_v := n_key (snd jv); b_len := d; b_fc := x |}]
                                   | None => [] end
      else []
  | _, _ => []
  end.

Fixpoint upper_pairs {A} (l : list A) : list (A * A) :=
  match l with [] => [] | x :: r => map (pair x) (x :: r) ++ upper_pairs r end.

Fixpoint enumerate {A} (l : list A) (i : nat) : list (nat * A) :=
  match l with [] => [] | x :: r => (i, x) :: enumerate r (S i) end.

Inductive result := Bonds (l : list bond) | NoNetworkNaN | NothingSelected | ErrMissingCoordinates.

Definition rubber_band (P : params) (ns : list node) (es : list (Z * Z))
           (dm : list (list Q)) (km : list (list (option Q))) : result :=
  let sel := filter n_selected ns in
  if existsb (fun n => match n_pos n with None => true | _ => false end) sel then ErrMissingCoordinates
  else match sel with
       | [] => NothingSelected
       | _ =>
         if existsb (fun n => match n_pos n with Some true => true | _ => false end) sel then NoNetworkNaN
         else Bonds (flat_map (fun p => pair_bond P ns es dm km (fst p) (snd p)) (upper_pairs (enumerate sel 0)))
       end.
