From Coq Require Import List Bool ZArith QArith Qminmax Lqa Lia Permutation.
From V Require Import C15.Model.
Import ListNotations.
Open Scope Q_scope.

Lemma Qltb_lt a b : Qltb a b = true <-> a < b.
Proof.
  unfold Qltb. rewrite negb_true_iff. split.
  - intros H. apply Qnot_le_lt. intros Hle. apply Qle_bool_iff in Hle. congruence.
  - intros H. destruct (Qle_bool b a) eqn:E; [|reflexivity]. apply Qle_bool_iff in E. exfalso. exact (Qlt_not_le _ _ H E).
Qed.

Lemma Qltb_false a b : Qltb a b = false <-> b <= a.
Proof.
  unfold Qltb. rewrite negb_false_iff. apply Qle_bool_iff.
Qed.

(* ---------- the decision for one pair ---------- *)
Ltac qcases :=
  repeat match goal with
         | |- context [Qltb ?a ?b] =>
             let E := fresh "E" in destruct (Qltb a b) eqn:E; [apply Qltb_lt in E|apply Qltb_false in E]
         | H : context [Qltb ?a ?b] |- _ =>
             let E := fresh "E" in destruct (Qltb a b) eqn:E; [apply Qltb_lt in E|apply Qltb_false in E]
         end.

Lemma bond_iff_lemma P si lk d k0 :
  0 <= p_minf P ->
  (emits P (pair_constant P si lk d k0) = true <->
   si = false /\ lk = true /\ d <= p_upper P /\ exists k, k0 = Some k /\ p_minf P < Qmin k (p_base P)).
Proof.
  intros Hm. unfold emits, pair_constant. split.
  - intros H. destruct si.
    + exfalso. destruct lk; qcases; try discriminate; lra.
    + destruct k0 as [k|]; [|discriminate]. split; [reflexivity|].
      destruct (Q.min_spec k (p_base P)) as [[Hlt Hmin]|[Hle Hmin]];
        destruct lk; qcases; try discriminate; try (exfalso; lra);
        (split; [reflexivity|]); (split; [lra|]); exists k; (split; [reflexivity|]); rewrite Hmin; lra.
  - intros (-> & -> & Hd & k & -> & Hlt).
    destruct (Q.min_spec k (p_base P)) as [[Hl Hmin]|[Hle Hmin]]; rewrite Hmin in Hlt; qcases; try reflexivity; lra.
Qed.

(* the force constant written is the decayed constant capped at the base constant *)
Lemma bond_value_lemma P lk d k x :
  0 <= p_minf P ->
  pair_constant P false lk d (Some k) = Some x -> emits P (Some x) = true -> x == Qmin k (p_base P).
Proof.
  intros Hm. unfold pair_constant, emits. intros H He. injection H as H. subst x.
  destruct (Q.min_spec k (p_base P)) as [[Hl Hmin]|[Hle Hmin]]; rewrite Hmin;
    destruct lk; qcases; try discriminate; lra.
Qed.

(* ---------- residue-graph separation: reachb k is "a walk of at most k edges" ---------- *)
Inductive walk (re : list (Z * Z)) : nat -> Z -> Z -> Prop :=
| walk_here k a : walk re k a a
| walk_step k a c b : In c (nbrs re a) -> walk re k c b -> walk re (S k) a b.

Lemma reachb_walk re k : forall a b, reachb re k a b = true <-> walk re k a b.
Proof.
  induction k as [|k IH]; intros a b; cbn.
  - rewrite orb_false_r. split.
    + intros H. apply Z.eqb_eq in H. subst. constructor.
    + intros H. inversion H; subst. apply Z.eqb_refl.
  - split.
    + intros H. apply orb_prop in H as [H|H].
      * apply Z.eqb_eq in H. subst. constructor.
      * apply existsb_exists in H as (c & Hc & Hr). apply IH in Hr. eapply walk_step; eauto.
    + intros H. inversion H; subst.
      * rewrite Z.eqb_refl. reflexivity.
      * apply orb_true_intro. right. apply existsb_exists. exists c. split; [assumption|]. apply IH. assumption.
Qed.

Lemma NoDup_app_intro0 {A} (a b : list A) :
  NoDup a -> NoDup b -> (forall x, In x a -> In x b -> False) -> NoDup (a ++ b).
Proof.
  induction a as [|x a IH]; cbn; intros Ha Hb Hd; [exact Hb|].
  inversion Ha as [|? ? Hx Hr]; subst. constructor.
  - rewrite in_app_iff. intros [H|H]; [contradiction|]. exact (Hd x (or_introl eq_refl) H).
  - apply IH; auto. intros y Hy. apply Hd. right; exact Hy.
Qed.

(* ---------- exactly one bond per unordered pair; independence of the atom order ---------- *)
Lemma upper_pairs_in {A} (l : list A) x y : In (x, y) (upper_pairs l) -> In x l /\ In y l.
Proof.
  induction l as [|a r IH]; cbn; [tauto|]. intros [H|H].
  - injection H as -> ->. auto.
  - apply in_app_iff in H as [H|H].
    + apply in_map_iff in H as (z & Hz & Hin). injection Hz as -> ->. auto.
    + destruct (IH H); auto.
Qed.

Lemma upper_pairs_nodup {A} (l : list A) : NoDup l -> NoDup (upper_pairs l).
Proof.
  induction l as [|a r IH]; intros H; cbn; [constructor|]. inversion H as [|? ? Ha Hr]; subst.
  constructor.
  - intros Hin. apply in_app_iff in Hin as [Hin|Hin].
    + apply in_map_iff in Hin as (z & Hz & Hz2). injection Hz as <-. contradiction.
    + apply upper_pairs_in in Hin as [Hin _]. contradiction.
  - apply NoDup_app_intro0.
    + apply FinFun.Injective_map_NoDup; [intros x y Hxy; congruence|exact Hr].
    + apply IH; exact Hr.
    + intros [x y] H1 H2. apply in_map_iff in H1 as (z & Hz & _). injection Hz as <- <-.
      apply upper_pairs_in in H2 as [H2 _]. contradiction.
Qed.

(* every unordered pair of distinct elements appears in exactly one orientation *)
Lemma upper_pairs_complete {A} (l : list A) x y :
  In x l -> In y l -> In (x, y) (upper_pairs l) \/ In (y, x) (upper_pairs l).
Proof.
  induction l as [|a r IH]; cbn; [tauto|]. intros [->|Hx] [->|Hy].
  - left; left; reflexivity.
  - left. right. apply in_or_app. left. apply in_map. exact Hy.
  - right. right. apply in_or_app. left. apply in_map. exact Hx.
  - destruct (IH Hx Hy) as [H|H]; [left|right]; right; apply in_or_app; right; exact H.
Qed.

Lemma upper_pairs_antisym {A} (l : list A) x y :
  NoDup l -> In (x, y) (upper_pairs l) -> In (y, x) (upper_pairs l) -> x = y.
Proof.
  induction l as [|a r IH]; cbn; [tauto|]. intros Hnd H1 H2. inversion Hnd as [|? ? Ha Hr]; subst.
  destruct H1 as [H1|H1]; [congruence|]. destruct H2 as [H2|H2]; [congruence|].
  apply in_app_iff in H1 as [H1|H1]; apply in_app_iff in H2 as [H2|H2].
  - apply in_map_iff in H1 as (z & Hz & Hz'). apply in_map_iff in H2 as (w & Hw & Hw'). congruence.
  - apply in_map_iff in H1 as (z & Hz & Hz'). injection Hz as <- <-. apply upper_pairs_in in H2 as [_ H2]. contradiction.
  - apply in_map_iff in H2 as (z & Hz & Hz'). injection Hz as <- <-. apply upper_pairs_in in H1 as [_ H1]. contradiction.
  - exact (IH Hr H1 H2).
Qed.

Section Fn.
Variable P : params.
Variable D : Z -> Z -> Q.
Variable K : Z -> Z -> option Q.
Variable L : Z -> Z -> bool.
Hypothesis Dsym : forall u v, D u v = D v u.
Hypothesis Ksym : forall u v, K u v = K v u.
Hypothesis Lsym : forall u v, L u v = L v u.

(* the decision for a pair of atoms, as a function of the pair only *)
Definition fn_const (u v : Z) : option Q := pair_constant P (Z.eqb u v) (L u v) (D u v) (K u v).
Definition fn_bond (u v : Z) : list bond :=
  if emits P (fn_const u v)
  then match fn_const u v with Some x => [{| b_u := u; b_v := v; b_len := D u v; b_fc := x |}] | None => [] end
  else [].
Definition bonds_fn (sel : list Z) : list bond := flat_map (fun p => fn_bond (fst p) (snd p)) (upper_pairs sel).

Lemma fn_const_sym u v : fn_const u v = fn_const v u.
Proof. unfold fn_const. rewrite (Z.eqb_sym u v), (Lsym u v), (Dsym u v), (Ksym u v). reflexivity. Qed.

Definition has_bond (u v : Z) : Prop := emits P (fn_const u v) = true.

Lemma has_bond_sym u v : has_bond u v <-> has_bond v u.
Proof. unfold has_bond. rewrite fn_const_sym. tauto. Qed.

Lemma fn_bond_in b u v : In b (fn_bond u v) -> b_u b = u /\ b_v b = v /\ has_bond u v.
Proof.
  unfold fn_bond, has_bond. destruct (emits P (fn_const u v)) eqn:E; [|intros []].
  destruct (fn_const u v); [|intros []]. intros [<-|[]]. auto.
Qed.

Lemma fn_bond_nonempty u v : has_bond u v -> exists b, In b (fn_bond u v).
Proof.
  unfold fn_bond, has_bond. intros H. rewrite H. unfold emits in H. destruct (fn_const u v); [|discriminate].
  eexists. left. reflexivity.
Qed.

(* an elastic bond between u and v (in either orientation) exists iff both are in the
   selection and the pair passes every criterion *)
Lemma bonds_fn_iff sel u v :
  (exists b, In b (bonds_fn sel) /\ ((b_u b = u /\ b_v b = v) \/ (b_u b = v /\ b_v b = u))) <->
  (In u sel /\ In v sel /\ has_bond u v).
Proof.
  unfold bonds_fn. split.
  - intros (b & Hb & Ho). apply in_flat_map in Hb as ([x y] & Hxy & Hb). cbn in Hb.
    apply fn_bond_in in Hb as (Hu & Hv & Hh). apply upper_pairs_in in Hxy as [Hx Hy].
    destruct Ho as [[<- <-]|[<- <-]]; subst.
    + auto.
    + split; [exact Hy|]. split; [exact Hx|]. apply has_bond_sym. exact Hh.
  - intros (Hu & Hv & Hh). destruct (upper_pairs_complete sel u v Hu Hv) as [H|H].
    + destruct (fn_bond_nonempty u v Hh) as [b Hb]. exists b. split.
      * apply in_flat_map. exists (u, v). auto.
      * left. apply fn_bond_in in Hb. tauto.
    + destruct (fn_bond_nonempty v u (proj1 (has_bond_sym u v) Hh)) as [b Hb]. exists b. split.
      * apply in_flat_map. exists (v, u). auto.
      * right. apply fn_bond_in in Hb. tauto.
Qed.

(* hence the set of bonds does not depend on the order of the atoms *)
Lemma order_independent_lemma sel sel' u v :
  Permutation sel sel' ->
  ((exists b, In b (bonds_fn sel) /\ ((b_u b = u /\ b_v b = v) \/ (b_u b = v /\ b_v b = u))) <->
   (exists b, In b (bonds_fn sel') /\ ((b_u b = u /\ b_v b = v) \/ (b_u b = v /\ b_v b = u)))).
Proof.
  intros Hp. rewrite !bonds_fn_iff.
  split; intros (A & B & C); repeat split; auto;
    try (eapply Permutation_in; [exact Hp|assumption]);
    try (eapply Permutation_in; [apply Permutation_sym; exact Hp|assumption]).
Qed.

(* at most one bond per unordered pair *)
Lemma fn_bond_length u v : (List.length (fn_bond u v) <= 1)%nat.
Proof. unfold fn_bond. destruct (emits P (fn_const u v)); [destruct (fn_const u v)|]; cbn; lia. Qed.

Lemma one_bond_per_pair_lemma sel : NoDup sel ->
  NoDup (map (fun b => (b_u b, b_v b)) (bonds_fn sel)) /\
  (forall b1 b2, In b1 (bonds_fn sel) -> In b2 (bonds_fn sel) -> b_u b1 = b_v b2 -> b_v b1 = b_u b2 -> b_u b1 = b_v b1).
Proof.
  intros Hnd. split.
  - unfold bonds_fn. pose proof (upper_pairs_nodup sel Hnd) as Hup.
    induction (upper_pairs sel) as [|[x y] r IH]; cbn; [constructor|]. inversion Hup as [|? ? Hxy Hr]; subst.
    rewrite map_app. apply NoDup_app_intro0.
    + pose proof (fn_bond_length x y). destruct (fn_bond x y) as [|b [|b' t]]; cbn in *; try lia; repeat constructor; auto.
    + apply IH. exact Hr.
    + intros [a c] H1 H2. apply in_map_iff in H1 as (b & Hb & Hb1). apply fn_bond_in in Hb1 as (E1 & E2 & _).
      apply in_map_iff in H2 as (b' & Hb' & Hb2). apply in_flat_map in Hb2 as ([x' y'] & Hin & Hb2). cbn in Hb2.
      apply fn_bond_in in Hb2 as (E3 & E4 & _). apply Hxy. congruence.
  - intros b1 b2 H1 H2 E1 E2. unfold bonds_fn in *.
    apply in_flat_map in H1 as ([x y] & Hxy & Hb1). apply in_flat_map in H2 as ([x' y'] & Hxy' & Hb2). cbn in *.
    apply fn_bond_in in Hb1 as (A1 & A2 & _). apply fn_bond_in in Hb2 as (B1 & B2 & _). subst.
    rewrite E1, E2 in Hxy. rewrite E1, E2. symmetry. exact (upper_pairs_antisym sel _ _ Hnd Hxy' Hxy).
Qed.
End Fn.

(* ---------- rigid motions leave distances unchanged (over Q, no real-number axioms) ---------- *)
Definition sq (x : Q) : Q := x * x.
Definition sqdist (p q : Q * Q * Q) : Q :=
  let '(x1, y1, z1) := p in let '(x2, y2, z2) := q in sq (x1 - x2) + sq (y1 - y2) + sq (z1 - z2).

Record mat := { m11 : Q; m12 : Q; m13 : Q; m21 : Q; m22 : Q; m23 : Q; m31 : Q; m32 : Q; m33 : Q }.
Definition orthogonal (A : mat) : Prop :=
  m11 A * m11 A + m21 A * m21 A + m31 A * m31 A == 1 /\
  m12 A * m12 A + m22 A * m22 A + m32 A * m32 A == 1 /\
  m13 A * m13 A + m23 A * m23 A + m33 A * m33 A == 1 /\
  m11 A * m12 A + m21 A * m22 A + m31 A * m32 A == 0 /\
  m11 A * m13 A + m21 A * m23 A + m31 A * m33 A == 0 /\
  m12 A * m13 A + m22 A * m23 A + m32 A * m33 A == 0.
Definition move (A : mat) (t : Q * Q * Q) (p : Q * Q * Q) : Q * Q * Q :=
  let '(x, y, z) := p in let '(a, b, c) := t in
  (m11 A * x + m12 A * y + m13 A * z + a, m21 A * x + m22 A * y + m23 A * z + b, m31 A * x + m32 A * y + m33 A * z + c).

Lemma rigid_invariant_lemma A t p q : orthogonal A -> sqdist (move A t p) (move A t q) == sqdist p q.
Proof.
  intros (H1 & H2 & H3 & H4 & H5 & H6). destruct p as [[x1 y1] z1], q as [[x2 y2] z2], t as [[a b] c].
  unfold sqdist, move, sq.
  set (dx := x1 - x2). set (dy := y1 - y2). set (dz := z1 - z2).
  transitivity ((m11 A * m11 A + m21 A * m21 A + m31 A * m31 A) * (dx * dx)
              + (m12 A * m12 A + m22 A * m22 A + m32 A * m32 A) * (dy * dy)
              + (m13 A * m13 A + m23 A * m23 A + m33 A * m33 A) * (dz * dz)
              + 2 * (m11 A * m12 A + m21 A * m22 A + m31 A * m32 A) * (dx * dy)
              + 2 * (m11 A * m13 A + m21 A * m23 A + m31 A * m33 A) * (dx * dz)
              + 2 * (m12 A * m13 A + m22 A * m23 A + m32 A * m33 A) * (dy * dz)).
  - unfold dx, dy, dz. ring.
  - rewrite H1, H2, H3, H4, H5, H6. ring.
Qed.
