(* C15 — case type and the two boolean functions evaluated on generated cases. *)
From Coq Require Import List Bool ZArith QArith Qabs Qminmax.
From V Require Import C15.Model.
Import ListNotations.
Open Scope Q_scope.

Inductive iresult :=
| IBonds (l : list (Z * Z * Q * Q))      (* atoms, length, force constant as written into 'bonds' *)
| IWarnNaN (warned : bool)               (* no bond added; was the unmapped-atom warning emitted? *)
| INothing
| IErrMissing.

Definition closeq (tol a b : Q) : bool := Qle_bool (Qabs (a - b)) tol.
Definition rel_close (a b : Q) : bool := Qle_bool (Qabs (a - b)) ((1 # 1000000000) * (1 + Qabs a)).

Fixpoint list_eqb {A B} (f : A -> B -> bool) (a : list A) (b : list B) : bool :=
  match a, b with [], [] => true | x :: r, y :: s => f x y && list_eqb f r s | _, _ => false end.

Definition bond_matches (m : bond) (i : Z * Z * Q * Q) : bool :=
  let '(u, v, len, fc) := i in
  Z.eqb (b_u m) u && Z.eqb (b_v m) v && closeq (6 # 1000000) (b_len m) len && rel_close (b_fc m) fc.

Inductive case :=
| CRb (P : params) (ns : list node) (es : list (Z * Z)) (dm : list (list Q)) (km : list (list (option Q)))
      (impl : iresult).

Definition corr (k : case) : bool :=
  match k with
  | CRb P ns es dm km impl =>
      match rubber_band P ns es dm km, impl with
      | Bonds l, IBonds il => list_eqb bond_matches l il
      | NoNetworkNaN, IWarnNaN w => w
      | NothingSelected, INothing => true
      | ErrMissingCoordinates, IErrMissing => true
      | _, _ => false
      end
  end.

(* the property on the implementation's bonds, pair by pair, from the statement:
   both selected, same domain, residue distance > separation, d <= upper, min(k0, base) > minimum force *)
Definition should_bond (P : params) (ns : list node) (es : list (Z * Z)) (u v : node) (d : Q) (k0 : option Q) : option Q :=
  if same_domain (p_crit P) u v && negb (reachb (res_edges ns es) (p_sep P) (n_res u) (n_res v))
     && Qle_bool d (p_upper P)
  then match k0 with
       | Some k => if Qltb (p_minf P) (Qmin k (p_base P)) then Some (Qmin k (p_base P)) else None
       | None => None end
  else None.

Definition count_pair (il : list (Z * Z * Q * Q)) (u v : Z) : list (Q * Q) :=
  flat_map (fun i => let '(a, b, len, fc) := i in
                     if (Z.eqb a u && Z.eqb b v) || (Z.eqb a v && Z.eqb b u) then [(len, fc)] else []) il.

Fixpoint strict_pairs {A} (l : list A) : list (A * A) :=
  match l with [] => [] | x :: r => map (pair x) r ++ strict_pairs r end.

Definition prop (k : case) : bool :=
  match k with
  | CRb P ns es dm km impl =>
      match impl with
      | IBonds il =>
          let sel := enumerate (filter n_selected ns) 0 in
          (* every bond is between two different selected atoms *)
          forallb (fun i => let '(a, b, _, _) := i in
                            negb (Z.eqb a b) && existsb (fun n => Z.eqb (n_key (snd n)) a) sel
                            && existsb (fun n => Z.eqb (n_key (snd n)) b) sel) il
          && forallb (fun p =>
               let '((i, u), (j, v)) := p in
               match mat_get dm i j, mat_get km i j with
               | Some d, Some k0 =>
                   match should_bond P ns es u v d k0, count_pair il (n_key u) (n_key v) with
                   | Some fc, [(len, ifc)] => closeq (6 # 1000000) d len && rel_close fc ifc
                   | None, [] => true
                   | _, _ => false
                   end
               | _, _ => false end) (strict_pairs sel)
      | IWarnNaN w => w && existsb (fun n => match n_pos n with Some true => true | _ => false end) (filter n_selected ns)
      | INothing => match filter n_selected ns with [] => true | _ => false end
      | IErrMissing => existsb (fun n => match n_pos n with None => true | _ => false end) (filter n_selected ns)
      end
  end.
