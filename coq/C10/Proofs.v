From Coq Require Import List Bool ZArith QArith Lia.
From V Require Import C15.Model C15.Proofs C18.Proofs C10.Model.
Import ListNotations.

Lemma has_edge_app es1 es2 u v : has_edge (es1 ++ es2) u v = has_edge es1 u v || has_edge es2 u v.
Proof. unfold has_edge. apply existsb_app. Qed.

Lemma has_edge_single a b u v : has_edge [(a, b)] u v = pair_eqb (u, v) (a, b).
Proof. unfold has_edge. cbn. apply orb_false_r. Qed.

Lemma pair_eqb_spec e f : pair_eqb e f = true <-> e = f \/ e = (snd f, fst f).
Proof.
  destruct e as [a b], f as [c d]. unfold pair_eqb; cbn. rewrite orb_true_iff, !andb_true_iff, !Z.eqb_eq. split.
  - intros [[-> ->]|[-> ->]]; auto.
  - intros [H|H]; injection H as -> ->; auto.
Qed.

Lemma pair_eqb_trans e f g : pair_eqb e f = true -> pair_eqb f g = true -> pair_eqb e g = true.
Proof.
  rewrite !pair_eqb_spec. destruct e, f, g; cbn. intros [H1|H1] [H2|H2]; injection H1 as -> ->; injection H2 as -> ->; auto.
Qed.

(* ---------- the distance pass adds exactly the pairs that pass, and keeps everything ---------- *)
Lemma dist_fold_spec C NE pairs : forall es u v,
  has_edge (fold_left (fun es p => if dist_bond C NE (fst p) (snd p) && negb (has_edge es (a_key (fst p)) (a_key (snd p)))
                                   then es ++ [(a_key (fst p), a_key (snd p))] else es) pairs es) u v = true <->
  has_edge es u v = true \/
  exists a b, In (a, b) pairs /\ pair_eqb (u, v) (a_key a, a_key b) = true /\ dist_bond C NE a b = true.
Proof.
  induction pairs as [|[a b] r IH]; intros es u v; cbn [fold_left fst snd].
  - split; [auto|]. intros [H|(a & b & [] & _)]. exact H.
  - rewrite IH. split.
    + intros [H|(a' & b' & Hin & Hp & Hd)].
      * destruct (dist_bond C NE a b && negb (has_edge es (a_key a) (a_key b))) eqn:E; [|auto].
        rewrite has_edge_app, has_edge_single in H. apply orb_prop in H as [H|H]; [auto|].
        right. exists a, b. apply andb_prop in E as [E _]. split; [left; reflexivity|auto].
      * right. exists a', b'. split; [right; exact Hin|auto].
    + intros [H|(a' & b' & [Heq|Hin] & Hp & Hd)].
      * left. destruct (dist_bond C NE a b && negb (has_edge es (a_key a) (a_key b))); [|exact H].
        rewrite has_edge_app, H. reflexivity.
      * injection Heq as <- <-. left. rewrite Hd. cbn [andb].
        destruct (has_edge es (a_key a) (a_key b)) eqn:E; cbn [negb].
        -- unfold has_edge in *. apply existsb_exists in E as (f & Hf & Hfe). apply existsb_exists. exists f. split; [exact Hf|].
           eapply pair_eqb_trans; eauto.
        -- rewrite has_edge_app, has_edge_single, Hp. apply orb_true_r.
      * right. exists a', b'. auto.
Qed.

Lemma dist_pass_iff C sel NE es u v :
  has_edge (dist_pass C sel NE es) u v = true <->
  has_edge es u v = true \/
  exists a b, In (a, b) (strict_pairs sel) /\ pair_eqb (u, v) (a_key a, a_key b) = true /\ dist_bond C NE a b = true.
Proof. unfold dist_pass. apply dist_fold_spec. Qed.

(* the criterion, spelled out *)
Lemma dist_bond_spec C NE a b :
  dist_bond C NE a b = true <->
  has_edge NE (a_key a) (a_key b) = false /\
  ~ (a_element a = Some H_code /\ a_element b = Some H_code) /\
  (a_res a <> a_res b -> a_element a <> Some H_code /\ a_element b <> Some H_code) /\
  exists ea eb ra rb d2, a_element a = Some ea /\ a_element b = Some eb /\ c_radius C ea = Some ra /\ c_radius C eb = Some rb /\
    c_d2 C (a_key a) (a_key b) = Some d2 /\
    (0 <= (1 # 2) * (ra + rb) * c_fudge C)%Q /\
    (d2 <= ((1 # 2) * (ra + rb) * c_fudge C) * ((1 # 2) * (ra + rb) * c_fudge C))%Q.
Proof.
  unfold dist_bond, hydrogen_rule, close_enough.
  assert (Hopt : forall o, opt_eqbZ o (Some H_code) = true <-> o = Some H_code).
  { intros [x|]; cbn; [rewrite Z.eqb_eq; split; congruence|split; discriminate]. }
  rewrite !andb_true_iff, !negb_true_iff. split.
  - intros [[Hne [Hhh Hres]] Hclose]. split; [exact Hne|]. split; [|split].
    + intros [Ha Hb]. apply Hopt in Ha, Hb. rewrite Ha, Hb in Hhh. discriminate.
    + intros Hr. apply andb_false_iff in Hres as [Hres|Hres].
      * apply negb_false_iff, Z.eqb_eq in Hres. contradiction.
      * apply orb_false_iff in Hres as [H1 H2]. split; intros H; apply Hopt in H; congruence.
    + destruct (a_element a) as [ea|]; [|discriminate]. destruct (a_element b) as [eb|]; [|discriminate].
      destruct (c_radius C ea) as [ra|] eqn:Ra; [|discriminate]. destruct (c_radius C eb) as [rb|] eqn:Rb; [|discriminate].
      destruct (c_d2 C (a_key a) (a_key b)) as [d2|] eqn:Ed; [|discriminate].
      apply andb_prop in Hclose as [H1 H2]. apply Qle_bool_iff in H1, H2. exists ea, eb, ra, rb, d2. repeat split; auto.
  - intros (Hne & Hhh & Hres & ea & eb & ra & rb & d2 & Ea & Eb & Ra & Rb & Ed & H1 & H2).
    split; [split; [exact Hne|split]|].
    + destruct (opt_eqbZ (a_element a) (Some H_code)) eqn:X, (opt_eqbZ (a_element b) (Some H_code)) eqn:Y; try reflexivity.
      apply Hopt in X, Y. exfalso. apply Hhh. auto.
    + destruct (Z.eqb_spec (a_res a) (a_res b)) as [|Hn]; [reflexivity|]. cbn. destruct (Hres Hn) as [Ha Hb].
      destruct (opt_eqbZ (a_element a) (Some H_code)) eqn:X; [apply Hopt in X; contradiction|].
      destruct (opt_eqbZ (a_element b) (Some H_code)) eqn:Y; [apply Hopt in Y; contradiction|]. reflexivity.
    + rewrite Ea, Eb, Ra, Rb, Ed. apply andb_true_intro. split; apply Qle_bool_iff; assumption.
Qed.

(* ---------- nothing is ever removed ---------- *)
Lemma dist_pass_keeps C sel NE es u v : has_edge es u v = true -> has_edge (dist_pass C sel NE es) u v = true.
Proof. intros H. apply dist_pass_iff. left. exact H. Qed.

Lemma add_edges_keeps new : forall es u v, has_edge es u v = true -> has_edge (add_edges es new) u v = true.
Proof.
  unfold add_edges. induction new as [|e r IH]; intros es u v H; cbn; [exact H|].
  apply IH. destruct (has_edge es (fst e) (snd e)); [exact H|]. rewrite has_edge_app, H. reflexivity.
Qed.

Lemma residue_step_keeps C atoms s r u v :
  has_edge (s_edges s) u v = true -> has_edge (s_edges (residue_step C atoms s r)) u v = true.
Proof.
  intros H. unfold residue_step. destruct (negb (c_allow_name C)); [exact H|].
  destruct (name_pass C _) as [[es ne]|]; cbn.
  - apply add_edges_keeps. exact H.
  - destruct (c_allow_dist C); [apply dist_pass_keeps|]; exact H.
Qed.

Lemma keeps_edges_lemma C atoms pre u v :
  has_edge pre u v = true -> has_edge (s_edges (final_edges C atoms pre)) u v = true.
Proof.
  intros H. unfold final_edges.
  assert (G : forall rs s, has_edge (s_edges s) u v = true ->
               has_edge (s_edges (fold_left (residue_step C atoms) rs s)) u v = true).
  { induction rs as [|r rs IH]; intros s Hs; cbn; [exact Hs|]. apply IH. apply residue_step_keeps. exact Hs. }
  specialize (G (dedupZ (map a_res atoms) []) {| s_edges := pre; s_non_edges := []; s_warnings := [] |} H).
  destruct (c_allow_dist C); cbn; [apply dist_pass_keeps|]; exact G.
Qed.

(* ---------- name-based bonds are the reference block's bonds among the atoms present ---------- *)
Lemma name_pass_edges C a0 r es ne :
  name_pass C (a0 :: r) = Some (es, ne) ->
  forall u v, In (u, v) es <->
    exists B n m au av, c_block C (a_resname a0) = Some B /\ In (n, m) (b_edges B) /\
      named (a0 :: r) n = [au] /\ named (a0 :: r) m = [av] /\ u = a_key au /\ v = a_key av.
Proof.
  unfold name_pass. cbv beta iota zeta. remember (a0 :: r) as ats eqn:Eats. clear Eats.
  destruct (c_block C (a_resname a0)) as [B|] eqn:EB; [|discriminate].
  destruct (existsb _ ats); [discriminate|]. intros H u v. injection H as <- _. rewrite in_flat_map. split.
  - intros ([n m] & Hin & H). change (fst (n, m)) with n in H. change (snd (n, m)) with m in H.
    destruct (named ats n) as [|au [|? ?]] eqn:En; try (destruct H; fail).
    destruct (named ats m) as [|av [|? ?]] eqn:Em; try (destruct H; fail).
    destruct H as [H|[]]. injection H as <- <-. exists B, n, m, au, av. repeat split; auto.
  - intros (B' & n & m & au & av & HB & Hin & Hn & Hm & -> & ->). injection HB as <-.
    exists (n, m). split; [exact Hin|]. change (fst (n, m)) with n. change (snd (n, m)) with m. rewrite Hn, Hm. left; reflexivity.
Qed.

(* ---------- molecules ---------- *)
Lemma grow_sound re r fuel : forall seen,
  (forall x, In x seen -> exists k, walk re k r x) ->
  forall y, In y (grow re fuel seen) -> exists k, walk re k r y.
Proof.
  induction fuel as [|f IH]; intros seen Hs y Hy; cbn in Hy; [apply Hs; exact Hy|].
  set (new := dedupZ (filter (fun x => negb (existsb (Z.eqb x) seen)) (flat_map (nbrs re) seen)) []) in *.
  assert (Hnew : forall x, In x new -> exists k, walk re k r x).
  { intros x Hx. unfold new in Hx.
    assert (Hd : forall l seen0 z, In z (dedupZ l seen0) -> In z l).
    { induction l as [|w l IHl]; intros seen0 z; cbn; [tauto|]. destruct (existsb (Z.eqb w) seen0); [intros H; right; eauto|].
      intros [->|H]; [left; reflexivity|right; eauto]. }
    apply Hd in Hx. apply filter_In in Hx as [Hx _]. apply in_flat_map in Hx as (s0 & Hs0 & Hx).
    destruct (Hs s0 Hs0) as [k Hk]. exists (S k). eapply walk_snoc; eauto. }
  destruct new as [|n0 rest] eqn:En; [apply Hs; exact Hy|].
  eapply IH; [|exact Hy]. intros x Hx. apply in_app_iff in Hx as [Hx|Hx]; [apply Hs; exact Hx|apply Hnew; exact Hx].
Qed.

Lemma fold_min_in l : forall d, fold_left Z.min l d = d \/ In (fold_left Z.min l d) l.
Proof.
  induction l as [|x l IH]; intros d; cbn; [left; reflexivity|].
  destruct (IH (Z.min d x)) as [H|H]; [|right; right; exact H].
  rewrite H. destruct (Z.min_spec d x) as [[_ ->]|[_ ->]]; [left; reflexivity|right; left; reflexivity].
Qed.

Lemma mol_of_reachable atoms es r : exists k, walk (res_graph atoms es) k r (mol_of atoms es r).
Proof.
  unfold mol_of. destruct (fold_min_in (reach_set atoms es r) r) as [H|H].
  - rewrite H. exists 0%nat. constructor.
  - eapply grow_sound; [|exact H]. intros x [<-|[]]. exists 0%nat. constructor.
Qed.

Lemma walk_trans re k m a b c : walk re k a b -> walk re m b c -> walk re (k + m) a c.
Proof.
  induction 1 as [k a|k a x b Hx Hw IH]; intros H2.
  - clear -H2. induction k; cbn; [exact H2|]. apply walk_mono. exact IHk.
  - cbn. eapply walk_step; [exact Hx|]. apply IH. exact H2.
Qed.

(* two residues placed in the same molecule are connected in the residue graph *)
Lemma same_molecule_connected atoms es r1 r2 :
  mol_of atoms es r1 = mol_of atoms es r2 ->
  exists k, walk (res_graph atoms es) k r1 r2.
Proof.
  intros H. destruct (mol_of_reachable atoms es r1) as [k1 H1]. destruct (mol_of_reachable atoms es r2) as [k2 H2].
  rewrite H in H1. apply walk_sym in H2. eexists. eapply walk_trans; eauto.
Qed.
