(* C10 — case type and the two boolean functions evaluated on generated cases. *)
From Coq Require Import List Bool ZArith QArith String.
From V Require Import C15.Model C10.Model C10.Spec.
From V Require Import Extracted.Radii.
Import ListNotations.

Record shipped := {
  h_allow_name : bool; h_allow_dist : bool; h_fudge : Q;
  h_elements : list (Z * string);                  (* element code -> element symbol *)
  h_blocks : list (Z * block);                     (* residue-name id -> reference block *)
  h_d2 : list (Z * Z * Q) }.                       (* squared distances of all pairs closer than the search radius *)

Definition radius_of (tbl : list (string * Q)) (els : list (Z * string)) (code : Z) : option Q :=
  match find (fun e => Z.eqb (fst e) code) els with
  | Some e => match find (fun r => String.eqb (fst r) (snd e)) tbl with Some r => Some (snd r) | None => None end
  | None => None end.

(* the model runs on the table regenerated from the source, the property is judged with Bondi's table *)
Definition config_with (tbl : list (string * Q)) (h : shipped) : config :=
  {| c_allow_name := h_allow_name h; c_allow_dist := h_allow_dist h; c_fudge := h_fudge h;
     c_radius := radius_of tbl (h_elements h);
     c_block := fun n => match find (fun b => Z.eqb (fst b) n) (h_blocks h) with Some b => Some (snd b) | None => None end;
     c_d2 := fun i j => match find (fun t => pair_eqb (fst t) (i, j)) (h_d2 h) with Some t => Some (snd t) | None => None end |}.

Inductive case :=
| CBonds (h : shipped) (atoms : list atom) (pre : list (Z * Z))
         (impl_edges : list (Z * Z)) (impl_mols : list (list Z)) (impl_warnings : list (Z * bool)).

Definition edges_same (a b : list (Z * Z)) : bool :=
  forallb (fun e => has_edge b (fst e) (snd e)) a && forallb (fun e => has_edge a (fst e) (snd e)) b.

Definition mol_index (mols : list (list Z)) (k : Z) : option nat :=
  (fix go l i := match l with [] => None | m :: r => if existsb (Z.eqb k) m then Some i else go r (S i) end) mols 0%nat.

Definition opt_nat_eqb (a b : option nat) : bool :=
  match a, b with Some x, Some y => Nat.eqb x y | None, None => true | _, _ => false end.

Definition warn_eqb (a b : Z * bool) : bool := Z.eqb (fst a) (fst b) && Bool.eqb (snd a) (snd b).

Definition corr (k : case) : bool :=
  match k with
  | CBonds h atoms pre iedges imols iwarn =>
      let C := config_with vdw_radii h in
      let s := final_edges C atoms pre in
      edges_same (s_edges s) iedges
      && forallb (fun p => Bool.eqb (Z.eqb (mol_of atoms (s_edges s) (a_res (fst p))) (mol_of atoms (s_edges s) (a_res (snd p))))
                                    (opt_nat_eqb (mol_index imols (a_key (fst p))) (mol_index imols (a_key (snd p)))))
                 (strict_pairs atoms)
      (* warnings: same number of unknown-residue and of inconsistent-data warnings *)
      && Nat.eqb (List.length (filter snd (s_warnings s))) (List.length (filter snd iwarn))
      && Nat.eqb (List.length (s_warnings s)) (List.length iwarn)
  end.

(* the property on the implementation's output, from the statement (not via the loops) *)
Definition name_known (C : config) (atoms : list atom) (r : Z) : option block :=
  let ats := filter (fun a => Z.eqb (a_res a) r) atoms in
  match ats with
  | a0 :: _ => match c_block C (a_resname a0) with
               | Some B => if existsb (fun a => match a_name a with Some n => Nat.ltb 1 (List.length (named ats n)) | None => false end) ats
                           then None else Some B
               | None => None end
  | [] => None end.

Definition block_says (B : block) (a b : atom) : option bool :=     (* Some true: bonded in the block; Some false: a non-bond *)
  match a_name a, a_name b with
  | Some n, Some m => if existsb (Z.eqb n) (b_names B) && existsb (Z.eqb m) (b_names B)
                      then Some (has_edge (b_edges B) n m) else None
  | _, _ => None end.

Definition expected_edge (C : config) (atoms : list atom) (pre : list (Z * Z)) (a b : atom) : bool :=
  has_edge pre (a_key a) (a_key b)
  || match (if c_allow_name C && Z.eqb (a_res a) (a_res b) then name_known C atoms (a_res a) else None) with
     | Some B => match block_says B a b with
                 | Some true => true
                 | Some false => false
                 | None => c_allow_dist C && hydrogen_rule a b && close_enough C a b
                 end
     | None => c_allow_dist C && hydrogen_rule a b && close_enough C a b
     end.

Definition prop (k : case) : bool :=
  match k with
  | CBonds h atoms pre iedges imols iwarn =>
      let C := config_with bondi_nm h in
      (* every atom in exactly one molecule *)
      forallb (fun a => Nat.eqb (List.length (filter (fun m => existsb (Z.eqb (a_key a)) m) imols)) 1) atoms
      && Nat.eqb (List.length (List.concat imols)) (List.length atoms)
      (* bonds: exactly the pre-existing ones, the reference bonds among present names, and the pairs meeting the distance test *)
      && forallb (fun p => Bool.eqb (has_edge iedges (a_key (fst p)) (a_key (snd p))) (expected_edge C atoms pre (fst p) (snd p)))
                 (strict_pairs atoms)
      && forallb (fun e => existsb (fun a => Z.eqb (a_key a) (fst e)) atoms && existsb (fun a => Z.eqb (a_key a) (snd e)) atoms
                           && negb (Z.eqb (fst e) (snd e))) iedges
      (* a residue is wholly inside one molecule; the residues of one molecule are connected *)
      && forallb (fun p => negb (Z.eqb (a_res (fst p)) (a_res (snd p)))
                           || opt_nat_eqb (mol_index imols (a_key (fst p))) (mol_index imols (a_key (snd p)))) (strict_pairs atoms)
      && forallb (fun p => negb (opt_nat_eqb (mol_index imols (a_key (fst p))) (mol_index imols (a_key (snd p))))
                           || existsb (Z.eqb (a_res (snd p))) (reach_set atoms iedges (a_res (fst p)))) (strict_pairs atoms)
      && forallb (fun p => opt_nat_eqb (mol_index imols (a_key (fst p))) (mol_index imols (a_key (snd p)))
                           || negb (existsb (Z.eqb (a_res (snd p))) (reach_set atoms iedges (a_res (fst p))))) (strict_pairs atoms)
  end.
