(* C10 — model of vermouth/processors/make_bonds.py: make_bonds (l.230-305),
   _bonds_from_names (l.150-227), _bonds_from_distance (l.66-147) after the KD-tree candidate
   search (every pair within the largest possible threshold is a candidate), and the split into
   molecules along the residue graph. Squared distances between atoms are exact rationals
   computed from the decimal coordinates; van der Waals radii come from the table regenerated
   from the source. *)
From Coq Require Import List Bool ZArith QArith.
From V Require Import C15.Model.
Import ListNotations.

Record atom := {
  a_key : Z;                 (* index after disjoint_union_all: 0, 1, 2, ... *)
  a_res : Z;                 (* identity of (mol_idx, chain, resid, resname, insertion_code) *)
  a_resname : Z;
  a_name : option Z;         (* atom name *)
  a_element : option Z }.    (* element code; 1 = H *)

Definition H_code : Z := 1.

(* a reference block: atom names and the bonds between them *)
Record block := { b_names : list Z; b_edges : list (Z * Z) }.

Record config := {
  c_allow_name : bool; c_allow_dist : bool; c_fudge : Q;
  c_radius : Z -> option Q;                 (* VDW_RADII by element code *)
  c_block : Z -> option block;              (* force_field.blocks by residue name *)
  c_d2 : Z -> Z -> option Q }.              (* squared distance; None = beyond every threshold *)

Definition pair_eqb (e f : Z * Z) : bool :=
  (Z.eqb (fst e) (fst f) && Z.eqb (snd e) (snd f)) || (Z.eqb (fst e) (snd f) && Z.eqb (snd e) (fst f)).
Definition has_edge (es : list (Z * Z)) (u v : Z) : bool := existsb (pair_eqb (u, v)) es.

Definition opt_eqbZ (a b : option Z) : bool :=
  match a, b with Some x, Some y => Z.eqb x y | None, None => true | _, _ => false end.

(* the test of _bonds_from_distance for one candidate pair (l.120-146) *)
Definition close_enough (C : config) (a b : atom) : bool :=
  match a_element a, a_element b with
  | Some ea, Some eb =>
      match c_radius C ea, c_radius C eb, c_d2 C (a_key a) (a_key b) with
      | Some ra, Some rb, Some d2 =>
          let thr := (1 # 2) * (ra + rb) * c_fudge C in
          Qle_bool 0 thr && Qle_bool d2 (thr * thr)
      | _, _, _ => false
      end
  | _, _ => false
  end.

Definition hydrogen_rule (a b : atom) : bool :=
  let ha := opt_eqbZ (a_element a) (Some H_code) in
  let hb := opt_eqbZ (a_element b) (Some H_code) in
  negb (ha && hb) && negb (negb (Z.eqb (a_res a) (a_res b)) && (ha || hb)).

Definition dist_bond (C : config) (non_edges : list (Z * Z)) (a b : atom) : bool :=
  negb (has_edge non_edges (a_key a) (a_key b)) && hydrogen_rule a b && close_enough C a b.

Fixpoint strict_pairs {A} (l : list A) : list (A * A) :=
  match l with [] => [] | x :: r => map (pair x) r ++ strict_pairs r end.

(* _bonds_from_distance over the node subset [sel] *)
Definition dist_pass (C : config) (sel : list atom) (non_edges : list (Z * Z)) (es : list (Z * Z)) : list (Z * Z) :=
  fold_left (fun es p => if dist_bond C non_edges (fst p) (snd p) && negb (has_edge es (a_key (fst p)) (a_key (snd p)))
                         then es ++ [(a_key (fst p), a_key (snd p))] else es)
            (strict_pairs sel) es.

(* _bonds_from_names for one residue: Some (new edges, non-edges) or None (KeyError: no block / duplicate names) *)
Definition named (ats : list atom) (n : Z) : list atom := filter (fun a => opt_eqbZ (a_name a) (Some n)) ats.

Definition name_pass (C : config) (ats : list atom) : option (list (Z * Z) * list (Z * Z)) :=
  match ats with
  | [] => Some ([], [])
  | a0 :: _ =>
      match c_block C (a_resname a0) with
      | None => None
      | Some B =>
          if existsb (fun a => match a_name a with Some n => Nat.ltb 1 (List.length (named ats n)) | None => false end) ats
          then None
          else
            let idx := fun n => match named ats n with [a] => Some (a_key a) | _ => None end in
            let edges := flat_map (fun e => match idx (fst e), idx (snd e) with Some u, Some v => [(u, v)] | _, _ => [] end) (b_edges B) in
            let nonb := flat_map (fun p => if has_edge (b_edges B) (fst p) (snd p) then []
                                           else match idx (fst p), idx (snd p) with Some u, Some v => [(u, v)] | _, _ => [] end)
                                 (strict_pairs (b_names B)) in
            Some (edges, nonb)
      end
  end.

Fixpoint dedupZ (l : list Z) (seen : list Z) : list Z :=
  match l with [] => [] | x :: r => if existsb (Z.eqb x) seen then dedupZ r seen else x :: dedupZ r (x :: seen) end.

Definition add_edges (es new : list (Z * Z)) : list (Z * Z) :=
  fold_left (fun es e => if has_edge es (fst e) (snd e) then es else es ++ [e]) new es.

Record state := { s_edges : list (Z * Z); s_non_edges : list (Z * Z); s_warnings : list (Z * bool) }.   (* residue, unknown-residue? *)

(* the loop over residues (l.262-287) *)
Definition residue_step (C : config) (atoms : list atom) (s : state) (r : Z) : state :=
  let ats := filter (fun a => Z.eqb (a_res a) r) atoms in
  if negb (c_allow_name C) then s else
  match name_pass C ats with
  | Some (es, ne) => {| s_edges := add_edges (s_edges s) es; s_non_edges := s_non_edges s ++ ne; s_warnings := s_warnings s |}
  | None =>
      let unknown := match ats with a0 :: _ => match c_block C (a_resname a0) with None => true | Some _ => false end | [] => false end in
      {| s_edges := if c_allow_dist C then dist_pass C ats [] (s_edges s) else s_edges s;
         s_non_edges := s_non_edges s; s_warnings := s_warnings s ++ [(r, unknown)] |}
  end.

Definition final_edges (C : config) (atoms : list atom) (pre : list (Z * Z)) : state :=
  let rs := dedupZ (map a_res atoms) [] in
  let s := fold_left (residue_step C atoms) rs {| s_edges := pre; s_non_edges := []; s_warnings := [] |} in
  if c_allow_dist C then {| s_edges := dist_pass C atoms (s_non_edges s) (s_edges s); s_non_edges := s_non_edges s;
                            s_warnings := s_warnings s |}
  else s.

(* the molecule of an atom: the smallest residue reachable from its residue in the residue graph *)
Definition res_graph (atoms : list atom) (es : list (Z * Z)) : list (Z * Z) :=
  flat_map (fun e => match find (fun a => Z.eqb (a_key a) (fst e)) atoms, find (fun a => Z.eqb (a_key a) (snd e)) atoms with
                     | Some a, Some b => if Z.eqb (a_res a) (a_res b) then [] else [(a_res a, a_res b)]
                     | _, _ => [] end) es.

(* everything reachable from a set of residues: breadth-first closure, at most [fuel] rounds *)
Fixpoint grow (re : list (Z * Z)) (fuel : nat) (seen : list Z) : list Z :=
  match fuel with
  | O => seen
  | S f =>
      let new := dedupZ (filter (fun x => negb (existsb (Z.eqb x) seen)) (flat_map (nbrs re) seen)) [] in
      match new with [] => seen | _ => grow re f (seen ++ new) end
  end.

Definition reach_set (atoms : list atom) (es : list (Z * Z)) (r : Z) : list Z :=
  grow (res_graph atoms es) (List.length (dedupZ (map a_res atoms) [])) [r].

Definition mol_of (atoms : list atom) (es : list (Z * Z)) (r : Z) : Z :=
  fold_left Z.min (reach_set atoms es r) r.
