(* C10 — the literal table of van der Waals radii of the cited papers (A. Bondi, J. Phys. Chem. 68, 441, 1964),
   in Angstrom; the implementation uses nm. Written from the paper, not from the source. *)
From Coq Require Import List String QArith.
Import ListNotations.

Definition bondi_angstrom : list (string * Q) :=
  [("H", 120 # 100); ("D", 120 # 100); ("He", 140 # 100); ("C", 170 # 100); ("N", 155 # 100); ("O", 152 # 100);
   ("F", 147 # 100); ("Ne", 154 # 100); ("Si", 210 # 100); ("P", 180 # 100); ("S", 180 # 100); ("Cl", 175 # 100);
   ("Ar", 188 # 100); ("As", 185 # 100); ("Se", 190 # 100); ("Br", 185 # 100); ("Kr", 202 # 100); ("Te", 206 # 100);
   ("I", 198 # 100); ("Xe", 216 # 100)]%string.

Definition bondi_nm : list (string * Q) := map (fun er => (fst er, snd er / 10)) bondi_angstrom.
