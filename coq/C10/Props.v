(* C10 — property theorems only. *)
From Coq Require Import List Bool ZArith QArith String.
From V Require Import C15.Model C15.Proofs C10.Model C10.Spec C10.Proofs C10.Closure.
From V Require Import Extracted.Radii.
Import ListNotations.

(* A distance-based pass adds a bond between u and v exactly when some candidate pair of the
   considered atoms with these keys passes the test, and never removes a bond. *)
Theorem distance_pass_iff : forall C sel NE es u v,
  has_edge (dist_pass C sel NE es) u v = true <->
  has_edge es u v = true \/
  exists a b, In (a, b) (strict_pairs sel) /\ pair_eqb (u, v) (a_key a, a_key b) = true /\ dist_bond C NE a b = true.
Proof. exact dist_pass_iff. Qed.
Print Assumptions distance_pass_iff.

(* The test: not a non-bond of the reference block, not H-H, no hydrogen to another residue,
   both elements have a radius, and the distance is within fudge * (r1 + r2) / 2. *)
Theorem distance_edge_iff : forall C NE a b,
  dist_bond C NE a b = true <->
  has_edge NE (a_key a) (a_key b) = false /\
  ~ (a_element a = Some H_code /\ a_element b = Some H_code) /\
  (a_res a <> a_res b -> a_element a <> Some H_code /\ a_element b <> Some H_code) /\
  exists ea eb ra rb d2, a_element a = Some ea /\ a_element b = Some eb /\ c_radius C ea = Some ra /\ c_radius C eb = Some rb /\
    c_d2 C (a_key a) (a_key b) = Some d2 /\
    (0 <= (1 # 2) * (ra + rb) * c_fudge C)%Q /\
    (d2 <= ((1 # 2) * (ra + rb) * c_fudge C) * ((1 # 2) * (ra + rb) * c_fudge C))%Q.
Proof. exact dist_bond_spec. Qed.
Print Assumptions distance_edge_iff.

(* every pre-existing bond is kept *)
Theorem keeps_edges : forall C atoms pre u v,
  has_edge pre u v = true -> has_edge (s_edges (final_edges C atoms pre)) u v = true.
Proof. exact keeps_edges_lemma. Qed.
Print Assumptions keeps_edges.

(* name-based bonds are exactly the reference block's bonds among the atoms present *)
Theorem name_edges_exact : forall C a0 r es ne,
  name_pass C (a0 :: r) = Some (es, ne) ->
  forall u v, In (u, v) es <->
    exists B n m au av, c_block C (a_resname a0) = Some B /\ In (n, m) (b_edges B) /\
      named (a0 :: r) n = [au] /\ named (a0 :: r) m = [av] /\ u = a_key au /\ v = a_key av.
Proof. exact name_pass_edges. Qed.
Print Assumptions name_edges_exact.

(* The molecule of an atom is a function of its residue (a residue is never split; residues
   of different input molecules are different residues because mol_idx is part of the residue
   identity), and residues placed in one molecule are connected in the residue graph. *)
Theorem molecule_residues_connected : forall atoms es r1 r2,
  mol_of atoms es r1 = mol_of atoms es r2 -> exists k, walk (res_graph atoms es) k r1 r2.
Proof. exact same_molecule_connected. Qed.
Print Assumptions molecule_residues_connected.

(* ... and conversely residues joined by a path of bonds are placed in the same molecule: the molecules are exactly the
   connected components of the residue graph (the breadth-first closure is complete: pigeon-hole on the fuel). *)
Theorem connected_residues_same_molecule : forall atoms es r1 r2 k,
  In r1 (map a_res atoms) -> walk (res_graph atoms es) k r1 r2 -> mol_of atoms es r1 = mol_of atoms es r2.
Proof. exact connected_same_molecule. Qed.
Print Assumptions connected_residues_same_molecule.

(* the radii regenerated from the source are Bondi's (1964) in nm; D as H *)
Definition radius_ok (er : string * Q) : bool :=
  match find (fun b => String.eqb (fst b) (fst er)) bondi_angstrom with
  | Some b => Qeq_bool (snd er * 10) (snd b)
  | None => false end.

Theorem radii_are_bondi :
  forallb radius_ok vdw_radii = true /\ List.length vdw_radii = List.length bondi_angstrom.
Proof. vm_compute. split; reflexivity. Qed.
Print Assumptions radii_are_bondi.
