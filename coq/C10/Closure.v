(* C10 — completeness of the breadth-first closure: residues connected in the residue graph are placed in the same
   molecule (together with same_molecule_connected: the molecules are exactly the connected components). *)
From Coq Require Import List Bool ZArith Lia.
From V Require Import C15.Model C15.Proofs C18.Proofs C10.Model C10.Proofs.
Import ListNotations.
Open Scope Z_scope.

Lemma existsb_eqb_in x l : existsb (Z.eqb x) l = true <-> In x l.
Proof. rewrite existsb_exists. split; [intros (y & Hy & E); apply Z.eqb_eq in E; subst; exact Hy|intros H; exists x; split; [exact H|apply Z.eqb_refl]]. Qed.

Lemma dedupZ_spec l : forall seen z, In z (dedupZ l seen) <-> In z l /\ ~ In z seen.
Proof.
  induction l as [|w l IH]; intros seen z; cbn; [tauto|]. destruct (existsb (Z.eqb w) seen) eqn:E.
  - apply existsb_eqb_in in E. rewrite IH. split; [tauto|]. intros [[<-|H] Hn]; [contradiction|tauto].
  - assert (Hw : ~ In w seen) by (intros H; apply existsb_eqb_in in H; congruence). cbn. rewrite IH. cbn. split.
    + intros [<-|[H1 H2]]; [tauto|]. split; [tauto|]. intros H. apply H2. right. exact H.
    + intros [[<-|H] Hn]; [left; reflexivity|]. destruct (Z.eq_dec w z) as [->|Hne]; [left; reflexivity|right]. split; [exact H|]. intros [E'|H']; [contradiction|contradiction].
Qed.

Lemma dedupZ_nodup l : forall seen, NoDup (dedupZ l seen).
Proof.
  induction l as [|w l IH]; intros seen; cbn; [constructor|]. destruct (existsb (Z.eqb w) seen); [apply IH|].
  constructor; [|apply IH]. intros H. apply dedupZ_spec in H as [_ H]. apply H. left. reflexivity.
Qed.

Lemma nodup_app (a b : list Z) : NoDup a -> NoDup b -> (forall x, In x a -> ~ In x b) -> NoDup (a ++ b).
Proof.
  induction a as [|x r IH]; intros Ha Hb Hd; [exact Hb|]. cbn. inversion Ha as [|? ? Hx Hr]; subst. constructor.
  - rewrite in_app_iff. intros [H|H]; [contradiction|]. apply (Hd x (or_introl eq_refl) H).
  - apply IH; [exact Hr|exact Hb|]. intros y Hy. apply Hd. right. exact Hy.
Qed.

Definition closed (re : list (Z * Z)) (S : list Z) : Prop := forall x y, In x S -> In y (nbrs re x) -> In y S.

Lemma closed_walk re S : closed re S -> forall k a b, walk re k a b -> In a S -> In b S.
Proof. intros Hc k a b H. induction H as [k a|k a c b Hc' Hw IH]; intros Ha; [exact Ha|]. apply IH. eapply Hc; eauto. Qed.

Lemma grow_incl re fuel : forall seen x, In x seen -> In x (grow re fuel seen).
Proof.
  induction fuel as [|f IH]; intros seen x Hx; cbn; [exact Hx|].
  destruct (dedupZ _ []) eqn:E; [exact Hx|]. apply IH. apply in_or_app. left. exact Hx.
Qed.

(* with enough fuel the result is closed under taking neighbours *)
Lemma grow_closed re (U : list Z) : (forall x y, In y (nbrs re x) -> In y U) ->
  forall fuel seen, NoDup seen -> incl seen U -> (List.length U < List.length seen + fuel)%nat -> closed re (grow re fuel seen).
Proof.
  intros HU. induction fuel as [|f IH]; intros seen Hnd Hinc Hfuel.
  - exfalso. pose proof (NoDup_incl_length Hnd Hinc). lia.
  - cbn [grow]. set (new := dedupZ (filter (fun x => negb (existsb (Z.eqb x) seen)) (flat_map (nbrs re) seen)) []).
    assert (Hnew : forall z, In z new <-> (exists s, In s seen /\ In z (nbrs re s)) /\ ~ In z seen).
    { intros z. unfold new. rewrite dedupZ_spec, filter_In, in_flat_map, negb_true_iff. split.
      - intros [[H1 H2] _]. split; [exact H1|]. intros H. apply existsb_eqb_in in H. congruence.
      - intros [H1 H2]. split; [split; [exact H1|]|intros []]. destruct (existsb (Z.eqb z) seen) eqn:E; [apply existsb_eqb_in in E; contradiction|reflexivity]. }
    destruct new as [|n0 rest] eqn:En.
    + intros x y Hx Hy. destruct (in_dec Z.eq_dec y seen) as [|Hn]; [assumption|]. exfalso.
      assert (X : In y []) by (apply Hnew; split; [exists x; auto|exact Hn]). destruct X.
    + rewrite <- En in *. apply IH.
      * apply nodup_app; [exact Hnd|unfold new; apply dedupZ_nodup|]. intros x Hx Hx'. apply Hnew in Hx' as [_ Hx']. contradiction.
      * intros z Hz. apply in_app_iff in Hz as [Hz|Hz]; [apply Hinc; exact Hz|]. apply Hnew in Hz as [(s & _ & Hs) _]. eapply HU; eauto.
      * rewrite app_length. assert (List.length new >= 1)%nat by (rewrite En; cbn; lia). lia.
Qed.

Lemma res_graph_nbrs atoms es x y : In y (nbrs (res_graph atoms es) x) -> In y (map a_res atoms) /\ In x (map a_res atoms).
Proof.
  unfold nbrs, res_graph. rewrite in_flat_map. intros ([u v] & Hin & H). apply in_flat_map in Hin as (e & _ & Hin).
  destruct (find (fun a => Z.eqb (a_key a) (fst e)) atoms) as [a|] eqn:Ea; [|destruct Hin].
  destruct (find (fun a => Z.eqb (a_key a) (snd e)) atoms) as [b|] eqn:Eb; [|destruct Hin].
  destruct (Z.eqb (a_res a) (a_res b)); [destruct Hin|]. destruct Hin as [[= <- <-]|[]].
  apply find_some in Ea as [Ia _], Eb as [Ib _]. cbn in H. apply in_app_iff in H as [H|H].
  - destruct (Z.eqb_spec (a_res a) x) as [<-|]; [|destruct H]. destruct H as [<-|[]]. split; apply in_map; assumption.
  - destruct (Z.eqb_spec (a_res b) x) as [<-|]; [|destruct H]. destruct H as [<-|[]]. split; apply in_map; assumption.
Qed.

Lemma reach_set_closed atoms es r : In r (map a_res atoms) -> closed (res_graph atoms es) (reach_set atoms es r).
Proof.
  intros Hr. unfold reach_set. set (U := dedupZ (map a_res atoms) []).
  assert (HU : forall z, In z U <-> In z (map a_res atoms)) by (intros z; unfold U; rewrite dedupZ_spec; cbn; tauto).
  apply (grow_closed _ U).
  - intros x y Hy. apply HU. apply (res_graph_nbrs atoms es x y Hy).
  - constructor; [intros []|constructor].
  - intros z [<-|[]]. apply HU. exact Hr.
  - cbn. lia.
Qed.

Lemma reach_set_spec atoms es r x : In r (map a_res atoms) ->
  (In x (reach_set atoms es r) <-> exists k, walk (res_graph atoms es) k r x).
Proof.
  intros Hr. split.
  - intros H. eapply grow_sound; [|exact H]. intros y [<-|[]]. exists 0%nat. constructor.
  - intros [k Hk]. eapply closed_walk; [apply reach_set_closed; exact Hr|exact Hk|]. unfold reach_set. apply grow_incl. left. reflexivity.
Qed.

Lemma fold_min_le l : forall d, fold_left Z.min l d <= d /\ forall x, In x l -> fold_left Z.min l d <= x.
Proof.
  induction l as [|y l IH]; intros d; cbn; [split; [lia|tauto]|]. destruct (IH (Z.min d y)) as [H1 H2]. split; [lia|].
  intros x [<-|Hx]; [lia|auto].
Qed.

(* residues joined by a path of bonds end up in the same molecule *)
Theorem connected_same_molecule atoms es r1 r2 k :
  In r1 (map a_res atoms) -> walk (res_graph atoms es) k r1 r2 -> mol_of atoms es r1 = mol_of atoms es r2.
Proof.
  intros Hr1 Hw.
  assert (Hr2 : In r2 (map a_res atoms)).
  { clear -Hr1 Hw. induction Hw as [k a|k a c b Hc Hw IH]; [exact Hr1|]. apply IH. apply (res_graph_nbrs atoms es a c Hc). }
  assert (Hsame : forall x, In x (reach_set atoms es r1) <-> In x (reach_set atoms es r2)).
  { intros x. rewrite !reach_set_spec by assumption. split; intros [j Hj].
    - apply walk_sym in Hw. eexists. eapply walk_trans; eauto.
    - eexists. eapply walk_trans; eauto. }
  assert (Hin1 : In r1 (reach_set atoms es r1)) by (apply reach_set_spec; [exact Hr1|exists 0%nat; constructor]).
  assert (Hin2 : In r2 (reach_set atoms es r2)) by (apply reach_set_spec; [exact Hr2|exists 0%nat; constructor]).
  unfold mol_of. destruct (fold_min_le (reach_set atoms es r1) r1) as [A1 A2]. destruct (fold_min_le (reach_set atoms es r2) r2) as [B1 B2].
  apply Z.le_antisymm.
  - destruct (fold_min_in (reach_set atoms es r2) r2) as [E|E].
    + rewrite E. apply A2. apply Hsame. exact Hin2.
    + apply A2. apply Hsame. exact E.
  - destruct (fold_min_in (reach_set atoms es r1) r1) as [E|E].
    + rewrite E. apply B2. apply Hsame. exact Hin1.
    + apply B2. apply Hsame. exact E.
Qed.
