(* C13 — proofs about the content lines of a block (C13/Lines.v). *)
From Coq Require Import List Bool Arith NArith String Ascii Lia.
From V Require Import C13.Tokenizer C13.TokProofs C13.Lines.
Import ListNotations.

Lemma txt_eqb_true (a : txt) : forall b, txt_eqb a b = true -> a = b.
Proof.
  induction a as [|x a IH]; intros [|y b]; cbn; try discriminate; [reflexivity|].
  intros H. apply andb_prop in H as [H1 H2]. apply Ascii.eqb_eq in H1. subst. f_equal. apply IH. exact H2.
Qed.

Lemma txt_eqb_refl (a : txt) : txt_eqb a a = true.
Proof. induction a as [|x a IH]; [reflexivity|]. cbn. rewrite Ascii.eqb_refl. exact IH. Qed.

Lemma txt_eqb_iff a b : txt_eqb a b = true <-> a = b.
Proof. split; [apply txt_eqb_true|intros ->; apply txt_eqb_refl]. Qed.

Lemma in_names_iff r names : in_names r names = true <-> In r names.
Proof.
  unfold in_names. rewrite existsb_exists. split.
  - intros (x & Hx & E). apply txt_eqb_true in E. subst. exact Hx.
  - intros H. exists r. split; [exact H|apply txt_eqb_refl].
Qed.

(* ---------- atoms and attribute tokens ---------- *)
Definition tokens_of (a : aref) : list txt := fst a :: match snd a with Some x => [x] | None => [] end.
Definition flat (atoms : list aref) : list txt := flat_map tokens_of atoms.
Definition wf_atom (a : aref) : Prop :=
  is_attr (fst a) = false /\ txt_eqb (fst a) delim = false /\ match snd a with Some x => is_attr x = true | None => True end.
(* what may follow the atoms when no delimiter is written: nothing, or a token that is neither bracketed nor the delimiter *)
Definition plain_head (post : list txt) : Prop :=
  match post with [] => True | p :: _ => is_attr p = false /\ txt_eqb p delim = false end.

Lemma flat_cons a atoms : flat (a :: atoms) = tokens_of a ++ flat atoms.
Proof. reflexivity. Qed.

Lemma flat_head_plain atoms post : Forall wf_atom atoms -> plain_head post -> plain_head (flat atoms ++ post).
Proof.
  intros Ha Hp. destruct Ha as [|a atoms (H1 & H2 & _) _]; [exact Hp|].
  rewrite flat_cons. unfold tokens_of. cbn [app]. split; assumption.
Qed.

(* the atoms of a fixed-size interaction: exactly k of them are taken, whatever follows *)
Lemma get_atoms_fixed k atoms : Forall wf_atom atoms -> forall found post, found + List.length atoms = k -> plain_head post ->
  get_atoms (Some k) found (flat atoms ++ post) = inr (atoms, post).
Proof.
  intros Ha. induction Ha as [|a atoms Hw Ha IH]; intros found post Hk Hp.
  - cbn [flat flat_map app]. cbn [List.length] in Hk. destruct post as [|p ps]; [reflexivity|].
    destruct Hp as [_ Hd]. cbn [get_atoms]. rewrite Hd. unfold enough. replace (Nat.leb k found) with true by (symmetry; apply Nat.leb_le; lia).
    reflexivity.
  - destruct Hw as (H1 & H2 & H3). destruct a as [r o]. cbn [fst snd] in *. rewrite flat_cons. unfold tokens_of. cbn [fst snd].
    cbn [List.length] in Hk.
    assert (Hne : enough (Some k) found = false) by (unfold enough; apply Nat.leb_gt; lia).
    destruct o as [x|].
    + cbn [app get_atoms]. rewrite H2, Hne, H1, H3. rewrite IH by (auto; lia). reflexivity.
    + cbn [app get_atoms]. rewrite H2, Hne, H1.
      pose proof (flat_head_plain atoms post Ha Hp) as Hh.
      destruct (flat atoms ++ post) as [|h t] eqn:E.
      * apply app_eq_nil in E as [E1 E2]. subst post. destruct atoms as [|b atoms']; [reflexivity|].
        rewrite flat_cons in E1. unfold tokens_of in E1. discriminate E1.
      * destruct Hh as [Hh _]. rewrite Hh, <- E. rewrite IH by (auto; lia). reflexivity.
Qed.

(* with the delimiter: every atom in front of it, as long as the section does not take fewer *)
Lemma get_atoms_delim natoms atoms params : Forall wf_atom atoms ->
  forall found, (natoms = None \/ exists k, natoms = Some k /\ found + List.length atoms <= k) ->
  get_atoms natoms found (flat atoms ++ delim :: params) = inr (atoms, params).
Proof.
  intros Ha. induction Ha as [|a atoms Hw Ha IH]; intros found Hn.
  - cbn [flat flat_map app get_atoms]. rewrite txt_eqb_refl. reflexivity.
  - destruct Hw as (H1 & H2 & H3). destruct a as [r o]. cbn [fst snd] in *. rewrite flat_cons. unfold tokens_of. cbn [fst snd].
    assert (Hne : enough natoms found = false).
    { destruct Hn as [->|(k & -> & Hk)]; [reflexivity|]. unfold enough. apply Nat.leb_gt. cbn [List.length] in Hk. lia. }
    assert (Hn' : natoms = None \/ exists k, natoms = Some k /\ S found + List.length atoms <= k).
    { destruct Hn as [->|(k & -> & Hk)]; [left; reflexivity|right]. exists k. split; [reflexivity|]. cbn [List.length] in Hk. lia. }
    destruct o as [x|].
    + cbn [app get_atoms]. rewrite H2, Hne, H1, H3. rewrite IH by exact Hn'. reflexivity.
    + cbn [app get_atoms]. rewrite H2, Hne, H1.
      assert (Hh : match flat atoms ++ delim :: params with [] => True | p :: _ => is_attr p = false end).
      { destruct Ha as [|b atoms' (B1 & _) _]; [reflexivity|]. rewrite flat_cons. unfold tokens_of. cbn [app]. exact B1. }
      destruct (flat atoms ++ delim :: params) as [|h t] eqn:E; [destruct (flat atoms); discriminate E|].
      rewrite Hh. rewrite IH by exact Hn'. reflexivity.
Qed.

(* ---------- references of a block ---------- *)
Lemma block_ref_declared names r x : block_ref names r = inr x -> In x names.
Proof.
  unfold block_ref. destruct (is_digits r).
  - destruct (num_of r) as [|p].
    + destruct (List.rev names) as [|y l] eqn:E; [discriminate|]. intros [= <-]. apply in_rev. rewrite E. left. reflexivity.
    + destruct (nth_error names (N.to_nat (N.pred (N.pos p)))) as [y|] eqn:E; [|discriminate]. intros [= <-]. eapply nth_error_In. exact E.
  - destruct (in_names r names) eqn:E; cbn [negb]; [|discriminate]. apply in_names_iff in E.
    destruct r as [|c r']; [intros [= <-]; exact E|]. destruct (is_order_char c); [discriminate|]. intros [= <-]. exact E.
Qed.

Lemma block_refs_spec names atoms refs : block_refs names atoms = inr refs ->
  List.length refs = List.length atoms /\ Forall (fun x => In x names) refs.
Proof.
  revert refs. induction atoms as [|a atoms IH]; intros refs H; cbn [block_refs] in H.
  - injection H as <-. split; [reflexivity|constructor].
  - destruct (block_ref names (fst a)) as [e|x] eqn:E; [discriminate|].
    destruct (block_refs names atoms) as [e|xs]; [discriminate|]. injection H as <-.
    destruct (IH xs eq_refl) as [L F]. split; [cbn; rewrite L; reflexivity|]. constructor; [eapply block_ref_declared; exact E|exact F].
Qed.

Lemma block_ref_undefined names r : is_digits r = false -> ~ In r names -> block_ref names r = inl NoSuchAtom.
Proof.
  intros Hd Hn. unfold block_ref. rewrite Hd. destruct (in_names r names) eqn:E; [apply in_names_iff in E; contradiction|reflexivity].
Qed.

Lemma block_refs_one_bad names atoms a e : In a atoms -> block_ref names (fst a) = inl e -> exists e', block_refs names atoms = inl e'.
Proof.
  induction atoms as [|b atoms IH]; intros Hin He; [destruct Hin|]. cbn [block_refs]. destruct Hin as [->|Hin].
  - rewrite He. eexists. reflexivity.
  - destruct (IH Hin He) as [e' E']. rewrite E'. destruct (block_ref names (fst b)); eexists; reflexivity.
Qed.

Lemma block_ref_name names r : is_digits r = false -> In r names ->
  match r with c :: _ => is_order_char c = false | [] => True end -> block_ref names r = inr r.
Proof.
  intros Hd Hin Hc. unfold block_ref. rewrite Hd. apply in_names_iff in Hin. rewrite Hin. cbn [negb].
  destruct r as [|c r']; [reflexivity|]. rewrite Hc. reflexivity.
Qed.

Lemma block_ref_index names r i : is_digits r = true -> num_of r = N.of_nat (S i) ->
  block_ref names r = match nth_error names i with Some x => inr x | None => inl BadIndex end.
Proof.
  intros Hd Hn. unfold block_ref. rewrite Hd, Hn. destruct (N.of_nat (S i)) as [|p] eqn:E; [lia|].
  replace (N.to_nat (N.pred (N.pos p))) with i by lia. reflexivity.
Qed.

(* ---------- the whole line ---------- *)
Lemma base_parse_count names k tokens i : base_parse_block names (Some k) false tokens = inr i -> List.length (i_atoms i) = k.
Proof.
  unfold base_parse_block. destruct (Nat.ltb 1 (count_delim tokens)); [discriminate|].
  destruct (get_atoms (Some k) 0 tokens) as [e|[atoms rest]]; [discriminate|].
  destruct (Nat.eqb (List.length atoms) k) eqn:E; cbn [negb]; [|discriminate]. apply Nat.eqb_eq in E.
  destruct (existsb _ rest); [discriminate|]. destruct (block_refs names atoms) as [e|refs] eqn:R; [discriminate|].
  destruct (split_meta rest) as [params meta]. intros [= <-]. cbn [i_atoms]. destruct (block_refs_spec _ _ _ R) as [L _]. lia.
Qed.

Lemma base_parse_declared names natoms tokens i : base_parse_block names natoms false tokens = inr i ->
  Forall (fun x => In x names) (i_atoms i).
Proof.
  unfold base_parse_block. destruct (Nat.ltb 1 (count_delim tokens)); [discriminate|].
  destruct (get_atoms natoms 0 tokens) as [e|[atoms rest]]; [discriminate|].
  destruct (match natoms with Some k => negb (Nat.eqb (List.length atoms) k) | None => false end); [discriminate|].
  destruct (existsb _ rest); [discriminate|]. destruct (block_refs names atoms) as [e|refs] eqn:R; [discriminate|].
  destruct (split_meta rest) as [params meta]. intros [= <-]. cbn [i_atoms]. apply (block_refs_spec _ _ _ R).
Qed.

Definition no_delim (l : list txt) : Prop := Forall (fun t => txt_eqb t delim = false) l.

Lemma count_delim_app a b : count_delim (a ++ b) = count_delim a + count_delim b.
Proof. unfold count_delim. rewrite filter_app, app_length. reflexivity. Qed.

Lemma count_delim_none l : no_delim l -> count_delim l = 0 /\ existsb (fun t => txt_eqb t delim) l = false.
Proof.
  intros H. induction H as [|t l Ht _ [IH1 IH2]]; [split; reflexivity|]. unfold count_delim in *. cbn [filter existsb]. rewrite Ht. split; assumption.
Qed.

Lemma flat_no_delim atoms : Forall wf_atom atoms -> no_delim (flat atoms).
Proof.
  intros H. induction H as [|a atoms (H1 & H2 & H3) _ IH]; [constructor|]. rewrite flat_cons. apply Forall_app. split; [|exact IH].
  unfold tokens_of. constructor; [exact H2|]. destruct (snd a) as [x|]; [|constructor]. constructor; [|constructor].
  destruct (txt_eqb x delim) eqn:E; [|reflexivity]. apply txt_eqb_true in E. subst x. discriminate H3.
Qed.

(* too few atoms in front of the delimiter of a fixed-size interaction *)
Lemma too_few_rejected names k atoms params : Forall wf_atom atoms -> no_delim params -> List.length atoms < k ->
  base_parse_block names (Some k) false (flat atoms ++ delim :: params) = inl WrongCount.
Proof.
  intros Ha Hp Hl. unfold base_parse_block.
  assert (C : count_delim (flat atoms ++ delim :: params) = 1).
  { rewrite count_delim_app. destruct (count_delim_none _ (flat_no_delim _ Ha)) as [-> _].
    change (delim :: params) with ([delim] ++ params). rewrite count_delim_app. destruct (count_delim_none _ Hp) as [-> _]. reflexivity. }
  rewrite C. cbn [Nat.ltb Nat.leb]. rewrite get_atoms_delim; [|exact Ha|right; exists k; split; [reflexivity|cbn [Nat.add]; lia]].
  replace (Nat.eqb (List.length atoms) k) with false by (symmetry; apply Nat.eqb_neq; lia). reflexivity.
Qed.

(* too many atoms in front of the delimiter *)
Lemma too_many_rejected names k atoms params : Forall wf_atom atoms -> no_delim params -> k < List.length atoms ->
  base_parse_block names (Some k) false (flat atoms ++ delim :: params) = inl TooManyAtoms.
Proof.
  intros Ha Hp Hl. unfold base_parse_block.
  assert (C : count_delim (flat atoms ++ delim :: params) = 1).
  { rewrite count_delim_app. destruct (count_delim_none _ (flat_no_delim _ Ha)) as [-> _].
    change (delim :: params) with ([delim] ++ params). rewrite count_delim_app. destruct (count_delim_none _ Hp) as [-> _]. reflexivity. }
  rewrite C. cbn [Nat.ltb Nat.leb].
  rewrite <- (firstn_skipn k atoms) at 1. unfold flat. rewrite flat_map_app. fold (flat (firstn k atoms)) (flat (skipn k atoms)). rewrite <- app_assoc.
  assert (Hf : Forall wf_atom (firstn k atoms)) by (rewrite <- (firstn_skipn k atoms) in Ha; apply Forall_app in Ha; tauto).
  assert (Hs : Forall wf_atom (skipn k atoms)) by (rewrite <- (firstn_skipn k atoms) in Ha; apply Forall_app in Ha; tauto).
  rewrite get_atoms_fixed; [|exact Hf|rewrite firstn_length; lia|].
  - rewrite firstn_length. replace (Nat.min k (List.length atoms)) with k by lia. rewrite Nat.eqb_refl. cbn [negb].
    rewrite existsb_app. cbn [existsb]. rewrite txt_eqb_refl, orb_true_r. reflexivity.
  - destruct (skipn k atoms) as [|b more] eqn:E.
    + assert (List.length (skipn k atoms) = 0) by (rewrite E; reflexivity). rewrite skipn_length in *. lia.
    + inversion Hs as [|? ? (B1 & B2 & _) _]; subst. rewrite flat_cons. unfold tokens_of. cbn [app]. split; assumption.
Qed.

(* a well-formed interaction line of a block is read back as written: atoms by name, delimiter, parameters, meta *)
Definition name_ok (names : list txt) (r : txt) : Prop :=
  is_digits r = false /\ In r names /\ is_attr r = false /\ txt_eqb r delim = false
  /\ match r with c :: _ => is_order_char c = false | [] => True end.

Lemma block_refs_names names refs : Forall (name_ok names) refs -> block_refs names (map (fun r => (r, None)) refs) = inr refs.
Proof.
  intros H. induction H as [|r refs (H1 & H2 & _ & _ & H5) _ IH]; [reflexivity|].
  cbn [map block_refs fst]. rewrite (block_ref_name names r H1 H2 H5), IH. reflexivity.
Qed.

Lemma split_meta_some params m : is_attr m = true -> split_meta (params ++ [m]) = (params, Some m).
Proof. intros H. unfold split_meta. rewrite rev_app_distr. cbn [List.rev app]. rewrite H, rev_involutive. reflexivity. Qed.

Lemma split_meta_none params : match List.rev params with m :: _ => is_attr m = false | [] => True end ->
  split_meta params = (params, None).
Proof.
  intros H. unfold split_meta. destruct (List.rev params) as [|m r] eqn:E.
  - apply (f_equal (@List.rev txt)) in E. rewrite rev_involutive in E. subst. reflexivity.
  - rewrite H. reflexivity.
Qed.

Lemma flat_plain (refs : list txt) : flat (map (fun r => (r, @None txt)) refs) = refs.
Proof. induction refs as [|r l IH]; [reflexivity|]. cbn [map]. rewrite flat_cons, IH. reflexivity. Qed.

Lemma interaction_line_roundtrip names natoms refs params meta :
  Forall (name_ok names) refs -> no_delim params ->
  (natoms = None \/ natoms = Some (List.length refs)) ->
  match meta with Some m => is_attr m = true | None => match List.rev params with m :: _ => is_attr m = false | [] => True end end ->
  base_parse_block names natoms false (refs ++ delim :: params ++ match meta with Some m => [m] | None => [] end)
  = inr {| i_atoms := refs; i_params := params; i_meta := meta |}.
Proof.
  intros Hr Hp Hn Hm. set (atoms := map (fun r => (r, @None txt)) refs).
  assert (Hf : flat atoms = refs) by apply flat_plain.
  assert (Hw : Forall wf_atom atoms).
  { unfold atoms. apply Forall_map. eapply Forall_impl; [|exact Hr]. intros r (_ & _ & H3 & H4 & _). repeat split; assumption. }
  set (tail := params ++ match meta with Some m => [m] | None => [] end).
  assert (Ht : no_delim tail).
  { unfold tail. apply Forall_app. split; [exact Hp|]. destruct meta as [m|]; [|constructor]. constructor; [|constructor].
    destruct (txt_eqb m delim) eqn:E; [|reflexivity]. apply txt_eqb_true in E. subst m. discriminate Hm. }
  replace (refs ++ delim :: tail) with (flat atoms ++ delim :: tail) by (rewrite Hf; reflexivity). unfold base_parse_block.
  assert (C : count_delim (flat atoms ++ delim :: tail) = 1).
  { rewrite count_delim_app. destruct (count_delim_none _ (flat_no_delim _ Hw)) as [-> _].
    change (delim :: tail) with ([delim] ++ tail). rewrite count_delim_app. destruct (count_delim_none _ Ht) as [-> _]. reflexivity. }
  rewrite C. cbn [Nat.ltb Nat.leb].
  rewrite get_atoms_delim; [|exact Hw|destruct Hn as [-> | ->]; [left; reflexivity|right; eexists; split; [reflexivity|unfold atoms; rewrite map_length; cbn; lia]]].
  assert (Hc : match natoms with Some k => negb (Nat.eqb (List.length atoms) k) | None => false end = false).
  { destruct Hn as [-> | ->]; [reflexivity|]. unfold atoms. rewrite map_length, Nat.eqb_refl. reflexivity. }
  cbv beta iota. match goal with |- (if ?b then _ else _) = _ => replace b with false by (symmetry; exact Hc) end.
  destruct (count_delim_none _ Ht) as [_ E0]. rewrite E0. unfold atoms. rewrite block_refs_names by exact Hr.
  unfold tail. destruct meta as [m|].
  - rewrite split_meta_some by exact Hm. reflexivity.
  - rewrite app_nil_r, split_meta_none by exact Hm. reflexivity.
Qed.

(* ---------- the [ atoms ] lines of a block ---------- *)
Definition strip_attr (tokens : list txt) : list txt :=
  match List.rev tokens with m :: r => if is_attr m then List.rev r else tokens | [] => tokens end.
Definition name_of (tokens : list txt) : option txt := nth_error (strip_attr tokens) 4.

Lemma block_atom_spec names tokens names' : block_atom names tokens = inr names' ->
  exists n, name_of tokens = Some n /\ ~ In n names /\ names' = names ++ [n].
Proof.
  unfold block_atom, name_of. fold (strip_attr tokens).
  destruct (strip_attr tokens) as [|t0 [|t1 [|t2 [|t3 [|t4 [|t5 rest]]]]]]; try discriminate.
  destruct (in_names t4 names) eqn:E; [discriminate|]. destruct (is_intlit t2 && is_intlit t5); [|discriminate].
  intros [= <-]. exists t4. split; [reflexivity|]. split; [|reflexivity]. intros Hin. apply in_names_iff in Hin. congruence.
Qed.

Lemma block_atom_duplicate names tokens n : name_of tokens = Some n -> In n names -> 6 <= List.length (strip_attr tokens) ->
  block_atom names tokens = inl DupAtom.
Proof.
  unfold block_atom, name_of. fold (strip_attr tokens).
  destruct (strip_attr tokens) as [|t0 [|t1 [|t2 [|t3 [|t4 [|t5 rest]]]]]]; cbn [List.length nth_error]; try lia; try discriminate.
  intros [= ->] Hin _. apply in_names_iff in Hin. rewrite Hin. reflexivity.
Qed.

Lemma NoDup_snoc {A} (l : list A) x : NoDup l -> ~ In x l -> NoDup (l ++ [x]).
Proof.
  intros Hd Hx. induction Hd as [|y l Hy Hd IH]; [constructor; [intros []|constructor]|].
  cbn [app]. constructor.
  - intros Hin. apply in_app_or in Hin as [Hin|[<-|[]]]; [contradiction|]. apply Hx. left. reflexivity.
  - apply IH. intros Hin. apply Hx. right. exact Hin.
Qed.

Lemma block_atoms_spec lines : forall names names', block_atoms names lines = inr names' ->
  exists ns, Forall2 (fun l n => name_of l = Some n) lines ns /\ names' = names ++ ns /\ (NoDup names -> NoDup names').
Proof.
  induction lines as [|l lines IH]; intros names names' H; cbn [block_atoms] in H.
  - injection H as <-. exists []. split; [constructor|]. split; [rewrite app_nil_r; reflexivity|auto].
  - destruct (block_atom names l) as [e|names1] eqn:E; [discriminate|].
    destruct (block_atom_spec _ _ _ E) as (n & Hn & Hnot & ->). destruct (IH _ _ H) as (ns & F & -> & D).
    exists (n :: ns). split; [constructor; assumption|]. split; [rewrite <- app_assoc; reflexivity|].
    intros Hd. apply D. apply NoDup_snoc; assumption.
Qed.
