(* C13 — the content lines of a block, at token level (vermouth/ffinput.py):
   _some_atoms_left / _get_atoms (l.506-585): atom references, each optionally followed by a bracketed attribute token,
     up to the "--" delimiter or up to the number of atoms the section takes;
   _base_parser (l.851-): at most one delimiter, the atom count of fixed-size interactions, nothing left in front of the
     delimiter, a trailing bracketed token is the interaction's meta, the rest are parameters;
   _treat_block_interaction_atoms (l.587-616): a reference of a block is a 1-based index or a declared atom name;
   _parse_block_atom (l.915-): the fifth column is the atom name, unique within the block.
   Tokens are opaque words; bracketed tokens are recognised by their first character. *)
From Coq Require Import List Bool Arith NArith String Ascii Lia.
From V Require Import C13.Tokenizer C13.TokProofs.
Import ListNotations.

Definition is_attr (t : txt) : bool := match t with c :: _ => Ascii.eqb c lb | [] => false end.
Definition delim : txt := s2l "--".
Definition aref : Type := txt * option txt.

Inductive lerr := AttrWithoutRef | TwoDelims | WrongCount | TooManyAtoms | NoSuchAtom | BadIndex | PrefixedName
                | DupAtom | TooFewColumns | BadNumber | NotInLink.

Definition cons_atom (a : aref) (r : sum lerr (list aref * list txt)) : sum lerr (list aref * list txt) :=
  match r with inl e => inl e | inr (l, rest) => inr (a :: l, rest) end.

Definition enough (natoms : option nat) (found : nat) : bool :=
  match natoms with Some k => Nat.leb k found | None => false end.

(* _get_atoms *)
Fixpoint get_atoms (natoms : option nat) (found : nat) (tokens : list txt) : sum lerr (list aref * list txt) :=
  match tokens with
  | [] => inr ([], [])
  | t :: rest =>
      if txt_eqb t delim then inr ([], rest)                 (* the delimiter is consumed *)
      else if enough natoms found then inr ([], tokens)
      else if is_attr t then inl AttrWithoutRef
      else match rest with
           | a :: rest' => if is_attr a then cons_atom (t, Some a) (get_atoms natoms (S found) rest')
                           else cons_atom (t, None) (get_atoms natoms (S found) rest)
           | [] => inr ([(t, None)], [])
           end
  end.

Definition count_delim (tokens : list txt) : nat := List.length (filter (fun t => txt_eqb t delim) tokens).

(* references of a block: 1-based indices or declared names *)
Definition is_digit (c : ascii) : bool := (48 <=? N_of_ascii c)%N && (N_of_ascii c <=? 57)%N.
Definition is_digits (t : txt) : bool := negb (match t with [] => true | _ => false end) && forallb is_digit t.
Definition num_of (t : txt) : N := fold_left (fun acc c => (acc * 10 + (N_of_ascii c - 48))%N) t 0%N.
Definition in_names (r : txt) (names : list txt) : bool := existsb (txt_eqb r) names.
Definition is_order_char (c : ascii) : bool :=
  Ascii.eqb c "+" || Ascii.eqb c "-" || Ascii.eqb c "<" || Ascii.eqb c ">".

Definition block_ref (names : list txt) (r : txt) : sum lerr txt :=
  if is_digits r then
    match num_of r with
    | 0%N => (* int('0') - 1 = -1: Python counts from the end (finding F23) *)
             match List.rev names with [] => inl BadIndex | x :: _ => inr x end
    | n => match nth_error names (N.to_nat (N.pred n)) with Some x => inr x | None => inl BadIndex end
    end
  else if negb (in_names r names) then inl NoSuchAtom
  else match r with c :: _ => if is_order_char c then inl PrefixedName else inr r | [] => inr r end.

Fixpoint block_refs (names : list txt) (atoms : list aref) : sum lerr (list txt) :=
  match atoms with
  | [] => inr []
  | a :: r => match block_ref names (fst a), block_refs names r with
              | inl e, _ => inl e
              | inr x, inr xs => inr (x :: xs)
              | inr _, inl e => inl e
              end
  end.

Record interaction := { i_atoms : list txt; i_params : list txt; i_meta : option txt }.

Definition split_meta (rest : list txt) : list txt * option txt :=
  match List.rev rest with
  | m :: r => if is_attr m then (List.rev r, Some m) else (rest, None)
  | [] => ([], None)
  end.

(* _base_parser in a block *)
Definition base_parse_block (names : list txt) (natoms : option nat) (delete : bool) (tokens : list txt) : sum lerr interaction :=
  if delete then inl NotInLink
  else if Nat.ltb 1 (count_delim tokens) then inl TwoDelims
  else match get_atoms natoms 0 tokens with
       | inl e => inl e
       | inr (atoms, rest) =>
           if match natoms with Some k => negb (Nat.eqb (List.length atoms) k) | None => false end then inl WrongCount
           else if existsb (fun t => txt_eqb t delim) rest then inl TooManyAtoms
           else match block_refs names atoms with
                | inl e => inl e
                | inr refs => let '(params, meta) := split_meta rest in
                              inr {| i_atoms := refs; i_params := params; i_meta := meta |}
                end
       end.

(* _parse_block_atom: the name of the atom a line declares *)
Definition is_intlit (t : txt) : bool :=
  match t with
  | c :: r => if Ascii.eqb c "-" || Ascii.eqb c "+" then is_digits r else is_digits t
  | [] => false
  end.

Definition block_atom (names : list txt) (tokens : list txt) : sum lerr (list txt) :=
  let toks := match List.rev tokens with m :: r => if is_attr m then List.rev r else tokens | [] => tokens end in
  match toks with
  | _ :: _ :: resid :: _ :: name :: cg :: _ =>
      if in_names name names then inl DupAtom
      else if is_intlit resid && is_intlit cg then inr (names ++ [name]) else inl BadNumber
  | _ => inl TooFewColumns
  end.

Fixpoint block_atoms (names : list txt) (lines : list (list txt)) : sum lerr (list txt) :=
  match lines with
  | [] => inr names
  | l :: r => match block_atom names l with inl e => inl e | inr names' => block_atoms names' r end
  end.
