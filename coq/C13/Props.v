(* C13 — property theorems only (mechanisms; the whole-grammar equality is validated by the
   differential runs, see DESIGN). *)
From Coq Require Import List Bool ZArith QArith String Ascii.
From V Require Import C13.Tokenizer C13.TokProofs C13.Mechanisms C13.MechProofs C13.Lines C13.LinesProofs.
From V Require Import Extracted.FFSections.
Import ListNotations.

(* Tokens written with a blank between them — or bracketed tokens glued to their neighbours —
   are read back exactly, for every list of well-formed tokens. *)
Theorem tokenize_join : forall ts l, joined ts l -> Forall token_ok ts -> tokenize l = Some ts.
Proof. exact tokenize_join_lemma. Qed.
Print Assumptions tokenize_join.

(* Unbalanced braces are rejected. *)
Theorem unbalanced_rejected : forall l, net l <> 0%Z -> tokenize l = None.
Proof. exact unbalanced_rejected_lemma. Qed.
Print Assumptions unbalanced_rejected.

(* Order prefixes and explicit order attributes mean the same thing. *)
Theorem prefix_order_equivalent : forall o b name,
  order_valid o = true -> base_ok b ->
  treat_atom_prefix (render_prefix (prefix_of_order o) ++ b) None name = treat_atom_prefix b (Some o) name.
Proof. exact prefix_order_equivalent_lemma. Qed.
Print Assumptions prefix_order_equivalent.

(* A prefix that contradicts the order attribute, a prefix mixing characters, and a key
   without a base are rejected. *)
Theorem prefix_order_contradiction_rejected : forall ps b o name,
  base_ok b -> ps <> [] -> homogeneous ps = true -> order_valid o = true -> order_eqb o (order_of_prefix ps) = false ->
  treat_atom_prefix (render_prefix ps ++ b) (Some o) name = inl Inconsistent.
Proof. exact prefix_order_contradiction_lemma. Qed.
Print Assumptions prefix_order_contradiction_rejected.

Theorem mixed_prefix_rejected : forall ps b, base_ok b -> homogeneous ps = false ->
  forall o name, treat_atom_prefix (render_prefix ps ++ b) o name = inl MixedPrefix.
Proof. exact mixed_prefix_lemma. Qed.
Print Assumptions mixed_prefix_rejected.

Theorem empty_base_rejected : forall ps o name,
  treat_atom_prefix (render_prefix ps) o name = inl (match ps with [] => EmptyKey | _ => NoBase end).
Proof. exact empty_base_lemma. Qed.
Print Assumptions empty_base_rejected.

(* Every declared block, link and modification is registered exactly once, in file order,
   with exactly the lines between its header and the next top-level header — for every
   sequence of top-level headers, sub-section headers and lines. *)
Theorem each_declared_once_in_order : forall es, run_events es = declared es 0.
Proof. exact each_declared_once_lemma. Qed.
Print Assumptions each_declared_once_in_order.

(* Backward mapping weights: multiplicity over the number of non-null targets; '!' is weight 0;
   the contributions of one atom add up to 1. *)
Theorem weight_is_multiplicity_over_total : forall m b, In b (plain_targets m) ->
  weight m b = Some (Z.of_nat (count b (plain_targets m)) # Pos.of_nat (List.length (plain_targets m))).
Proof. exact weight_plain. Qed.
Print Assumptions weight_is_multiplicity_over_total.

Theorem bang_is_zero_weight : forall m b, ~ In b (plain_targets m) -> In b (null_targets m) -> weight m b = Some 0%Q.
Proof. exact weight_bang. Qed.
Print Assumptions bang_is_zero_weight.

Theorem weights_sum_to_one : forall n, (0 < n)%nat -> fold_right Qplus 0%Q (repeat (1 # Pos.of_nat n) n) == 1.
Proof. exact weights_sum_to_one_lemma. Qed.
Print Assumptions weights_sum_to_one.

Local Open Scope nat_scope.
(* ---- the content lines of a block (C13/Lines.v: _get_atoms, _base_parser, _treat_block_interaction_atoms, _parse_block_atom) ---- *)

(* An interaction line of a block written as declared names, the delimiter, parameters and an optional meta token is read
   back as exactly that, for a section of free or of matching fixed size. *)
Theorem interaction_line_read_back : forall names natoms refs params meta,
  Forall (name_ok names) refs -> no_delim params ->
  (natoms = None \/ natoms = Some (List.length refs)) ->
  match meta with Some m => is_attr m = true | None => match List.rev params with m :: _ => is_attr m = false | [] => True end end ->
  base_parse_block names natoms false (refs ++ delim :: params ++ match meta with Some m => [m] | None => [] end)
  = inr {| i_atoms := refs; i_params := params; i_meta := meta |}.
Proof. exact interaction_line_roundtrip. Qed.
Print Assumptions interaction_line_read_back.

(* Atom references with their bracketed attributes: a fixed-size section takes exactly its number of atoms, whatever
   plain token follows; with the delimiter every atom in front of it is taken. *)
Theorem fixed_size_atoms_taken : forall k atoms, Forall wf_atom atoms -> forall found post,
  found + List.length atoms = k -> plain_head post -> get_atoms (Some k) found (flat atoms ++ post) = inr (atoms, post).
Proof. exact get_atoms_fixed. Qed.
Print Assumptions fixed_size_atoms_taken.

Theorem atoms_up_to_delimiter : forall natoms atoms params, Forall wf_atom atoms ->
  forall found, (natoms = None \/ exists k, natoms = Some k /\ found + List.length atoms <= k) ->
  get_atoms natoms found (flat atoms ++ delim :: params) = inr (atoms, params).
Proof. exact get_atoms_delim. Qed.
Print Assumptions atoms_up_to_delimiter.

(* Wrong atom count for a fixed-size interaction: too few or too many atoms in front of the delimiter are rejected, and
   whatever is accepted has exactly the number of atoms of the section. *)
Theorem wrong_atom_count_rejected : forall names k atoms params, Forall wf_atom atoms -> no_delim params ->
  (List.length atoms < k -> base_parse_block names (Some k) false (flat atoms ++ delim :: params) = inl WrongCount) /\
  (k < List.length atoms -> base_parse_block names (Some k) false (flat atoms ++ delim :: params) = inl TooManyAtoms).
Proof. intros names k atoms params Ha Hp. split; [apply too_few_rejected|apply too_many_rejected]; assumption. Qed.
Print Assumptions wrong_atom_count_rejected.

Theorem accepted_line_has_section_size : forall names k tokens i,
  base_parse_block names (Some k) false tokens = inr i -> List.length (i_atoms i) = k.
Proof. exact base_parse_count. Qed.
Print Assumptions accepted_line_has_section_size.

(* A reference to an undefined block atom is rejected; every atom of an accepted line is a declared atom; an index
   i >= 1 means the i-th declared atom. *)
Theorem undefined_block_atom_rejected : forall names atoms a, In a atoms -> is_digits (fst a) = false -> ~ In (fst a) names ->
  exists e, block_refs names atoms = inl e.
Proof. intros names atoms a Hin Hd Hn. eapply block_refs_one_bad; [exact Hin|apply block_ref_undefined; assumption]. Qed.
Print Assumptions undefined_block_atom_rejected.

Theorem accepted_references_are_declared : forall names natoms tokens i,
  base_parse_block names natoms false tokens = inr i -> Forall (fun x => In x names) (i_atoms i).
Proof. exact base_parse_declared. Qed.
Print Assumptions accepted_references_are_declared.

Theorem index_means_that_atom : forall names r i, is_digits r = true -> num_of r = N.of_nat (S i) ->
  block_ref names r = match nth_error names i with Some x => inr x | None => inl BadIndex end.
Proof. exact block_ref_index. Qed.
Print Assumptions index_means_that_atom.

(* REFUTED for the index 0 (finding F23): the faithful model accepts it as the last atom of the block, so "a reference
   to no atom is rejected" does not hold for it; the witness replayed on read_ff is the finding. *)
Theorem index_zero_rejected_refuted : exists names r,
  is_digits r = true /\ num_of r = 0%N /\ block_ref names r = inr (s2l "SC2") /\ names = map s2l ["BB"; "SC1"; "SC2"]%string.
Proof. exists (map s2l ["BB"; "SC1"; "SC2"]%string), (s2l "0"). vm_compute. repeat split. Qed.
Print Assumptions index_zero_rejected_refuted.

(* The atoms of a block are the fifth columns of its [ atoms ] lines, each exactly once and in file order; a name that
   is already there is rejected. *)
Theorem block_atoms_once_in_order : forall lines names, block_atoms [] lines = inr names ->
  Forall2 (fun l n => name_of l = Some n) lines names /\ NoDup names.
Proof.
  intros lines names H. destruct (block_atoms_spec lines [] names H) as (ns & F & E & D). cbn [app] in E. subst ns.
  split; [exact F|apply D; constructor].
Qed.
Print Assumptions block_atoms_once_in_order.

Theorem duplicate_block_atom_rejected : forall names tokens n,
  name_of tokens = Some n -> In n names -> 6 <= List.length (strip_attr tokens) -> block_atom names tokens = inl DupAtom.
Proof. exact block_atom_duplicate. Qed.
Print Assumptions duplicate_block_atom_rejected.

(* The section tables regenerated from the source: the top-level sections are the six known ones,
   exactly moleculetype/link/modification open a context, and every sub-section of a context is
   handled in THAT context (finite: the extracted table). *)
Definition expected_ctx (top : string) : list string :=
  if String.eqb top "moleculetype" then ["block"; ""]%string
  else if String.eqb top "link" then ["link"; "molmeta"; ""]%string
  else if String.eqb top "modification" then ["modification"; ""]%string else [""%string].

Definition section_ok (s : list string * string * string) : bool :=
  match fst (fst s) with
  | [top] => existsb (String.eqb top) ["citations"; "link"; "macros"; "modification"; "moleculetype"; "variables"]%string
  | [top; _] => existsb (String.eqb (snd s)) (expected_ctx top)
  | _ => false
  end.

Theorem sections_consistent :
  forallb section_ok ff_sections = true /\
  map fst ff_header_actions = [["moleculetype"]; ["link"]; ["modification"]]%string.
Proof. vm_compute. split; reflexivity. Qed.
Print Assumptions sections_consistent.

Example nonvacuous :
  tokenize (s2l "BB {""resname"": ""ALA"", ""a"": {""b"": 1}}+BB{""x"": 1} -- 1 0.2 $x")
    = Some (map s2l ["BB"; "{""resname"": ""ALA"", ""a"": {""b"": 1}}"; "+BB"; "{""x"": 1}"; "--"; "1"; "0.2"; "$x"])%string /\
  tokenize (s2l "a {b") = None /\ tokenize (s2l "a}{b") = Some [s2l "a}{b"] /\
  run_events [Top None; Line 0; Top (Some KLink); Line 1; Sub; Line 2; Top (Some KBlock); Line 3; Top (Some KLink); Top None; Line 4]
    = [{| c_kind := KLink; c_id := 1; c_lines := [1; 2] |}; {| c_kind := KBlock; c_id := 2; c_lines := [3] |};
       {| c_kind := KLink; c_id := 3; c_lines := [] |}]%nat /\
  subst 5 [(s2l "x", s2l "1.5"); (s2l "y", s2l "$x")] (s2l "a $y{$x} ""$x""") = Some (s2l "a 1.5{1.5} ""1.5""").
Proof. vm_compute. repeat split. Qed.
