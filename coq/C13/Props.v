(* C13 — property theorems only (mechanisms; the whole-grammar equality is validated by the
   differential runs, see DESIGN). *)
From Coq Require Import List Bool ZArith QArith String Ascii.
From V Require Import C13.Tokenizer C13.TokProofs C13.Mechanisms C13.MechProofs.
From V Require Import Extracted.FFSections.
Import ListNotations.

(* Tokens written with a blank between them — or bracketed tokens glued to their neighbours —
   are read back exactly, for every list of well-formed tokens. *)
Theorem tokenize_join : forall ts l, joined ts l -> Forall token_ok ts -> tokenize l = Some ts.
Proof. exact tokenize_join_lemma. Qed.
Print Assumptions tokenize_join.

(* Unbalanced braces are rejected. *)
Theorem unbalanced_rejected : forall l, net l <> 0%Z -> tokenize l = None.
Proof. exact unbalanced_rejected_lemma. Qed.
Print Assumptions unbalanced_rejected.

(* Order prefixes and explicit order attributes mean the same thing. *)
Theorem prefix_order_equivalent : forall o b name,
  order_valid o = true -> base_ok b ->
  treat_atom_prefix (render_prefix (prefix_of_order o) ++ b) None name = treat_atom_prefix b (Some o) name.
Proof. exact prefix_order_equivalent_lemma. Qed.
Print Assumptions prefix_order_equivalent.

(* A prefix that contradicts the order attribute, a prefix mixing characters, and a key
   without a base are rejected. *)
Theorem prefix_order_contradiction_rejected : forall ps b o name,
  base_ok b -> ps <> [] -> homogeneous ps = true -> order_valid o = true -> order_eqb o (order_of_prefix ps) = false ->
  treat_atom_prefix (render_prefix ps ++ b) (Some o) name = inl Inconsistent.
Proof. exact prefix_order_contradiction_lemma. Qed.
Print Assumptions prefix_order_contradiction_rejected.

Theorem mixed_prefix_rejected : forall ps b, base_ok b -> homogeneous ps = false ->
  forall o name, treat_atom_prefix (render_prefix ps ++ b) o name = inl MixedPrefix.
Proof. exact mixed_prefix_lemma. Qed.
Print Assumptions mixed_prefix_rejected.

Theorem empty_base_rejected : forall ps o name,
  treat_atom_prefix (render_prefix ps) o name = inl (match ps with [] => EmptyKey | _ => NoBase end).
Proof. exact empty_base_lemma. Qed.
Print Assumptions empty_base_rejected.

(* Every declared block, link and modification is registered exactly once, in file order,
   with exactly the lines between its header and the next top-level header — for every
   sequence of top-level headers, sub-section headers and lines. *)
Theorem each_declared_once_in_order : forall es, run_events es = declared es 0.
Proof. exact each_declared_once_lemma. Qed.
Print Assumptions each_declared_once_in_order.

(* Backward mapping weights: multiplicity over the number of non-null targets; '!' is weight 0;
   the contributions of one atom add up to 1. *)
Theorem weight_is_multiplicity_over_total : forall m b, In b (plain_targets m) ->
  weight m b = Some (Z.of_nat (count b (plain_targets m)) # Pos.of_nat (List.length (plain_targets m))).
Proof. exact weight_plain. Qed.
Print Assumptions weight_is_multiplicity_over_total.

Theorem bang_is_zero_weight : forall m b, ~ In b (plain_targets m) -> In b (null_targets m) -> weight m b = Some 0%Q.
Proof. exact weight_bang. Qed.
Print Assumptions bang_is_zero_weight.

Theorem weights_sum_to_one : forall n, (0 < n)%nat -> fold_right Qplus 0%Q (repeat (1 # Pos.of_nat n) n) == 1.
Proof. exact weights_sum_to_one_lemma. Qed.
Print Assumptions weights_sum_to_one.

(* The section tables regenerated from the source: the top-level sections are the six known ones,
   exactly moleculetype/link/modification open a context, and every sub-section of a context is
   handled in THAT context (finite: the extracted table). *)
Definition expected_ctx (top : string) : list string :=
  if String.eqb top "moleculetype" then ["block"; ""]%string
  else if String.eqb top "link" then ["link"; "molmeta"; ""]%string
  else if String.eqb top "modification" then ["modification"; ""]%string else [""%string].

Definition section_ok (s : list string * string * string) : bool :=
  match fst (fst s) with
  | [top] => existsb (String.eqb top) ["citations"; "link"; "macros"; "modification"; "moleculetype"; "variables"]%string
  | [top; _] => existsb (String.eqb (snd s)) (expected_ctx top)
  | _ => false
  end.

Theorem sections_consistent :
  forallb section_ok ff_sections = true /\
  map fst ff_header_actions = [["moleculetype"]; ["link"]; ["modification"]]%string.
Proof. vm_compute. split; reflexivity. Qed.
Print Assumptions sections_consistent.

Example nonvacuous :
  tokenize (s2l "BB {""resname"": ""ALA"", ""a"": {""b"": 1}}+BB{""x"": 1} -- 1 0.2 $x")
    = Some (map s2l ["BB"; "{""resname"": ""ALA"", ""a"": {""b"": 1}}"; "+BB"; "{""x"": 1}"; "--"; "1"; "0.2"; "$x"])%string /\
  tokenize (s2l "a {b") = None /\ tokenize (s2l "a}{b") = Some [s2l "a}{b"] /\
  run_events [Top None; Line 0; Top (Some KLink); Line 1; Sub; Line 2; Top (Some KBlock); Line 3; Top (Some KLink); Top None; Line 4]
    = [{| c_kind := KLink; c_id := 1; c_lines := [1; 2] |}; {| c_kind := KBlock; c_id := 2; c_lines := [3] |};
       {| c_kind := KLink; c_id := 3; c_lines := [] |}]%nat /\
  subst 5 [(s2l "x", s2l "1.5"); (s2l "y", s2l "$x")] (s2l "a $y{$x} ""$x""") = Some (s2l "a 1.5{1.5} ""1.5""").
Proof. vm_compute. repeat split. Qed.
