(* C13 — models of three further mechanisms of the readers:
   (a) vermouth/ffinput.py:_split_node_key / _get_order_and_prefix_from_* / _treat_atom_prefix (l.618-790),
   (b) FFDirector.parse_header / finalize_section / _new_* (l.105-215): which header opens, closes and
       registers which context,
   (c) vermouth/map_input.py:_compute_weights (l.196-257), over Q. *)
From Coq Require Import List Bool ZArith QArith String Ascii Lia.
From V Require Import C13.Tokenizer.
Import ListNotations.

(* ---------- (a) order prefixes and order attributes ---------- *)
Inductive pchar := PPlus | PMinus | PGt | PLt | PStar.
Definition pchar_eqb (a b : pchar) : bool :=
  match a, b with PPlus, PPlus | PMinus, PMinus | PGt, PGt | PLt, PLt | PStar, PStar => true | _, _ => false end.
Definition pchar_of (c : ascii) : option pchar :=
  if Ascii.eqb c "+" then Some PPlus else if Ascii.eqb c "-" then Some PMinus else if Ascii.eqb c ">" then Some PGt
  else if Ascii.eqb c "<" then Some PLt else if Ascii.eqb c "*" then Some PStar else None.
Definition ascii_of_pchar (p : pchar) : ascii :=
  match p with PPlus => "+" | PMinus => "-" | PGt => ">" | PLt => "<" | PStar => "*" end%char.

(* order as written in attributes: an integer, or a homogeneous run of > < * *)
Inductive order := ONum (z : Z) | OSeq (c : pchar) (n : nat).

Fixpoint split_prefix (t : txt) : list pchar * txt :=
  match t with
  | [] => ([], [])
  | c :: r => match pchar_of c with
              | Some p => let '(ps, b) := split_prefix r in (p :: ps, b)
              | None => ([], t) end
  end.

Inductive perr := EmptyKey | NoBase | MixedPrefix | BadOrder | Inconsistent.

Definition homogeneous (ps : list pchar) : bool :=
  match ps with [] => true | p :: r => forallb (pchar_eqb p) r end.

(* _split_node_key *)
Definition split_node_key (t : txt) : sum perr (list pchar * txt) :=
  match t with
  | [] => inl EmptyKey
  | _ => let '(ps, b) := split_prefix t in
         match b with
         | [] => inl NoBase
         | _ => if homogeneous ps then inr (ps, b) else inl MixedPrefix
         end
  end.

Definition order_valid (o : order) : bool :=
  match o with ONum _ => true | OSeq c n => Nat.ltb 0 n && negb (pchar_eqb c PPlus) && negb (pchar_eqb c PMinus) end.

Definition prefix_of_order (o : order) : list pchar :=
  match o with
  | ONum z => if Z.ltb 0 z then repeat PPlus (Z.to_nat z) else repeat PMinus (Z.to_nat (- z))
  | OSeq c n => repeat c n
  end.

Definition order_of_prefix (ps : list pchar) : order :=
  match ps with
  | [] => ONum 0
  | PPlus :: _ => ONum (Z.of_nat (List.length ps))
  | PMinus :: _ => ONum (- Z.of_nat (List.length ps))
  | c :: _ => OSeq c (List.length ps)
  end.

Definition order_eqb (a b : order) : bool :=
  match a, b with
  | ONum x, ONum y => Z.eqb x y
  | OSeq c n, OSeq d m => pchar_eqb c d && Nat.eqb n m
  | _, _ => false
  end.

Record treated := { t_key : list pchar * txt; t_order : order; t_atomname : txt }.

(* _treat_atom_prefix(reference, attributes) *)
Definition treat_atom_prefix (reference : txt) (attr_order : option order) (attr_name : option txt) : sum perr treated :=
  match split_node_key reference with
  | inl e => inl e
  | inr (ps, b) =>
      match attr_order with
      | Some o =>
          if negb (order_valid o) then inl BadOrder
          else if negb (match ps with [] => true | _ => false end) && negb (order_eqb o (order_of_prefix ps)) then inl Inconsistent
          else inr {| t_key := (match ps with [] => prefix_of_order o | _ => ps end, b); t_order := o;
                      t_atomname := match attr_name with Some n => n | None => b end |}
      | None =>
          inr {| t_key := (ps, b); t_order := order_of_prefix ps;
                 t_atomname := match attr_name with Some n => n | None => b end |}
      end
  end.

Definition render_prefix (ps : list pchar) : txt := map ascii_of_pchar ps.

(* ---------- (b) sections and contexts ---------- *)
Inductive kind := KBlock | KLink | KMod.
Inductive event :=
| Top (k : option kind)        (* a top-level header: [moleculetype] [link] [modification], or another one (None) *)
| Sub                          (* a header of a sub-section of the current top-level section *)
| Line (payload : nat).        (* a content line *)

Record ctx := { c_kind : kind; c_id : nat; c_lines : list nat }.
Record dstate := { cur : option ctx; done_ : list ctx; in_top : bool; next_id : nat }.

Definition dstate0 : dstate := {| cur := None; done_ := []; in_top := false; next_id := 0 |}.

(* finalize_section: register the open context (if any) and clear it *)
Definition finalize (s : dstate) : dstate :=
  match cur s with
  | Some c => {| cur := None; done_ := done_ s ++ [c]; in_top := in_top s; next_id := next_id s |}
  | None => s
  end.

Definition step (s : dstate) (e : event) : dstate :=
  match e with
  | Top k =>
      (* prev_section is non-empty iff some header was seen before: finalize, then maybe open *)
      let s1 := if in_top s then finalize s else s in
      {| cur := match k with Some kd => Some {| c_kind := kd; c_id := next_id s1; c_lines := [] |} | None => None end;
         done_ := done_ s1; in_top := true; next_id := S (next_id s1) |}
  | Sub => s
  | Line p =>
      match cur s with
      | Some c => {| cur := Some {| c_kind := c_kind c; c_id := c_id c; c_lines := c_lines c ++ [p] |};
                     done_ := done_ s; in_top := in_top s; next_id := next_id s |}
      | None => s
      end
  end.

Definition run_events (es : list event) : list ctx := done_ (finalize (fold_left step es dstate0)).

(* what the file declares: every [moleculetype]/[link]/[modification] header with the lines up
   to the next top-level header *)
Fixpoint lines_until_top (es : list event) : list nat :=
  match es with
  | [] => []
  | Top _ :: _ => []
  | Sub :: r => lines_until_top r
  | Line p :: r => p :: lines_until_top r
  end.

Fixpoint declared (es : list event) (id : nat) : list ctx :=
  match es with
  | [] => []
  | Top (Some k) :: r => {| c_kind := k; c_id := id; c_lines := lines_until_top r |} :: declared r (S id)
  | Top None :: r => declared r (S id)
  | _ :: r => declared r id
  end.

(* ---------- (c) backward mapping weights ---------- *)
(* a line "from_atom to1 to2 !to3 ...": target particles, a leading '!' meaning weight zero *)
Record mline := { m_from : Z; m_to : list (bool * Z) }.     (* (is_null, particle) *)

Definition count (x : Z) (l : list Z) : nat := List.length (filter (Z.eqb x) l).

Definition plain_targets (m : mline) : list Z := map snd (filter (fun t => negb (fst t)) (m_to m)).
Definition null_targets (m : mline) : list Z := map snd (filter fst (m_to m)).

(* weight of from-atom m for particle b: multiplicity / total of its non-null targets; 0 for '!' targets *)
Definition weight (m : mline) (b : Z) : option Q :=
  if existsb (Z.eqb b) (plain_targets m) then
    Some (Z.of_nat (count b (plain_targets m)) # Pos.of_nat (List.length (plain_targets m)))
  else if existsb (Z.eqb b) (null_targets m) then Some 0
  else None.

(* the same particle with and without '!' for one atom is an error *)
Definition conflict (m : mline) : bool := existsb (fun b => existsb (Z.eqb b) (null_targets m)) (plain_targets m).
