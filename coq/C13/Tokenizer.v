(* C13 — model of vermouth/parser_utils.py:_tokenize (l.340-493) and _substitute_macros (l.496-525).
   The tokeniser is a fold over the characters with the current token and the brace depth. *)
From Coq Require Import List Bool ZArith String Ascii Lia.
Import ListNotations.

Definition txt := list ascii.
Definition s2l (s : string) : txt := list_ascii_of_string s.

Definition is_sep (c : ascii) : bool :=
  match N_of_ascii c with 32%N | 9%N | 10%N => true | _ => false end.      (* ' \t\n' *)
Definition lb : ascii := "{"%char.
Definition rb : ascii := "}"%char.

(* cur: the token being read, reversed; d: the bracket counter of the current token, which can
   go negative (a '}' without opener keeps the token open to the end of the line) *)
Definition emit (cur : txt) (rest : option (list txt)) : option (list txt) :=
  match cur with [] => rest | _ => option_map (cons (List.rev cur)) rest end.

Fixpoint scan (l : txt) (cur : txt) (d : Z) : option (list txt) :=
  match l with
  | [] => if Z.eqb d 0 then emit cur (Some []) else None     (* a bracket is missing *)
  | c :: r =>
      if Ascii.eqb c lb then
        (* an opening bracket inside a token that is not bracketed starts a new token *)
        if Z.eqb d 0 && negb (match cur with [] => true | _ => false end) then emit cur (scan r [c] 1)
        else scan r (c :: cur) (d + 1)
      else if Ascii.eqb c rb then
        if Z.eqb (d - 1) 0 then emit (c :: cur) (scan r [] 0)       (* the matching bracket closes the token *)
        else scan r (c :: cur) (d - 1)
      else if is_sep c then
        if Z.eqb d 0 then emit cur (scan r [] 0) else scan r (c :: cur) d
      else scan r (c :: cur) d
  end.

Definition tokenize (l : txt) : option (list txt) := scan l [] 0.

(* ---------- well-formed tokens ---------- *)
Definition plain_char (c : ascii) : bool := negb (is_sep c) && negb (Ascii.eqb c lb) && negb (Ascii.eqb c rb).
Definition plain (t : txt) : Prop := t <> [] /\ forallb plain_char t = true.

(* reading [t] from depth d returns to depth 0 exactly at its last character *)
Fixpoint closes (t : txt) (d : nat) : bool :=
  match t, d with
  | [], _ => false
  | _, O => false
  | c :: r, S d' =>
      if Ascii.eqb c lb then closes r (S (S d'))
      else if Ascii.eqb c rb then
        match d' with
        | O => match r with [] => true | _ => false end
        | S _ => closes r d'
        end
      else closes r (S d')
  end.
Definition braced (t : txt) : Prop := exists r, t = lb :: r /\ closes r 1 = true.

Inductive token_ok : txt -> Prop :=
| ok_plain t : plain t -> token_ok t
| ok_braced t : braced t -> token_ok t.

(* joining: a blank between tokens, except that a braced token may be glued to its neighbours *)
Inductive joined : list txt -> txt -> Prop :=
| j_nil : joined [] []
| j_one t : joined [t] t
| j_space t u ts l : joined (u :: ts) l -> joined (t :: u :: ts) (t ++ " "%char :: l)
| j_glue_after_brace t u ts l : braced t -> joined (u :: ts) l -> joined (t :: u :: ts) (t ++ l)
| j_glue_before_brace t u ts l : plain t -> braced u -> joined (u :: ts) l -> joined (t :: u :: ts) (t ++ l).

(* ---------- macros ---------- *)
Definition dollar : ascii := "$"%char.
Definition macro_stop (c : ascii) : bool :=
  is_sep c || Ascii.eqb c lb || Ascii.eqb c rb || Ascii.eqb c dollar || Ascii.eqb c """"%char.

Fixpoint take_name (l : txt) : txt * txt :=
  match l with
  | [] => ([], [])
  | c :: r => if macro_stop c then ([], l) else let '(n, rest) := take_name r in (c :: n, rest)
  end.

Definition txt_eqb (a b : txt) : bool :=
  (fix go a b := match a, b with [], [] => true | x :: r, y :: s => Ascii.eqb x y && go r s | _, _ => false end) a b.

Fixpoint macro_get (ms : list (txt * txt)) (n : txt) : option txt :=
  match ms with [] => None | (k, v) :: r => if txt_eqb k n then Some v else macro_get r n end.

(* _substitute_macros: after a substitution the search resumes at the position of the
   replaced '$' (so a value containing '$' is expanded again); fuel bounds that *)
Fixpoint subst (fuel : nat) (ms : list (txt * txt)) (l : txt) : option txt :=
  match fuel with
  | O => None
  | S f =>
      (fix go (l : txt) : option txt :=
         match l with
         | [] => Some []
         | c :: r =>
             if Ascii.eqb c dollar then
               let '(name, rest) := take_name r in
               match macro_get ms name with
               | None => None                         (* KeyError *)
               | Some v => subst f ms (v ++ rest)
               end
             else option_map (cons c) (go r)
         end) l
  end.
