From Coq Require Import List Bool ZArith QArith String Ascii Lia.
From V Require Import C13.Tokenizer C13.Mechanisms.
Import ListNotations.

(* ---------- (a) ---------- *)
Lemma pchar_roundtrip p : pchar_of (ascii_of_pchar p) = Some p.
Proof. destruct p; reflexivity. Qed.

Definition base_ok (b : txt) : Prop := b <> [] /\ match b with c :: _ => pchar_of c = None | [] => True end.

Lemma split_prefix_render ps b : base_ok b -> split_prefix (render_prefix ps ++ b) = (ps, b).
Proof.
  intros [Hne Hc]. induction ps as [|p ps IH]; cbn.
  - destruct b as [|c r]; [congruence|]. cbn. rewrite Hc. reflexivity.
  - rewrite pchar_roundtrip. unfold render_prefix in IH. rewrite IH. reflexivity.
Qed.

Lemma repeat_homogeneous c n : homogeneous (repeat c n) = true.
Proof.
  destruct n; cbn; [reflexivity|]. induction n; cbn; [reflexivity|]. rewrite IHn. destruct c; reflexivity.
Qed.

Lemma prefix_homogeneous o : homogeneous (prefix_of_order o) = true.
Proof. destruct o as [z|c n]; cbn; [destruct (Z.ltb 0 z)|]; apply repeat_homogeneous. Qed.

Lemma order_prefix_roundtrip o : order_valid o = true -> order_of_prefix (prefix_of_order o) = o.
Proof.
  destruct o as [z|c n]; cbn.
  - intros _. destruct (Z.ltb_spec 0 z).
    + destruct (Z.to_nat z) eqn:E; [lia|]. cbn. f_equal. rewrite repeat_length. lia.
    + destruct (Z.to_nat (- z)) eqn:E; cbn; [f_equal; lia|]. f_equal. rewrite repeat_length. lia.
  - intros H. destruct n; [discriminate|]. cbn. rewrite repeat_length. destruct c; try reflexivity; discriminate.
Qed.

Lemma split_node_key_render ps b : base_ok b ->
  split_node_key (render_prefix ps ++ b) = if homogeneous ps then inr (ps, b) else inl MixedPrefix.
Proof.
  intros Hb. unfold split_node_key. rewrite (split_prefix_render ps b Hb). destruct Hb as [Hne _].
  destruct (render_prefix ps ++ b) eqn:E.
  - apply app_eq_nil in E as [_ E]. congruence.
  - destruct b; [congruence|]. reflexivity.
Qed.

(* writing the order as a key prefix or as an 'order' attribute gives the same node *)
Lemma prefix_order_equivalent_lemma o b name :
  order_valid o = true -> base_ok b ->
  treat_atom_prefix (render_prefix (prefix_of_order o) ++ b) None name = treat_atom_prefix b (Some o) name.
Proof.
  intros Hv Hb. unfold treat_atom_prefix.
  rewrite (split_node_key_render (prefix_of_order o) b Hb), prefix_homogeneous.
  pose proof (split_node_key_render [] b Hb) as E0. cbn [render_prefix map app homogeneous] in E0. rewrite E0.
  rewrite Hv. cbn [negb andb]. rewrite (order_prefix_roundtrip o Hv).
  destruct (prefix_of_order o) eqn:Ep; reflexivity.
Qed.

(* a prefix contradicting the order attribute is rejected *)
Lemma prefix_order_contradiction_lemma ps b o name :
  base_ok b -> ps <> [] -> homogeneous ps = true -> order_valid o = true -> order_eqb o (order_of_prefix ps) = false ->
  treat_atom_prefix (render_prefix ps ++ b) (Some o) name = inl Inconsistent.
Proof.
  intros Hb Hps Hh Hv Hne. unfold treat_atom_prefix. rewrite (split_node_key_render ps b Hb), Hh, Hv, Hne.
  destruct ps; [congruence|]. reflexivity.
Qed.

Lemma mixed_prefix_lemma ps b : base_ok b -> homogeneous ps = false ->
  forall o name, treat_atom_prefix (render_prefix ps ++ b) o name = inl MixedPrefix.
Proof.
  intros Hb Hh o name. unfold treat_atom_prefix. rewrite (split_node_key_render ps b Hb), Hh. reflexivity.
Qed.

Lemma empty_base_lemma ps : forall o name, treat_atom_prefix (render_prefix ps) o name = inl (match ps with [] => EmptyKey | _ => NoBase end).
Proof.
  intros o name. unfold treat_atom_prefix, split_node_key.
  assert (E : split_prefix (render_prefix ps) = (ps, [])).
  { induction ps as [|p ps IH]; cbn; [reflexivity|]. rewrite pchar_roundtrip. unfold render_prefix in IH. rewrite IH. reflexivity. }
  destruct ps as [|p ps]; [reflexivity|]. rewrite E. reflexivity.
Qed.

(* ---------- (b) ---------- *)
Definition extend (c : ctx) (ls : list nat) : ctx := {| c_kind := c_kind c; c_id := c_id c; c_lines := c_lines c ++ ls |}.

Lemma fold_step_spec es : forall s,
  (cur s <> None -> in_top s = true) ->
  done_ (finalize (fold_left step es s)) =
  done_ s ++ (match cur s with Some c => [extend c (lines_until_top es)] | None => [] end) ++ declared es (next_id s).
Proof.
  induction es as [|e r IH]; intros s Hinv.
  - cbn. unfold finalize. destruct (cur s) as [c|]; cbn; rewrite ?app_nil_r; [|reflexivity].
    unfold extend. rewrite app_nil_r. destruct c; reflexivity.
  - cbn [fold_left]. destruct e as [k| |p].
    + rewrite IH.
      * cbn [step lines_until_top declared]. destruct (in_top s) eqn:Et.
        -- unfold finalize. destruct (cur s) as [c|] eqn:Ec; cbn [done_ cur next_id].
           ++ destruct k as [kd|]; cbn; unfold extend; cbn; rewrite ?app_nil_r, <- ?app_assoc; destruct c; reflexivity.
           ++ destruct k as [kd|]; cbn; reflexivity.
        -- destruct (cur s) as [c|] eqn:Ec; [specialize (Hinv ltac:(discriminate)); congruence|].
           destruct k as [kd|]; cbn; reflexivity.
      * intros _. reflexivity.
    + cbn [step]. rewrite (IH s Hinv). reflexivity.
    + cbn [step]. destruct (cur s) as [c|] eqn:Ec.
      * rewrite IH; [|intros _; cbn; apply Hinv; discriminate]. cbn [done_ cur next_id lines_until_top declared].
        unfold extend. cbn. rewrite <- app_assoc. reflexivity.
      * rewrite (IH s); [rewrite Ec; reflexivity|]. rewrite Ec. exact Hinv.
Qed.

(* every declared context is registered exactly once, in file order, with exactly its own lines *)
Lemma each_declared_once_lemma es : run_events es = declared es 0.
Proof.
  unfold run_events. rewrite fold_step_spec; [reflexivity|]. cbn. congruence.
Qed.

(* ---------- (c) ---------- *)
Lemma weight_plain m b : In b (plain_targets m) ->
  weight m b = Some (Z.of_nat (count b (plain_targets m)) # Pos.of_nat (List.length (plain_targets m))).
Proof.
  intros H. unfold weight.
  assert (E : existsb (Z.eqb b) (plain_targets m) = true).
  { apply existsb_exists. exists b. split; [exact H|apply Z.eqb_refl]. }
  rewrite E. reflexivity.
Qed.

Lemma weight_bang m b : ~ In b (plain_targets m) -> In b (null_targets m) -> weight m b = Some 0%Q.
Proof.
  intros Hn H. unfold weight.
  assert (E1 : existsb (Z.eqb b) (plain_targets m) = false).
  { destruct (existsb (Z.eqb b) (plain_targets m)) eqn:E; [|reflexivity].
    apply existsb_exists in E as (x & Hx & Hb). apply Z.eqb_eq in Hb. subst. contradiction. }
  assert (E2 : existsb (Z.eqb b) (null_targets m) = true).
  { apply existsb_exists. exists b. split; [exact H|apply Z.eqb_refl]. }
  rewrite E1, E2. reflexivity.
Qed.

(* each occurrence of a target contributes 1/total, so the weights of one atom sum to 1 *)
Lemma repeat_sum (p : positive) k : fold_right Qplus 0%Q (repeat (1 # p) k) == (Z.of_nat k # p).
Proof.
  induction k as [|k IH]; [reflexivity|]. cbn [repeat fold_right]. rewrite IH.
  unfold Qeq, Qplus. cbn [Qnum Qden]. rewrite Nat2Z.inj_succ. rewrite Pos2Z.inj_mul. ring.
Qed.

Lemma weights_sum_to_one_lemma n : (0 < n)%nat -> fold_right Qplus 0%Q (repeat (1 # Pos.of_nat n) n) == 1.
Proof.
  intros H. rewrite repeat_sum. unfold Qeq. cbn. rewrite Z.mul_1_r. destruct n; [lia|]. lia.
Qed.
