(* C13 — case type and the two boolean functions evaluated on generated cases. *)
From Coq Require Import List Bool ZArith QArith String Ascii.
From V Require Import C13.Tokenizer C13.TokProofs C13.Mechanisms C13.Lines.
Import ListNotations.

Fixpoint list_eqb {A} (f : A -> A -> bool) (a b : list A) : bool :=
  match a, b with [], [] => true | x :: r, y :: s => f x y && list_eqb f r s | _, _ => false end.
Definition opt_eqb {A} (f : A -> A -> bool) (a b : option A) : bool :=
  match a, b with Some x, Some y => f x y | None, None => true | _, _ => false end.

Inductive iorder := IONum (z : Z) | IOStr (s : string).

Inductive case :=
| CTok (line : string) (impl : option (list string))                     (* None: IOError *)
| CMacro (macros : list (string * string)) (line : string) (impl : option string)    (* None: KeyError *)
| CPrefix (reference : string) (attr_order : option iorder) (attr_name : option string)
          (impl : option (string * iorder * string))                     (* key, order, atomname; None: IOError *)
| CWeights (lines : list mline) (impl : option (list (Z * list (Z * Q))))    (* particle -> [(atom, weight)]; None: IOError *)
| CSections (es : list event)                                            (* a file built from these events was loaded *)
            (impl_blocks impl_links impl_mods : list (nat * list nat))   (* per loaded context: header index, its lines *)
| CLine (names : list string) (natoms : option nat) (delete : bool) (tokens : list string)   (* _base_parser on a block with these atoms *)
        (impl : option (list string * list string * option string))     (* atoms, parameters, meta token; None: rejected *)
| CAtomLines (lines : list (list string)) (impl : option (list string)).  (* _parse_block_atom line by line; the atom names of the block *)

Definition order_of_iorder (o : iorder) : option order :=
  match o with
  | IONum z => Some (ONum z)
  | IOStr s => match split_prefix (s2l s) with
               | (c :: r, []) => if homogeneous (c :: r) then Some (OSeq c (List.length (c :: r))) else None
               | _ => None end
  end.

Definition iorder_matches (o : order) (i : iorder) : bool :=
  match o, i with
  | ONum z, IONum y => Z.eqb z y
  | OSeq c n, IOStr s => txt_eqb (render_prefix (repeat c n)) (s2l s)
  | _, _ => false
  end.

Definition kind_eqb (a b : kind) : bool :=
  match a, b with KBlock, KBlock | KLink, KLink | KMod, KMod => true | _, _ => false end.
Definition of_kind (k : kind) (cs : list ctx) : list (nat * list nat) :=
  map (fun c => (c_id c, c_lines c)) (filter (fun c => kind_eqb (c_kind c) k) cs).
Definition ctxs_eqb (a b : list (nat * list nat)) : bool :=
  list_eqb (fun x y => Nat.eqb (fst x) (fst y) && list_eqb Nat.eqb (snd x) (snd y)) a b.
Definition sections_agree (cs : list ctx) (ib il im : list (nat * list nat)) : bool :=
  ctxs_eqb (of_kind KBlock cs) ib && ctxs_eqb (of_kind KLink cs) il && ctxs_eqb (of_kind KMod cs) im.

Definition strs_eqb (a : list txt) (b : list string) : bool := list_eqb txt_eqb a (map s2l b).

(* what a written reference of a block means, read from the documentation: a 1-based index of a declared atom, or the
   name of a declared atom *)
Definition spec_ref (names : list txt) (r : txt) : option txt :=
  if is_digits r then
    match num_of r with 0%N => None | n => nth_error names (N.to_nat (N.pred n)) end
  else if in_names r names then Some r else None.

Fixpoint distinct (l : list txt) : bool := match l with [] => true | x :: r => negb (in_names x r) && distinct r end.

Definition corr (k : case) : bool :=
  match k with
  | CLine names natoms delete tokens impl =>
      match base_parse_block (map s2l names) natoms delete (map s2l tokens), impl with
      | inr i, Some (atoms, params, meta) =>
          strs_eqb (i_atoms i) atoms && strs_eqb (i_params i) params && opt_eqb txt_eqb (i_meta i) (option_map s2l meta)
      | inl _, None => true
      | _, _ => false
      end
  | CAtomLines lines impl =>
      match block_atoms [] (map (map s2l) lines), impl with
      | inr names, Some got => strs_eqb names got
      | inl _, None => true
      | _, _ => false
      end
  | CSections es ib il im => sections_agree (run_events es) ib il im
  | CTok line impl => opt_eqb (list_eqb txt_eqb) (tokenize (s2l line)) (option_map (map s2l) impl)
  | CMacro ms line impl =>
      opt_eqb txt_eqb (subst 50 (map (fun kv => (s2l (fst kv), s2l (snd kv))) ms) (s2l line)) (option_map s2l impl)
  | CPrefix ref ao an impl =>
      let ao' := match ao with Some i => match order_of_iorder i with Some o => Some (Some o) | None => None end | None => Some None end in
      match ao' with
      | None => match impl with None => true | Some _ => false end          (* an order the model calls invalid must be rejected *)
      | Some o =>
          match treat_atom_prefix (s2l ref) o (option_map s2l an), impl with
          | inr t, Some (key, io, nm) =>
              txt_eqb (render_prefix (fst (t_key t)) ++ snd (t_key t)) (s2l key) && iorder_matches (t_order t) io
              && txt_eqb (t_atomname t) (s2l nm)
          | inl _, None => true
          | _, _ => false
          end
      end
  | CWeights lines impl =>
      match impl with
      | None => existsb conflict lines
      | Some w =>
          negb (existsb conflict lines)
          && forallb (fun m : mline => forallb (fun t : bool * Z =>
               match weight m (snd t), find (fun pw => Z.eqb (fst pw) (snd t)) w with
               | Some q, Some (_, aw) => match find (fun a => Z.eqb (fst a) (m_from m)) aw with
                                         | Some (_, q') => Qeq_bool q q' | None => false end
               | _, _ => false end) (m_to m)) lines
      end
  end.

(* the mechanisms' properties on the implementation's answers *)
Definition prop (k : case) : bool :=
  match k with
  | CSections es ib il im => sections_agree (declared es 0) ib il im      (* each declared context once, in order, with its own lines *)
  | CTok line impl =>
      (* brackets that do not balance are never accepted *)
      match impl with Some _ => Z.eqb (net (s2l line)) 0%Z | None => true end
  | CWeights lines (Some w) =>
      (* every '!' target has weight 0, every plain target multiplicity/total *)
      forallb (fun m : mline => forallb (fun t : bool * Z =>
         match find (fun pw => Z.eqb (fst pw) (snd t)) w with
         | Some (_, aw) => match find (fun a => Z.eqb (fst a) (m_from m)) aw with
                           | Some (_, q) => if fst t then Qeq_bool q 0
                                            else Qeq_bool q (Z.of_nat (count (snd t) (plain_targets m)) # Pos.of_nat (List.length (plain_targets m)))
                           | None => false end
         | None => false end) (m_to m)) lines
  | CLine names natoms delete tokens (Some (atoms, params, meta)) =>
      (* an accepted interaction line of a block: never a removal; a fixed-size interaction has its number of atoms;
         every atom is what the written reference means (a declared name, or the 1-based index of a declared atom) *)
      negb delete
      && match natoms with Some k => Nat.eqb (List.length atoms) k | None => true end
      && match get_atoms natoms 0 (map s2l tokens) with
         | inr (written, _) => list_eqb (opt_eqb txt_eqb) (map (fun a => spec_ref (map s2l names) (fst a)) written)
                                                          (map (fun a => Some (s2l a)) atoms)
         | inl _ => false
         end
  | CAtomLines lines (Some got) =>
      (* the atoms of the block: the fifth column of every line, in file order, no name twice *)
      distinct (map s2l got)
      && list_eqb (opt_eqb txt_eqb) (map (fun l => nth_error (match List.rev l with m :: r => if is_attr m then List.rev r else l | [] => l end) 4)
                                         (map (map s2l) lines))
                  (map (fun n => Some (s2l n)) got)
  | CPrefix ref ao an (Some (key, io, nm)) =>
      (* an accepted reference: the order it ends up with is the explicit one if given, else the one its prefix means;
         a prefix next to an explicit order must mean the same order (a contradiction is never accepted) *)
      let ps := fst (split_prefix (s2l ref)) in
      match ao with
      | Some i => match order_of_iorder i with
                  | Some o => iorder_matches o io && match ps with [] => true | _ => order_eqb o (order_of_prefix ps) end
                  | None => false
                  end
      | None => iorder_matches (order_of_prefix ps) io
      end
  | _ => true
  end.
