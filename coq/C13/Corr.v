(* C13 — case type and the two boolean functions evaluated on generated cases. *)
From Coq Require Import List Bool ZArith QArith String Ascii.
From V Require Import C13.Tokenizer C13.TokProofs C13.Mechanisms.
Import ListNotations.

Fixpoint list_eqb {A} (f : A -> A -> bool) (a b : list A) : bool :=
  match a, b with [], [] => true | x :: r, y :: s => f x y && list_eqb f r s | _, _ => false end.
Definition opt_eqb {A} (f : A -> A -> bool) (a b : option A) : bool :=
  match a, b with Some x, Some y => f x y | None, None => true | _, _ => false end.

Inductive iorder := IONum (z : Z) | IOStr (s : string).

Inductive case :=
| CTok (line : string) (impl : option (list string))                     (* None: IOError *)
| CMacro (macros : list (string * string)) (line : string) (impl : option string)    (* None: KeyError *)
| CPrefix (reference : string) (attr_order : option iorder) (attr_name : option string)
          (impl : option (string * iorder * string))                     (* key, order, atomname; None: IOError *)
| CWeights (lines : list mline) (impl : option (list (Z * list (Z * Q))))    (* particle -> [(atom, weight)]; None: IOError *)
| CSections (es : list event)                                            (* a file built from these events was loaded *)
            (impl_blocks impl_links impl_mods : list (nat * list nat)).  (* per loaded context: header index, its lines *)

Definition order_of_iorder (o : iorder) : option order :=
  match o with
  | IONum z => Some (ONum z)
  | IOStr s => match split_prefix (s2l s) with
               | (c :: r, []) => if homogeneous (c :: r) then Some (OSeq c (List.length (c :: r))) else None
               | _ => None end
  end.

Definition iorder_matches (o : order) (i : iorder) : bool :=
  match o, i with
  | ONum z, IONum y => Z.eqb z y
  | OSeq c n, IOStr s => txt_eqb (render_prefix (repeat c n)) (s2l s)
  | _, _ => false
  end.

Definition kind_eqb (a b : kind) : bool :=
  match a, b with KBlock, KBlock | KLink, KLink | KMod, KMod => true | _, _ => false end.
Definition of_kind (k : kind) (cs : list ctx) : list (nat * list nat) :=
  map (fun c => (c_id c, c_lines c)) (filter (fun c => kind_eqb (c_kind c) k) cs).
Definition ctxs_eqb (a b : list (nat * list nat)) : bool :=
  list_eqb (fun x y => Nat.eqb (fst x) (fst y) && list_eqb Nat.eqb (snd x) (snd y)) a b.
Definition sections_agree (cs : list ctx) (ib il im : list (nat * list nat)) : bool :=
  ctxs_eqb (of_kind KBlock cs) ib && ctxs_eqb (of_kind KLink cs) il && ctxs_eqb (of_kind KMod cs) im.

Definition corr (k : case) : bool :=
  match k with
  | CSections es ib il im => sections_agree (run_events es) ib il im
  | CTok line impl => opt_eqb (list_eqb txt_eqb) (tokenize (s2l line)) (option_map (map s2l) impl)
  | CMacro ms line impl =>
      opt_eqb txt_eqb (subst 50 (map (fun kv => (s2l (fst kv), s2l (snd kv))) ms) (s2l line)) (option_map s2l impl)
  | CPrefix ref ao an impl =>
      let ao' := match ao with Some i => match order_of_iorder i with Some o => Some (Some o) | None => None end | None => Some None end in
      match ao' with
      | None => match impl with None => true | Some _ => false end          (* an order the model calls invalid must be rejected *)
      | Some o =>
          match treat_atom_prefix (s2l ref) o (option_map s2l an), impl with
          | inr t, Some (key, io, nm) =>
              txt_eqb (render_prefix (fst (t_key t)) ++ snd (t_key t)) (s2l key) && iorder_matches (t_order t) io
              && txt_eqb (t_atomname t) (s2l nm)
          | inl _, None => true
          | _, _ => false
          end
      end
  | CWeights lines impl =>
      match impl with
      | None => existsb conflict lines
      | Some w =>
          negb (existsb conflict lines)
          && forallb (fun m : mline => forallb (fun t : bool * Z =>
               match weight m (snd t), find (fun pw => Z.eqb (fst pw) (snd t)) w with
               | Some q, Some (_, aw) => match find (fun a => Z.eqb (fst a) (m_from m)) aw with
                                         | Some (_, q') => Qeq_bool q q' | None => false end
               | _, _ => false end) (m_to m)) lines
      end
  end.

(* the mechanisms' properties on the implementation's answers *)
Definition prop (k : case) : bool :=
  match k with
  | CSections es ib il im => sections_agree (declared es 0) ib il im      (* each declared context once, in order, with its own lines *)
  | CTok line impl =>
      (* brackets that do not balance are never accepted *)
      match impl with Some _ => Z.eqb (net (s2l line)) 0%Z | None => true end
  | CWeights lines (Some w) =>
      (* every '!' target has weight 0, every plain target multiplicity/total *)
      forallb (fun m : mline => forallb (fun t : bool * Z =>
         match find (fun pw => Z.eqb (fst pw) (snd t)) w with
         | Some (_, aw) => match find (fun a => Z.eqb (fst a) (m_from m)) aw with
                           | Some (_, q) => if fst t then Qeq_bool q 0
                                            else Qeq_bool q (Z.of_nat (count (snd t) (plain_targets m)) # Pos.of_nat (List.length (plain_targets m)))
                           | None => false end
         | None => false end) (m_to m)) lines
  | CPrefix ref ao an (Some (key, io, nm)) =>
      (* an accepted reference: the order it ends up with is the explicit one if given, else the one its prefix means;
         a prefix next to an explicit order must mean the same order (a contradiction is never accepted) *)
      let ps := fst (split_prefix (s2l ref)) in
      match ao with
      | Some i => match order_of_iorder i with
                  | Some o => iorder_matches o io && match ps with [] => true | _ => order_eqb o (order_of_prefix ps) end
                  | None => false
                  end
      | None => iorder_matches (order_of_prefix ps) io
      end
  | _ => true
  end.
