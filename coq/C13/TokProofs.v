From Coq Require Import List Bool ZArith String Ascii Lia.
From V Require Import C13.Tokenizer.
Import ListNotations.
Open Scope Z_scope.

(* ---------- unbalanced brackets are rejected ---------- *)
Fixpoint net (l : txt) : Z :=
  match l with
  | [] => 0
  | c :: r => (if Ascii.eqb c lb then 1 else if Ascii.eqb c rb then -1 else 0) + net r
  end.

Lemma emit_some cur rest ts : emit cur rest = Some ts -> exists ts', rest = Some ts'.
Proof. unfold emit. destruct cur; [eauto|]. destruct rest; [eauto|discriminate]. Qed.

Lemma scan_net l : forall cur d ts, scan l cur d = Some ts -> d + net l = 0.
Proof.
  induction l as [|c r IH]; intros cur d ts; cbn [scan net].
  - destruct (Z.eqb_spec d 0); [lia|discriminate].
  - destruct (Ascii.eqb c lb) eqn:El.
    + destruct (Z.eqb d 0 && _) eqn:E.
      * intros H. apply emit_some in H as [ts' H]. apply IH in H. apply andb_prop in E as [E _]. apply Z.eqb_eq in E. lia.
      * intros H. apply IH in H. lia.
    + destruct (Ascii.eqb c rb) eqn:Er.
      * destruct (Z.eqb_spec (d - 1) 0) as [E|E].
        -- intros H. apply emit_some in H as [ts' H]. apply IH in H. lia.
        -- intros H. apply IH in H. lia.
      * destruct (is_sep c).
        -- destruct (Z.eqb_spec d 0) as [E|E].
           ++ intros H. apply emit_some in H as [ts' H]. apply IH in H. lia.
           ++ intros H. apply IH in H. lia.
        -- intros H. apply IH in H. lia.
Qed.

Lemma unbalanced_rejected_lemma l : net l <> 0 -> tokenize l = None.
Proof.
  intros H. unfold tokenize. destruct (scan l [] 0) as [ts|] eqn:E; [|reflexivity].
  apply scan_net in E. lia.
Qed.

(* ---------- tokenize (join ts) = ts ---------- *)
Lemma plain_char_spec c : plain_char c = true -> Ascii.eqb c lb = false /\ Ascii.eqb c rb = false /\ is_sep c = false.
Proof.
  unfold plain_char. intros H. apply andb_prop in H as [H H3]. apply andb_prop in H as [H1 H2].
  apply negb_true_iff in H1, H2, H3. auto.
Qed.

Lemma scan_plain t : forall rest cur, forallb plain_char t = true ->
  scan (t ++ rest) cur 0 = scan rest (List.rev t ++ cur) 0.
Proof.
  induction t as [|c t IH]; intros rest cur H; cbn [app List.rev]; [reflexivity|].
  cbn in H. apply andb_prop in H as [Hc Ht]. destruct (plain_char_spec c Hc) as (E1 & E2 & E3).
  cbn [scan]. rewrite E1, E2, E3. rewrite IH by exact Ht. rewrite <- app_assoc. reflexivity.
Qed.

Lemma scan_closes r : forall rest cur d, closes r d = true ->
  scan (r ++ rest) cur (Z.of_nat d) = option_map (cons (List.rev (List.rev r ++ cur))) (scan rest [] 0).
Proof.
  induction r as [|c r IH]; intros rest cur d H; [discriminate|].
  destruct d as [|d']; [discriminate|]. cbn [closes] in H. cbn [app scan].
  assert (Hnz : Z.eqb (Z.of_nat (S d')) 0 = false) by (apply Z.eqb_neq; lia).
  destruct (Ascii.eqb c lb) eqn:El.
  - rewrite Hnz. cbn [andb].
    replace (Z.of_nat (S d') + 1) with (Z.of_nat (S (S d'))) by lia.
    rewrite (IH rest (c :: cur) _ H). cbn [List.rev]. rewrite <- app_assoc. reflexivity.
  - destruct (Ascii.eqb c rb) eqn:Er.
    + destruct d' as [|d''].
      * destruct r as [|? ?]; [|discriminate]. cbn [app]. change (Z.of_nat 1 - 1) with 0. cbn [Z.eqb].
        unfold emit. cbn [List.rev app]. reflexivity.
      * assert (Hn : Z.eqb (Z.of_nat (S (S d'')) - 1) 0 = false) by (apply Z.eqb_neq; lia). rewrite Hn.
        replace (Z.of_nat (S (S d'')) - 1) with (Z.of_nat (S d'')) by lia.
        rewrite (IH rest (c :: cur) _ H). cbn [List.rev]. rewrite <- app_assoc. reflexivity.
    + destruct (is_sep c); rewrite ?Hnz; rewrite (IH rest (c :: cur) _ H); cbn [List.rev]; rewrite <- app_assoc; reflexivity.
Qed.

Lemma scan_braced t rest : braced t -> scan (t ++ rest) [] 0 = option_map (cons t) (scan rest [] 0).
Proof.
  intros (r & -> & Hc). cbn [app scan]. change (Ascii.eqb lb lb) with true. cbv iota. cbn [andb Z.eqb negb].
  change (0 + 1) with (Z.of_nat 1). rewrite (scan_closes r rest [lb] 1 Hc).
  rewrite rev_app_distr, rev_involutive. reflexivity.
Qed.

(* an opening bracket right after a plain token ends that token *)
Lemma scan_lb_after x cur : cur <> [] -> scan (lb :: x) cur 0 = option_map (cons (List.rev cur)) (scan (lb :: x) [] 0).
Proof.
  intros Hc. cbn [scan]. change (Ascii.eqb lb lb) with true. cbv iota. destruct cur as [|c0 cur']; [congruence|].
  cbn [andb Z.eqb negb emit]. reflexivity.
Qed.

Lemma joined_head u ts l : joined (u :: ts) l -> exists l', l = u ++ l'.
Proof.
  intros H. inversion H; subst.
  - exists []. symmetry. apply app_nil_r.
  - eexists. reflexivity.
  - eexists. reflexivity.
  - eexists. reflexivity.
Qed.

Lemma rev_nonnil (t : txt) : t <> [] -> List.rev t <> [].
Proof. destruct t; [congruence|]. cbn. intros _ H. apply app_eq_nil in H as [_ H]. discriminate. Qed.

Lemma emit_rev (t : txt) rest : t <> [] -> emit (List.rev t) rest = option_map (cons t) rest.
Proof.
  intros Hne. unfold emit. destruct (List.rev t) eqn:E; [exfalso; exact (rev_nonnil t Hne E)|].
  rewrite <- E, rev_involutive. reflexivity.
Qed.

Lemma tokenize_join_lemma ts l : joined ts l -> Forall token_ok ts -> tokenize l = Some ts.
Proof.
  unfold tokenize. induction 1 as [|t|t u ts l Hj IH|t u ts l Hb Hj IH|t u ts l Hp Hb Hj IH]; intros Hok.
  - reflexivity.
  - inversion Hok as [|? ? Ht _]; subst. destruct Ht as [t [Hne Hp]|t Hb].
    + rewrite <- (app_nil_r t) at 1. rewrite scan_plain by exact Hp. cbn [scan Z.eqb]. rewrite app_nil_r.
      rewrite emit_rev by exact Hne. reflexivity.
    + rewrite <- (app_nil_r t) at 1. rewrite scan_braced by exact Hb. reflexivity.
  - inversion Hok as [|? ? Ht Hr]; subst. specialize (IH Hr). destruct Ht as [t [Hne Hp]|t Hb].
    + rewrite scan_plain by exact Hp. cbn [scan]. change (Ascii.eqb " " lb) with false. change (Ascii.eqb " " rb) with false.
      change (is_sep " ") with true. cbv iota. cbn [Z.eqb]. rewrite app_nil_r, IH.
      rewrite emit_rev by exact Hne. reflexivity.
    + rewrite scan_braced by exact Hb. cbn [scan]. change (Ascii.eqb " " lb) with false. change (Ascii.eqb " " rb) with false.
      change (is_sep " ") with true. cbv iota. cbn [Z.eqb emit]. rewrite IH. reflexivity.
  - inversion Hok as [|? ? Ht Hr]; subst. specialize (IH Hr). rewrite scan_braced by exact Hb. rewrite IH. reflexivity.
  - inversion Hok as [|? ? Ht Hr]; subst. specialize (IH Hr). destruct Hp as [Hne Hp].
    destruct (joined_head _ _ _ Hj) as [l' ->]. destruct Hb as (r & -> & Hc).
    rewrite scan_plain by exact Hp. rewrite app_nil_r. cbn [app] in *.
    rewrite scan_lb_after by (apply rev_nonnil; exact Hne). rewrite IH. cbn. rewrite rev_involutive. reflexivity.
Qed.
