(* C02 — property theorems only. *)
From Coq Require Import List Bool ZArith String Permutation Sorted.
From V Require Import Base.Sort C02.Model C02.Spec C02.Proofs.
Import ListNotations.
Open Scope Z_scope.

(* Writing a well-formed molecule and reading the lines back with the independent
   reader gives exactly the canonical molecule: ordered atom list numbered 1..N without
   gaps (the reader rejects any other numbering), every interaction with the same atoms
   (translated to written indices), the same parameters, in the right section
   (impropers under dihedrals; virtual_sitesn with the function type after the first
   atom) and inside the same #ifdef/#ifndef guard. The writer does not fail. *)
Theorem read_write : forall m, wfb m = true ->
  exists ls c, write_itp m = Some ls /\ canon m = Some c /\ read_itp ls = Some c.
Proof. exact read_write_lemma. Qed.
Print Assumptions read_write.

(* the written atom order is the atomid order (stable; missing atomid last), a
   permutation of the atoms in memory: whatever the node keys and node order *)
Theorem atoms_exactly_once_in_atomid_order : forall m,
  Permutation (m_atoms m) (sorted_nodes m) /\
  StronglySorted (fun a b => atomid_leb a b = true) (sorted_nodes m).
Proof. intros m. split; [apply sorted_nodes_perm|apply sorted_nodes_sorted]. Qed.
Print Assumptions atoms_exactly_once_in_atomid_order.

(* the index written for node key k is the position (from 1) of k's atom in that order *)
Theorem interaction_atoms_exact : forall m k r, rank m k = Some r ->
  1 <= r <= Z.of_nat (List.length (sorted_nodes m)) /\
  exists a, nth_error (sorted_nodes m) (Z.to_nat (r - 1)) = Some a /\ a_key a = k.
Proof. exact rank_spec. Qed.
Print Assumptions interaction_atoms_exact.

(* the key -> index table is injective and total on the atoms of the molecule: two different atoms are never written
   under one index, so no interaction is attached to a different atom; every atom of the molecule has an index *)
Theorem distinct_atoms_get_distinct_indices : forall m,
  (forall k1 k2 r, rank m k1 = Some r -> rank m k2 = Some r -> k1 = k2) /\
  (forall k, In k (map a_key (m_atoms m)) -> exists r, rank m k = Some r).
Proof. intros m. split; [apply rank_injective|apply rank_total]. Qed.
Print Assumptions distinct_atoms_get_distinct_indices.

(* with distinct node keys (a graph has no two nodes with one key) the j-th written atom is referred to as j + 1: the
   indices in use are exactly 1..N without gaps, each naming one atom *)
Theorem written_position_is_the_index : forall m, NoDup (map a_key (sorted_nodes m)) ->
  forall j a, nth_error (sorted_nodes m) j = Some a -> rank m (a_key a) = Some (Z.of_nat j + 1).
Proof. exact rank_position. Qed.
Print Assumptions written_position_is_the_index.

(* nothing dropped, duplicated or moved to another section: the (section, interaction)
   pairs written are a permutation of those in memory (impropers renamed dihedrals) *)
Theorem interactions_multiset_preserved : forall m,
  Permutation (flat_map (fun tl => tagged (fst tl, sort inter_leb (snd tl))) (sorted_sections m))
              (flat_map tagged (m_inters m)).
Proof. exact written_inters_perm. Qed.
Print Assumptions interactions_multiset_preserved.

(* the oracle evaluated on the real output is sound *)
Theorem holds_on_sound_thm : forall m ls, holds_on m ls = true ->
  exists c, canon m = Some c /\ read_itp ls = Some c.
Proof. exact holds_on_sound. Qed.
Print Assumptions holds_on_sound_thm.

(* non-vacuity: unordered sparse keys, permuted atomids, impropers, an n-body virtual
   site, guards and a group; the molecule is well formed and the round trip computes *)
Local Open Scope string_scope.
Example nonvacuous :
  let A := fun k id nm => {| a_key := k; a_atomid := id; a_atype := "P1"; a_resid := "1"; a_resname := "ALA";
                            a_atomname := nm; a_cgrp := "1"; a_charge := Some "0.0"; a_mass := None |} in
  let I := fun at_ ps d nd g => {| i_atoms := at_; i_params := ps; i_ifdef := d; i_ifndef := nd; i_group := g;
                                   i_comment := None |} in
  let m := {| m_moltype := "mol"; m_nrexcl := "1"; m_header := ["h"]; m_define := [("F", "1")];
              m_atoms := [A 7 (Some 3) "C"; A (-2) (Some 1) "A"; A 30 None "D"; A 4 (Some 2) "B"];
              m_inters := [("impropers", [I [7; -2; 30; 4] ["2"; "0"; "50"] None None None]);
                           ("bonds", [I [7; 4] ["1"; "0.47"] (Some "FLEX") None None;
                                      I [-2; 30] ["1"; "0.35"] None None (Some "grp")]);
                           ("virtual_sitesn", [I [30; 7; -2] ["1"] None (Some "NOVS") None])] |}%string in
  wfb m = true /\
  match write_itp m with
  | Some ls => holds_on m ls = true /\
               option_map (fun c => map (fun r => (r_sec r, r_atoms r)) (t_inters c)) (read_itp ls) =
               Some [("bonds", [1; 4]); ("bonds", [3; 2]); ("virtual_sitesn", [4; 3; 1]); ("dihedrals", [3; 1; 4; 2])]%string
  | None => False end.
Proof. vm_compute. repeat split. Qed.
