(* C02 — an independent reader of the ITP line/token structure, written from the
   GROMACS file-format definition (section -> number of atom columns); it uses nothing
   of the writer. The property is  read (write m) = canon m. *)
From Coq Require Import List Bool ZArith String Ascii Permutation.
From V Require Import Base.Sort C02.Model.
Import ListNotations.
Open Scope Z_scope.

Record ratom := {
  r_atype : tok; r_resid : tok; r_resname : tok; r_atomname : tok; r_cgrp : tok;
  r_charge : option tok; r_mass : option tok }.

Record rinter := {
  r_sec : string; r_atoms : list Z; r_params : list tok; r_guard : option (string * bool) }.

Record itp := { t_moltype : option (list tok); t_atoms : list ratom; t_inters : list rinter }.

(* number of leading atom columns per directive (GROMACS manual, table of topology directives) *)
Inductive arity := Fixed (k : nat) | AllAtoms | SiteN.
Definition arity_of (sec : string) : option arity :=
  let tbl := [("bonds", Fixed 2); ("pairs", Fixed 2); ("pairs_nb", Fixed 2); ("angles", Fixed 3);
              ("dihedrals", Fixed 4); ("cmap", Fixed 5); ("constraints", Fixed 2); ("settles", Fixed 1);
              ("exclusions", AllAtoms); ("position_restraints", Fixed 1); ("distance_restraints", Fixed 2);
              ("dihedral_restraints", Fixed 4); ("orientation_restraints", Fixed 2);
              ("angle_restraints", Fixed 4); ("angle_restraints_z", Fixed 2);
              ("virtual_sites1", Fixed 2); ("virtual_sites2", Fixed 3); ("virtual_sites3", Fixed 4);
              ("virtual_sites4", Fixed 5); ("virtual_sitesn", SiteN)]%string in
  match find (fun p => String.eqb (fst p) sec) tbl with Some p => Some (snd p) | None => None end.

Fixpoint idxs_in_range (n : Z) (ts : list tok) : option (list Z) :=
  match ts with
  | [] => Some []
  | TIdx i :: r => if (1 <=? i) && (i <=? n)
                   then match idxs_in_range n r with Some l => Some (i :: l) | None => None end
                   else None
  | TStr _ :: _ => None
  end.

(* split the tokens of an interaction line into atom indices and parameters *)
Definition split_inter (sec : string) (natoms : Z) (ts : list tok) : option (list Z * list tok) :=
  match arity_of sec with
  | None => None
  | Some (Fixed k) =>
      if Nat.leb k (List.length ts) then
        match idxs_in_range natoms (firstn k ts) with
        | Some a => Some (a, skipn k ts)
        | None => None end
      else None
  | Some AllAtoms => match idxs_in_range natoms ts with Some a => Some (a, []) | None => None end
  | Some SiteN =>
      match ts with
      | a0 :: f :: rest =>
          match idxs_in_range natoms (a0 :: rest) with Some a => Some (a, [f]) | None => None end
      | _ => None
      end
  end.

Record rst := { s_sec : option string; s_guard : option (string * bool); s_mt : option (list tok);
                s_atoms : list ratom; s_inters : list rinter }.

Definition parse_atom (n : Z) (ts : list tok) : option ratom :=
  match ts with
  | TIdx i :: ty :: ri :: rn :: an :: cg :: rest =>
      if Z.eqb i (n + 1) then
        match rest with
        | [] => Some {| r_atype := ty; r_resid := ri; r_resname := rn; r_atomname := an; r_cgrp := cg;
                        r_charge := None; r_mass := None |}
        | [q] => Some {| r_atype := ty; r_resid := ri; r_resname := rn; r_atomname := an; r_cgrp := cg;
                         r_charge := Some q; r_mass := None |}
        | [q; ms] => Some {| r_atype := ty; r_resid := ri; r_resname := rn; r_atomname := an; r_cgrp := cg;
                             r_charge := Some q; r_mass := Some ms |}
        | _ => None
        end
      else None                                   (* numbering must be 1..N without gaps *)
  | _ => None
  end.

Definition step (s : rst) (l : line) : option rst :=
  match l with
  | LBlank | LComment _ | LDefine _ _ => Some s
  | LSec n =>
      match s_guard s with
      | None => Some {| s_sec := Some n; s_guard := None; s_mt := s_mt s; s_atoms := s_atoms s; s_inters := s_inters s |}
      | Some _ => None end
  | LIf p n =>
      match s_guard s with
      | None => Some {| s_sec := s_sec s; s_guard := Some (n, p); s_mt := s_mt s; s_atoms := s_atoms s; s_inters := s_inters s |}
      | Some _ => None end
  | LEndif =>
      match s_guard s with
      | Some _ => Some {| s_sec := s_sec s; s_guard := None; s_mt := s_mt s; s_atoms := s_atoms s; s_inters := s_inters s |}
      | None => None end
  | LToks ts _ =>
      match s_sec s with
      | None => None
      | Some sec =>
          if String.eqb sec "moleculetype" then
            match s_mt s, s_guard s with
            | None, None => Some {| s_sec := s_sec s; s_guard := None; s_mt := Some ts; s_atoms := s_atoms s; s_inters := s_inters s |}
            | _, _ => None end
          else if String.eqb sec "atoms" then
            match s_guard s, parse_atom (Z.of_nat (List.length (s_atoms s))) ts with
            | None, Some a => Some {| s_sec := s_sec s; s_guard := None; s_mt := s_mt s;
                                      s_atoms := s_atoms s ++ [a]; s_inters := s_inters s |}
            | _, _ => None end
          else
            match split_inter sec (Z.of_nat (List.length (s_atoms s))) ts with
            | Some (a, p) => Some {| s_sec := s_sec s; s_guard := s_guard s; s_mt := s_mt s; s_atoms := s_atoms s;
                                     s_inters := s_inters s ++ [{| r_sec := sec; r_atoms := a; r_params := p;
                                                                  r_guard := s_guard s |}] |}
            | None => None end
      end
  end.

Fixpoint rd (s : rst) (ls : list line) : option rst :=
  match ls with
  | [] => Some s
  | l :: r => match step s l with Some s' => rd s' r | None => None end
  end.

Definition rst0 : rst := {| s_sec := None; s_guard := None; s_mt := None; s_atoms := []; s_inters := [] |}.

Definition read_itp (ls : list line) : option itp :=
  match rd rst0 ls with
  | Some s => match s_guard s with
              | None => Some {| t_moltype := s_mt s; t_atoms := s_atoms s; t_inters := s_inters s |}
              | Some _ => None end
  | None => None
  end.

(* ---- what the file must say: the molecule in memory, canonically ---- *)
Definition canon_atom (a : atom) : ratom :=
  {| r_atype := tok_of_string (a_atype a); r_resid := tok_of_string (a_resid a);
     r_resname := tok_of_string (a_resname a); r_atomname := tok_of_string (a_atomname a);
     r_cgrp := tok_of_string (a_cgrp a);
     r_charge := option_map tok_of_string (a_charge a); r_mass := option_map tok_of_string (a_mass a) |}.

Definition canon_inter (m : mol) (sec : string) (i : inter) : option rinter :=
  match opt_map (rank m) (i_atoms i) with
  | Some idxs => Some {| r_sec := sec; r_atoms := idxs; r_params := map tok_of_string (i_params i);
                         r_guard := fst (key_or_default i) |}
  | None => None
  end.

Definition canon_section (m : mol) (tl : string * list inter) : option (list rinter) :=
  opt_map (canon_inter m (section_name (fst tl))) (sort inter_leb (snd tl)).

Definition canon (m : mol) : option itp :=
  match opt_map (canon_section m) (sorted_sections m) with
  | Some secs => Some {| t_moltype := Some [tok_of_string (m_moltype m); tok_of_string (m_nrexcl m)];
                         t_atoms := map canon_atom (sorted_nodes m);
                         t_inters := List.concat secs |}
  | None => None
  end.

(* ---- well-formed molecules ---- *)
Definition arity_ok (sec : string) (i : inter) : bool :=
  match arity_of sec with
  | Some (Fixed k) => Nat.eqb (List.length (i_atoms i)) k
  | Some AllAtoms => match i_params i with [] => true | _ => false end
  | Some SiteN => (match i_atoms i with [] => false | _ => true end)
                  && (match i_params i with [_] => true | _ => false end)
  | None => false
  end.

Definition memZ (k : Z) (l : list Z) : bool := existsb (Z.eqb k) l.
Fixpoint nodupb (l : list Z) : bool :=
  match l with [] => true | x :: r => negb (memZ x r) && nodupb r end.

Definition wfb (m : mol) : bool :=
  nodupb (map a_key (m_atoms m))
  && forallb (fun a => match a_mass a, a_charge a with Some _, None => false | _, _ => true end) (m_atoms m)
  && forallb (fun tl =>
       negb (String.eqb (section_name (fst tl)) "atoms") && negb (String.eqb (section_name (fst tl)) "moleculetype")
       && forallb (fun i => arity_ok (section_name (fst tl)) i
                            && forallb (fun k => memZ k (map a_key (m_atoms m))) (i_atoms i)
                            && match key_of i with Some _ => true | None => false end) (snd tl))
       (m_inters m).

(* the oracle used on the real output: the independent reader applied to the
   implementation's lines gives the canonical molecule *)
Definition tok_eqb (a b : tok) : bool :=
  match a, b with TIdx x, TIdx y => Z.eqb x y | TStr x, TStr y => String.eqb x y | _, _ => false end.
Fixpoint list_eqb {A} (f : A -> A -> bool) (a b : list A) : bool :=
  match a, b with [], [] => true | x :: r, y :: s => f x y && list_eqb f r s | _, _ => false end.
Definition opt_eqb {A} (f : A -> A -> bool) (a b : option A) : bool :=
  match a, b with Some x, Some y => f x y | None, None => true | _, _ => false end.
Definition ratom_eqb (a b : ratom) : bool :=
  tok_eqb (r_atype a) (r_atype b) && tok_eqb (r_resid a) (r_resid b) && tok_eqb (r_resname a) (r_resname b)
  && tok_eqb (r_atomname a) (r_atomname b) && tok_eqb (r_cgrp a) (r_cgrp b)
  && opt_eqb tok_eqb (r_charge a) (r_charge b) && opt_eqb tok_eqb (r_mass a) (r_mass b).
Definition guard_eqb (a b : option (string * bool)) : bool := cond_eqb a b.
Definition rinter_eqb (a b : rinter) : bool :=
  String.eqb (r_sec a) (r_sec b) && list_eqb Z.eqb (r_atoms a) (r_atoms b)
  && list_eqb tok_eqb (r_params a) (r_params b) && guard_eqb (r_guard a) (r_guard b).
Definition itp_eqb (a b : itp) : bool :=
  opt_eqb (list_eqb tok_eqb) (t_moltype a) (t_moltype b)
  && list_eqb ratom_eqb (t_atoms a) (t_atoms b) && list_eqb rinter_eqb (t_inters a) (t_inters b).

Definition holds_on (m : mol) (impl_lines : list line) : bool :=
  match read_itp impl_lines, canon m with
  | Some r, Some c => itp_eqb r c
  | _, _ => false
  end.
