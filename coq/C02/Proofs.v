From Coq Require Import List Bool ZArith String Ascii Lia Permutation.
From V Require Import Base.Sort C02.Model C02.Spec.
Import ListNotations.
Open Scope Z_scope.

Definition St sec g mt at_ ins : rst :=
  {| s_sec := sec; s_guard := g; s_mt := mt; s_atoms := at_; s_inters := ins |}.

Lemma rd_app a : forall s b,
  rd s (a ++ b) = match rd s a with Some s' => rd s' b | None => None end.
Proof.
  induction a as [|l a IH]; intros s b; cbn; [reflexivity|].
  destruct (step s l); [apply IH|reflexivity].
Qed.

Lemma rd_comments h : forall s, rd s (map LComment h) = Some s.
Proof. induction h as [|x h IH]; intros s; cbn; [reflexivity|apply IH]. Qed.

Lemma rd_header h s :
  rd s (map LComment h ++ (match h with [] => [] | _ => [LBlank] end)) = Some s.
Proof. rewrite rd_app, rd_comments. destruct h; reflexivity. Qed.

Lemma rd_define d : forall sec mt at_ ins,
  rd (St sec None mt at_ ins)
     (flat_map (fun nv : string * string => [LIf false (fst nv); LDefine (fst nv) (snd nv); LEndif; LBlank]) d)
  = Some (St sec None mt at_ ins).
Proof. induction d as [|nv d IH]; intros; cbn; [reflexivity|apply IH]. Qed.

(* ---- atoms ---- *)
Lemma rd_atoms l : forall mt at0 ins,
  forallb (fun a => match a_mass a, a_charge a with Some _, None => false | _, _ => true end) l = true ->
  rd (St (Some "atoms"%string) None mt at0 ins) (atom_lines l (Z.of_nat (List.length at0) + 1))
  = Some (St (Some "atoms"%string) None mt (at0 ++ map canon_atom l) ins).
Proof.
  induction l as [|a l IH]; intros mt at0 ins H; cbn [atom_lines rd map].
  - rewrite app_nil_r. reflexivity.
  - cbn [forallb] in H. apply andb_prop in H as [Ha Hl].
    assert (Hstep : step (St (Some "atoms"%string) None mt at0 ins) (atom_line (Z.of_nat (List.length at0) + 1) a)
                    = Some (St (Some "atoms"%string) None mt (at0 ++ [canon_atom a]) ins)).
    { unfold step, atom_line, St. cbn [s_sec s_guard s_atoms s_mt s_inters].
      change (String.eqb "atoms" "moleculetype") with false. change (String.eqb "atoms" "atoms") with true.
      cbv iota. unfold parse_atom. cbn [app]. rewrite Z.eqb_refl.
      unfold canon_atom. destruct (a_charge a) as [q|], (a_mass a) as [ms|]; cbn [opt_toks app option_map];
        try reflexivity. discriminate. }
    rewrite Hstep.
    replace (Z.of_nat (List.length at0) + 1 + 1) with (Z.of_nat (List.length (at0 ++ [canon_atom a])) + 1)
      by (rewrite app_length; cbn; lia).
    rewrite IH by exact Hl. rewrite <- app_assoc. reflexivity.
Qed.

(* ---- ranks ---- *)
Lemma rank_from_range k l : forall i r, rank_from k l i = Some r -> i <= r < i + Z.of_nat (List.length l).
Proof.
  induction l as [|a l IH]; intros i r; cbn [rank_from List.length]; [discriminate|].
  destruct (Z.eqb (a_key a) k).
  - intros [= <-]. lia.
  - intros H. apply IH in H. lia.
Qed.

Lemma rank_from_some k l : forall i, In k (map a_key l) -> exists r, rank_from k l i = Some r.
Proof.
  induction l as [|a l IH]; intros i; cbn; [tauto|].
  destruct (Z.eqb_spec (a_key a) k) as [_|Hn]; [eauto|].
  intros [H|H]; [contradiction|]. apply IH; exact H.
Qed.

Lemma sorted_nodes_keys m k : In k (map a_key (sorted_nodes m)) <-> In k (map a_key (m_atoms m)).
Proof.
  unfold sorted_nodes. rewrite !in_map_iff. split; intros (a & Ha & Hin); exists a; split; auto;
    apply (sort_in atomid_leb); exact Hin.
Qed.

Lemma memZ_In k l : memZ k l = true -> In k l.
Proof.
  unfold memZ. rewrite existsb_exists. intros (x & Hin & Hx). apply Z.eqb_eq in Hx. subst. exact Hin.
Qed.

Lemma ranks_exist m atoms :
  forallb (fun k => memZ k (map a_key (m_atoms m))) atoms = true ->
  exists idxs, opt_map (rank m) atoms = Some idxs /\ List.length idxs = List.length atoms /\
               Forall (fun r => 1 <= r <= Z.of_nat (List.length (sorted_nodes m))) idxs.
Proof.
  induction atoms as [|k r IH]; cbn [forallb opt_map]; intros H.
  - exists []. repeat split. constructor.
  - apply andb_prop in H as [Hk Hr]. destruct (IH Hr) as (idxs & E & Hlen & Hall).
    destruct (rank_from_some k (sorted_nodes m) 1) as [x Hx].
    { apply sorted_nodes_keys. apply memZ_In. exact Hk. }
    unfold rank at 1. rewrite Hx, E. exists (x :: idxs). split; [reflexivity|]. split; [cbn; lia|].
    constructor; [|exact Hall]. apply rank_from_range in Hx. lia.
Qed.

Lemma idxs_in_range_ok n idxs :
  Forall (fun r => 1 <= r <= n) idxs -> idxs_in_range n (map TIdx idxs) = Some idxs.
Proof.
  induction 1 as [|x l Hx Hl IH]; cbn; [reflexivity|].
  destruct (Z.leb_spec 1 x); [|lia]. destruct (Z.leb_spec x n); [|lia]. cbn. rewrite IH. reflexivity.
Qed.

Lemma firstn_map_app {A} (l1 l2 : list A) : firstn (List.length l1) (l1 ++ l2) = l1.
Proof. induction l1; cbn; [destruct l2; reflexivity|]. f_equal. assumption. Qed.
Lemma skipn_map_app {A} (l1 l2 : list A) : skipn (List.length l1) (l1 ++ l2) = l2.
Proof. induction l1; cbn; [reflexivity|assumption]. Qed.

Lemma arity_siten sec : arity_of sec = Some SiteN -> sec = "virtual_sitesn"%string.
Proof.
  unfold arity_of. cbn [find fst snd].
  repeat match goal with
         | |- context [String.eqb ?a sec] => destruct (String.eqb_spec a sec) as [<-|?]; [intros; try discriminate; try reflexivity|]
         end.
  discriminate.
Qed.

Lemma arity_not_siten sec a : arity_of sec = Some a -> a <> SiteN -> String.eqb sec "virtual_sitesn" = false.
Proof.
  intros H Hn. destruct (String.eqb_spec sec "virtual_sitesn") as [->|]; [|reflexivity].
  vm_compute in H. congruence.
Qed.

(* ---- one interaction line ---- *)
Section Lines.
Variable m : mol.
Variable sec : string.
Hypothesis Hsec1 : String.eqb sec "moleculetype" = false.
Hypothesis Hsec2 : String.eqb sec "atoms" = false.

Definition inter_wf (i : inter) : Prop :=
  arity_ok sec i = true /\
  forallb (fun k => memZ k (map a_key (m_atoms m))) (i_atoms i) = true.

Lemma opt_map_length {A B} (f : A -> option B) l : forall r, opt_map f l = Some r -> List.length r = List.length l.
Proof.
  induction l as [|x l IH]; cbn; intros r; [intros [= <-]; reflexivity|].
  destruct (f x); [|discriminate]. destruct (opt_map f l) as [ys|]; [|discriminate].
  intros [= <-]. cbn. f_equal. apply IH. reflexivity.
Qed.

Lemma line_step i G mt at_ ins :
  inter_wf i -> List.length at_ = List.length (sorted_nodes m) ->
  exists ts r, inter_line m sec i = Some (LToks ts (i_comment i)) /\
    canon_inter m sec i = Some r /\
    step (St (Some sec) G mt at_ ins) (LToks ts (i_comment i))
    = Some (St (Some sec) G mt at_ (ins ++ [{| r_sec := sec; r_atoms := r_atoms r; r_params := r_params r; r_guard := G |}])).
Proof.
  intros [Har Hat] Hlen. destruct (ranks_exist m _ Hat) as (idxs & E & Hl & Hall).
  unfold inter_line, canon_inter. rewrite E.
  eexists. eexists. split; [reflexivity|]. split; [reflexivity|].
  unfold step, St. cbn [s_sec s_guard s_atoms s_mt s_inters r_atoms r_params]. rewrite Hsec1, Hsec2.
  rewrite Hlen. set (N := Z.of_nat (List.length (sorted_nodes m))) in *.
  unfold arity_ok in Har. unfold split_inter.
  destruct (arity_of sec) as [[k| |]|] eqn:Ea; [| | |discriminate].
  - rewrite (arity_not_siten sec _ Ea) by discriminate.
    apply Nat.eqb_eq in Har. rewrite <- Hl in Har.
    assert (Hk : k = List.length (map TIdx idxs)) by (rewrite map_length; congruence).
    rewrite Hk. rewrite firstn_map_app, skipn_map_app.
    rewrite app_length. destruct (Nat.leb_spec (List.length (map TIdx idxs))
                                     (List.length (map TIdx idxs) + List.length (map tok_of_string (i_params i)))); [|lia].
    rewrite (idxs_in_range_ok N idxs Hall). reflexivity.
  - rewrite (arity_not_siten sec _ Ea) by discriminate.
    destruct (i_params i); [|discriminate]. cbn [map]. rewrite app_nil_r.
    rewrite (idxs_in_range_ok N idxs Hall). reflexivity.
  - rewrite (arity_siten sec Ea). change (String.eqb "virtual_sitesn" "virtual_sitesn") with true. cbv iota.
    change (arity_of "virtual_sitesn") with (Some SiteN).
    apply andb_prop in Har as [Ha Hp].
    destruct (i_params i) as [|f [|? ?]]; try discriminate. cbn [map app].
    destruct idxs as [|x0 xs]; [destruct (i_atoms i); [discriminate|discriminate]|].
    cbn [map app]. change (TIdx x0 :: map TIdx xs) with (map TIdx (x0 :: xs)).
    rewrite (idxs_in_range_ok N (x0 :: xs) Hall). reflexivity.
Qed.

(* a run of interaction lines under one guard *)
Lemma lines_rd g : forall G mt at_ ins,
  Forall inter_wf g -> List.length at_ = List.length (sorted_nodes m) ->
  exists ls rs, opt_map (inter_line m sec) g = Some ls /\ opt_map (canon_inter m sec) g = Some rs /\
    rd (St (Some sec) G mt at_ ins) ls
    = Some (St (Some sec) G mt at_ (ins ++ map (fun r => {| r_sec := sec; r_atoms := r_atoms r; r_params := r_params r; r_guard := G |}) rs)).
Proof.
  induction g as [|i g IH]; intros G mt at_ ins Hwf Hlen.
  - exists [], []. cbn. rewrite app_nil_r. auto.
  - inversion Hwf as [|? ? Hi Hg]; subst.
    destruct (line_step i G mt at_ ins Hi Hlen) as (ts & r & E1 & E2 & E3).
    destruct (IH G mt at_ (ins ++ [{| r_sec := sec; r_atoms := r_atoms r; r_params := r_params r; r_guard := G |}]) Hg Hlen)
      as (ls & rs & F1 & F2 & F3).
    exists (LToks ts (i_comment i) :: ls), (r :: rs). cbn [opt_map]. rewrite E1, E2, F1, F2.
    split; [reflexivity|]. split; [reflexivity|]. cbn [rd]. rewrite E3, F3. cbn [map]. rewrite <- app_assoc. reflexivity.
Qed.
End Lines.

(* ---- groupby ---- *)
Lemma gkey_eqb_eq a b : gkey_eqb a b = true -> a = b.
Proof.
  destruct a as [ca ga], b as [cb gb]. unfold gkey_eqb; cbn. intros H. apply andb_prop in H as [H1 H2].
  apply String.eqb_eq in H2. subst. f_equal.
  destruct ca as [[x p]|], cb as [[y q]|]; cbn in H1; try discriminate; [|reflexivity].
  apply andb_prop in H1 as [H1 H3]. apply String.eqb_eq in H1. apply Bool.eqb_prop in H3. subst. reflexivity.
Qed.

Lemma groupby_spec l :
  List.concat (map snd (groupby l)) = l /\
  Forall (fun kg => Forall (fun i => key_or_default i = fst kg) (snd kg)) (groupby l).
Proof.
  induction l as [|i r [IH1 IH2]]; cbn [groupby]; [split; [reflexivity|constructor]|].
  destruct (groupby r) as [|[k g] rest] eqn:E.
  - cbn in IH1. subst r. cbn. split; [reflexivity|]. constructor; [|constructor]. cbn. constructor; [reflexivity|constructor].
  - destruct (gkey_eqb (key_or_default i) k) eqn:Ek.
    + apply gkey_eqb_eq in Ek. cbn in *. split; [f_equal; exact IH1|].
      inversion IH2 as [|? ? Hg Hrest]; subst. constructor; [|exact Hrest]. cbn in *. constructor; [first [exact Ek|reflexivity]|exact Hg].
    + cbn in *. split; [f_equal; exact IH1|]. constructor; [|exact IH2]. cbn. constructor; [reflexivity|constructor].
Qed.

Lemma opt_map_app {A B} (f : A -> option B) l1 : forall l2 r1 r2,
  opt_map f l1 = Some r1 -> opt_map f l2 = Some r2 -> opt_map f (l1 ++ l2) = Some (r1 ++ r2).
Proof.
  induction l1 as [|x l1 IH]; cbn; intros l2 r1 r2.
  - intros [= <-] H. exact H.
  - destruct (f x); [|discriminate]. destruct (opt_map f l1) as [ys|] eqn:E; [|discriminate].
    intros [= <-] H2. rewrite (IH l2 ys r2 eq_refl H2). reflexivity.
Qed.

Section Groups.
Variable m : mol.
Variable sec : string.
Hypothesis Hsec1 : String.eqb sec "moleculetype" = false.
Hypothesis Hsec2 : String.eqb sec "atoms" = false.

Lemma group_rd kg mt at_ ins :
  Forall (inter_wf m sec) (snd kg) -> Forall (fun i => key_or_default i = fst kg) (snd kg) ->
  List.length at_ = List.length (sorted_nodes m) ->
  exists ls rs, group_lines m sec kg = Some ls /\ opt_map (canon_inter m sec) (snd kg) = Some rs /\
    rd (St (Some sec) None mt at_ ins) ls = Some (St (Some sec) None mt at_ (ins ++ rs)).
Proof.
  intros Hwf Hkey Hlen. destruct kg as [[c gname] g]. cbn [fst snd] in *.
  destruct (lines_rd m sec Hsec1 Hsec2 g c mt at_ ins Hwf Hlen) as (ls & rs & E1 & E2 & E3).
  unfold group_lines. cbn [fst snd]. rewrite E1.
  eexists. exists rs. split; [reflexivity|]. split; [exact E2|].
  assert (Hrs : map (fun r => {| r_sec := sec; r_atoms := r_atoms r; r_params := r_params r; r_guard := c |}) rs = rs).
  { clear -E2 Hkey. revert rs E2. induction g as [|i g IH]; cbn; intros rs.
    - intros [= <-]. reflexivity.
    - inversion Hkey as [|? ? Hi Hg]; subst. unfold canon_inter at 1.
      destruct (opt_map (rank m) (i_atoms i)); [|discriminate].
      destruct (opt_map (canon_inter m sec) g) as [ys|] eqn:E; [|discriminate].
      intros [= <-]. cbn. rewrite Hi. cbn. f_equal. apply IH; auto. }
  destruct c as [[n p]|].
  - cbn [app]. cbn [rd step St s_guard s_sec s_mt s_atoms s_inters].
    destruct (String.eqb gname ""); cbn [app rd step];
      rewrite rd_app; fold (St (Some sec) (Some (n, p)) mt at_ ins); rewrite E3; cbn; rewrite Hrs; reflexivity.
  - cbn [app]. destruct (String.eqb gname ""); cbn [app rd step];
      rewrite rd_app; rewrite E3; cbn; rewrite Hrs; reflexivity.
Qed.

Lemma groups_rd gs : forall mt at_ ins,
  Forall (fun kg => Forall (inter_wf m sec) (snd kg)) gs ->
  Forall (fun kg => Forall (fun i => key_or_default i = fst kg) (snd kg)) gs ->
  List.length at_ = List.length (sorted_nodes m) ->
  exists lss rs, opt_map (group_lines m sec) gs = Some lss /\
    opt_map (canon_inter m sec) (List.concat (map snd gs)) = Some rs /\
    rd (St (Some sec) None mt at_ ins) (List.concat lss) = Some (St (Some sec) None mt at_ (ins ++ rs)).
Proof.
  induction gs as [|kg gs IH]; intros mt at_ ins H1 H2 Hlen.
  - exists [], []. cbn. rewrite app_nil_r. auto.
  - inversion H1 as [|? ? Ha Hb]; inversion H2 as [|? ? Hc Hd]; subst.
    destruct (group_rd kg mt at_ ins Ha Hc Hlen) as (ls & rs & E1 & E2 & E3).
    destruct (IH mt at_ (ins ++ rs) Hb Hd Hlen) as (lss & rs' & F1 & F2 & F3).
    exists (ls :: lss), (rs ++ rs'). cbn [opt_map map List.concat]. rewrite E1, F1.
    split; [reflexivity|]. split; [apply opt_map_app; assumption|].
    rewrite rd_app, E3, F3. rewrite <- app_assoc. reflexivity.
Qed.
End Groups.

(* ---- a whole section ---- *)
Lemma Forall_concat_inv {A} (P : A -> Prop) (ll : list (list A)) :
  Forall P (List.concat ll) -> Forall (Forall P) ll.
Proof.
  induction ll as [|l ll IH]; cbn; intros H; [constructor|].
  apply Forall_app in H as [H1 H2]. constructor; auto.
Qed.

Definition section_ok (m : mol) (tl : string * list inter) : Prop :=
  String.eqb (section_name (fst tl)) "moleculetype" = false /\
  String.eqb (section_name (fst tl)) "atoms" = false /\
  Forall (fun i => inter_wf m (section_name (fst tl)) i /\ key_of i <> None) (snd tl).

Lemma section_rd m tl sec0 mt at_ ins :
  section_ok m tl -> List.length at_ = List.length (sorted_nodes m) ->
  exists lines rs, section_lines m tl = Some lines /\ canon_section m tl = Some rs /\
    rd (St sec0 None mt at_ ins) lines = Some (St (Some (section_name (fst tl))) None mt at_ (ins ++ rs)).
Proof.
  intros (H1 & H2 & Hall) Hlen. destruct tl as [name l]. cbn [fst snd] in *.
  set (sec := section_name name) in *.
  unfold section_lines, canon_section. cbn [fst snd]. fold sec.
  assert (Hk : forallb (fun i => match key_of i with Some _ => true | None => false end) l = true).
  { apply forallb_forall. intros i Hi. rewrite Forall_forall in Hall. destruct (Hall i Hi) as [_ Hn].
    destruct (key_of i); [reflexivity|congruence]. }
  rewrite Hk.
  destruct (groupby_spec (sort inter_leb l)) as [Hc Hkeys].
  assert (Hwf : Forall (fun kg => Forall (inter_wf m sec) (snd kg)) (groupby (sort inter_leb l))).
  { assert (Hs : Forall (inter_wf m sec) (List.concat (map snd (groupby (sort inter_leb l))))).
    { rewrite Hc. apply Forall_forall. intros i Hi. apply (proj1 (sort_in inter_leb i l)) in Hi.
      rewrite Forall_forall in Hall. exact (proj1 (Hall i Hi)). }
    apply Forall_concat_inv in Hs. clear -Hs. induction (groupby (sort inter_leb l)) as [|kg r IH]; [constructor|].
    cbn in Hs. inversion Hs; subst. constructor; auto. }
  destruct (groups_rd m sec H1 H2 _ mt at_ ins Hwf Hkeys Hlen) as (lss & rs & E1 & E2 & E3).
  rewrite E1. rewrite Hc in E2. exists (LSec sec :: List.concat lss), rs.
  split; [reflexivity|]. split; [exact E2|]. cbn [rd step St s_guard]. exact E3.
Qed.

Lemma sections_rd m ss : forall sec0 mt at_ ins,
  Forall (section_ok m) ss -> List.length at_ = List.length (sorted_nodes m) ->
  exists secs rss sec', opt_map (section_lines m) ss = Some secs /\ opt_map (canon_section m) ss = Some rss /\
    rd (St sec0 None mt at_ ins) (List.concat secs) = Some (St sec' None mt at_ (ins ++ List.concat rss)).
Proof.
  induction ss as [|tl ss IH]; intros sec0 mt at_ ins Hall Hlen.
  - exists [], [], sec0. cbn. rewrite app_nil_r. auto.
  - inversion Hall as [|? ? Ht Hs]; subst.
    destruct (section_rd m tl sec0 mt at_ ins Ht Hlen) as (lines & rs & E1 & E2 & E3).
    destruct (IH (Some (section_name (fst tl))) mt at_ (ins ++ rs) Hs Hlen) as (secs & rss & sec' & F1 & F2 & F3).
    exists (lines :: secs), (rs :: rss), sec'. cbn [opt_map List.concat]. rewrite E1, E2, F1, F2.
    split; [reflexivity|]. split; [reflexivity|]. rewrite rd_app, E3, F3, <- app_assoc. reflexivity.
Qed.

(* ---- unpacking the decidable well-formedness ---- *)
Lemma wfb_sections m : wfb m = true -> Forall (section_ok m) (sorted_sections m).
Proof.
  unfold wfb. intros H. apply andb_prop in H as [_ H]. rewrite forallb_forall in H.
  apply Forall_forall. intros tl Hin. unfold sorted_sections in Hin. apply (proj1 (sort_in sec_leb _ _)) in Hin.
  apply filter_In in Hin as [Hin _]. specialize (H tl Hin).
  apply andb_prop in H as [H Hi]. apply andb_prop in H as [Ha Hm].
  apply negb_true_iff in Ha, Hm. split; [exact Hm|]. split; [exact Ha|].
  apply Forall_forall. intros i Hi'. rewrite forallb_forall in Hi. specialize (Hi i Hi').
  apply andb_prop in Hi as [Hi Hk]. apply andb_prop in Hi as [Har Hat]. split; [split; assumption|].
  destruct (key_of i); [discriminate|discriminate].
Qed.

Lemma wfb_mass m : wfb m = true ->
  forallb (fun a => match a_mass a, a_charge a with Some _, None => false | _, _ => true end) (sorted_nodes m) = true.
Proof.
  unfold wfb. intros H. apply andb_prop in H as [H _]. apply andb_prop in H as [_ H].
  rewrite forallb_forall in *. intros a Ha. apply H. apply (proj1 (sort_in atomid_leb _ _)). exact Ha.
Qed.

(* ---- the round trip ---- *)
Lemma read_write_lemma m :
  wfb m = true -> exists ls c, write_itp m = Some ls /\ canon m = Some c /\ read_itp ls = Some c.
Proof.
  intros W.
  destruct (sections_rd m (sorted_sections m) (Some "atoms"%string)
              (Some [tok_of_string (m_moltype m); tok_of_string (m_nrexcl m)])
              (map canon_atom (sorted_nodes m)) [] (wfb_sections m W))
    as (secs & rss & sec' & E1 & E2 & E3); [apply map_length|].
  unfold write_itp, canon. rewrite E1, E2. eexists. eexists. split; [reflexivity|]. split; [reflexivity|].
  unfold read_itp.
  rewrite app_assoc. rewrite rd_app. fold rst0. rewrite (rd_header (m_header m) rst0).
  rewrite rd_app. change rst0 with (St None None None [] []). rewrite rd_define.
  rewrite rd_app. cbn [rd step St s_guard s_sec s_mt s_atoms s_inters].
  change (String.eqb "moleculetype" "moleculetype") with true. cbv iota.
  rewrite rd_app. cbn [rd step s_guard s_sec s_mt s_atoms s_inters].
  rewrite rd_app.
  pose proof (rd_atoms (sorted_nodes m) (Some [tok_of_string (m_moltype m); tok_of_string (m_nrexcl m)]) [] []
                (wfb_mass m W)) as Ha.
  cbn [List.length Z.of_nat Z.add app] in Ha. unfold St in Ha. rewrite Ha.
  cbn [app rd step]. unfold St in E3. cbn [app] in E3. rewrite E3. cbn. reflexivity.
Qed.

(* ---- corollaries ---- *)
Lemma atomid_leb_total a b : atomid_leb a b = true \/ atomid_leb b a = true.
Proof.
  unfold atomid_leb. destruct (a_atomid a) as [x|], (a_atomid b) as [y|]; auto.
  destruct (Z.leb_spec x y); [auto|]. right. apply Z.leb_le. lia.
Qed.

Lemma atomid_leb_trans a b c : atomid_leb a b = true -> atomid_leb b c = true -> atomid_leb a c = true.
Proof.
  unfold atomid_leb. destruct (a_atomid a) as [x|], (a_atomid b) as [y|], (a_atomid c) as [z|]; auto; try discriminate.
  intros H1 H2. apply Z.leb_le in H1, H2. apply Z.leb_le. lia.
Qed.

Lemma sorted_nodes_perm m : Permutation (m_atoms m) (sorted_nodes m).
Proof. apply sort_perm. Qed.

Lemma sorted_nodes_sorted m : Sorted.StronglySorted (fun a b => atomid_leb a b = true) (sorted_nodes m).
Proof. apply (sort_sorted atomid_leb atomid_leb_total atomid_leb_trans). Qed.

(* the index written for key k is the position of k's atom in atomid order *)
Lemma rank_from_nth k l : forall i r, rank_from k l i = Some r ->
  exists a, nth_error l (Z.to_nat (r - i)) = Some a /\ a_key a = k.
Proof.
  induction l as [|a l IH]; intros i r; cbn [rank_from]; [discriminate|].
  destruct (Z.eqb_spec (a_key a) k) as [E|_].
  - intros [= <-]. rewrite Z.sub_diag. exists a. split; [reflexivity|exact E].
  - intros H. pose proof (rank_from_range _ _ _ _ H) as Hr. destruct (IH _ _ H) as (b & Hb & Hk).
    exists b. split; [|exact Hk]. replace (Z.to_nat (r - i)) with (S (Z.to_nat (r - (i + 1)))) by lia. exact Hb.
Qed.

Lemma rank_spec m k r : rank m k = Some r ->
  1 <= r <= Z.of_nat (List.length (sorted_nodes m)) /\
  exists a, nth_error (sorted_nodes m) (Z.to_nat (r - 1)) = Some a /\ a_key a = k.
Proof.
  unfold rank. intros H. split; [apply rank_from_range in H; lia|apply rank_from_nth; exact H].
Qed.

(* nothing dropped or duplicated: the interactions written, section by section, are a
   permutation of the interactions in memory *)
Definition tagged (tl : string * list inter) : list (string * inter) :=
  map (pair (section_name (fst tl))) (snd tl).

Lemma written_inters_perm m :
  Permutation (flat_map (fun tl => tagged (fst tl, sort inter_leb (snd tl))) (sorted_sections m))
              (flat_map tagged (m_inters m)).
Proof.
  unfold sorted_sections.
  transitivity (flat_map tagged (filter (fun tl => match snd tl with [] => false | _ => true end) (m_inters m))).
  - transitivity (flat_map tagged (sort sec_leb (filter (fun tl => match snd tl with [] => false | _ => true end) (m_inters m)))).
    + induction (sort sec_leb _) as [|tl r IH]; cbn; [constructor|].
      apply Permutation_app; [|exact IH]. unfold tagged; cbn. apply Permutation_map. symmetry. apply sort_perm.
    + apply Permutation_flat_map. symmetry. apply sort_perm.
  - induction (m_inters m) as [|[n l] r IH]; cbn; [constructor|].
    destruct l; cbn; [exact IH|]. constructor. apply Permutation_app_head. exact IH.
Qed.

(* ---- soundness of the equality checks used by holds_on ---- *)
Lemma tok_eqb_eq a b : tok_eqb a b = true -> a = b.
Proof.
  destruct a, b; cbn; try discriminate; intros H; [apply Z.eqb_eq in H|apply String.eqb_eq in H]; congruence.
Qed.
Lemma list_eqb_eq {A} (f : A -> A -> bool) : (forall x y, f x y = true -> x = y) ->
  forall a b, list_eqb f a b = true -> a = b.
Proof.
  intros Hf. induction a as [|x a IH]; intros [|y b]; cbn; try discriminate; [reflexivity|].
  intros H. apply andb_prop in H as [H1 H2]. f_equal; auto.
Qed.
Lemma opt_eqb_eq {A} (f : A -> A -> bool) : (forall x y, f x y = true -> x = y) ->
  forall a b, opt_eqb f a b = true -> a = b.
Proof. intros Hf [x|] [y|]; cbn; try discriminate; [intros H; f_equal; auto|reflexivity]. Qed.
Lemma cond_eqb_eq a b : cond_eqb a b = true -> a = b.
Proof.
  destruct a as [[x p]|], b as [[y q]|]; cbn; try discriminate; [|reflexivity].
  intros H. apply andb_prop in H as [H1 H2]. apply String.eqb_eq in H1. apply Bool.eqb_prop in H2. congruence.
Qed.
Lemma ratom_eqb_eq a b : ratom_eqb a b = true -> a = b.
Proof.
  destruct a, b. unfold ratom_eqb; cbn. intros H.
  repeat match goal with H : _ && _ = true |- _ => apply andb_prop in H as [H ?] end.
  repeat match goal with H : tok_eqb _ _ = true |- _ => apply tok_eqb_eq in H end.
  repeat match goal with H : opt_eqb tok_eqb _ _ = true |- _ => apply (opt_eqb_eq tok_eqb tok_eqb_eq) in H end.
  congruence.
Qed.
Lemma rinter_eqb_eq a b : rinter_eqb a b = true -> a = b.
Proof.
  destruct a, b. unfold rinter_eqb, guard_eqb; cbn. intros H.
  repeat match goal with H : _ && _ = true |- _ => apply andb_prop in H as [H ?] end.
  apply String.eqb_eq in H.
  match goal with H : list_eqb Z.eqb _ _ = true |- _ => apply (list_eqb_eq Z.eqb (fun x y => proj1 (Z.eqb_eq x y))) in H end.
  match goal with H : list_eqb tok_eqb _ _ = true |- _ => apply (list_eqb_eq tok_eqb tok_eqb_eq) in H end.
  match goal with H : cond_eqb _ _ = true |- _ => apply cond_eqb_eq in H end.
  congruence.
Qed.
Lemma itp_eqb_eq a b : itp_eqb a b = true -> a = b.
Proof.
  destruct a, b. unfold itp_eqb; cbn. intros H.
  repeat match goal with H : _ && _ = true |- _ => apply andb_prop in H as [H ?] end.
  apply (opt_eqb_eq _ (list_eqb_eq tok_eqb tok_eqb_eq)) in H.
  match goal with H : list_eqb ratom_eqb _ _ = true |- _ => apply (list_eqb_eq ratom_eqb ratom_eqb_eq) in H end.
  match goal with H : list_eqb rinter_eqb _ _ = true |- _ => apply (list_eqb_eq rinter_eqb rinter_eqb_eq) in H end.
  congruence.
Qed.

Lemma holds_on_sound m ls : holds_on m ls = true -> exists c, canon m = Some c /\ read_itp ls = Some c.
Proof.
  unfold holds_on. destruct (read_itp ls) as [r|]; [|discriminate]. destruct (canon m) as [c|]; [|discriminate].
  intros H. apply itp_eqb_eq in H. subst. eauto.
Qed.

(* the renumbering never merges two atoms and never leaves an atom of the molecule without an index *)
Lemma rank_injective m k1 k2 r : rank m k1 = Some r -> rank m k2 = Some r -> k1 = k2.
Proof.
  intros H1 H2. destruct (rank_spec m k1 r H1) as (_ & a1 & N1 & K1). destruct (rank_spec m k2 r H2) as (_ & a2 & N2 & K2).
  rewrite N1 in N2. injection N2 as <-. congruence.
Qed.

Lemma rank_total m k : In k (map a_key (m_atoms m)) -> exists r, rank m k = Some r.
Proof. intros H. unfold rank. apply rank_from_some. apply sorted_nodes_keys. exact H. Qed.

(* with distinct node keys the table is the position in atom-id order: the j-th written atom (from 0) has index j + 1,
   so the indices used are exactly 1..N, each by one atom *)
Lemma rank_from_position l : NoDup (map a_key l) ->
  forall j a i, nth_error l j = Some a -> rank_from (a_key a) l i = Some (i + Z.of_nat j).
Proof.
  induction l as [|b l IH]; intros Hnd j a i Hn; [destruct j; discriminate|].
  inversion Hnd as [|? ? Hnotin Hnd']; subst. destruct j as [|j]; cbn in Hn.
  - injection Hn as ->. cbn [rank_from]. rewrite Z.eqb_refl. f_equal. lia.
  - cbn [rank_from]. destruct (Z.eqb_spec (a_key b) (a_key a)) as [E|_].
    + exfalso. apply Hnotin. rewrite E. apply in_map. eapply nth_error_In; eassumption.
    + rewrite (IH Hnd' j a (i + 1) Hn). f_equal. lia.
Qed.

Lemma rank_position m : NoDup (map a_key (sorted_nodes m)) ->
  forall j a, nth_error (sorted_nodes m) j = Some a -> rank m (a_key a) = Some (Z.of_nat j + 1).
Proof. intros H j a Hn. unfold rank. rewrite (rank_from_position _ H j a 1 Hn). f_equal. lia. Qed.
