(* C02 — executable model of vermouth/gmx/itp.py:write_molecule_itp (l.58-318),
   Molecule.sorted_nodes (molecule.py l.436) and Molecule.sort_interactions (l.376).
   Output is modelled at the level of lines and blank-separated tokens (column padding is
   not content; a missing separator would change the token list and is therefore visible).
   A token that is a canonical decimal number is a [TIdx], anything else a [TStr]; the same
   rule is applied by the harness to the real output. pre/post_section_lines are not modelled. *)
From Coq Require Import List Bool ZArith String Ascii.
From V Require Import Base.Sort.
Import ListNotations.
Open Scope Z_scope.

Inductive tok := TIdx (n : Z) | TStr (s : string).

Definition is_digit (c : ascii) : bool := (48 <=? Z.of_N (N_of_ascii c)) && (Z.of_N (N_of_ascii c) <=? 57).
Fixpoint all_digits (s : string) : bool :=
  match s with EmptyString => true | String c r => is_digit c && all_digits r end.
Fixpoint digits_val (s : string) (acc : Z) : Z :=
  match s with EmptyString => acc | String c r => digits_val r (10 * acc + (Z.of_N (N_of_ascii c) - 48)) end.
Definition canonical_decimal (s : string) : bool :=
  match s with
  | EmptyString => false
  | String c EmptyString => is_digit c
  | String c r => is_digit c && negb (Ascii.eqb c "0") && all_digits r
  end.
Definition tok_of_string (s : string) : tok :=
  if canonical_decimal s then TIdx (digits_val s 0) else TStr s.

Inductive line :=
| LSec (name : string)                          (* [ name ] *)
| LToks (ts : list tok) (comment : option string)
| LIf (positive : bool) (name : string)         (* #ifdef / #ifndef *)
| LDefine (name val : string)
| LEndif
| LComment (s : string)                         (* ; text *)
| LBlank.

Record atom := {
  a_key : Z; a_atomid : option Z;
  a_atype : string; a_resid : string; a_resname : string; a_atomname : string; a_cgrp : string;
  a_charge : option string; a_mass : option string }.

Record inter := {
  i_atoms : list Z; i_params : list string;
  i_ifdef : option string; i_ifndef : option string; i_group : option string; i_comment : option string }.

Record mol := {
  m_moltype : string; m_nrexcl : string;
  m_header : list string; m_define : list (string * string);
  m_atoms : list atom;                       (* node insertion order *)
  m_inters : list (string * list inter) }.   (* dict order *)

(* sorted_nodes: stable sort by atomid, a missing atomid counting as +infinity *)
Definition atomid_leb (a b : atom) : bool :=
  match a_atomid a, a_atomid b with
  | Some x, Some y => x <=? y
  | Some _, None => true
  | None, Some _ => false
  | None, None => true
  end.
Definition sorted_nodes (m : mol) : list atom := sort atomid_leb (m_atoms m).

Fixpoint rank_from (k : Z) (l : list atom) (i : Z) : option Z :=
  match l with
  | [] => None
  | a :: r => if Z.eqb (a_key a) k then Some i else rank_from k r (i + 1)
  end.
(* correspondence[k] *)
Definition rank (m : mol) (k : Z) : option Z := rank_from k (sorted_nodes m) 1.

Definition opt_toks (o : option string) : list tok :=
  match o with Some s => [tok_of_string s] | None => [] end.

Definition atom_line (idx : Z) (a : atom) : line :=
  LToks ([TIdx idx; tok_of_string (a_atype a); tok_of_string (a_resid a); tok_of_string (a_resname a);
          tok_of_string (a_atomname a); tok_of_string (a_cgrp a)] ++ opt_toks (a_charge a) ++ opt_toks (a_mass a))
        None.

Fixpoint atom_lines (l : list atom) (i : Z) : list line :=
  match l with [] => [] | a :: r => atom_line i a :: atom_lines r (i + 1) end.

(* sort_interactions: keys with interactions, sorted by (number of atoms of the first, name) *)
Definition str_leb (a b : string) : bool :=
  match String.compare a b with Gt => false | _ => true end.
Definition sec_leb (a b : string * list inter) : bool :=
  let na := match snd a with i :: _ => Z.of_nat (List.length (i_atoms i)) | [] => 0 end in
  let nb := match snd b with i :: _ => Z.of_nat (List.length (i_atoms i)) | [] => 0 end in
  if na <? nb then true else if nb <? na then false else str_leb (fst a) (fst b).
Definition sorted_sections (m : mol) : list (string * list inter) :=
  sort sec_leb (filter (fun tl => match snd tl with [] => false | _ => true end) (m_inters m)).

(* _interaction_sorting_key *)
Definition gkey := (option (string * bool) * string)%type.
Definition key_of (i : inter) : option gkey :=
  match i_ifdef i, i_ifndef i with
  | Some _, Some _ => None                               (* ValueError *)
  | Some d, None => Some (Some (d, true), match i_group i with Some g => g | None => ""%string end)
  | None, Some d => Some (Some (d, false), match i_group i with Some g => g | None => ""%string end)
  | None, None => Some (None, match i_group i with Some g => g | None => ""%string end)
  end.
Definition key_or_default (i : inter) : gkey :=
  match key_of i with Some k => k | None => (None, ""%string) end.

Definition cond_leb (a b : option (string * bool)) : bool :=
  match a, b with
  | None, _ => true
  | Some _, None => false
  | Some (x, p), Some (y, q) =>
      match String.compare x y with
      | Lt => true | Gt => false
      | Eq => implb p q
      end
  end.
Definition cond_eqb (a b : option (string * bool)) : bool :=
  match a, b with
  | None, None => true
  | Some (x, p), Some (y, q) => String.eqb x y && Bool.eqb p q
  | _, _ => false
  end.
Definition gkey_leb (a b : gkey) : bool :=
  if cond_eqb (fst a) (fst b) then str_leb (snd a) (snd b) else cond_leb (fst a) (fst b).
Definition gkey_eqb (a b : gkey) : bool := cond_eqb (fst a) (fst b) && String.eqb (snd a) (snd b).
Definition inter_leb (a b : inter) : bool := gkey_leb (key_or_default a) (key_or_default b).

(* itertools.groupby on consecutive equal keys *)
Fixpoint groupby (l : list inter) : list (gkey * list inter) :=
  match l with
  | [] => []
  | i :: r =>
      match groupby r with
      | (k, g) :: rest => if gkey_eqb (key_or_default i) k then (k, i :: g) :: rest
                          else (key_or_default i, [i]) :: (k, g) :: rest
      | [] => [(key_or_default i, [i])]
      end
  end.

Fixpoint opt_map {A B} (f : A -> option B) (l : list A) : option (list B) :=
  match l with
  | [] => Some []
  | x :: r => match f x, opt_map f r with Some y, Some ys => Some (y :: ys) | _, _ => None end
  end.

Definition inter_line (m : mol) (sec : string) (i : inter) : option line :=
  match opt_map (rank m) (i_atoms i) with
  | None => None                                          (* KeyError in correspondence *)
  | Some idxs =>
      let atoms := map TIdx idxs in
      let params := map tok_of_string (i_params i) in
      Some (LToks (if String.eqb sec "virtual_sitesn"
                   then match atoms with a0 :: rest => a0 :: params ++ rest | [] => params end
                   else atoms ++ params)
                  (i_comment i))
  end.

Definition group_lines (m : mol) (sec : string) (kg : gkey * list inter) : option (list line) :=
  match opt_map (inter_line m sec) (snd kg) with
  | None => None
  | Some ls =>
      Some ((match fst (fst kg) with Some (n, p) => [LIf p n] | None => [] end)
            ++ (if String.eqb (snd (fst kg)) "" then [] else [LComment (snd (fst kg))])
            ++ ls
            ++ (match fst (fst kg) with Some _ => [LEndif] | None => [] end)
            ++ [LBlank])
  end.

Definition section_name (name : string) : string :=
  if String.eqb name "impropers" then "dihedrals"%string else name.

Definition section_lines (m : mol) (tl : string * list inter) : option (list line) :=
  if forallb (fun i => match key_of i with Some _ => true | None => false end) (snd tl) then
    match opt_map (group_lines m (section_name (fst tl))) (groupby (sort inter_leb (snd tl))) with
    | None => None
    | Some gs => Some (LSec (section_name (fst tl)) :: List.concat gs)
    end
  else None.

Definition write_itp (m : mol) : option (list line) :=
  match opt_map (section_lines m) (sorted_sections m) with
  | None => None
  | Some secs =>
      Some (map LComment (m_header m) ++ (match m_header m with [] => [] | _ => [LBlank] end)
            ++ flat_map (fun nv => [LIf false (fst nv); LDefine (fst nv) (snd nv); LEndif; LBlank]) (m_define m)
            ++ [LSec "moleculetype"; LToks [tok_of_string (m_moltype m); tok_of_string (m_nrexcl m)] None; LBlank]
            ++ [LSec "atoms"] ++ atom_lines (sorted_nodes m) 1 ++ [LBlank]
            ++ List.concat secs)
  end.
