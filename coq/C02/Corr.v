(* C02 — case type and the two boolean functions evaluated on generated cases. *)
From Coq Require Import List Bool ZArith String Ascii.
From V Require Import C02.Model C02.Spec.
Import ListNotations.

Definition line_eqb (a b : line) : bool :=
  match a, b with
  | LSec x, LSec y => String.eqb x y
  | LToks x c, LToks y d => list_eqb tok_eqb x y && opt_eqb String.eqb c d
  | LIf p x, LIf q y => Bool.eqb p q && String.eqb x y
  | LDefine n v, LDefine n' v' => String.eqb n n' && String.eqb v v'
  | LEndif, LEndif | LBlank, LBlank => true
  | LComment x, LComment y => String.eqb x y
  | _, _ => false
  end.

Inductive case :=
| CItp (m : mol) (impl : option (list line)).   (* None: the implementation raised ValueError/KeyError *)

Definition corr (k : case) : bool :=
  match k with
  | CItp m impl => opt_eqb (list_eqb line_eqb) (write_itp m) impl
  end.

(* for a well-formed molecule the independent reader must recover the canonical molecule
   from the lines the implementation wrote *)
Definition prop (k : case) : bool :=
  match k with
  | CItp m (Some ls) => negb (wfb m) || holds_on m ls
  | CItp m None => negb (wfb m)
  end.
