(* C12 — property theorems only. *)
From Coq Require Import List Bool ZArith.
From V Require Import C12.Model C12.Spec C12.Proofs.
Import ListNotations.
Open Scope Z_scope.

(* After ANY sequence of editing operations on any number of live molecules (adding /
   removing atoms singly or in bulk, adding / replacing / removing interactions, bonds,
   copies, subgraphs, merges, block conversion, merge-all), every molecule is consistent:
   keys unique, every interaction and every bond refers only to atoms still present,
   and the merge cache is valid. *)
Theorem step_keeps_consistency : forall h o, Forall WF h -> Forall WF (fst (do_op h o)).
Proof. exact do_op_wf. Qed.
Print Assumptions step_keeps_consistency.

Theorem reachable_consistent : forall ops, Forall WF (fst (run [] ops)).
Proof. intros ops. apply run_wf. constructor. Qed.
Print Assumptions reachable_consistent.

Theorem wf_is_consistent : forall m, WF m -> consistent m.
Proof. intros m [H _]. exact H. Qed.
Print Assumptions wf_is_consistent.

(* A copy or subgraph can be edited without changing its source (and vice versa):
   an operation changes no molecule other than its target. *)
Theorem edits_are_local : forall h o j,
  (j < length h)%nat -> target o <> Some j -> nth_error (fst (do_op h o)) j = nth_error h j.
Proof. exact do_op_frame. Qed.
Print Assumptions edits_are_local.

(* A merge of consistent molecules keeps every atom, bond and interaction of both
   operands, gives the newcomer's atoms fresh, pairwise distinct keys without
   overwriting anything, and shifts resid / charge_group uniformly by those of the
   receiver's last (highest-key) atom. *)
Theorem merge_keeps_all : forall m n,
  WF m -> WF n -> snd (fst (merge m n)) = OK ->
  merge_result_ok m n (fst (fst (merge m n))) (snd (merge m n)).
Proof. exact merge_ok. Qed.
Print Assumptions merge_keeps_all.

Theorem merge_only_fails_on_nrexcl : forall m n,
  WF m -> WF n ->
  opt_eqbZ (match nrexcl m, nodes m with None, [] => nrexcl n | x, _ => x end) (nrexcl n) = true ->
  snd (fst (merge m n)) = OK.
Proof. exact merge_succeeds. Qed.
Print Assumptions merge_only_fails_on_nrexcl.

Theorem merge_okb_sound_thm : forall m n m',
  merge_okb m n m' = true -> merge_result_ok m n m' (corr_of m n m').
Proof. exact merge_okb_sound. Qed.
Print Assumptions merge_okb_sound_thm.

Theorem consistentb_sound_thm : forall m, consistentb m = true -> consistent m.
Proof. exact consistentb_sound. Qed.
Print Assumptions consistentb_sound_thm.

(* non-vacuity: a history with sparse, unordered, negative keys, removal, re-adding and
   two merges; the receiver's last atom is not the last inserted one *)
Example nonvacuous :
  let A := fun r c t => {| resid := r; cg := c; tag := t |} in
  let ops := [NewEmpty (Some 1);
              AddNodesFrom 0 [(7, A (Some 3) (Some 2) 70); (-2, A (Some 1) None 71); (4, A None None 72)];
              AddEdge 0 7 4; AddInteraction 0 0 {| i_atoms := [7; -2]; i_params := 5; i_version := None |};
              Copy 0; RemoveNode 0 4; AddNode 0 3 (A (Some 9) (Some 9) 73);
              Merge 0 1; Merge 0 1] in
  let h := fst (run [] ops) in
  snd (run [] ops) = [OK; OK; OK; OK; OK; OK; OK; OK; OK] /\
  match nth_error h 0 with
  | Some m => keys m = [7; -2; 3; 8; 9; 10; 11; 12; 13] /\ consistentb m = true /\
              map (fun ka => resid (snd ka)) (nodes m) =
                [Some 3; Some 1; Some 9; Some 6; Some 4; Some 4; Some 7; Some 5; Some 5]
  | None => False end.
Proof. vm_compute. repeat split. Qed.
