(* C12 — the property: consistency of atoms, bonds and interactions. *)
From Coq Require Import List Bool ZArith Lia.
From V Require Import C12.Model.
Import ListNotations.
Open Scope Z_scope.

(* every interaction and bond refers only to atoms that are present; keys unique *)
Definition consistent (m : mol) : Prop :=
  NoDup (keys m) /\
  (forall t l i a, In (t, l) (inters m) -> In i l -> In a (i_atoms i) -> In a (keys m)) /\
  (forall u v, In (u, v) (edges m) -> In u (keys m) /\ In v (keys m)).

(* the cache merge_molecule relies on is an upper bound of the keys, and a key *)
Definition cache_valid (m : mol) : Prop :=
  forall x, max_node m = Some x ->
    (forall k, In k (keys m) -> k <= x) /\ (keys m <> [] -> In x (keys m)).

Definition WF (m : mol) : Prop :=
  consistent m /\ cache_valid m /\ NoDup (map fst (inters m)).

(* decidable consistency, evaluated on the implementation's states *)
Fixpoint nodupb (l : list Z) : bool :=
  match l with [] => true | x :: r => negb (memZ x r) && nodupb r end.

Definition consistentb (m : mol) : bool :=
  nodupb (keys m)
  && forallb (fun tl => forallb (fun i => forallb (fun a => memZ a (keys m)) (i_atoms i)) (snd tl)) (inters m)
  && forallb (fun e => memZ (fst e) (keys m) && memZ (snd e) (keys m)) (edges m).

(* what a merge must produce (stated without the loops of merge_molecule) *)
Definition map_inter (c : list (Z * Z)) (i : inter) : inter :=
  {| i_atoms := map (cget c) (i_atoms i); i_params := i_params i; i_version := i_version i |}.

Definition last_attrs (m : mol) : option attrs :=
  match max_key m with Some k => nget (nodes m) k | None => None end.

Definition merge_result_ok (m n m' : mol) (corr : list (Z * Z)) : Prop :=
  let dr := match last_attrs m with Some a => dflt1 (resid a) | None => 0 end in
  let dc := match last_attrs m with Some a => dflt1 (cg a) | None => 0 end in
  (* every atom of both operands, receiver first, nothing overwritten; uniform shift *)
  nodes m' = nodes m ++ map (fun ka => (cget corr (fst ka), shift_attrs (snd ka) dr dc)) (nodes n) /\
  (* fresh, pairwise distinct keys for the newcomer *)
  (forall k, In k (keys n) -> ~ In (cget corr k) (keys m)) /\
  NoDup (map (cget corr) (keys n)) /\
  (* every bond of both *)
  (forall e, In e (edges m) -> In e (edges m')) /\
  (forall u v, In (u, v) (edges n) -> u <> v -> In (norm_edge (cget corr u) (cget corr v)) (edges m')) /\
  (* every interaction of both, in order, newcomer's atoms translated *)
  (forall t, iget (inters m') t = iget (inters m) t ++ map (map_inter corr) (iget (inters n) t)).

(* ---- decidable versions, evaluated on the implementation's states ---- *)
Fixpoint list_eqb {A} (f : A -> A -> bool) (a b : list A) : bool :=
  match a, b with
  | [], [] => true
  | x :: r, y :: s => f x y && list_eqb f r s
  | _, _ => false
  end.

Definition attrs_eqb (a b : attrs) : bool :=
  opt_eqbZ (resid a) (resid b) && opt_eqbZ (cg a) (cg b) && Z.eqb (tag a) (tag b).
Definition node_eqb (a b : Z * attrs) : bool := Z.eqb (fst a) (fst b) && attrs_eqb (snd a) (snd b).
Definition inter_eqb (a b : inter) : bool :=
  list_eqbZ (i_atoms a) (i_atoms b) && Z.eqb (i_params a) (i_params b) && opt_eqbZ (i_version a) (i_version b).

Definition subset_e (a b : list (Z * Z)) : bool := forallb (fun e => existsb (edge_eqb e) b) a.
Definition subset_z (a b : list Z) : bool := forallb (fun x => memZ x b) a.

(* observable state of a molecule: ordered nodes, edge set, per-type ordered interaction
   lists (types compared as a set, empty lists ignored), nrexcl, citation set *)
Definition mol_eqb (a b : mol) : bool :=
  list_eqb node_eqb (nodes a) (nodes b)
  && subset_e (edges a) (edges b) && subset_e (edges b) (edges a)
  && forallb (fun t => list_eqb inter_eqb (iget (inters a) t) (iget (inters b) t))
             (map fst (inters a) ++ map fst (inters b))
  && opt_eqbZ (nrexcl a) (nrexcl b)
  && subset_z (cites a) (cites b) && subset_z (cites b) (cites a).

Definition outcome_eqb (a b : outcome) : bool :=
  match a, b with
  | OK, OK | KeyErr, KeyErr | ValueErr, ValueErr | NxErr, NxErr | Unsupported, Unsupported => true
  | _, _ => false
  end.


Definition corr_of (m n m' : mol) : list (Z * Z) :=
  combine (keys n) (skipn (length (nodes m)) (keys m')).

Definition merge_okb (m n m' : mol) : bool :=
  let c := corr_of m n m' in
  let dr := match last_attrs m with Some a => dflt1 (resid a) | None => 0 end in
  let dc := match last_attrs m with Some a => dflt1 (cg a) | None => 0 end in
  list_eqb node_eqb (nodes m') (nodes m ++ map (fun ka => (cget c (fst ka), shift_attrs (snd ka) dr dc)) (nodes n))
  && forallb (fun k => negb (memZ (cget c k) (keys m))) (keys n)
  && nodupb (map (cget c) (keys n))
  && forallb (fun e => existsb (edge_eqb e) (edges m')) (edges m)
  && forallb (fun e => Z.eqb (fst e) (snd e)
                       || existsb (edge_eqb (norm_edge (cget c (fst e)) (cget c (snd e)))) (edges m')) (edges n)
  && forallb (fun t => list_eqb inter_eqb (iget (inters m') t)
                                (iget (inters m) t ++ map (map_inter c) (iget (inters n) t)))
             (map fst (inters m) ++ map fst (inters n) ++ map fst (inters m')).

Definition target (o : op) : option nat :=
  match o with
  | AddNode i _ _ | AddNodesFrom i _ | RemoveNode i _ | RemoveNodesFrom i _ | AddEdge i _ _
  | AddInteraction i _ _ | AddOrReplace i _ _ _ | RemoveInteraction i _ _ _ | Merge i _ => Some i
  | MergeAll (i :: _) => Some i
  | _ => None
  end.

(* every molecule other than the target of the operation is unchanged *)
Fixpoint frame_from (prev h : list mol) (j : nat) (t : option nat) : bool :=
  match prev, h with
  | m :: prev', m' :: h' =>
      ((match t with Some i => Nat.eqb i j | None => false end) || mol_eqb m m')
      && frame_from prev' h' (S j) t
  | [], _ => true
  | _ :: _, [] => false
  end.

Definition step_okb (prev : list mol) (o : op) (x : outcome) (h : list mol) : bool :=
  frame_from prev h 0 (target o)
  && match o, x with
     | Merge i j, OK =>
         match nth_error prev i, nth_error prev j, nth_error h i with
         | Some m, Some n, Some m' => merge_okb m n m'
         | _, _, _ => false
         end
     | Merge i j, Unsupported => true
     | Merge i j, x' =>
         (* a merge of two existing molecules may only be refused for different nrexcl (an empty molecule without
            nrexcl adopts the other's), and then with a ValueError: never with a KeyError *)
         match nth_error prev i, nth_error prev j with
         | Some m, Some n =>
             negb (match nrexcl m, nodes m with None, [] => true | _, _ => false end)
             && negb (opt_eqbZ (nrexcl m) (nrexcl n))
             && match x' with ValueErr => true | _ => false end
         | _, _ => true
         end
     | _, _ => true
     end.

Fixpoint check_steps (prev : list mol) (ops : list op) (outs : list outcome) (each : list (list mol)) : bool :=
  match ops, outs, each with
  | o :: ops', x :: outs', h :: each' => step_okb prev o x h && check_steps h ops' outs' each'
  | _, _, _ => true
  end.
