(* C12 — case type and the two boolean functions evaluated on generated cases. *)
From Coq Require Import List Bool ZArith.
From V Require Import C12.Model C12.Spec.
Import ListNotations.
Open Scope Z_scope.

(* a history, the implementation's outcome per operation and its final heap;
   for the last Merge of the history the implementation's correspondence is shipped too *)
Inductive case :=
| CHist (ops : list op) (impl_outcomes : list outcome) (impl_heap : list mol)
        (impl_after_each : list (list mol)).   (* optional: heap after every op (may be []) *)

Fixpoint heaps (h : heap) (os : list op) : list heap :=
  match os with [] => [] | o :: r => let h1 := fst (do_op h o) in h1 :: heaps h1 r end.

Definition corr (k : case) : bool :=
  match k with
  | CHist ops outs hp each =>
      let '(h, xs) := run [] ops in
      list_eqb outcome_eqb xs outs && list_eqb mol_eqb h hp
      && match each with [] => true | _ => list_eqb (list_eqb mol_eqb) (heaps [] ops) each end
  end.

(* the property evaluated on the implementation's states: every molecule consistent
   after every operation *)
Definition prop (k : case) : bool :=
  match k with
  | CHist ops outs hp each =>
      forallb consistentb hp && forallb (forallb consistentb) each
      && check_steps [] ops outs each
  end.
