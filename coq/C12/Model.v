(* C12 — executable model of the editing operations of vermouth/molecule.py
   (Molecule.add_node l.666, add_nodes_from l.678, remove_node l.963, remove_nodes_from l.974,
   add_edge (networkx, existing endpoints only), add_interaction l.490,
   add_or_replace_interaction l.522, remove_interaction l.580, copy l.439, subgraph l.453,
   merge_molecule l.682, Block.to_molecule l.1193) and of MergeAllMolecules.run_system.
   Nodes are an insertion-ordered association list (OrderedDict); node attributes are
   reduced to resid, charge_group (both optional) and one opaque tag standing for all
   other attributes; interaction metadata is reduced to the optional 'version'.
   A heap (list) of molecules makes copies, subgraphs and merges of several live
   molecules expressible. *)
From Coq Require Import List Bool ZArith Lia.
Import ListNotations.
Open Scope Z_scope.

Record attrs := { resid : option Z; cg : option Z; tag : Z }.
Record inter := { i_atoms : list Z; i_params : Z; i_version : option Z }.

Record mol := {
  nodes : list (Z * attrs);
  edges : list (Z * Z);
  inters : list (Z * list inter);     (* interaction type -> ordered list; no empty lists kept *)
  max_node : option Z;                (* the cache used by merge_molecule *)
  nrexcl : option Z;
  cites : list Z
}.

Definition empty_mol (nr : option Z) : mol :=
  {| nodes := []; edges := []; inters := []; max_node := None; nrexcl := nr; cites := [0] |}.

Definition keys (m : mol) : list Z := map fst (nodes m).

Fixpoint nget (ns : list (Z * attrs)) (k : Z) : option attrs :=
  match ns with [] => None | (j, a) :: r => if Z.eqb j k then Some a else nget r k end.
Definition has (m : mol) (k : Z) : bool := match nget (nodes m) k with Some _ => true | None => false end.

Definition opt_or {A} (a b : option A) : option A := match a with Some _ => a | None => b end.
(* dict.update: given attributes override, absent ones stay *)
Definition upd_attrs (old new : attrs) : attrs :=
  {| resid := opt_or (resid new) (resid old); cg := opt_or (cg new) (cg old); tag := tag new |}.

Fixpoint nupd (ns : list (Z * attrs)) (k : Z) (a : attrs) : list (Z * attrs) :=
  match ns with
  | [] => [(k, a)]
  | (j, b) :: r => if Z.eqb j k then (j, upd_attrs b a) :: r else (j, b) :: nupd r k a
  end.

(* interactions dictionary *)
Fixpoint iget (d : list (Z * list inter)) (t : Z) : list inter :=
  match d with [] => [] | (u, l) :: r => if Z.eqb u t then l else iget r t end.
Fixpoint idel (d : list (Z * list inter)) (t : Z) : list (Z * list inter) :=
  match d with [] => [] | (u, l) :: r => if Z.eqb u t then idel r t else (u, l) :: idel r t end.
Fixpoint iput (d : list (Z * list inter)) (t : Z) (l : list inter) : list (Z * list inter) :=
  match d with
  | [] => [(t, l)]
  | (u, l0) :: r => if Z.eqb u t then (u, l) :: r else (u, l0) :: iput r t l
  end.
Definition iset (d : list (Z * list inter)) (t : Z) (l : list inter) : list (Z * list inter) :=
  match l with [] => idel d t | _ => iput d t l end.

Inductive outcome := OK | KeyErr | ValueErr | NxErr | Unsupported.

Definition set_nodes (m : mol) ns mx : mol :=
  {| nodes := ns; edges := edges m; inters := inters m; max_node := mx; nrexcl := nrexcl m; cites := cites m |}.
Definition set_inters (m : mol) d : mol :=
  {| nodes := nodes m; edges := edges m; inters := d; max_node := max_node m; nrexcl := nrexcl m; cites := cites m |}.

(* add_node (l.666-676) *)
Definition add_node (m : mol) (k : Z) (a : attrs) : mol :=
  set_nodes m (nupd (nodes m) k a)
    (match max_node m with
     | Some x => if Z.eqb k (x + 1) then Some k else None
     | None => None end).

(* add_nodes_from (l.678-680) *)
Definition add_nodes_from (m : mol) (l : list (Z * attrs)) : mol :=
  set_nodes m (fold_left (fun ns ka => nupd ns (fst ka) (snd ka)) l (nodes m)) None.

Definition memZ (k : Z) (l : list Z) : bool := existsb (Z.eqb k) l.

Definition drop_inters (d : list (Z * list inter)) (ks : list Z) : list (Z * list inter) :=
  filter (fun tl => match snd tl with [] => false | _ => true end)
    (map (fun tl => (fst tl, filter (fun i => negb (existsb (fun a => memZ a ks) (i_atoms i))) (snd tl))) d).

(* remove_nodes_from (l.974-985); remove_node is the singleton case but fails on a missing node *)
Definition remove_nodes (m : mol) (ks : list Z) : mol :=
  {| nodes := filter (fun ka => negb (memZ (fst ka) ks)) (nodes m);
     edges := filter (fun e => negb (memZ (fst e) ks) && negb (memZ (snd e) ks)) (edges m);
     inters := drop_inters (inters m) ks;
     max_node := None; nrexcl := nrexcl m; cites := cites m |}.

Definition remove_node (m : mol) (k : Z) : mol * outcome :=
  if has m k then (remove_nodes m [k], OK) else (m, NxErr).

Definition norm_edge (u v : Z) : Z * Z := if Z.leb u v then (u, v) else (v, u).
Definition edge_eqb (e f : Z * Z) : bool := Z.eqb (fst e) (fst f) && Z.eqb (snd e) (snd f).
Definition add_edge_raw (es : list (Z * Z)) (u v : Z) : list (Z * Z) :=
  if existsb (edge_eqb (norm_edge u v)) es then es else es ++ [norm_edge u v].

Definition add_edge (m : mol) (u v : Z) : mol * outcome :=
  if has m u && has m v && negb (Z.eqb u v) then
    ({| nodes := nodes m; edges := add_edge_raw (edges m) u v; inters := inters m;
        max_node := max_node m; nrexcl := nrexcl m; cites := cites m |}, OK)
  else (m, Unsupported).   (* networkx would create the endpoints behind the cache's back: not an editing operation of the property *)

(* add_interaction (l.490-520) *)
Definition add_interaction (m : mol) (t : Z) (i : inter) : mol * outcome :=
  if forallb (has m) (i_atoms i)
  then (set_inters m (iput (inters m) t (iget (inters m) t ++ [i])), OK)
  else (m, KeyErr).

Definition list_eqbZ (a b : list Z) : bool :=
  (fix go a b := match a, b with
                 | [], [] => true
                 | x :: r, y :: s => Z.eqb x y && go r s
                 | _, _ => false end) a b.
Definition ver (v : option Z) : Z := match v with Some x => x | None => 0 end.
Definition same_id (i j : inter) : bool :=
  list_eqbZ (i_atoms i) (i_atoms j) && Z.eqb (ver (i_version i)) (ver (i_version j)).

Fixpoint replace_first (l : list inter) (i : inter) : option (list inter) :=
  match l with
  | [] => None
  | j :: r => if same_id j i then Some (i :: r)
              else match replace_first r i with Some r' => Some (j :: r') | None => None end
  end.

Definition union_cites (a b : list Z) : list Z :=
  a ++ filter (fun x => negb (memZ x a)) (nodup Z.eq_dec b).

(* add_or_replace_interaction (l.522-562) *)
Definition add_or_replace (m : mol) (t : Z) (i : inter) (c : list Z) : mol * outcome :=
  let '(m1, o) :=
    match replace_first (iget (inters m) t) i with
    | Some l => (set_inters m (iput (inters m) t l), OK)
    | None => add_interaction m t i
    end in
  match o with
  | OK => ({| nodes := nodes m1; edges := edges m1; inters := inters m1; max_node := max_node m1;
              nrexcl := nrexcl m1; cites := union_cites (cites m1) c |}, OK)
  | _ => (m, o)
  end.

Fixpoint remove_first (l : list inter) (atoms : list Z) (v : Z) : option (list inter) :=
  match l with
  | [] => None
  | j :: r => if list_eqbZ (i_atoms j) atoms && Z.eqb (ver (i_version j)) v then Some r
              else match remove_first r atoms v with Some r' => Some (j :: r') | None => None end
  end.

(* remove_interaction (l.580-610) *)
Definition remove_interaction (m : mol) (t : Z) (atoms : list Z) (v : Z) : mol * outcome :=
  match remove_first (iget (inters m) t) atoms v with
  | Some l => (set_inters m (iset (inters m) t l), OK)
  | None => (m, KeyErr)
  end.

(* subgraph (l.453-488): nodes in the order given *)
Definition subgraph (m : mol) (ks : list Z) : option mol :=
  if forallb (has m) ks then
    Some {| nodes := fold_left (fun ns k => match nget (nodes m) k with
                                           | Some a => nupd ns k a | None => ns end) ks [];
            edges := filter (fun e => memZ (fst e) ks && memZ (snd e) ks) (edges m);
            inters := filter (fun tl => match snd tl with [] => false | _ => true end)
                        (map (fun tl => (fst tl, filter (fun i => forallb (fun a => memZ a ks) (i_atoms i)) (snd tl)))
                             (inters m));
            max_node := None; nrexcl := nrexcl m; cites := cites m |}
  else None.

(* copy (l.439-451) *)
Definition copy (m : mol) : mol :=
  match subgraph m (keys m) with Some c => c | None => m end.

Definition dflt1 (o : option Z) : Z := match o with Some x => x | None => 1 end.
Definition shift_attrs (a : attrs) (dr dc : Z) : attrs :=
  {| resid := Some (dflt1 (resid a) + dr); cg := Some (dflt1 (cg a) + dc); tag := tag a |}.

Fixpoint zmax_list (l : list Z) (acc : Z) : Z :=
  match l with [] => acc | x :: r => zmax_list r (Z.max acc x) end.
Definition max_key (m : mol) : option Z :=
  match keys m with [] => None | k :: r => Some (zmax_list r k) end.

Fixpoint number_from (ks : list Z) (start : Z) : list (Z * Z) :=
  match ks with [] => [] | k :: r => (k, start) :: number_from r (start + 1) end.
Fixpoint cget (c : list (Z * Z)) (k : Z) : Z :=
  match c with [] => k | (a, b) :: r => if Z.eqb a k then b else cget r k end.

Definition opt_eqbZ (a b : option Z) : bool :=
  match a, b with Some x, Some y => Z.eqb x y | None, None => true | _, _ => false end.

(* the body of merge_molecule once the offsets are known (l.722-755) *)
Definition merge_core (m n : mol) (nr : option Z) (last dr dc : Z) : mol * list (Z * Z) :=
  let corr := number_from (keys n) (last + 1) in
  let m1 := fold_left (fun acc ka => add_node acc (cget corr (fst ka)) (shift_attrs (snd ka) dr dc))
                      (nodes n)
                      {| nodes := nodes m; edges := edges m; inters := inters m; max_node := Some last;
                         nrexcl := nr; cites := cites m |} in
  let d := fold_left (fun d tl =>
                        fold_left (fun d i => iput d (fst tl) (iget d (fst tl) ++
                            [{| i_atoms := map (cget corr) (i_atoms i); i_params := i_params i;
                                i_version := i_version i |}])) (snd tl) d)
                     (inters n) (inters m1) in
  let es := fold_left (fun es e => if Z.eqb (cget corr (fst e)) (cget corr (snd e)) then es
                                   else add_edge_raw es (cget corr (fst e)) (cget corr (snd e)))
                      (edges n) (edges m1) in
  ({| nodes := nodes m1; edges := es; inters := d; max_node := max_node m1; nrexcl := nr;
      cites := union_cites (cites m1) (cites n) |}, corr).

(* merge_molecule (l.682-755); log entries are not modelled *)
Definition merge (m n : mol) : mol * outcome * list (Z * Z) :=
  let nr := match nrexcl m, nodes m with None, [] => nrexcl n | x, _ => x end in
  if negb (opt_eqbZ nr (nrexcl n)) then
    ({| nodes := nodes m; edges := edges m; inters := inters m; max_node := max_node m;
        nrexcl := nr; cites := cites m |}, ValueErr, [])
  else
    match nodes m with
    | [] => let '(m', c) := merge_core m n nr 0 0 0 in (m', OK, c)
    | _ =>
      match (match max_node m with Some x => Some x | None => max_key m end) with
      | None => (m, KeyErr, [])
      | Some last =>
          match nget (nodes m) last with
          | None => (m, KeyErr, [])       (* self.nodes[last_node_idx] raises *)
          | Some a => let '(m', c) := merge_core m n nr last (dflt1 (resid a)) (dflt1 (cg a)) in (m', OK, c)
          end
      end
    end.

(* Block.to_molecule (l.1193-1252): keys atom_offset, atom_offset+1, ... *)
Definition to_molecule (b : mol) (off dr dc : Z) : mol :=
  let corr := number_from (keys b) off in
  let m0 := empty_mol None in
  let m1 := fold_left (fun acc ka => add_node acc (cget corr (fst ka)) (shift_attrs (snd ka) dr dc)) (nodes b)
              {| nodes := []; edges := []; inters := []; max_node := None; nrexcl := None; cites := cites b |} in
  {| nodes := nodes m1;
     edges := fold_left (fun es e => add_edge_raw es (cget corr (fst e)) (cget corr (snd e))) (edges b) [];
     inters := map (fun tl => (fst tl, map (fun i => {| i_atoms := map (cget corr) (i_atoms i);
                                                        i_params := i_params i; i_version := i_version i |}) (snd tl)))
                   (inters b);
     max_node := max_node m1; nrexcl := nrexcl b; cites := cites b |}.

(* ---- heap of live molecules and the operation alphabet ---- *)
Inductive op :=
| AddNode (m : nat) (k : Z) (a : attrs)
| AddNodesFrom (m : nat) (l : list (Z * attrs))
| RemoveNode (m : nat) (k : Z)
| RemoveNodesFrom (m : nat) (ks : list Z)
| AddEdge (m : nat) (u v : Z)
| AddInteraction (m : nat) (t : Z) (i : inter)
| AddOrReplace (m : nat) (t : Z) (i : inter) (c : list Z)
| RemoveInteraction (m : nat) (t : Z) (atoms : list Z) (v : Z)
| Copy (m : nat)
| Subgraph (m : nat) (ks : list Z)
| Merge (m n : nat)
| ToMolecule (b : nat) (off dr dc : Z)
| NewEmpty (nr : option Z)
| MergeAll (ms : list nat).

Definition heap := list mol.

Fixpoint hset (h : heap) (i : nat) (m : mol) : heap :=
  match h, i with
  | [], _ => []
  | _ :: r, O => m :: r
  | x :: r, S j => x :: hset r j m
  end.

Definition on (h : heap) (i : nat) (f : mol -> mol * outcome) : heap * outcome :=
  match nth_error h i with
  | Some m => let '(m', o) := f m in (hset h i m', o)
  | None => (h, Unsupported)
  end.

Definition do_op (h : heap) (o : op) : heap * outcome :=
  match o with
  | AddNode i k a => on h i (fun m => (add_node m k a, OK))
  | AddNodesFrom i l => on h i (fun m => (add_nodes_from m l, OK))
  | RemoveNode i k => on h i (fun m => remove_node m k)
  | RemoveNodesFrom i ks => on h i (fun m => (remove_nodes m ks, OK))
  | AddEdge i u v => on h i (fun m => add_edge m u v)
  | AddInteraction i t x => on h i (fun m => add_interaction m t x)
  | AddOrReplace i t x c => on h i (fun m => add_or_replace m t x c)
  | RemoveInteraction i t atoms v => on h i (fun m => remove_interaction m t atoms v)
  | Copy i => match nth_error h i with Some m => (h ++ [copy m], OK) | None => (h, Unsupported) end
  | Subgraph i ks => match nth_error h i with
                     | Some m => match subgraph m ks with Some s => (h ++ [s], OK) | None => (h, KeyErr) end
                     | None => (h, Unsupported) end
  | Merge i j =>
      if Nat.eqb i j then (h, Unsupported) else
      match nth_error h i, nth_error h j with
      | Some m, Some n => let '(m', o, _) := merge m n in (hset h i m', o)
      | _, _ => (h, Unsupported)
      end
  | ToMolecule b off dr dc => match nth_error h b with
                              | Some m => (h ++ [to_molecule m off dr dc], OK)
                              | None => (h, Unsupported) end
  | NewEmpty nr => (h ++ [empty_mol nr], OK)
  | MergeAll ms =>
      match ms with
      | [] => (h, OK)
      | i :: rest =>
          if existsb (Nat.eqb i) rest || negb (forallb (fun j => Nat.ltb j (List.length h)) ms) then (h, Unsupported) else
          fold_left (fun ho j =>
                       match snd ho with
                       | OK => match nth_error (fst ho) i, nth_error (fst ho) j with
                               | Some m, Some n => let '(m', o, _) := merge m n in (hset (fst ho) i m', o)
                               | _, _ => (fst ho, Unsupported) end
                       | _ => ho end) rest (h, OK)
      end
  end.

Fixpoint run (h : heap) (os : list op) : heap * list outcome :=
  match os with
  | [] => (h, [])
  | o :: r => let '(h1, x) := do_op h o in let '(h2, xs) := run h1 r in (h2, x :: xs)
  end.
