From Coq Require Import List Bool ZArith Lia.
From V Require Import C12.Model C12.Spec.
Import ListNotations.
Open Scope Z_scope.

(* ---------- basic facts about the containers ---------- *)
Lemma memZ_In k l : memZ k l = true <-> In k l.
Proof.
  unfold memZ. rewrite existsb_exists. split.
  - intros (x & Hin & Hx). apply Z.eqb_eq in Hx. subst. exact Hin.
  - intros H. exists k. split; [exact H|apply Z.eqb_refl].
Qed.

Lemma memZ_false k l : memZ k l = false <-> ~ In k l.
Proof. rewrite <- memZ_In. destruct (memZ k l); split; congruence. Qed.

Lemma nget_In ns k : (exists a, nget ns k = Some a) <-> In k (map fst ns).
Proof.
  induction ns as [|[j b] r IH]; cbn.
  - split; [intros [a H]; discriminate|tauto].
  - destruct (Z.eqb_spec j k) as [->|Hn].
    + split; [auto|eauto].
    + rewrite IH. split; [auto|intros [H|H]; [contradiction|exact H]].
Qed.

Lemma has_In m k : has m k = true <-> In k (keys m).
Proof.
  unfold has, keys. rewrite <- nget_In. destruct (nget (nodes m) k) as [a|].
  - split; eauto.
  - split; [discriminate|intros [a H]; discriminate].
Qed.

Lemma nupd_keys_present ns k a : In k (map fst ns) -> map fst (nupd ns k a) = map fst ns.
Proof.
  induction ns as [|[j b] r IH]; cbn; [tauto|].
  destruct (Z.eqb_spec j k) as [->|Hn]; cbn; [reflexivity|].
  intros [H|H]; [contradiction|]. rewrite IH by exact H. reflexivity.
Qed.

Lemma nupd_fresh ns k a : ~ In k (map fst ns) -> nupd ns k a = ns ++ [(k, a)].
Proof.
  induction ns as [|[j b] r IH]; cbn; [reflexivity|].
  intros H. destruct (Z.eqb_spec j k) as [->|Hn]; [tauto|].
  rewrite IH by tauto. reflexivity.
Qed.

Lemma nupd_keys ns k a :
  map fst (nupd ns k a) = if memZ k (map fst ns) then map fst ns else map fst ns ++ [k].
Proof.
  destruct (memZ k (map fst ns)) eqn:E.
  - apply nupd_keys_present. apply memZ_In; exact E.
  - rewrite nupd_fresh by (apply memZ_false; exact E). rewrite map_app. reflexivity.
Qed.

Lemma nodup_snoc (l : list Z) x : NoDup l -> ~ In x l -> NoDup (l ++ [x]).
Proof.
  induction l as [|y l IH]; cbn; intros H Hn.
  - constructor; [tauto|constructor].
  - inversion H as [|? ? Hy Hl]; subst. constructor.
    + rewrite in_app_iff. cbn. intros [Hi|[->|[]]]; tauto.
    + apply IH; tauto.
Qed.

Lemma nupd_nodup ns k a : NoDup (map fst ns) -> NoDup (map fst (nupd ns k a)).
Proof.
  intros H. rewrite nupd_keys. destruct (memZ k (map fst ns)) eqn:E; [exact H|].
  apply nodup_snoc; [exact H|apply memZ_false; exact E].
Qed.

Lemma nupd_incl ns k a x : In x (map fst ns) -> In x (map fst (nupd ns k a)).
Proof.
  rewrite nupd_keys. destruct (memZ k (map fst ns)); [tauto|]. rewrite in_app_iff; tauto.
Qed.

Lemma nupd_in_inv ns k a x : In x (map fst (nupd ns k a)) -> x = k \/ In x (map fst ns).
Proof.
  rewrite nupd_keys. destruct (memZ k (map fst ns)); [tauto|]. rewrite in_app_iff. cbn. intuition.
Qed.

Lemma nupd_has ns k a : In k (map fst (nupd ns k a)).
Proof.
  rewrite nupd_keys. destruct (memZ k (map fst ns)) eqn:E; [apply memZ_In; exact E|].
  rewrite in_app_iff; cbn; tauto.
Qed.

(* interactions dictionary *)
Lemma iput_in d t l t' l' : In (t', l') (iput d t l) -> (t' = t /\ l' = l) \/ In (t', l') d.
Proof.
  induction d as [|[u l0] r IH]; cbn.
  - intros [[= <- <-]|[]]; auto.
  - destruct (Z.eqb_spec u t) as [->|Hn]; cbn.
    + intros [[= <- <-]|H]; auto.
    + intros [H|H]; [auto|]. destruct (IH H); auto.
Qed.

Lemma idel_in d t t' l' : In (t', l') (idel d t) -> In (t', l') d.
Proof.
  induction d as [|[u l0] r IH]; cbn; [tauto|].
  destruct (Z.eqb u t); cbn; [auto|]. intros [H|H]; auto.
Qed.

Lemma iget_in d t : iget d t <> [] -> In (t, iget d t) d.
Proof.
  induction d as [|[u l0] r IH]; cbn; [congruence|].
  destruct (Z.eqb_spec u t) as [->|Hn]; [auto|]. intros H; right; exact (IH H).
Qed.

Lemma iget_of_in d t l : NoDup (map fst d) -> In (t, l) d -> iget d t = l.
Proof.
  induction d as [|[u l0] r IH]; cbn; [tauto|].
  intros Hnd [[= -> ->]|Hin].
  - rewrite Z.eqb_refl. reflexivity.
  - inversion Hnd as [|? ? Hu Hr]; subst.
    destruct (Z.eqb_spec u t) as [->|Hn].
    + exfalso. apply Hu. apply (in_map fst) in Hin. exact Hin.
    + exact (IH Hr Hin).
Qed.

Lemma iget_iput_same d t l : iget (iput d t l) t = l.
Proof.
  induction d as [|[u l0] r IH]; cbn; [rewrite Z.eqb_refl; reflexivity|].
  destruct (Z.eqb_spec u t) as [->|Hn]; cbn.
  - rewrite Z.eqb_refl. reflexivity.
  - destruct (Z.eqb_spec u t); [contradiction|exact IH].
Qed.

Lemma iget_iput_other d t l t' : t <> t' -> iget (iput d t l) t' = iget d t'.
Proof.
  intros Hn. induction d as [|[u l0] r IH]; cbn.
  - destruct (Z.eqb_spec t t'); [contradiction|reflexivity].
  - destruct (Z.eqb_spec u t) as [->|Hu]; cbn.
    + destruct (Z.eqb_spec t t'); [contradiction|reflexivity].
    + destruct (Z.eqb u t'); [reflexivity|exact IH].
Qed.

Lemma iput_types d t l : map fst (iput d t l) = if memZ t (map fst d) then map fst d else map fst d ++ [t].
Proof.
  induction d as [|[u l0] r IH]; cbn; [reflexivity|].
  destruct (Z.eqb_spec u t) as [->|Hn]; cbn.
  - rewrite Z.eqb_refl. reflexivity.
  - destruct (Z.eqb_spec t u) as [->|_]; [contradiction|]. cbn. rewrite IH.
    unfold memZ. destruct (existsb (Z.eqb t) (map fst r)); reflexivity.
Qed.

Lemma iput_nodup d t l : NoDup (map fst d) -> NoDup (map fst (iput d t l)).
Proof.
  intros H. rewrite iput_types. destruct (memZ t (map fst d)) eqn:E; [exact H|].
  apply nodup_snoc; [exact H|apply memZ_false; exact E].
Qed.

Lemma idel_nodup d t : NoDup (map fst d) -> NoDup (map fst (idel d t)).
Proof.
  induction d as [|[u l0] r IH]; cbn; [auto|].
  intros H. inversion H as [|? ? Hu Hr]; subst. destruct (Z.eqb u t); cbn; [auto|].
  constructor; [|auto]. intros Hin. apply Hu.
  clear -Hin. induction r as [|[v l1] r IH]; cbn in *; [tauto|].
  destruct (Z.eqb v t); cbn in *; [right; auto|]. destruct Hin; [left; auto|right; auto].
Qed.

Lemma iset_in d t l t' l' : In (t', l') (iset d t l) -> (t' = t /\ l' = l) \/ In (t', l') d.
Proof.
  unfold iset. destruct l; [intros H; right; eapply idel_in; exact H|apply iput_in].
Qed.

Lemma iset_nodup d t l : NoDup (map fst d) -> NoDup (map fst (iset d t l)).
Proof. unfold iset. destruct l; [apply idel_nodup|apply iput_nodup]. Qed.

Lemma filter_map_nodup {A} (f : Z * A -> bool) (g : Z * A -> Z * A) (d : list (Z * A)) :
  (forall x, fst (g x) = fst x) -> NoDup (map fst d) -> NoDup (map fst (filter f (map g d))).
Proof.
  intros Hg. induction d as [|x r IH]; cbn; [auto|].
  intros H. inversion H as [|? ? Hx Hr]; subst.
  assert (Hsub : forall y, In y (map fst (filter f (map g r))) -> In y (map fst r)).
  { intros y Hy. apply in_map_iff in Hy as (z & <- & Hz). apply filter_In in Hz as [Hz _].
    apply in_map_iff in Hz as (w & <- & Hw). rewrite Hg. apply in_map; exact Hw. }
  destruct (f (g x)); cbn; [|auto]. constructor; [|auto]. rewrite Hg. intros Hin. exact (Hx (Hsub _ Hin)).
Qed.

(* ---------- consistency is preserved by each operation ---------- *)
Ltac wf_split := split; [split; [|split]|split].

Lemma add_node_wf m k a : WF m -> WF (add_node m k a).
Proof.
  intros [(Hnd & Hi & He) [Hc Ht]]. unfold add_node, WF, consistent, cache_valid, keys in *; cbn.
  wf_split.
  - apply nupd_nodup; exact Hnd.
  - intros t l i x H1 H2 H3. apply nupd_incl. eapply Hi; eauto.
  - intros u v H. split; apply nupd_incl; [exact (proj1 (He u v H))|exact (proj2 (He u v H))].
  - intros x Hx. destruct (max_node m) as [y|]; [|discriminate].
    destruct (Z.eqb_spec k (y + 1)) as [->|]; [|discriminate]. injection Hx as <-. split.
    + intros j Hj. destruct (nupd_in_inv _ _ _ _ Hj) as [->|Hj']; [lia|].
      pose proof (proj1 (Hc y eq_refl) j Hj'). lia.
    + intros _. apply nupd_has.
  - exact Ht.
Qed.

Lemma fold_nupd_nodup l : forall ns, NoDup (map fst ns) ->
  NoDup (map fst (fold_left (fun ns ka => nupd ns (fst ka) (snd ka)) l ns)).
Proof. induction l as [|x l IH]; intros ns H; cbn; [exact H|]. apply IH. apply nupd_nodup; exact H. Qed.

Lemma fold_nupd_incl l : forall ns x, In x (map fst ns) ->
  In x (map fst (fold_left (fun ns ka => nupd ns (fst ka) (snd ka)) l ns)).
Proof. induction l as [|y l IH]; intros ns x H; cbn; [exact H|]. apply IH. apply nupd_incl; exact H. Qed.

Lemma add_nodes_from_wf m l : WF m -> WF (add_nodes_from m l).
Proof.
  intros [(Hnd & Hi & He) [Hc Ht]]. unfold add_nodes_from, WF, consistent, cache_valid, keys in *; cbn.
  wf_split.
  - apply fold_nupd_nodup; exact Hnd.
  - intros t l0 i x H1 H2 H3. apply fold_nupd_incl. eapply Hi; eauto.
  - intros u v H. split; apply fold_nupd_incl; [exact (proj1 (He u v H))|exact (proj2 (He u v H))].
  - discriminate.
  - exact Ht.
Qed.

Lemma nodup_filter_keys (f : Z * attrs -> bool) ns : NoDup (map fst ns) -> NoDup (map fst (filter f ns)).
Proof.
  induction ns as [|x r IH]; cbn; [auto|]. intros H. inversion H as [|? ? Hx Hr]; subst.
  destruct (f x); cbn; [|auto]. constructor; [|auto].
  intros Hin. apply Hx. apply in_map_iff in Hin as (y & Hy & Hin). apply filter_In in Hin as [Hin _].
  rewrite <- Hy. apply in_map; exact Hin.
Qed.

Lemma remove_nodes_wf m ks : WF m -> WF (remove_nodes m ks).
Proof.
  intros [(Hnd & Hi & He) [Hc Ht]]. unfold remove_nodes, WF, consistent, cache_valid, keys in *; cbn.
  assert (Hkeep : forall x, In x (map fst (nodes m)) -> ~ In x ks ->
                   In x (map fst (filter (fun ka => negb (memZ (fst ka) ks)) (nodes m)))).
  { intros x Hx Hn. apply in_map_iff in Hx as ([j b] & <- & Hin). apply in_map_iff. exists (j, b). split; [reflexivity|].
    apply filter_In. split; [exact Hin|]. cbn. apply negb_true_iff. apply memZ_false. exact Hn. }
  wf_split.
  - apply nodup_filter_keys; exact Hnd.
  - intros t l i x H1 H2 H3. unfold drop_inters in H1. apply filter_In in H1 as [H1 _].
    apply in_map_iff in H1 as ([t0 l0] & Heq & Hin0). injection Heq as <- <-. cbn in H2.
    apply filter_In in H2 as [H2 Hf]. apply Hkeep; [eapply Hi; eauto|].
    apply negb_true_iff in Hf. intros Hx.
    assert (existsb (fun a => memZ a ks) (i_atoms i) = true); [|congruence].
    apply existsb_exists. exists x. split; [exact H3|apply memZ_In; exact Hx].
  - intros u v H. apply filter_In in H as [H Hf]. apply andb_prop in Hf as [Hu Hv]. cbn in *.
    apply negb_true_iff in Hu, Hv. apply memZ_false in Hu, Hv.
    split; apply Hkeep; auto; [exact (proj1 (He u v H))|exact (proj2 (He u v H))].
  - discriminate.
  - unfold drop_inters. apply filter_map_nodup; [reflexivity|exact Ht].
Qed.

Lemma remove_node_wf m k : WF m -> WF (fst (remove_node m k)).
Proof. intros H. unfold remove_node. destruct (has m k); cbn; [apply remove_nodes_wf|]; exact H. Qed.

Lemma add_edge_raw_in es u v e : In e (add_edge_raw es u v) -> e = norm_edge u v \/ In e es.
Proof.
  unfold add_edge_raw. destruct (existsb _ es); [tauto|]. rewrite in_app_iff. cbn. intuition.
Qed.

Lemma add_edge_raw_keeps es u v e : In e es -> In e (add_edge_raw es u v).
Proof. unfold add_edge_raw. destruct (existsb _ es); [tauto|]. rewrite in_app_iff. tauto. Qed.

Lemma add_edge_raw_has es u v : In (norm_edge u v) (add_edge_raw es u v).
Proof.
  unfold add_edge_raw. destruct (existsb _ es) eqn:E.
  - apply existsb_exists in E as ([a b] & Hin & Hx). unfold edge_eqb in Hx. cbn in Hx.
    apply andb_prop in Hx as [H1 H2]. apply Z.eqb_eq in H1, H2.
    destruct (norm_edge u v) as [p q]; cbn in *; subst. exact Hin.
  - rewrite in_app_iff; cbn; tauto.
Qed.

Lemma norm_edge_ends u v : norm_edge u v = (u, v) \/ norm_edge u v = (v, u).
Proof. unfold norm_edge. destruct (Z.leb u v); auto. Qed.

Lemma add_edge_wf m u v : WF m -> WF (fst (add_edge m u v)).
Proof.
  intros W. unfold add_edge. destruct (has m u && has m v && negb (Z.eqb u v)) eqn:E; [|exact W].
  apply andb_prop in E as [E _]. apply andb_prop in E as [Eu Ev].
  apply has_In in Eu. apply has_In in Ev.
  destruct W as [(Hnd & Hi & He) [Hc Ht]]. unfold WF, consistent, cache_valid, keys in *; cbn.
  wf_split; auto.
  intros a b H. destruct (add_edge_raw_in _ _ _ _ H) as [Heq|Hin]; [|exact (He _ _ Hin)].
  destruct (norm_edge_ends u v) as [E'|E']; rewrite E' in Heq; injection Heq as -> ->; auto.
Qed.

Lemma forallb_has m l : forallb (has m) l = true -> forall a, In a l -> In a (keys m).
Proof. rewrite forallb_forall. intros H a Ha. apply has_In. exact (H a Ha). Qed.

Lemma set_inters_wf m d :
  WF m -> NoDup (map fst d) ->
  (forall t l i a, In (t, l) d -> In i l -> In a (i_atoms i) -> In a (keys m)) ->
  WF (set_inters m d).
Proof.
  intros [(Hnd & Hi & He) [Hc Ht]] Hd Hn. unfold WF, consistent, cache_valid, keys in *; cbn. wf_split; auto.
Qed.

Lemma add_interaction_wf m t i : WF m -> WF (fst (add_interaction m t i)).
Proof.
  intros W. unfold add_interaction. destruct (forallb (has m) (i_atoms i)) eqn:E; [|exact W]. cbn.
  pose proof W as [(Hnd & Hi & He) [Hc Ht]].
  apply set_inters_wf; [exact W|apply iput_nodup; exact Ht|].
  intros t' l' j a H1 H2 H3. destruct (iput_in _ _ _ _ _ H1) as [[-> ->]|Hin].
  - apply in_app_iff in H2 as [H2|[<-|[]]].
    + destruct (iget (inters m) t) eqn:G; [destruct H2|]. eapply Hi; [apply iget_in|rewrite G; exact H2|exact H3].
      rewrite G; discriminate.
    + exact (forallb_has m _ E a H3).
  - eapply Hi; eauto.
Qed.

Lemma replace_first_in l i l' j : replace_first l i = Some l' -> In j l' -> j = i \/ In j l.
Proof.
  revert l'. induction l as [|x r IH]; cbn; intros l'; [discriminate|].
  destruct (same_id x i).
  - intros [= <-] [->|H]; auto.
  - destruct (replace_first r i) as [r'|]; [|discriminate]. intros [= <-] [->|H]; [auto|].
    destruct (IH _ eq_refl H); auto.
Qed.

Lemma list_eqbZ_eq a : forall b, list_eqbZ a b = true -> a = b.
Proof.
  induction a as [|x a IH]; intros [|y b]; cbn; try discriminate; [reflexivity|].
  intros H. apply andb_prop in H as [H1 H2]. apply Z.eqb_eq in H1. subst. f_equal. apply IH. exact H2.
Qed.

Lemma replace_first_atoms l i l' : replace_first l i = Some l' -> exists j, In j l /\ i_atoms j = i_atoms i.
Proof.
  revert l'. induction l as [|x r IH]; cbn; intros l'; [discriminate|].
  destruct (same_id x i) eqn:E.
  - intros _. exists x. split; [auto|]. unfold same_id in E. apply andb_prop in E as [E _]. apply list_eqbZ_eq; exact E.
  - destruct (replace_first r i) as [r'|]; [|discriminate]. intros _. destruct (IH _ eq_refl) as (j & Hj & Ha). eauto.
Qed.

Lemma wf_ext m1 m2 :
  WF m1 -> nodes m2 = nodes m1 -> edges m2 = edges m1 -> inters m2 = inters m1 -> max_node m2 = max_node m1 -> WF m2.
Proof.
  intros W H1 H2 H3 H4. unfold WF, consistent, cache_valid, keys in *. rewrite H1, H2, H3, H4. exact W.
Qed.

Lemma add_or_replace_wf m t i c : WF m -> WF (fst (add_or_replace m t i c)).
Proof.
  intros W. unfold add_or_replace.
  destruct (replace_first (iget (inters m) t) i) as [l|] eqn:R.
  - cbn. apply (wf_ext (set_inters m (iput (inters m) t l))); try reflexivity.
    pose proof W as [(Hnd & Hi & He) [Hcv Ht]].
    apply set_inters_wf; [exact W|apply iput_nodup; exact Ht|].
    intros t' l' j a H1 H2 H3. destruct (iput_in _ _ _ _ _ H1) as [[-> ->]|Hin]; [|eapply Hi; eauto].
    assert (Hne : iget (inters m) t <> []) by (destruct (iget (inters m) t); [discriminate|discriminate]).
    destruct (replace_first_in _ _ _ _ R H2) as [->|Hj].
    + destruct (replace_first_atoms _ _ _ R) as (j0 & Hj0 & Ha). rewrite <- Ha in H3.
      eapply Hi; [apply iget_in; exact Hne|exact Hj0|exact H3].
    + eapply Hi; [apply iget_in; exact Hne|exact Hj|exact H3].
  - pose proof (add_interaction_wf m t i W) as W1. destruct (add_interaction m t i) as [m1 o]. cbn in W1.
    destruct o; cbn; try exact W. apply (wf_ext m1); auto.
Qed.

Lemma remove_first_in l atoms v l' j : remove_first l atoms v = Some l' -> In j l' -> In j l.
Proof.
  revert l'. induction l as [|x r IH]; cbn; intros l'; [discriminate|].
  destruct (list_eqbZ (i_atoms x) atoms && Z.eqb (ver (i_version x)) v).
  - intros [= <-] H; auto.
  - destruct (remove_first r atoms v) as [r'|]; [|discriminate]. intros [= <-] [->|H]; [auto|].
    right. exact (IH _ eq_refl H).
Qed.

Lemma remove_interaction_wf m t atoms v : WF m -> WF (fst (remove_interaction m t atoms v)).
Proof.
  intros W. unfold remove_interaction. destruct (remove_first (iget (inters m) t) atoms v) as [l|] eqn:R; [|exact W].
  cbn. pose proof W as [(Hnd & Hi & He) [Hc Ht]].
  apply set_inters_wf; [exact W|apply iset_nodup; exact Ht|].
  intros t' l' j a H1 H2 H3. destruct (iset_in _ _ _ _ _ H1) as [[-> ->]|Hin]; [|eapply Hi; eauto].
  assert (Hne : iget (inters m) t <> []) by (destruct (iget (inters m) t); [discriminate|discriminate]).
  eapply Hi; [apply iget_in; exact Hne|eapply remove_first_in; eauto|exact H3].
Qed.

(* ---------- subgraph / copy ---------- *)
Section Sub.
Variable m : mol.
Let f := fun (ns : list (Z * attrs)) (k : Z) =>
  match nget (nodes m) k with Some a => nupd ns k a | None => ns end.

Lemma sub_fold_nodup ks : forall ns, NoDup (map fst ns) -> NoDup (map fst (fold_left f ks ns)).
Proof.
  induction ks as [|k ks IH]; intros ns H; cbn; [exact H|]. apply IH. unfold f.
  destruct (nget (nodes m) k); [apply nupd_nodup|]; exact H.
Qed.

Lemma sub_fold_in ks : forall ns x,
  In x (map fst ns) \/ (In x ks /\ In x (keys m)) -> In x (map fst (fold_left f ks ns)).
Proof.
  induction ks as [|k ks IH]; intros ns x H; cbn.
  - destruct H as [H|[[] _]]; exact H.
  - apply IH. unfold f. destruct H as [H|[[->|H] Hk]].
    + left. destruct (nget (nodes m) k); [apply nupd_incl|]; exact H.
    + left. apply nget_In in Hk as [a Ha]. rewrite Ha. apply nupd_has.
    + right; auto.
Qed.
End Sub.

Lemma subgraph_wf m ks s : WF m -> subgraph m ks = Some s -> WF s.
Proof.
  intros [(Hnd & Hi & He) [Hc Ht]]. unfold subgraph. destruct (forallb (has m) ks) eqn:E; [|discriminate].
  intros [= <-]. pose proof (forallb_has m ks E) as Hks.
  unfold WF, consistent, cache_valid, keys; cbn. wf_split.
  - apply sub_fold_nodup. constructor.
  - intros t l i a H1 H2 H3. apply filter_In in H1 as [H1 _].
    apply in_map_iff in H1 as ([t0 l0] & Heq & Hin0). injection Heq as <- <-. cbn in H2.
    apply filter_In in H2 as [H2 Hf]. rewrite forallb_forall in Hf. specialize (Hf a H3). apply memZ_In in Hf.
    apply sub_fold_in. right. split; [exact Hf|apply Hks; exact Hf].
  - intros u v H. apply filter_In in H as [H Hf]. apply andb_prop in Hf as [Hu Hv]. cbn in *.
    apply memZ_In in Hu, Hv. split; apply sub_fold_in; right; auto.
  - discriminate.
  - apply filter_map_nodup; [reflexivity|exact Ht].
Qed.

Lemma copy_wf m : WF m -> WF (copy m).
Proof.
  intros W. unfold copy. destruct (subgraph m (keys m)) as [c|] eqn:E; [|exact W].
  eapply subgraph_wf; eauto.
Qed.

(* ---------- merge ---------- *)
Fixpoint zseq (s : Z) (n : nat) : list Z := match n with O => [] | S k => s :: zseq (s + 1) k end.

Lemma zseq_range n : forall s x, In x (zseq s n) -> s <= x < s + Z.of_nat n.
Proof. induction n as [|n IH]; intros s x; cbn [zseq In]; [tauto|]. intros [<-|H]; [lia|]. apply IH in H. lia. Qed.

Lemma zseq_nodup n : forall s, NoDup (zseq s n).
Proof.
  induction n as [|n IH]; intros s; cbn; constructor; [|apply IH].
  intros H. apply zseq_range in H. lia.
Qed.

Lemma number_from_cget ks : forall s, NoDup ks -> map (cget (number_from ks s)) ks = zseq s (length ks).
Proof.
  induction ks as [|k r IH]; intros s H; cbn; [reflexivity|].
  rewrite Z.eqb_refl. f_equal. inversion H as [|? ? Hk Hr]; subst.
  rewrite <- (IH (s + 1) Hr). apply map_ext_in. intros x Hx.
  destruct (Z.eqb_spec k x) as [->|_]; [contradiction|reflexivity].
Qed.

Definition addf (acc : mol) (kb : Z * attrs) : mol := add_node acc (fst kb) (snd kb).

Lemma addf_fresh m0 last a :
  max_node m0 = Some last -> ~ In (last + 1) (map fst (nodes m0)) ->
  addf m0 (last + 1, a) =
  {| nodes := nodes m0 ++ [(last + 1, a)]; edges := edges m0; inters := inters m0;
     max_node := Some (last + 1); nrexcl := nrexcl m0; cites := cites m0 |}.
Proof.
  intros Hmx Hf. unfold addf, add_node, set_nodes. cbn. rewrite Hmx, Z.eqb_refl.
  rewrite nupd_fresh by exact Hf. reflexivity.
Qed.

Lemma fold_add_consecutive l : forall m0 last,
  max_node m0 = Some last -> (forall k, In k (keys m0) -> k <= last) ->
  map fst l = zseq (last + 1) (length l) ->
  let r := fold_left addf l m0 in
  nodes r = nodes m0 ++ l /\ max_node r = Some (last + Z.of_nat (length l)) /\
  edges r = edges m0 /\ inters r = inters m0 /\ nrexcl r = nrexcl m0 /\ cites r = cites m0.
Proof.
  induction l as [|[k a] l IH]; intros m0 last Hmx Hle Hk; cbn [fold_left length].
  - cbn. rewrite app_nil_r, Z.add_0_r. repeat split; auto.
  - cbn in Hk. injection Hk as -> Hk.
    assert (Hfresh : ~ In (last + 1) (map fst (nodes m0))).
    { intros Hin. specialize (Hle _ Hin). lia. }
    rewrite (addf_fresh m0 last a Hmx Hfresh).
    match goal with |- context [fold_left addf l ?M] => specialize (IH M (last + 1)) end.
    destruct IH as (H1 & H2 & H3 & H4 & H5 & H6); [reflexivity| |exact Hk|].
    + unfold keys; cbn. rewrite map_app. intros j Hj. apply in_app_iff in Hj as [Hj|[<-|[]]]; [|cbn; lia].
      specialize (Hle _ Hj). lia.
    + cbn in *. rewrite H1, H2, H3, H4, H5, H6. rewrite <- app_assoc. cbn.
      repeat split; try reflexivity. f_equal. lia.
Qed.

Lemma inner_fold_spec (g : inter -> inter) t l : forall d,
  let r := fold_left (fun d i => iput d t (iget d t ++ [g i])) l d in
  iget r t = iget d t ++ map g l /\ (forall t', t <> t' -> iget r t' = iget d t') /\
  (NoDup (map fst d) -> NoDup (map fst r)) /\
  (forall x, In x (map fst r) -> x = t \/ In x (map fst d)).
Proof.
  induction l as [|i l IH]; intros d; cbn.
  - rewrite app_nil_r. auto.
  - destruct (IH (iput d t (iget d t ++ [g i]))) as (H1 & H2 & H3 & H4). cbn in *.
    rewrite H1, iget_iput_same, <- app_assoc. split; [reflexivity|]. split; [|split].
    + intros t' Hn. rewrite H2 by exact Hn. apply iget_iput_other; exact Hn.
    + intros Hd. apply H3. apply iput_nodup; exact Hd.
    + intros x Hx. destruct (H4 x Hx) as [->|Hin]; [auto|]. rewrite iput_types in Hin.
      destruct (memZ t (map fst d)); [auto|]. apply in_app_iff in Hin as [Hin|[<-|[]]]; auto.
Qed.

Lemma iget_notin d t : ~ In t (map fst d) -> iget d t = [].
Proof.
  induction d as [|[u l] r IH]; cbn; [reflexivity|]. intros H.
  destruct (Z.eqb_spec u t) as [->|_]; [tauto|]. apply IH; tauto.
Qed.

Lemma outer_fold_spec (g : inter -> inter) dn : forall d,
  NoDup (map fst dn) ->
  let r := fold_left (fun d tl => fold_left (fun d i => iput d (fst tl) (iget d (fst tl) ++ [g i])) (snd tl) d) dn d in
  (forall t, iget r t = iget d t ++ map g (iget dn t)) /\ (NoDup (map fst d) -> NoDup (map fst r)).
Proof.
  induction dn as [|[t0 l0] r IH]; intros d Hnd; cbn.
  - split; [intros t; rewrite app_nil_r; reflexivity|auto].
  - inversion Hnd as [|? ? Ht0 Hr]; subst.
    destruct (inner_fold_spec g t0 l0 d) as (H1 & H2 & H3 & _). cbn in H1, H2, H3.
    destruct (IH (fold_left (fun d i => iput d t0 (iget d t0 ++ [g i])) l0 d) Hr) as [I1 I2]. cbn in I1, I2.
    split; [|auto]. intros t. rewrite I1. destruct (Z.eqb_spec t0 t) as [<-|Hn].
    + rewrite H1. rewrite (iget_notin r t0 Ht0). cbn. rewrite app_nil_r. reflexivity.
    + rewrite H2 by exact Hn. reflexivity.
Qed.

Lemma edge_fold_spec (c : list (Z * Z)) en : forall es,
  let r := fold_left (fun es e => if Z.eqb (cget c (fst e)) (cget c (snd e)) then es
                                  else add_edge_raw es (cget c (fst e)) (cget c (snd e))) en es in
  (forall e, In e es -> In e r) /\
  (forall u v, In (u, v) en -> cget c u <> cget c v -> In (norm_edge (cget c u) (cget c v)) r) /\
  (forall e, In e r -> In e es \/ exists u v, In (u, v) en /\ e = norm_edge (cget c u) (cget c v)).
Proof.
  induction en as [|[a b] en IH]; intros es; cbn.
  - split; [auto|]. split; [tauto|auto].
  - set (es1 := if Z.eqb (cget c a) (cget c b) then es else add_edge_raw es (cget c a) (cget c b)).
    destruct (IH es1) as (I1 & I2 & I3). cbn in I1, I2, I3.
    assert (Hk : forall e, In e es -> In e es1).
    { intros e He. unfold es1. destruct (Z.eqb _ _); [exact He|apply add_edge_raw_keeps; exact He]. }
    split; [intros e He; apply I1, Hk, He|]. split.
    + intros u v [[= -> ->]|Hin] Hne; [|apply I2; assumption].
      apply I1. unfold es1. destruct (Z.eqb_spec (cget c u) (cget c v)); [contradiction|apply add_edge_raw_has].
    + intros e He. destruct (I3 e He) as [H|(u & v & Hin & ->)]; [|right; eauto].
      unfold es1 in H. destruct (Z.eqb (cget c a) (cget c b)); [auto|].
      destruct (add_edge_raw_in _ _ _ _ H) as [->|H']; [right; exists a, b; auto|auto].
Qed.

Lemma zmax_list_spec l : forall acc,
  acc <= zmax_list l acc /\ (forall x, In x l -> x <= zmax_list l acc) /\
  (zmax_list l acc = acc \/ In (zmax_list l acc) l).
Proof.
  induction l as [|y l IH]; intros acc; cbn; [split; [lia|split; [tauto|auto]]|].
  destruct (IH (Z.max acc y)) as (H1 & H2 & H3). split; [lia|]. split.
  - intros x [<-|Hx]; [lia|auto].
  - destruct H3 as [H3|H3]; [|auto]. rewrite H3. destruct (Z.max_spec acc y) as [[_ ->]|[_ ->]]; auto.
Qed.

Lemma max_key_spec m x : max_key m = Some x -> (forall k, In k (keys m) -> k <= x) /\ In x (keys m).
Proof.
  unfold max_key. destruct (keys m) as [|k r]; [discriminate|]. intros [= <-].
  destruct (zmax_list_spec r k) as (H1 & H2 & H3). split.
  - intros j [<-|Hj]; auto.
  - destruct H3 as [->|H3]; [left; reflexivity|right; exact H3].
Qed.

Lemma max_key_unique m x : (forall k, In k (keys m) -> k <= x) -> In x (keys m) -> max_key m = Some x.
Proof.
  intros Hub Hin. destruct (max_key m) as [y|] eqn:E.
  - destruct (max_key_spec m y E) as [Hy1 Hy2]. f_equal. specialize (Hub y Hy2). specialize (Hy1 x Hin). lia.
  - unfold max_key in E. destruct (keys m); [destruct Hin|discriminate].
Qed.

(* the key the offsets are read from, under a valid cache *)
Lemma merge_last m : WF m -> nodes m <> [] ->
  exists last a, (match max_node m with Some x => Some x | None => max_key m end) = Some last /\
    max_key m = Some last /\ nget (nodes m) last = Some a /\ (forall k, In k (keys m) -> k <= last).
Proof.
  intros [_ [Hc _]] Hne.
  assert (Hk : keys m <> []) by (unfold keys; destruct (nodes m); [congruence|discriminate]).
  destruct (max_node m) as [x|] eqn:E.
  - destruct (Hc x E) as [Hub Hin]. specialize (Hin Hk).
    destruct (proj2 (nget_In (nodes m) x) Hin) as [a Ha]. exists x, a.
    split; [reflexivity|]. split; [apply max_key_unique; assumption|]. split; assumption.
  - destruct (max_key m) as [x|] eqn:E2.
    + destruct (max_key_spec m x E2) as [Hub Hin].
      destruct (proj2 (nget_In (nodes m) x) Hin) as [a Ha]. exists x, a. repeat split; auto.
    + unfold max_key in E2. destruct (keys m); [congruence|discriminate].
Qed.

Lemma fold_left_map {A B C} (f : A -> C -> A) (g : B -> C) l : forall a,
  fold_left f (map g l) a = fold_left (fun a x => f a (g x)) l a.
Proof. induction l as [|x l IH]; intros a; cbn; [reflexivity|apply IH]. Qed.

Lemma nodup_map_inj {A B} (f : A -> B) l :
  NoDup (map f l) -> forall a b, In a l -> In b l -> f a = f b -> a = b.
Proof.
  induction l as [|x r IH]; cbn; [tauto|]. intros H. inversion H as [|? ? Hx Hr]; subst.
  intros a b [->|Ha] [->|Hb] Hab; auto.
  - exfalso. apply Hx. rewrite Hab. apply in_map; exact Hb.
  - exfalso. apply Hx. rewrite <- Hab. apply in_map; exact Ha.
Qed.

Lemma merge_core_spec m n nr last dr dc :
  WF m -> WF n ->
  (forall k, In k (keys m) -> k <= last) -> (keys m <> [] -> In last (keys m)) ->
  let m' := fst (merge_core m n nr last dr dc) in
  let corr := snd (merge_core m n nr last dr dc) in
  nodes m' = nodes m ++ map (fun ka => (cget corr (fst ka), shift_attrs (snd ka) dr dc)) (nodes n) /\
  (forall k, In k (keys n) -> ~ In (cget corr k) (keys m)) /\
  NoDup (map (cget corr) (keys n)) /\
  (forall e, In e (edges m) -> In e (edges m')) /\
  (forall u v, In (u, v) (edges n) -> u <> v -> In (norm_edge (cget corr u) (cget corr v)) (edges m')) /\
  (forall t, iget (inters m') t = iget (inters m) t ++ map (map_inter corr) (iget (inters n) t)) /\
  WF m'.
Proof.
  intros Wm Wn Hub Hin. cbv zeta.
  pose proof Wm as [(Hnd & Hi & He) [Hc Ht]]. pose proof Wn as [(Hnd' & Hi' & He') [Hc' Ht']].
  unfold merge_core. cbn [fst snd].
  set (corr := number_from (keys n) (last + 1)).
  set (M0 := {| nodes := nodes m; edges := edges m; inters := inters m; max_node := Some last;
                nrexcl := nr; cites := cites m |}).
  set (l' := map (fun ka => (cget corr (fst ka), shift_attrs (snd ka) dr dc)) (nodes n)).
  assert (Hfold : fold_left (fun acc ka => add_node acc (cget corr (fst ka)) (shift_attrs (snd ka) dr dc)) (nodes n) M0
                  = fold_left addf l' M0).
  { unfold l'. rewrite fold_left_map. reflexivity. }
  rewrite Hfold.
  assert (Hkeys : map fst l' = map (cget corr) (keys n)).
  { unfold l', keys. rewrite !map_map. reflexivity. }
  assert (Hseq : map (cget corr) (keys n) = zseq (last + 1) (length (keys n))).
  { apply number_from_cget. exact Hnd'. }
  assert (Hlen : length l' = length (keys n)).
  { unfold l', keys. rewrite !map_length. reflexivity. }
  destruct (fold_add_consecutive l' M0 last eq_refl Hub) as (F1 & F2 & F3 & F4 & F5 & F6).
  { rewrite Hkeys, Hseq, Hlen. reflexivity. }
  cbn in F1, F3, F4, F5, F6.
  set (M1 := fold_left addf l' M0) in *.
  assert (Hfresh : forall k, In k (keys n) -> ~ In (cget corr k) (keys m)).
  { intros k Hk Hc0. assert (Hr : In (cget corr k) (zseq (last + 1) (length (keys n)))).
    { rewrite <- Hseq. apply in_map; exact Hk. }
    apply zseq_range in Hr. specialize (Hub _ Hc0). lia. }
  assert (Hnd2 : NoDup (map (cget corr) (keys n))) by (rewrite Hseq; apply zseq_nodup).
  assert (Hkeys' : map fst (nodes M1) = keys m ++ map (cget corr) (keys n)).
  { rewrite F1, map_app, Hkeys. reflexivity. }
  set (g := fun i => {| i_atoms := map (cget corr) (i_atoms i); i_params := i_params i; i_version := i_version i |}).
  destruct (outer_fold_spec g (inters n) (inters M1) Ht') as [O1 O2]. cbn in O1, O2.
  destruct (edge_fold_spec corr (edges n) (edges M1)) as (E1 & E2 & E3). cbn in E1, E2, E3.
  split; [exact F1|]. split; [exact Hfresh|]. split; [exact Hnd2|].
  split; [intros e Hin0; apply E1; rewrite F3; exact Hin0|].
  split.
  { intros u v Huv Hne. apply E2; [exact Huv|]. intros Heq. apply Hne.
    destruct (He' u v Huv) as [Hu Hv].
    pose proof (nodup_map_inj (cget corr) (keys n) Hnd2) as Hinj.
    exact (Hinj u v Hu Hv Heq). }
  split.
  { intros t. rewrite O1, F4. reflexivity. }
  (* WF of the result *)
  unfold WF, consistent, cache_valid, keys; cbn [nodes edges inters max_node].
  wf_split.
  - rewrite Hkeys'. clear -Hnd Hnd2 Hfresh. induction (keys m) as [|x r IH]; cbn; [exact Hnd2|].
    inversion Hnd as [|? ? Hx Hr]; subst. constructor.
    + rewrite in_app_iff. intros [H|H]; [contradiction|].
      apply in_map_iff in H as (k & Hk & Hkin). apply (Hfresh k Hkin). rewrite Hk. left; reflexivity.
    + apply IH; [exact Hr|]. intros k Hk Hc. apply (Hfresh k Hk). right; exact Hc.
  - intros t l i a H1 H2 H3. rewrite Hkeys'.
    assert (Hl : l = iget (inters M1) t ++ map g (iget (inters n) t)).
    { rewrite <- O1. symmetry. apply iget_of_in; [|exact H1]. apply O2. rewrite F4. exact Ht. }
    rewrite Hl, F4 in H2. apply in_app_iff. apply in_app_iff in H2 as [H2|H2].
    + left. destruct (iget (inters m) t) eqn:G; [destruct H2|].
      eapply Hi; [apply iget_in; rewrite G; discriminate|rewrite G; exact H2|exact H3].
    + right. apply in_map_iff in H2 as (j & <- & Hj). cbn in H3. apply in_map_iff in H3 as (b & <- & Hb).
      apply in_map. destruct (iget (inters n) t) eqn:G; [destruct Hj|].
      eapply Hi'; [apply iget_in; rewrite G; discriminate|rewrite G; exact Hj|exact Hb].
  - intros u v H. rewrite Hkeys'. destruct (E3 _ H) as [H0|(a & b & Hab & Heq)].
    + rewrite F3 in H0. destruct (He u v H0). split; apply in_app_iff; left; assumption.
    + destruct (He' a b Hab) as [Ha Hb].
      destruct (norm_edge_ends (cget corr a) (cget corr b)) as [E|E]; rewrite E in Heq; injection Heq as -> ->;
        split; apply in_app_iff; right; apply in_map; assumption.
  - intros x Hx. rewrite F2 in Hx. injection Hx as <-. rewrite Hkeys', Hseq, Hlen. split.
    + intros k Hk. apply in_app_iff in Hk as [Hk|Hk]; [specialize (Hub _ Hk); lia|].
      apply zseq_range in Hk. lia.
    + intros Hne. destruct (keys n) as [|k0 r0] eqn:Kn.
      * cbn. rewrite app_nil_r, Z.add_0_r. apply Hin. cbn in Hne. rewrite app_nil_r in Hne. exact Hne.
      * apply in_app_iff. right. clear. cbn [length].
        assert (G : forall n s, In (s + Z.of_nat (S n) - 1) (zseq s (S n))).
        { induction n as [|n IH]; intros s.
          - cbn. left. lia.
          - cbn [zseq]. right. replace (s + Z.of_nat (S (S n)) - 1) with ((s + 1) + Z.of_nat (S n) - 1) by lia. apply IH. }
        replace (last + Z.of_nat (S (length r0))) with ((last + 1) + Z.of_nat (S (length r0)) - 1) by lia. apply G.
  - apply O2. rewrite F4. exact Ht.
Qed.

Lemma wf_set_nrexcl m nr :
  WF m -> WF {| nodes := nodes m; edges := edges m; inters := inters m; max_node := max_node m;
               nrexcl := nr; cites := cites m |}.
Proof. intros W. apply (wf_ext m); auto. Qed.

Lemma keys_nil m : nodes m = [] -> keys m = [].
Proof. unfold keys. intros ->. reflexivity. Qed.

Lemma merge_last_in m last : WF m -> max_key m = Some last -> In last (keys m).
Proof. intros _ H. exact (proj2 (max_key_spec m last H)). Qed.

Lemma merge_wf m n : WF m -> WF n -> WF (fst (fst (merge m n))).
Proof.
  intros Wm Wn. unfold merge.
  destruct (negb (opt_eqbZ _ (nrexcl n))); [cbn; apply wf_set_nrexcl; exact Wm|].
  destruct (nodes m) as [|x r] eqn:En.
  - pose proof (merge_core_spec m n (match nrexcl m with Some z => Some z | None => nrexcl n end) 0 0 0 Wm Wn) as S.
    rewrite (keys_nil m En) in S. destruct S as (_ & _ & _ & _ & _ & _ & W); [intros k []|congruence|].
    destruct (nrexcl m); destruct (merge_core m n _ 0 0 0); exact W.
  - assert (Hne : nodes m <> []) by congruence. rewrite <- En.
    destruct (merge_last m Wm Hne) as (last & a & -> & Hmk & -> & Hub).
    pose proof (merge_core_spec m n (nrexcl m) last (dflt1 (resid a)) (dflt1 (cg a)) Wm Wn Hub
                  (fun _ => merge_last_in m last Wm Hmk)) as S.
    destruct S as (_ & _ & _ & _ & _ & _ & W).
    destruct (nrexcl m); destruct (merge_core m n _ last _ _); exact W.
Qed.

Lemma merge_ok m n :
  WF m -> WF n -> snd (fst (merge m n)) = OK ->
  merge_result_ok m n (fst (fst (merge m n))) (snd (merge m n)).
Proof.
  intros Wm Wn. unfold merge, merge_result_ok, last_attrs.
  destruct (negb (opt_eqbZ _ (nrexcl n))); [cbn; discriminate|].
  destruct (nodes m) as [|x r] eqn:En.
  - intros _.
    pose proof (merge_core_spec m n (match nrexcl m with Some z => Some z | None => nrexcl n end) 0 0 0 Wm Wn) as S.
    rewrite (keys_nil m En) in S. destruct S as (S1 & S2 & S3 & S4 & S5 & S6 & _); [intros k []|congruence|].
    assert (Hmk : max_key m = None) by (unfold max_key; rewrite (keys_nil m En); reflexivity).
    rewrite Hmk. rewrite (keys_nil m En). rewrite En in S1.
    destruct (nrexcl m); destruct (merge_core m n _ 0 0 0) as [m' c]; cbn [fst snd] in *; repeat split; auto.
  - assert (Hne : nodes m <> []) by congruence. rewrite <- En.
    destruct (merge_last m Wm Hne) as (last & a & -> & Hmk & Ha & Hub). rewrite Ha, Hmk, Ha. intros _.
    pose proof (merge_core_spec m n (nrexcl m) last (dflt1 (resid a)) (dflt1 (cg a)) Wm Wn Hub
                  (fun _ => merge_last_in m last Wm Hmk)) as S.
    destruct S as (S1 & S2 & S3 & S4 & S5 & S6 & _).
    destruct (nrexcl m); destruct (merge_core m n _ last _ _) as [m' c]; cbn [fst snd] in *; repeat split; auto.
Qed.

(* a merge of consistent molecules can only fail on an nrexcl mismatch *)
Lemma merge_succeeds m n :
  WF m -> WF n ->
  opt_eqbZ (match nrexcl m, nodes m with None, [] => nrexcl n | x, _ => x end) (nrexcl n) = true ->
  snd (fst (merge m n)) = OK.
Proof.
  intros Wm Wn Hc. unfold merge. rewrite Hc. cbn [negb].
  destruct (nodes m) as [|x r] eqn:En.
  - destruct (merge_core m n _ 0 0 0); reflexivity.
  - assert (Hne : nodes m <> []) by congruence. rewrite <- En.
    destruct (merge_last m Wm Hne) as (last & a & -> & Hmk & -> & Hub).
    destruct (merge_core m n _ last _ _); reflexivity.
Qed.

(* ---------- Block.to_molecule ---------- *)
Lemma addf_none m0 kb : max_node m0 = None -> max_node (addf m0 kb) = None.
Proof. intros H. unfold addf, add_node. cbn. rewrite H. reflexivity. Qed.

Lemma fold_add_nodup l : forall m0,
  max_node m0 = None -> NoDup (keys m0 ++ map fst l) ->
  let r := fold_left addf l m0 in
  nodes r = nodes m0 ++ l /\ max_node r = None /\ edges r = edges m0 /\ inters r = inters m0.
Proof.
  induction l as [|[k a] l IH]; intros m0 Hmx Hnd; cbn [fold_left].
  - cbn. rewrite app_nil_r. auto.
  - cbn in Hnd. assert (Hf : ~ In k (map fst (nodes m0))).
    { apply NoDup_remove_2 in Hnd. rewrite in_app_iff in Hnd. tauto. }
    destruct (IH (addf m0 (k, a))) as (H1 & H2 & H3 & H4).
    + apply addf_none; exact Hmx.
    + unfold addf, add_node, keys; cbn. rewrite nupd_fresh by exact Hf. rewrite map_app, <- app_assoc. exact Hnd.
    + cbn in *. rewrite H1, H2, H3, H4. unfold addf, add_node; cbn. rewrite nupd_fresh by exact Hf.
      rewrite <- app_assoc. auto.
Qed.

Lemma edge_fold2_inv (c : list (Z * Z)) en : forall es e,
  In e (fold_left (fun es e => add_edge_raw es (cget c (fst e)) (cget c (snd e))) en es) ->
  In e es \/ exists u v, In (u, v) en /\ e = norm_edge (cget c u) (cget c v).
Proof.
  induction en as [|[a b] en IH]; intros es e H; cbn in *; [auto|].
  destruct (IH _ _ H) as [H0|(u & v & Hin & ->)]; [|right; eauto].
  destruct (add_edge_raw_in _ _ _ _ H0) as [->|H1]; [right; exists a, b; auto|auto].
Qed.

Lemma to_molecule_wf b off dr dc : WF b -> WF (to_molecule b off dr dc).
Proof.
  intros [(Hnd & Hi & He) [Hc Ht]]. unfold to_molecule.
  set (corr := number_from (keys b) off).
  set (l' := map (fun ka => (cget corr (fst ka), shift_attrs (snd ka) dr dc)) (nodes b)).
  set (M0 := {| nodes := []; edges := []; inters := []; max_node := None; nrexcl := None; cites := cites b |}).
  assert (Hfold : fold_left (fun acc ka => add_node acc (cget corr (fst ka)) (shift_attrs (snd ka) dr dc)) (nodes b) M0
                  = fold_left addf l' M0) by (unfold l'; rewrite fold_left_map; reflexivity).
  rewrite Hfold.
  assert (Hkeys : map fst l' = map (cget corr) (keys b)) by (unfold l', keys; rewrite !map_map; reflexivity).
  assert (Hseq : map (cget corr) (keys b) = zseq off (length (keys b))) by (apply number_from_cget; exact Hnd).
  destruct (fold_add_nodup l' M0 eq_refl) as (F1 & F2 & F3 & F4).
  { cbn. rewrite Hkeys, Hseq. apply zseq_nodup. }
  cbn in F1, F3, F4. unfold WF, consistent, cache_valid, keys; cbn [nodes edges inters max_node].
  rewrite F1, F2, Hkeys. wf_split.
  - rewrite Hseq. apply zseq_nodup.
  - intros t l i a H1 H2 H3. apply in_map_iff in H1 as ([t0 l0] & Heq & Hin). injection Heq as <- <-. cbn in H2.
    apply in_map_iff in H2 as (j & <- & Hj). cbn in H3. apply in_map_iff in H3 as (x & <- & Hx).
    apply in_map. eapply Hi; eauto.
  - intros u v H. destruct (edge_fold2_inv _ _ _ _ H) as [[]|(a & c & Hac & Heq)].
    destruct (He a c Hac) as [Ha Hc'].
    destruct (norm_edge_ends (cget corr a) (cget corr c)) as [E|E]; rewrite E in Heq; injection Heq as -> ->;
      split; apply in_map; assumption.
  - discriminate.
  - rewrite map_map. cbn. exact Ht.
Qed.

Lemma empty_wf nr : WF (empty_mol nr).
Proof.
  unfold WF, consistent, cache_valid, keys, empty_mol; cbn. wf_split; try constructor; try tauto; discriminate.
Qed.

(* ---------- the heap ---------- *)
Lemma hset_forall (P : mol -> Prop) h : forall i m, Forall P h -> P m -> Forall P (hset h i m).
Proof.
  induction h as [|x r IH]; intros i m H Hm; cbn; [constructor|].
  inversion H; subst. destruct i; constructor; auto.
Qed.

Lemma nth_error_forall (P : mol -> Prop) h i m : Forall P h -> nth_error h i = Some m -> P m.
Proof. intros H E. rewrite Forall_forall in H. apply H. eapply nth_error_In; eauto. Qed.

Lemma on_wf h i f :
  Forall WF h -> (forall m, WF m -> WF (fst (f m))) -> Forall WF (fst (on h i f)).
Proof.
  intros H Hf. unfold on. destruct (nth_error h i) as [m|] eqn:E; [|exact H].
  pose proof (Hf m (nth_error_forall _ _ _ _ H E)) as W. destruct (f m) as [m' o]. cbn in *.
  apply hset_forall; assumption.
Qed.

Lemma forall_snoc (P : mol -> Prop) h m : Forall P h -> P m -> Forall P (h ++ [m]).
Proof. intros H Hm. apply Forall_app. split; [exact H|constructor; [exact Hm|constructor]]. Qed.

Lemma do_op_wf h o : Forall WF h -> Forall WF (fst (do_op h o)).
Proof.
  intros H. destruct o; cbn [do_op].
  - apply on_wf; [exact H|]. intros x W; cbn. apply add_node_wf; exact W.
  - apply on_wf; [exact H|]. intros x W; cbn. apply add_nodes_from_wf; exact W.
  - apply on_wf; [exact H|]. intros x W. apply remove_node_wf; exact W.
  - apply on_wf; [exact H|]. intros x W; cbn. apply remove_nodes_wf; exact W.
  - apply on_wf; [exact H|]. intros x W. apply add_edge_wf; exact W.
  - apply on_wf; [exact H|]. intros x W. apply add_interaction_wf; exact W.
  - apply on_wf; [exact H|]. intros x W. apply add_or_replace_wf; exact W.
  - apply on_wf; [exact H|]. intros x W. apply remove_interaction_wf; exact W.
  - destruct (nth_error h m) as [x|] eqn:E; [|exact H]. cbn.
    apply forall_snoc; [exact H|]. apply copy_wf. eapply nth_error_forall; eauto.
  - destruct (nth_error h m) as [x|] eqn:E; [|exact H].
    destruct (subgraph x ks) as [s|] eqn:S; [|exact H]. cbn.
    apply forall_snoc; [exact H|]. eapply subgraph_wf; eauto. eapply nth_error_forall; eauto.
  - destruct (Nat.eqb m n); [exact H|].
    destruct (nth_error h m) as [x|] eqn:E1; [|exact H].
    destruct (nth_error h n) as [y|] eqn:E2; [|exact H].
    pose proof (merge_wf x y (nth_error_forall _ _ _ _ H E1) (nth_error_forall _ _ _ _ H E2)) as W.
    destruct (merge x y) as [[m' o] c]. cbn in *. apply hset_forall; assumption.
  - destruct (nth_error h b) as [x|] eqn:E; [|exact H]. cbn.
    apply forall_snoc; [exact H|]. apply to_molecule_wf. eapply nth_error_forall; eauto.
  - cbn. apply forall_snoc; [exact H|apply empty_wf].
  - destruct ms as [|i rest]; [exact H|]. destruct (existsb (Nat.eqb i) rest || _); [exact H|].
    assert (G : forall rest ho, Forall WF (fst ho) ->
      Forall WF (fst (fold_left (fun ho j =>
                       match snd ho with
                       | OK => match nth_error (fst ho) i, nth_error (fst ho) j with
                               | Some m, Some n => let '(m', o, _) := merge m n in (hset (fst ho) i m', o)
                               | _, _ => (fst ho, Unsupported) end
                       | _ => ho end) rest ho))).
    { clear. induction rest as [|j rest IH]; intros ho Hh; cbn [fold_left]; [exact Hh|].
      apply IH. destruct (snd ho); try exact Hh.
      destruct (nth_error (fst ho) i) as [x|] eqn:E1; [|exact Hh].
      destruct (nth_error (fst ho) j) as [y|] eqn:E2; [|exact Hh].
      pose proof (merge_wf x y (nth_error_forall _ _ _ _ Hh E1) (nth_error_forall _ _ _ _ Hh E2)) as W.
      destruct (merge x y) as [[m' o] c]. cbn in *. apply hset_forall; assumption. }
    apply G. exact H.
Qed.

Lemma run_wf os : forall h, Forall WF h -> Forall WF (fst (run h os)).
Proof.
  induction os as [|o os IH]; intros h H; cbn; [exact H|].
  pose proof (do_op_wf h o H) as W. destruct (do_op h o) as [h1 x]. cbn in W.
  specialize (IH h1 W). destruct (run h1 os) as [h2 xs]. exact IH.
Qed.

(* ---------- independence: an operation changes only its target ---------- *)
Lemma hset_other h : forall i j m, i <> j -> nth_error (hset h i m) j = nth_error h j.
Proof.
  induction h as [|x r IH]; intros i j m Hn; cbn; [reflexivity|].
  destruct i, j; cbn; try congruence; try reflexivity. apply IH. congruence.
Qed.

Lemma on_other h i f j : i <> j -> nth_error (fst (on h i f)) j = nth_error h j.
Proof.
  intros Hn. unfold on. destruct (nth_error h i) as [m|]; [|reflexivity].
  destruct (f m) as [m' o]. cbn. apply hset_other; exact Hn.
Qed.

Lemma snoc_old {A} (h : list A) x j : (j < length h)%nat -> nth_error (h ++ [x]) j = nth_error h j.
Proof. intros H. apply nth_error_app1; exact H. Qed.

Lemma do_op_frame h o j :
  (j < length h)%nat -> target o <> Some j -> nth_error (fst (do_op h o)) j = nth_error h j.
Proof.
  intros Hj Ht. destruct o; cbn [do_op target] in *;
    try (apply on_other; congruence).
  - destruct (nth_error h m); [apply snoc_old; exact Hj|reflexivity].
  - destruct (nth_error h m) as [x|]; [|reflexivity]. destruct (subgraph x ks); [apply snoc_old; exact Hj|reflexivity].
  - destruct (Nat.eqb m n); [reflexivity|].
    destruct (nth_error h m) as [x|]; [|reflexivity]. destruct (nth_error h n) as [y|]; [|reflexivity].
    destruct (merge x y) as [[m' o] c]. cbn. apply hset_other. congruence.
  - destruct (nth_error h b); [apply snoc_old; exact Hj|reflexivity].
  - apply snoc_old; exact Hj.
  - destruct ms as [|i rest]; [reflexivity|]. destruct (existsb (Nat.eqb i) rest || _); [reflexivity|].
    assert (Hi : i <> j) by congruence.
    assert (G : forall rest ho, 
      nth_error (fst (fold_left (fun ho j0 =>
                       match snd ho with
                       | OK => match nth_error (fst ho) i, nth_error (fst ho) j0 with
                               | Some m, Some n => let '(m', o, _) := merge m n in (hset (fst ho) i m', o)
                               | _, _ => (fst ho, Unsupported) end
                       | _ => ho end) rest ho)) j = nth_error (fst ho) j).
    { clear -Hi. induction rest as [|k rest IH]; intros ho; cbn [fold_left]; [reflexivity|].
      rewrite IH. destruct (snd ho); try reflexivity.
      destruct (nth_error (fst ho) i) as [x|]; [|reflexivity].
      destruct (nth_error (fst ho) k) as [y|]; [|reflexivity].
      destruct (merge x y) as [[m' o] c]. cbn. apply hset_other; exact Hi. }
    apply G.
Qed.

(* checker soundness *)
Lemma nodupb_sound l : nodupb l = true -> NoDup l.
Proof.
  induction l as [|x r IH]; cbn; [constructor|]. intros H. apply andb_prop in H as [H1 H2].
  constructor; [apply memZ_false; apply negb_true_iff; exact H1|apply IH; exact H2].
Qed.

Lemma consistentb_sound m : consistentb m = true -> consistent m.
Proof.
  unfold consistentb, consistent. intros H. apply andb_prop in H as [H H3]. apply andb_prop in H as [H1 H2].
  split; [apply nodupb_sound; exact H1|]. split.
  - intros t l i a Hin Hi Ha. rewrite forallb_forall in H2. specialize (H2 _ Hin). cbn in H2.
    rewrite forallb_forall in H2. specialize (H2 _ Hi). rewrite forallb_forall in H2. apply memZ_In. exact (H2 _ Ha).
  - intros u v Hin. rewrite forallb_forall in H3. specialize (H3 _ Hin). cbn in H3.
    apply andb_prop in H3 as [Hu Hv]. split; apply memZ_In; assumption.
Qed.

(* soundness of the merge checker *)
Lemma list_eqb_sound {A} (f : A -> A -> bool) :
  (forall x y, f x y = true -> x = y) -> forall a b, list_eqb f a b = true -> a = b.
Proof.
  intros Hf. induction a as [|x a IH]; intros [|y b]; cbn; try discriminate; [reflexivity|].
  intros H. apply andb_prop in H as [H1 H2]. f_equal; [apply Hf; exact H1|apply IH; exact H2].
Qed.

Lemma opt_eqbZ_sound a b : opt_eqbZ a b = true -> a = b.
Proof. destruct a, b; cbn; try discriminate; [|reflexivity]. intros H. apply Z.eqb_eq in H. congruence. Qed.

Lemma node_eqb_sound a b : node_eqb a b = true -> a = b.
Proof.
  destruct a as [k [r c t]], b as [k' [r' c' t']]. unfold node_eqb, attrs_eqb; cbn. intros H.
  apply andb_prop in H as [H1 H]. apply andb_prop in H as [H H4]. apply andb_prop in H as [H2 H3].
  apply Z.eqb_eq in H1, H4. apply opt_eqbZ_sound in H2, H3. subst. reflexivity.
Qed.

Lemma inter_eqb_sound a b : inter_eqb a b = true -> a = b.
Proof.
  destruct a as [x p v], b as [x' p' v']. unfold inter_eqb; cbn. intros H.
  apply andb_prop in H as [H H3]. apply andb_prop in H as [H1 H2].
  apply list_eqbZ_eq in H1. apply Z.eqb_eq in H2. apply opt_eqbZ_sound in H3. subst. reflexivity.
Qed.

Lemma edge_mem_sound e es : existsb (edge_eqb e) es = true -> In e es.
Proof.
  rewrite existsb_exists. intros ([a b] & Hin & H). unfold edge_eqb in H. cbn in H.
  apply andb_prop in H as [H1 H2]. apply Z.eqb_eq in H1, H2. destruct e; cbn in *; subst. exact Hin.
Qed.

Lemma merge_okb_sound m n m' :
  merge_okb m n m' = true -> merge_result_ok m n m' (corr_of m n m').
Proof.
  unfold merge_okb, merge_result_ok. set (c := corr_of m n m'). intros H.
  apply andb_prop in H as [H H6]. apply andb_prop in H as [H H5]. apply andb_prop in H as [H H4].
  apply andb_prop in H as [H H3]. apply andb_prop in H as [H1 H2].
  split; [apply (list_eqb_sound node_eqb node_eqb_sound); exact H1|].
  split. { intros k Hk. rewrite forallb_forall in H2. specialize (H2 k Hk). apply negb_true_iff in H2.
           apply memZ_false; exact H2. }
  split; [apply nodupb_sound; exact H3|].
  split. { intros e He. rewrite forallb_forall in H4. apply edge_mem_sound. exact (H4 e He). }
  split. { intros u v Huv Hne. rewrite forallb_forall in H5. specialize (H5 _ Huv). cbn in H5.
           apply orb_prop in H5 as [H5|H5]; [apply Z.eqb_eq in H5; contradiction|apply edge_mem_sound; exact H5]. }
  intros t. rewrite forallb_forall in H6.
  destruct (in_dec Z.eq_dec t (map fst (inters m) ++ map fst (inters n) ++ map fst (inters m'))) as [Hin|Hn].
  - apply (list_eqb_sound inter_eqb inter_eqb_sound). exact (H6 t Hin).
  - rewrite !in_app_iff in Hn. rewrite !iget_notin by tauto. reflexivity.
Qed.
