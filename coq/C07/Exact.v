(* C07 — exactness of a complete finalisation over the WHOLE pending list (the per-destination statement is
   entry_exact_lemma).  With distinct destinations, no destination being a backup name of another, and distinct
   temporary files: every destination holds exactly what was written for it, every replaced file is kept byte for byte
   under the first backup name that was free BEFORE finalisation started, and nothing else changes. *)
From Coq Require Import List Bool NArith ZArith String Ascii Lia.
From V Require Import Base.FS C07.Model C07.Spec C07.Proofs.
Import ListNotations.

(* q is the backup name entry e uses, judged on the file system u *)
Definition backup_of (u : fs) (e : entry) (q : path) : Prop :=
  write_kind (e_mode e) = true /\ exists o k, get u (e_path e) = Some o /\ q = Bk (e_path e) k /\ get u q = None /\
  forall j, (1 <= j < k)%N -> get u (Bk (e_path e) j) <> None.

Lemma entry_frame_exact u ts e ss q :
  entry_steps u ts e = Some ss -> q <> e_path e -> ~ backup_of u e q -> get (run_u ss u) q = get u q.
Proof.
  intros H Hq Hb. destruct (entry_steps_shape _ _ _ _ H) as (c & _ & [(W & Hn & ->)|[(W & k & o & Ho & Hk & Hall & ->)|(W & A & ->)]]);
    unfold run_u; cbn [fold_left exec_u].
  - apply get_set_other; congruence.
  - rewrite Ho. rewrite get_set_other by congruence.
    assert (Hne : Bk (e_path e) k <> q).
    { intros E. apply Hb. split; [exact W|]. exists o, k. subst q. auto. }
    rewrite get_set_other by exact Hne. apply get_del_other; congruence.
  - apply get_set_other; congruence.
Qed.

Lemma entry_tmps u ts e ss i : entry_steps u ts e = Some ss -> i <> e_tmp e -> tget (run_t ss ts) i = tget ts i.
Proof.
  intros H Hi. destruct (entry_steps_shape _ _ _ _ H) as (c & _ & [(W & Hn & ->)|[(W & k & o & Ho & Hk & Hall & ->)|(W & A & ->)]]);
    unfold run_t; cbn [fold_left exec_t]; apply tget_tdel_other; congruence.
Qed.

Lemma backup_of_ext u u' e q :
  get u' (e_path e) = get u (e_path e) -> (forall k, get u' (Bk (e_path e) k) = get u (Bk (e_path e) k)) ->
  backup_of u' e q -> backup_of u e q.
Proof.
  intros H1 H2 (W & o & k & Ho & -> & Hk & Hall). split; [exact W|]. exists o, k. rewrite <- H1, <- !H2.
  repeat split; try assumption. intros j Hj. rewrite <- H2. apply Hall. exact Hj.
Qed.

Theorem finalize_exact_lemma : forall es u ts ss,
  NoDup (map e_path es) -> noclash (map e_path es) -> NoDup (map e_tmp es) ->
  fin_steps u ts es = Some ss ->
  (* every destination holds what was written for it *)
  (forall e, In e es -> exists c, tget ts (e_tmp e) = Some c /\
     get (run_u ss u) (e_path e) =
       Some (if write_kind (e_mode e) then c else match get u (e_path e) with Some o => (o ++ c)%string | None => c end)) /\
  (* every replaced file is kept under the first backup name that was free before *)
  (forall e o, In e es -> write_kind (e_mode e) = true -> get u (e_path e) = Some o ->
     exists q, backup_of u e q /\ get (run_u ss u) q = Some o) /\
  (* nothing else changes *)
  (forall q, ~ In q (map e_path es) -> (forall e, In e es -> ~ backup_of u e q) -> get (run_u ss u) q = get u q).
Proof.
  induction es as [|e r IH]; intros u ts ss Hnd Hnc Hnt H.
  - cbn in H. injection H as <-. split; [intros e []|split; [intros e o []|intros q _ _; reflexivity]].
  - cbn [fin_steps] in H. destruct (entry_steps u ts e) as [s1|] eqn:E1; [|discriminate].
    destruct (fin_steps (run_u s1 u) (run_t s1 ts) r) as [s2|] eqn:E2; [|discriminate]. injection H as <-.
    cbn in Hnd, Hnt. inversion Hnd as [|? ? Hp Hnd']; subst. inversion Hnt as [|? ? Ht Hnt']; subst.
    assert (Hnc' : noclash (map e_path r)) by (intros d1 d2 k H1 H2; apply Hnc; right; assumption).
    set (u1 := run_u s1 u). set (t1 := run_t s1 ts).
    destruct (IH u1 t1 s2 Hnd' Hnc' Hnt' E2) as (IA & IB & IC).
    (* what the first entry leaves untouched: the other destinations and all their backup names *)
    assert (Hother : forall e2, In e2 r -> get u1 (e_path e2) = get u (e_path e2) /\ forall k, get u1 (Bk (e_path e2) k) = get u (Bk (e_path e2) k)).
    { intros e2 H2. assert (Hne : e_path e2 <> e_path e) by (intros Eq; apply Hp; rewrite <- Eq; apply in_map; exact H2). split.
      - apply (entry_frame _ _ _ _ _ E1); [exact Hne|]. intros k Eq. apply (Hnc (e_path e) (e_path e2) k); [left; reflexivity|right; apply in_map; exact H2|exact Eq].
      - intros k. apply (entry_frame _ _ _ _ _ E1).
        + intros Eq. apply (Hnc (e_path e2) (e_path e) k); [right; apply in_map; exact H2|left; reflexivity|symmetry; exact Eq].
        + intros k' Eq. injection Eq as Eq _. contradiction. }
    unfold run_u. rewrite fold_left_app. fold (run_u s1 u). fold u1. fold (run_u s2 u1).
    destruct (entry_exact_lemma _ _ _ _ E1) as (c & Hc & Hd & Hbk & _).
    (* the later entries leave the first destination and its backup alone *)
    assert (Hkeep : forall q, (q = e_path e \/ exists k, q = Bk (e_path e) k) -> get (run_u s2 u1) q = get u1 q).
    { intros q Hq. apply IC.
      - intros Hin. apply in_map_iff in Hin as (e2 & Eq & H2). destruct Hq as [->|(k & ->)].
        + apply Hp. rewrite <- Eq. apply in_map. exact H2.
        + apply (Hnc (e_path e) (e_path e2) k); [left; reflexivity|right; apply in_map; exact H2|exact Eq].
      - intros e2 H2 (W2 & o2 & k2 & _ & Eq & _). destruct Hq as [->|(k & ->)].
        + apply (Hnc (e_path e2) (e_path e) k2); [right; apply in_map; exact H2|left; reflexivity|exact Eq].
        + injection Eq as Eq _. apply Hp. rewrite Eq. apply in_map. exact H2. }
    split; [|split].
    + intros e0 [<-|H0].
      * exists c. split; [exact Hc|]. rewrite Hkeep by (left; reflexivity). exact Hd.
      * destruct (IA e0 H0) as (c0 & Hc0 & Hd0). exists c0. split.
        -- unfold t1 in Hc0. rewrite (entry_tmps _ _ _ _ _ E1) in Hc0; [exact Hc0|]. intros Eq. apply Ht. rewrite <- Eq. apply in_map. exact H0.
        -- rewrite Hd0. rewrite (proj1 (Hother e0 H0)). reflexivity.
    + intros e0 o [<-|H0] W Ho.
      * destruct (Hbk W o Ho) as (k & Hk1 & Hk2 & Hk3). exists (Bk (e_path e) k). split.
        -- split; [exact W|]. exists o, k. auto.
        -- rewrite Hkeep by (right; eauto). exact Hk1.
      * destruct (Hother e0 H0) as [O1 O2]. rewrite <- O1 in Ho. destruct (IB e0 o H0 W Ho) as (q & Hq & Hg). exists q. split; [|exact Hg].
        apply (backup_of_ext u u1 e0 q O1 O2 Hq).
    + intros q Hq Hb. rewrite IC.
      * apply (entry_frame_exact _ _ _ _ _ E1); [intros Eq; apply Hq; left; symmetry; exact Eq|apply Hb; left; reflexivity].
      * intros Hin. apply Hq. right. exact Hin.
      * intros e2 H2 Hb2. apply (Hb e2 (or_intror H2)). destruct (Hother e2 H2) as [O1 O2]. apply (backup_of_ext u u1 e2 q O1 O2 Hb2).
Qed.
