(* C07 — the property, stated over the user-visible file system only. *)
From Coq Require Import List Bool NArith ZArith String Ascii.
From V Require Import Base.FS C07.Model.
Import ListNotations.

(* every file of fs0 is still there: under its own name (content kept, possibly
   extended by an append) or, for a destination, byte for byte under one of its
   backup names *)
Definition preserved (fs0 : fs) (D : list path) (u : fs) : Prop :=
  forall p c, get fs0 p = Some c ->
    (exists c', get u p = Some c' /\ is_prefix c c') \/
    (In p D /\ exists k, get u (Bk p k) = Some c).

(* no requested destination is a backup name of another requested destination *)
Definition noclash (D : list path) : Prop :=
  forall d1 d2 k, In d1 D -> In d2 D -> d2 <> Bk d1 k.

Fixpoint noclashb_one (d : path) (D : list path) : bool :=
  match D with
  | [] => true
  | x :: r => (match x with Bk q _ => negb (path_eqb q d) | _ => true end) && noclashb_one d r
  end.
Definition noclashb (D : list path) : bool := forallb (fun d => noclashb_one d D) D.

(* decidable versions, used as oracle on the implementation's directory snapshots *)
Fixpoint prefixb (a b : string) : bool :=
  match a, b with
  | EmptyString, _ => true
  | String x a', String y b' => Ascii.eqb x y && prefixb a' b'
  | _, _ => false
  end.

Definition mem (p : path) (D : list path) : bool := existsb (path_eqb p) D.

Definition backed_up (u : fs) (p : path) (c : bytes) : bool :=
  existsb (fun qc => match fst qc with
                     | Bk q k => path_eqb q p && String.eqb (snd qc) c
                                 && (match get u (Bk q k) with Some c' => String.eqb c' c | None => false end)
                     | _ => false end) u.

Definition preservedb (fs0 : fs) (D : list path) (u : fs) : bool :=
  forallb (fun pc =>
     match get fs0 (fst pc) with
     | Some c =>
        (match get u (fst pc) with Some c' => prefixb c c' | None => false end)
        || (mem (fst pc) D && backed_up u (fst pc) c)
     | None => true
     end) fs0.

(* ---- the exact result of a complete finalisation, stated without the loop ---- *)
(* first free backup index of p in fs0, searched with fuel *)
Definition first_free (fs0 : fs) (p : path) : option path := find_free fs0 p.

Record dest := { d_path : path; d_write : bool; d_content : bytes }.

Fixpoint spec_lookup (fs0 : fs) (ds : list dest) (q : path) : option (option bytes) :=
  match ds with
  | [] => None
  | d :: r =>
      if path_eqb (d_path d) q then
        Some (Some (if d_write d then d_content d
                    else match get fs0 q with Some o => (o ++ d_content d)%string | None => d_content d end))
      else if d_write d && (match first_free fs0 (d_path d) with
                            | Some fp => path_eqb fp q && negb (path_eqb fp (d_path d))
                            | None => false end) then
        Some (get fs0 (d_path d))
      else spec_lookup fs0 r q
  end.

Definition spec_get (fs0 : fs) (ds : list dest) (q : path) : option bytes :=
  match spec_lookup fs0 ds q with Some r => r | None => get fs0 q end.

(* listing equality: u and the specification agree on every path either mentions *)
Definition paths_of (fs0 u : fs) (ds : list dest) : list path :=
  (map fst fs0 ++ map fst u ++ map d_path ds ++
   flat_map (fun d => match first_free fs0 (d_path d) with Some fp => [fp] | None => [] end) ds)%list.

Definition opt_bytes_eqb (a b : option bytes) : bool :=
  match a, b with Some x, Some y => String.eqb x y | None, None => true | _, _ => false end.

Definition final_okb (fs0 : fs) (ds : list dest) (u : fs) : bool :=
  forallb (fun q => opt_bytes_eqb (get u q) (spec_get fs0 ds q)) (paths_of fs0 u ds).

Definition dests_of (s : st) : list path := map e_path (pending s).
