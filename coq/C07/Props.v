(* C07 — property theorems only. *)
From Coq Require Import List Bool NArith ZArith String Ascii.
From V Require Import C07.Exact.
From V Require Import Base.FS C07.Model C07.Spec C07.Proofs.
From V Require Import Extracted.WriteSites.
Import ListNotations.

(* Files opened through the deferred writer leave every user-visible file untouched,
   for every sequence of opens / writes / re-opens / discards. *)
Theorem deferred_untouched : forall fs0 ops, user (run_ops (init fs0) ops) = fs0.
Proof. intros; apply run_ops_user. Qed.
Print Assumptions deferred_untouched.

(* Discarding leaves them untouched for good and removes every temporary file. *)
Theorem discard_untouched : forall s,
  user (do_close s) = user s /\ pending (do_close s) = [] /\
  forall e, In e (pending s) -> tget (tmpf (do_close s)) (e_tmp e) = None.
Proof. intros s; repeat split. exact (close_removes_tmps s). Qed.
Print Assumptions discard_untouched.

(* Destinations are pairwise distinct in every reachable state. *)
Theorem destinations_distinct : forall s p m d,
  NoDup (dests_of s) -> NoDup (dests_of (fst (do_open s p m d))).
Proof. exact do_open_nodup. Qed.
Print Assumptions destinations_distinct.

(* If finalisation is interrupted before or inside any of its file-system calls,
   every pre-existing file still exists intact under its own or a backup name
   (own name: content kept, extended only by an append). *)
Theorem finalize_crash_safe : forall s ss u',
  NoDup (dests_of s) -> noclash (dests_of s) ->
  fin_steps (user s) (tmpf s) (pending s) = Some ss ->
  crash_of ss (user s) u' ->
  preserved (user s) (dests_of s) u'.
Proof. exact finalize_crash_safe_lemma. Qed.
Print Assumptions finalize_crash_safe.

Theorem crash_state_safe : forall s k part u',
  NoDup (dests_of s) -> noclash (dests_of s) ->
  crash_state s k part = Some u' -> preserved (user s) (dests_of s) u'.
Proof. exact crash_state_safe_lemma. Qed.
Print Assumptions crash_state_safe.

(* ... and the same after a complete finalisation. *)
Theorem finalize_keeps_old_files : forall s s',
  NoDup (dests_of s) -> noclash (dests_of s) ->
  do_write s = Some s' -> preserved (user s) (dests_of s) (user s').
Proof. exact do_write_preserved_lemma. Qed.
Print Assumptions finalize_keeps_old_files.

(* One destination: it ends up holding exactly what was written for it (appended
   to the old content in append mode); a replaced file is kept byte for byte under
   the FIRST free '#name.k#'; nothing else changes.
   [finalize_exact_partial]: stated per destination; the composition over the whole
   pending list is evaluated by [final_okb] on every explored output but is not
   proved as one theorem. *)
Theorem finalize_exact_partial : forall u ts e ss,
  entry_steps u ts e = Some ss ->
  exists c, tget ts (e_tmp e) = Some c /\
    get (run_u ss u) (e_path e) =
      Some (if write_kind (e_mode e) then c
            else match get u (e_path e) with Some o => (o ++ c)%string | None => c end) /\
    (write_kind (e_mode e) = true -> forall o, get u (e_path e) = Some o ->
       exists k, get (run_u ss u) (Bk (e_path e) k) = Some o /\ get u (Bk (e_path e) k) = None /\
                 forall j, (1 <= j < k)%N -> get u (Bk (e_path e) j) <> None) /\
    (forall q, q <> e_path e ->
       (forall k, q = Bk (e_path e) k -> get u q <> None \/ get u (e_path e) = None \/ write_kind (e_mode e) = false) ->
       get (run_u ss u) q = get u q).
Proof. exact entry_exact_lemma. Qed.
Print Assumptions finalize_exact_partial.

(* The whole pending list: with distinct destinations, none a backup name of another, and distinct temporary
   files, every destination holds exactly what was written for it, every replaced file is kept byte for byte under
   the first backup name that was free before finalisation started, and nothing else changes. *)
Theorem finalize_exact : forall es u ts ss,
  NoDup (map e_path es) -> noclash (map e_path es) -> NoDup (map e_tmp es) ->
  fin_steps u ts es = Some ss ->
  (forall e, In e es -> exists c, tget ts (e_tmp e) = Some c /\
     get (run_u ss u) (e_path e) =
       Some (if write_kind (e_mode e) then c else match get u (e_path e) with Some o => (o ++ c)%string | None => c end)) /\
  (forall e o, In e es -> write_kind (e_mode e) = true -> get u (e_path e) = Some o ->
     exists q, backup_of u e q /\ get (run_u ss u) q = Some o) /\
  (forall q, ~ In q (map e_path es) -> (forall e, In e es -> ~ backup_of u e q) -> get (run_u ss u) q = get u q).
Proof. exact finalize_exact_lemma. Qed.
Print Assumptions finalize_exact.

(* martinize2 finalises only when no warning is left, and otherwise exits with 2
   without finalising. *)
Theorem cli_gate : forall leftover s,
  (leftover <> 0%Z -> finish leftover s = Exit2_no_output) /\
  (leftover = 0%Z -> finish leftover s = Finalised (do_write s)).
Proof. exact cli_gate_lemma. Qed.
Print Assumptions cli_gate.

(* the oracles evaluated on implementation snapshots are sound *)
Theorem preservedb_sound_thm : forall fs0 D u, preservedb fs0 D u = true -> preserved fs0 D u.
Proof. exact preservedb_sound. Qed.
Print Assumptions preservedb_sound_thm.

Theorem noclashb_sound_thm : forall D, noclashb D = true -> noclash D.
Proof. exact noclashb_sound. Qed.
Print Assumptions noclashb_sound_thm.

(* Every place in vermouth/ (regenerated from the source on every run) that opens a
   file for writing goes through the deferred writer, or is gated by defer_writing
   (default True), or is one of the DSSP scratch inputs; the CLI switches deferral
   off only for the explicitly requested -write-* debug dumps. Finite domain: the
   extracted tables. *)
Definition site_ok (s : string * string * N * site_kind) : bool :=
  match snd s with Plain => false | _ => true end.
Definition cli_ok (c : string * N * string) : bool :=
  existsb (String.eqb (snd c)) ["write_graph"; "write_repair"; "write_canon"]%string.

Theorem write_sites_all_deferred :
  forallb site_ok write_sites = true /\
  forallb (fun d => snd d) defer_defaults = true /\
  forallb cli_ok cli_undeferred = true.
Proof. vm_compute. repeat split. Qed.
Print Assumptions write_sites_all_deferred.

(* non-vacuity: a reachable state with a pre-existing file, an old backup, a
   write and an append; all hypotheses hold and finalisation succeeds *)
Example nonvacuous :
  let fs0 := [(Name 0, "old0"); (Bk (Name 0) 1, "older"); (Name 1, "log")]%string in
  let W := {| m_r := false; m_w := true; m_a := false; m_plus := false |} in
  let A := {| m_r := false; m_w := false; m_a := true; m_plus := false |} in
  let s := run_ops (init fs0) [Open (Name 0) W "new"; Open (Name 1) A "+more"; Open (Name 2) W "x"]%string in
  NoDup (dests_of s) /\ noclash (dests_of s) /\
  exists s', do_write s = Some s' /\
    get (user s') (Name 0) = Some "new"%string /\ get (user s') (Bk (Name 0) 2) = Some "old0"%string /\
    get (user s') (Bk (Name 0) 1) = Some "older"%string /\ get (user s') (Name 1) = Some "log+more"%string.
Proof.
  cbv zeta. split; [|split].
  - vm_compute. repeat constructor; cbn; intuition discriminate.
  - apply noclashb_sound. vm_compute. reflexivity.
  - eexists. split; [vm_compute; reflexivity|]. vm_compute. repeat split.
Qed.
