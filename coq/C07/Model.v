(* C07 — executable model of vermouth/file_writer.py (DeferredFileWriter) and of
   the CLI gate at the end of bin/martinize2:entry.
   Mirrors: open (l.66-108), _open_tmp_file (l.110-118), _find_free_path (l.120-143),
   write (l.145-163), _write_file (l.165-174), _append_file (l.176-187), close (l.189-198).
   Temporary files live outside the user-visible directory: they are a separate
   store indexed by creation order.  Finalisation is compiled to the list of
   file-system calls it performs, so that "interrupted at any point" is "any
   prefix of that list, the next call possibly half done". *)
From Coq Require Import List Bool NArith ZArith String Ascii.
From V Require Import Base.FS.
Import ListNotations.
Open Scope string_scope.

Definition tmps := list (N * bytes).

Fixpoint tget (t : tmps) (i : N) : option bytes :=
  match t with [] => None | (j, c) :: r => if N.eqb j i then Some c else tget r i end.
Fixpoint tdel (t : tmps) (i : N) : tmps :=
  match t with [] => [] | (j, c) :: r => if N.eqb j i then tdel r i else (j, c) :: tdel r i end.
Definition tset (t : tmps) (i : N) (c : bytes) : tmps := (i, c) :: tdel t i.

(* the characters of a Python mode string that matter ('b'/'t' do not change bytes on POSIX) *)
Record mode := { m_r : bool; m_w : bool; m_a : bool; m_plus : bool }.
Definition registers (m : mode) : bool := m_plus m || m_a m || m_w m.    (* open, l.103 *)
Definition write_kind (m : mode) : bool := m_w m || m_plus m.            (* write, l.155 *)

(* writing d at offset 0 over existing content c (mode r+) *)
Definition overwrite (c d : bytes) : bytes :=
  d ++ substring (length d) (length c - length d) c.

(* content of a file that held c after open(mode), write(d), close *)
Definition apply_mode (m : mode) (c d : bytes) : bytes :=
  if m_w m then d else if m_a m then c ++ d else if m_plus m then overwrite c d else c.

Record entry := { e_tmp : N; e_path : path; e_mode : mode }.
Record st := { user : fs; tmpf : tmps; pending : list entry; next : N }.

Definition init (u : fs) : st := {| user := u; tmpf := []; pending := []; next := 0%N |}.

Inductive outcome := OK | ErrNotFound | ErrMode.

Definition with_tmp (s : st) (t : N) (c : bytes) : st :=
  {| user := user s; tmpf := tset (tmpf s) t c; pending := pending s; next := next s |}.

(* deferred_open(p, m); handle.write(d); handle.close() *)
Definition do_open (s : st) (p : path) (m : mode) (d : bytes) : st * outcome :=
  match find (fun e => path_eqb (e_path e) p) (pending s) with
  | Some e =>                                  (* l.98-101: reuse the temporary file *)
      match tget (tmpf s) (e_tmp e) with
      | Some c => (with_tmp s (e_tmp e) (apply_mode m c d), OK)
      | None => if m_r m then (s, ErrNotFound) else (with_tmp s (e_tmp e) (apply_mode m "" d), OK)
      end
  | None =>
      if registers m then                      (* l.103-104, _open_tmp_file *)
        let t := next s in
        let s1 := {| user := user s; tmpf := tset (tmpf s) t "";
                     pending := (pending s ++ [{| e_tmp := t; e_path := p; e_mode := m |}])%list;
                     next := N.succ t |} in
        if m_plus m && m_r m then              (* l.115-123: r+ keeps the old content; a missing file registers nothing *)
          match get (user s) p with
          | Some c => (with_tmp s1 t (apply_mode m c d), OK)
          | None => (s, ErrNotFound)
          end
        else (with_tmp s1 t (apply_mode m "" d), OK)
      else if m_r m then                       (* l.105-106: plain read *)
        (s, match get (user s) p with Some _ => OK | None => ErrNotFound end)
      else (s, ErrMode)
  end.

(* close(): drop every temporary file *)
Definition do_close (s : st) : st :=
  {| user := user s;
     tmpf := fold_left (fun t e => tdel t (e_tmp e)) (pending s) (tmpf s);
     pending := []; next := next s |}.

(* _find_free_path: the path itself if free, else the first free '#name.k#', k = 1, 2, ...
   The while loop is run on fuel = number of files + 1 (it cannot need more:
   pigeon-hole); exhaustion is an error value excluded by the theorems. *)
Fixpoint find_free_from (u : fs) (p : path) (k : N) (fuel : nat) : option path :=
  match fuel with
  | O => None
  | S f => if exists_ u (Bk p k) then find_free_from u p (N.succ k) f else Some (Bk p k)
  end.
Definition find_free (u : fs) (p : path) : option path :=
  if exists_ u p then find_free_from u p 1%N (S (List.length u)) else Some p.

(* the file-system calls of finalisation; temp content is carried along *)
Inductive step :=
| SRename (a b : path)               (* shutil.move(final, backup): same directory *)
| SPut (t : N) (dst : path) (c : bytes)     (* shutil.move(tmp, final) *)
| SAppend (t : N) (dst : path) (c : bytes)  (* open(final,'a').write(open(tmp).read()) *)
| SUnlink (t : N).                   (* os.remove(tmp) *)

Definition entry_steps (u : fs) (ts : tmps) (e : entry) : option (list step) :=
  match tget ts (e_tmp e) with
  | None => None
  | Some c =>
    if write_kind (e_mode e) then
      match find_free u (e_path e) with
      | None => None
      | Some fp => Some ((if path_eqb fp (e_path e) then [] else [SRename (e_path e) fp])
                         ++ [SPut (e_tmp e) (e_path e) c])%list
      end
    else if m_r (e_mode e) then None
    else if m_a (e_mode e) then Some [SAppend (e_tmp e) (e_path e) c; SUnlink (e_tmp e)]
    else None
  end.

(* effect of one call on the user-visible files *)
Definition exec_u (s : step) (u : fs) : fs :=
  match s with
  | SRename a b => match get u a with Some c => set (del u a) b c | None => u end
  | SPut _ d c => set u d c
  | SAppend _ d c => set u d (match get u d with Some o => o ++ c | None => c end)
  | SUnlink _ => u
  end.
Definition exec_t (s : step) (t : tmps) : tmps :=
  match s with
  | SPut i _ _ => tdel t i
  | SUnlink i => tdel t i
  | _ => t
  end.
(* the call is interrupted after n bytes were transferred (copy across devices,
   or a partial write); rename and unlink are atomic *)
Definition prefix_n (n : nat) (c : bytes) : bytes := substring 0 n c.
Definition exec_partial (s : step) (n : nat) (u : fs) : fs :=
  match s with
  | SPut t d c => set u d (prefix_n n c)
  | SAppend t d c => set u d (match get u d with Some o => o ++ prefix_n n c | None => prefix_n n c end)
  | _ => u
  end.

Definition run_u (ss : list step) (u : fs) : fs := fold_left (fun u s => exec_u s u) ss u.
Definition run_t (ss : list step) (t : tmps) : tmps := fold_left (fun t s => exec_t s t) ss t.

Fixpoint fin_steps (u : fs) (ts : tmps) (es : list entry) : option (list step) :=
  match es with
  | [] => Some []
  | e :: r =>
      match entry_steps u ts e with
      | None => None
      | Some ss =>
          match fin_steps (run_u ss u) (run_t ss ts) r with
          | None => None
          | Some rest => Some (ss ++ rest)%list
          end
      end
  end.

(* write() *)
Definition do_write (s : st) : option st :=
  match fin_steps (user s) (tmpf s) (pending s) with
  | None => None
  | Some ss => Some {| user := run_u ss (user s); tmpf := run_t ss (tmpf s); pending := []; next := next s |}
  end.

(* finalisation interrupted before call k (part = None) or inside call k after
   n bytes (part = Some n) *)
Definition crash_state (s : st) (k : nat) (part : option nat) : option fs :=
  match fin_steps (user s) (tmpf s) (pending s) with
  | None => None
  | Some ss =>
      let u := run_u (firstn k ss) (user s) in
      match part, nth_error ss k with
      | Some n, Some sk => Some (exec_partial sk n u)
      | _, _ => Some u
      end
  end.

(* operations of a history *)
Inductive op := Open (p : path) (m : mode) (d : bytes) | Close
  | Vanish (i : nat).       (* fault: the temporary file of the i-th pending entry disappears (tmp cleaner, other process) *)
Definition do_op (s : st) (o : op) : st :=
  match o with
  | Open p m d => fst (do_open s p m d)
  | Close => do_close s
  | Vanish i => match nth_error (pending s) i with
                | Some e => {| user := user s; tmpf := tdel (tmpf s) (e_tmp e); pending := pending s; next := next s |}
                | None => s end
  end.
Definition run_ops (s : st) (os : list op) : st := fold_left do_op os s.

(* end of bin/martinize2:entry (l.1165-1177): finalise only when nothing is left *)
Inductive cli_end := Exit2_no_output | Finalised (s : option st).
Definition finish (leftover : Z) (s : st) : cli_end :=
  if Z.eqb leftover 0 then Finalised (do_write s) else Exit2_no_output.
