From Coq Require Import List Bool NArith ZArith String Ascii Lia.
From V Require Import Base.FS C07.Model C07.Spec.
Import ListNotations.

(* ------------------------------------------------------------------ *)
(* 1. opening, writing and closing never touch the user-visible files *)

Lemma do_open_user s p m d : user (fst (do_open s p m d)) = user s.
Proof.
  unfold do_open.
  destruct (find _ (pending s)) as [e|].
  - destruct (tget (tmpf s) (e_tmp e)); [reflexivity|]. destruct (m_r m); reflexivity.
  - destruct (registers m).
    + destruct (m_plus m && m_r m); [|reflexivity].
      destruct (get (user s) p); reflexivity.
    + destruct (m_r m); reflexivity.
Qed.

Lemma do_op_user s o : user (do_op s o) = user s.
Proof. destruct o; cbn; [apply do_open_user|reflexivity|]. destruct (nth_error (pending s) i); reflexivity. Qed.

Lemma run_ops_user os : forall s, user (run_ops s os) = user s.
Proof.
  induction os as [|o os IH]; intros s; cbn; [reflexivity|].
  unfold run_ops in IH. rewrite IH. apply do_op_user.
Qed.

(* after close() nothing is pending and no temporary file of a pending entry is left *)
Lemma tget_tdel_same t i : tget (tdel t i) i = None.
Proof.
  induction t as [|[j c] r IH]; cbn; [reflexivity|].
  destruct (N.eqb j i) eqn:E; [exact IH|]. cbn. rewrite E. exact IH.
Qed.

Lemma tget_tdel_other t i j : i <> j -> tget (tdel t i) j = tget t j.
Proof.
  intros Hn. induction t as [|[a c] r IH]; cbn; [reflexivity|].
  destruct (N.eqb_spec a i) as [->|Hai].
  - destruct (N.eqb_spec i j); [contradiction|exact IH].
  - cbn. destruct (N.eqb a j); [reflexivity|exact IH].
Qed.

Lemma tget_fold_del es : forall t i, tget t i = None ->
  tget (fold_left (fun t e => tdel t (e_tmp e)) es t) i = None.
Proof.
  induction es as [|e es IH]; intros t i H; cbn; [exact H|].
  apply IH. destruct (N.eq_dec (e_tmp e) i) as [->|Hn].
  - apply tget_tdel_same.
  - rewrite tget_tdel_other by exact Hn. exact H.
Qed.

Lemma close_removes_tmps s e : In e (pending s) -> tget (tmpf (do_close s)) (e_tmp e) = None.
Proof.
  unfold do_close; cbn. generalize (tmpf s). induction (pending s) as [|x es IH]; intros t Hin; [destruct Hin|].
  destruct Hin as [->|Hin]; cbn.
  - apply tget_fold_del. apply tget_tdel_same.
  - apply IH. exact Hin.
Qed.

(* destinations stay pairwise distinct *)
Lemma find_none_notin es p :
  find (fun e => path_eqb (e_path e) p) es = None -> ~ In p (map e_path es).
Proof.
  induction es as [|e es IH]; cbn; [tauto|].
  destruct (path_eqb_spec (e_path e) p) as [->|Hn]; [discriminate|].
  intros H [Heq|Hin]; [contradiction|]. exact (IH H Hin).
Qed.

Lemma nodup_snoc {A} (l : list A) x : NoDup l -> ~ In x l -> NoDup (l ++ [x]).
Proof.
  induction l as [|y l IH]; cbn; intros H Hn.
  - constructor; [tauto|constructor].
  - inversion H as [|? ? Hy Hl]; subst. constructor.
    + rewrite in_app_iff. cbn. intros [Hi|[->|[]]]; tauto.
    + apply IH; tauto.
Qed.

Lemma do_open_nodup s p m d :
  NoDup (dests_of s) -> NoDup (dests_of (fst (do_open s p m d))).
Proof.
  unfold dests_of, do_open. intros H.
  destruct (find _ (pending s)) as [e|] eqn:F.
  - destruct (tget (tmpf s) (e_tmp e)); [exact H|]. destruct (m_r m); exact H.
  - assert (Hn : NoDup (map e_path (pending s ++ [{| e_tmp := next s; e_path := p; e_mode := m |}]))).
    { rewrite map_app. cbn. apply nodup_snoc; [exact H|]. apply find_none_notin; exact F. }
    destruct (registers m).
    + destruct (m_plus m && m_r m); [|exact Hn].
      destruct (get (user s) p); [exact Hn|exact H].
    + destruct (m_r m); exact H.
Qed.

(* ------------------------------------------------------------------ *)
(* 2. crash safety of finalisation *)

(* states in which the user-visible files can be left when finalisation [ss],
   started in [u], is interrupted: before any call, or inside a call *)
Inductive crash_of : list step -> fs -> fs -> Prop :=
| crash_here ss u : crash_of ss u u
| crash_partial s ss u n : crash_of (s :: ss) u (exec_partial s n u)
| crash_later s ss u u' : crash_of ss (exec_u s u) u' -> crash_of (s :: ss) u u'.

Lemma exists_true u p : exists_ u p = true -> exists c, get u p = Some c.
Proof. unfold exists_. destruct (get u p) as [c|]; [eauto|discriminate]. Qed.
Lemma exists_false u p : exists_ u p = false -> get u p = None.
Proof. unfold exists_. destruct (get u p); [discriminate|reflexivity]. Qed.

Lemma find_free_from_spec u p fuel : forall k fp,
  find_free_from u p k fuel = Some fp ->
  exists k', fp = Bk p k' /\ get u fp = None /\ (k <= k')%N /\
             forall j, (k <= j < k')%N -> get u (Bk p j) <> None.
Proof.
  induction fuel as [|f IH]; intros k fp; cbn; [discriminate|].
  destruct (exists_ u (Bk p k)) eqn:E.
  - intros H. destruct (IH _ _ H) as (k' & -> & Hf & Hle & Hall).
    exists k'. split; [reflexivity|]. split; [exact Hf|]. split; [lia|].
    intros j Hj. destruct (N.eq_dec j k) as [->|Hn].
    + destruct (exists_true _ _ E) as [c ->]. discriminate.
    + apply Hall. lia.
  - intros [= <-]. exists k. split; [reflexivity|]. split; [apply exists_false; exact E|]. split; [lia|]. intros j Hj; lia.
Qed.

Section Crash.
Variable fs0 : fs.
Variable D : list path.
Hypothesis HC : noclash D.

Definition guard (s : step) (u : fs) : Prop :=
  match s with
  | SRename a b => In a D /\ (exists k, b = Bk a k) /\ get u b = None /\ get u a = get fs0 a
  | SPut _ d _ => In d D /\ get u d = None
  | SAppend _ d _ => In d D
  | SUnlink _ => True
  end.

Fixpoint guarded (ss : list step) (u : fs) : Prop :=
  match ss with
  | [] => True
  | s :: r => guard s u /\ guarded r (exec_u s u)
  end.

Lemma guarded_app ss1 : forall ss2 u,
  guarded ss1 u -> guarded ss2 (run_u ss1 u) -> guarded (ss1 ++ ss2) u.
Proof.
  induction ss1 as [|s r IH]; intros ss2 u H1 H2; cbn in *; [exact H2|].
  destruct H1 as [Hg Hr]. split; [exact Hg|]. apply IH; assumption.
Qed.

Lemma put_preserved u d c :
  In d D -> (get u d = None \/ exists o, get u d = Some o /\ is_prefix o c) ->
  preserved fs0 D u -> preserved fs0 D (set u d c).
Proof.
  intros Hd Hfree HI p c0 H0. destruct (HI p c0 H0) as [(c' & Hg & Hp)|(Hin & k & Hg)].
  - left. destruct (path_eqb_spec d p) as [->|Hn].
    + destruct Hfree as [Hnone|(o & Ho & Hpre)]; [congruence|].
      rewrite get_set_same. exists c. split; [reflexivity|].
      rewrite Hg in Ho. injection Ho as <-. destruct Hp as [s1 ->]. destruct Hpre as [s2 ->].
      exists (s1 ++ s2)%string. apply append_assoc.
    + rewrite get_set_other by exact Hn. eauto.
  - right. split; [exact Hin|]. exists k. rewrite get_set_other; [exact Hg|].
    intro E. exact (HC p d k Hin Hd E).
Qed.

Lemma step_preserved s u : guard s u -> preserved fs0 D u -> preserved fs0 D (exec_u s u).
Proof.
  destruct s as [a b|t d c|t d c|t]; cbn; intros G HI.
  - destruct G as (Ha & (k & ->) & Hb & Hfs). destruct (get u a) as [ca|] eqn:Ea; [|exact HI].
    intros p c0 H0. destruct (HI p c0 H0) as [(c' & Hg & Hp)|(Hin & k' & Hg)].
    + destruct (path_eqb_spec a p) as [->|Hn].
      * right. split; [exact Ha|]. exists k. rewrite get_set_same. congruence.
      * left. exists c'. split; [|exact Hp].
        rewrite get_set_other; [rewrite get_del_other by exact Hn; exact Hg|].
        intro E; subst p. congruence.
    + right. split; [exact Hin|]. exists k'.
      rewrite get_set_other; [|intro E; injection E as -> ->; congruence].
      rewrite get_del_other; [exact Hg|]. intro E. exact (HC p a k' Hin Ha E).
  - destruct G as [Hd Hn]. apply put_preserved; auto.
  - apply put_preserved; [exact G| |exact HI]. destruct (get u d) as [o|]; [right|left; reflexivity].
    exists o. split; [reflexivity|]. exists c; reflexivity.
  - exact HI.
Qed.

Lemma partial_preserved s n u : guard s u -> preserved fs0 D u -> preserved fs0 D (exec_partial s n u).
Proof.
  destruct s as [a b|t d c|t d c|t]; cbn; intros G HI; try exact HI.
  - destruct G as [Hd Hn]. apply put_preserved; auto.
  - apply put_preserved; [exact G| |exact HI]. destruct (get u d) as [o|]; [right|left; reflexivity].
    exists o. split; [reflexivity|]. exists (prefix_n n c); reflexivity.
Qed.

Lemma guarded_crash_preserved ss u u' :
  crash_of ss u u' -> guarded ss u -> preserved fs0 D u -> preserved fs0 D u'.
Proof.
  induction 1 as [ss u|s ss u n|s ss u u' Hc IH]; intros G HI.
  - exact HI.
  - destruct G as [Hg _]. apply partial_preserved; assumption.
  - destruct G as [Hg Hr]. apply IH; [exact Hr|]. apply step_preserved; assumption.
Qed.

(* the calls of one entry touch only its destination and the chosen backup name *)
Lemma entry_steps_shape u ts e ss :
  entry_steps u ts e = Some ss ->
  exists c, tget ts (e_tmp e) = Some c /\
  ((write_kind (e_mode e) = true /\ get u (e_path e) = None /\ ss = [SPut (e_tmp e) (e_path e) c]) \/
   (write_kind (e_mode e) = true /\ exists k o, get u (e_path e) = Some o /\ get u (Bk (e_path e) k) = None /\
        (forall j, (1 <= j < k)%N -> get u (Bk (e_path e) j) <> None) /\
        ss = [SRename (e_path e) (Bk (e_path e) k); SPut (e_tmp e) (e_path e) c]) \/
   (write_kind (e_mode e) = false /\ m_a (e_mode e) = true /\
        ss = [SAppend (e_tmp e) (e_path e) c; SUnlink (e_tmp e)])).
Proof.
  unfold entry_steps. destruct (tget ts (e_tmp e)) as [c|]; [|discriminate].
  intros H. exists c. split; [reflexivity|].
  destruct (write_kind (e_mode e)) eqn:W.
  - unfold find_free in H. destruct (exists_ u (e_path e)) eqn:E.
    + destruct (find_free_from u (e_path e) 1 _) as [fp|] eqn:F; [|discriminate].
      destruct (find_free_from_spec _ _ _ _ _ F) as (k & -> & Hf & Hle & Hall).
      rewrite (path_eqb_neq _ _ (bk_neq (e_path e) k)) in H. injection H as <-.
      right; left. split; [reflexivity|]. destruct (exists_true _ _ E) as [o Ho].
      exists k, o. repeat split; assumption.
    + rewrite path_eqb_refl in H. injection H as <-. left. split; [reflexivity|].
      split; [apply exists_false; exact E|reflexivity].
  - destruct (m_r (e_mode e)); [discriminate|]. destruct (m_a (e_mode e)) eqn:A; [|discriminate].
    injection H as <-. right; right. auto.
Qed.

Lemma entry_guarded u ts e ss :
  In (e_path e) D -> get u (e_path e) = get fs0 (e_path e) ->
  entry_steps u ts e = Some ss -> guarded ss u.
Proof.
  intros Hd Hsame H. destruct (entry_steps_shape _ _ _ _ H) as (c & _ & [(W & Hn & ->)|[(W & k & o & Ho & Hk & _ & ->)|(W & A & ->)]]); cbn.
  - auto.
  - rewrite Ho. repeat split; eauto; try congruence.
    rewrite get_set_other by apply bk_neq. apply get_del_same.
  - auto.
Qed.

Lemma entry_frame u ts e ss q :
  entry_steps u ts e = Some ss -> q <> e_path e -> (forall k, q <> Bk (e_path e) k) ->
  get (run_u ss u) q = get u q.
Proof.
  intros H Hq Hb. destruct (entry_steps_shape _ _ _ _ H) as (c & _ & [(W & Hn & ->)|[(W & k & o & Ho & Hk & _ & ->)|(W & A & ->)]]);
    unfold run_u; cbn [fold_left exec_u].
  - apply get_set_other; congruence.
  - rewrite Ho. rewrite get_set_other by congruence.
    rewrite get_set_other by (intro E; exact (Hb k (eq_sym E))). apply get_del_other; congruence.
  - apply get_set_other; congruence.
Qed.

Lemma fin_steps_guarded es : forall u ts ss,
  NoDup (map e_path es) -> incl (map e_path es) D ->
  (forall d, In d (map e_path es) -> get u d = get fs0 d) ->
  fin_steps u ts es = Some ss -> guarded ss u.
Proof.
  induction es as [|e r IH]; intros u ts ss Hnd Hinc H2 H; cbn in *.
  - injection H as <-. exact I.
  - destruct (entry_steps u ts e) as [ss1|] eqn:E1; [|discriminate].
    destruct (fin_steps (run_u ss1 u) (run_t ss1 ts) r) as [rest|] eqn:E2; [|discriminate].
    injection H as <-. inversion Hnd as [|? ? Hnotin Hnd']; subst.
    assert (Hd : In (e_path e) D) by (apply Hinc; left; reflexivity).
    apply guarded_app.
    + eapply entry_guarded; eauto.
    + eapply IH; eauto.
      * intros x Hx. apply Hinc. right. exact Hx.
      * intros d Hin. rewrite <- (H2 d (or_intror Hin)).
        eapply entry_frame; eauto.
        -- intro E; subst d. contradiction.
        -- intros k E. exact (HC (e_path e) d k Hd (Hinc d (or_intror Hin)) E).
Qed.

End Crash.

Lemma preserved_refl fs0 D : preserved fs0 D fs0.
Proof. intros p c H. left. exists c. split; [exact H|apply is_prefix_refl]. Qed.

Lemma finalize_crash_safe_lemma s ss u' :
  NoDup (dests_of s) -> noclash (dests_of s) ->
  fin_steps (user s) (tmpf s) (pending s) = Some ss ->
  crash_of ss (user s) u' ->
  preserved (user s) (dests_of s) u'.
Proof.
  intros Hnd Hc Hf Hcr.
  eapply guarded_crash_preserved; eauto.
  - eapply fin_steps_guarded; eauto. apply incl_refl.
  - apply preserved_refl.
Qed.

(* the executable crash_state is one of the crash_of states *)
Lemma crash_of_firstn ss : forall k u, crash_of ss u (run_u (firstn k ss) u).
Proof.
  induction ss as [|s r IH]; intros k u.
  - destruct k; cbn; constructor.
  - destruct k; cbn; [constructor|]. apply crash_later. apply IH.
Qed.

Lemma crash_of_partial ss : forall k u sk n,
  nth_error ss k = Some sk -> crash_of ss u (exec_partial sk n (run_u (firstn k ss) u)).
Proof.
  induction ss as [|s r IH]; intros k u sk n H.
  - destruct k; discriminate.
  - destruct k; cbn in *.
    + injection H as <-. constructor.
    + apply crash_later. apply IH. exact H.
Qed.

Lemma crash_state_safe_lemma s k part u' :
  NoDup (dests_of s) -> noclash (dests_of s) ->
  crash_state s k part = Some u' -> preserved (user s) (dests_of s) u'.
Proof.
  intros Hnd Hc. unfold crash_state.
  destruct (fin_steps (user s) (tmpf s) (pending s)) as [ss|] eqn:F; [|discriminate].
  intros H. eapply finalize_crash_safe_lemma; eauto.
  destruct part as [n|].
  - destruct (nth_error ss k) as [sk|] eqn:N; injection H as <-.
    + apply crash_of_partial; exact N.
    + apply crash_of_firstn.
  - injection H as <-. apply crash_of_firstn.
Qed.

(* a completed finalisation is the last crash state *)
Lemma do_write_preserved_lemma s s' :
  NoDup (dests_of s) -> noclash (dests_of s) ->
  do_write s = Some s' -> preserved (user s) (dests_of s) (user s').
Proof.
  intros Hnd Hc. unfold do_write.
  destruct (fin_steps (user s) (tmpf s) (pending s)) as [ss|] eqn:F; [|discriminate].
  intros [= <-]; cbn. eapply finalize_crash_safe_lemma; eauto.
  rewrite <- (firstn_all ss) at 2. apply crash_of_firstn.
Qed.

(* ------------------------------------------------------------------ *)
(* 3. soundness of the decidable checkers used on implementation output *)

Lemma prefixb_sound a : forall b, prefixb a b = true -> is_prefix a b.
Proof.
  induction a as [|x a IH]; intros b H; cbn in *.
  - exists b. reflexivity.
  - destruct b as [|y b]; [discriminate|].
    apply andb_prop in H as [Hx Hr]. apply Ascii.eqb_eq in Hx as ->.
    destruct (IH _ Hr) as [s ->]. exists s. reflexivity.
Qed.

Lemma get_in f p c : get f p = Some c -> In p (map fst f).
Proof.
  induction f as [|[q d] r IH]; cbn; [discriminate|].
  destruct (path_eqb_spec q p) as [->|Hn]; [auto|]. intros H; right; exact (IH H).
Qed.

Lemma mem_in p D : mem p D = true -> In p D.
Proof.
  unfold mem. rewrite existsb_exists. intros (x & Hin & Hx).
  destruct (path_eqb_spec p x) as [->|]; [exact Hin|discriminate].
Qed.

Lemma backed_up_sound u p c : backed_up u p c = true -> exists k, get u (Bk p k) = Some c.
Proof.
  unfold backed_up. rewrite existsb_exists. intros ([q c'] & _ & H). cbn in H.
  destruct q as [|q k]; [discriminate|].
  apply andb_prop in H as [H H3]. apply andb_prop in H as [H1 H2].
  destruct (path_eqb_spec q p) as [->|]; [|discriminate].
  exists k. destruct (get u (Bk p k)) as [c''|]; [|discriminate].
  apply String.eqb_eq in H3 as ->. reflexivity.
Qed.

Lemma preservedb_sound fs0 D u : preservedb fs0 D u = true -> preserved fs0 D u.
Proof.
  unfold preservedb. rewrite forallb_forall. intros H p c Hp.
  assert (Hin : exists c0, In (p, c0) fs0).
  { clear -Hp. induction fs0 as [|[q d] r IH]; cbn in *; [discriminate|].
    destruct (path_eqb_spec q p) as [->|Hn]; [eauto|]. destruct (IH Hp) as [c0 H0]; eauto. }
  destruct Hin as [c0 Hin]. specialize (H _ Hin). cbn in H. rewrite Hp in H.
  apply orb_prop in H as [H|H].
  - left. destruct (get u p) as [c'|]; [|discriminate]. exists c'. split; [reflexivity|].
    apply prefixb_sound; exact H.
  - right. apply andb_prop in H as [H1 H2]. split; [apply mem_in; exact H1|].
    apply backed_up_sound; exact H2.
Qed.

Lemma noclashb_one_sound d D : noclashb_one d D = true -> forall d2 k, In d2 D -> d2 <> Bk d k.
Proof.
  induction D as [|x r IH]; cbn; [tauto|].
  intros H d2 k [->|Hin].
  - apply andb_prop in H as [H _]. intros ->. rewrite path_eqb_refl in H. discriminate.
  - apply andb_prop in H as [_ H]. exact (IH H d2 k Hin).
Qed.

Lemma noclashb_sound D : noclashb D = true -> noclash D.
Proof.
  unfold noclashb, noclash. rewrite forallb_forall. intros H d1 d2 k H1 H2.
  exact (noclashb_one_sound d1 D (H d1 H1) d2 k H2).
Qed.

(* ------------------------------------------------------------------ *)
(* 4. one destination: exact effect of its finalisation *)
Lemma entry_exact_lemma u ts e ss :
  entry_steps u ts e = Some ss ->
  exists c, tget ts (e_tmp e) = Some c /\
    (* the destination holds what was written (appended to the old content in append mode) *)
    get (run_u ss u) (e_path e) =
      Some (if write_kind (e_mode e) then c
            else match get u (e_path e) with Some o => (o ++ c)%string | None => c end) /\
    (* a replaced file is kept byte for byte under the first free backup name *)
    (write_kind (e_mode e) = true -> forall o, get u (e_path e) = Some o ->
       exists k, get (run_u ss u) (Bk (e_path e) k) = Some o /\ get u (Bk (e_path e) k) = None /\
                 forall j, (1 <= j < k)%N -> get u (Bk (e_path e) j) <> None) /\
    (* nothing else changes: only the destination and (when replacing) that one backup name *)
    (forall q, q <> e_path e ->
       (forall k, q = Bk (e_path e) k -> get u q <> None \/ get u (e_path e) = None \/ write_kind (e_mode e) = false) ->
       get (run_u ss u) q = get u q).
Proof.
  intros H. destruct (entry_steps_shape _ _ _ _ H) as (c & Hc & [(W & Hn & ->)|[(W & k & o & Ho & Hk & Hall & ->)|(W & A & ->)]]);
    exists c; (split; [exact Hc|]); unfold run_u; cbn [fold_left exec_u]; rewrite W.
  - split; [apply get_set_same|]. split; [intros _ o Ho; congruence|].
    intros q Hq _. apply get_set_other; congruence.
  - rewrite Ho. split; [apply get_set_same|]. split.
    + intros _ o' Ho'. assert (o' = o) by congruence; subst o'. exists k.
      split; [|split; assumption].
      rewrite get_set_other by (intro E; symmetry in E; exact (bk_neq _ _ E)). apply get_set_same.
    + intros q Hq Hb. rewrite get_set_other by congruence.
      destruct (path_eqb_spec (Bk (e_path e) k) q) as [<-|Hn].
      * destruct (Hb k eq_refl) as [Hx|[Hx|Hx]]; congruence.
      * rewrite get_set_other by exact Hn. apply get_del_other; congruence.
  - split.
    + rewrite get_set_same. reflexivity.
    + split; [discriminate|]. intros q Hq _. apply get_set_other; congruence.
Qed.

(* the CLI gate *)
Lemma cli_gate_lemma leftover s :
  (leftover <> 0%Z -> finish leftover s = Exit2_no_output) /\
  (leftover = 0%Z -> finish leftover s = Finalised (do_write s)).
Proof.
  unfold finish. split; intros H.
  - destruct (Z.eqb_spec leftover 0); [contradiction|reflexivity].
  - subst. reflexivity.
Qed.
