(* C07 — case type and the two boolean functions evaluated on generated cases. *)
From Coq Require Import List Bool NArith ZArith String Ascii.
From V Require Import Base.FS C07.Model C07.Spec.
From V Require C08.Model.
Import ListNotations.

Definition fs_eqb (f g : fs) : bool :=
  forallb (fun p => opt_bytes_eqb (get f p) (get g p)) (map fst f ++ map fst g).

Definition outcome_eqb (a b : outcome) : bool :=
  match a, b with OK, OK | ErrNotFound, ErrNotFound | ErrMode, ErrMode => true | _, _ => false end.

Fixpoint list_eqb {A} (f : A -> A -> bool) (a b : list A) : bool :=
  match a, b with
  | [], [] => true
  | x :: r, y :: s => f x y && list_eqb f r s
  | _, _ => false
  end.

(* outcomes of the successive opens *)
Fixpoint outcomes (s : st) (os : list op) : list outcome :=
  match os with
  | [] => []
  | Open p m d :: r => snd (do_open s p m d) :: outcomes (fst (do_open s p m d)) r
  | Close :: r => OK :: outcomes (do_close s) r
  | Vanish i :: r => OK :: outcomes (do_op s (Vanish i)) r
  end.

Inductive fin :=
| FWrite                      (* write() ran to completion *)
| FClose                      (* close(): everything discarded *)
| FCrash (k : nat) (part : option nat).   (* write() interrupted at call k *)

Definition dest_eqb (a b : dest) : bool :=
  path_eqb (d_path a) (d_path b) && Bool.eqb (d_write a) (d_write b) && String.eqb (d_content a) (d_content b).

(* what the model holds as pending, in the shape the harness reads from the
   implementation (open_files + content of each temporary file) *)
Definition model_dests (s : st) : list dest :=
  map (fun e => {| d_path := e_path e; d_write := write_kind (e_mode e);
                   d_content := match tget (tmpf s) (e_tmp e) with Some c => c | None => "" end |})
      (pending s).

(* the writer state holding the given pending destinations (temporary files numbered in order) *)
Fixpoint entries_of (ds : list dest) (i : N) : list entry * tmps :=
  match ds with
  | [] => ([], [])
  | d :: r =>
      let '(es, ts) := entries_of r (N.succ i) in
      ({| e_tmp := i; e_path := d_path d;
          e_mode := {| m_r := false; m_w := d_write d; m_a := negb (d_write d); m_plus := false |} |} :: es,
       (i, d_content d) :: ts)
  end.
Definition state_of (fs0 : fs) (ds : list dest) : st :=
  let '(es, ts) := entries_of ds 0%N in
  {| user := fs0; tmpf := ts; pending := es; next := N.of_nat (List.length ds) |}.

Inductive case :=
| CHist (fs0 : fs) (ops : list op)
        (impl_outcomes : list outcome)
        (impl_before : fs)          (* directory after the ops, before finalisation *)
        (impl_dests : list dest)    (* open_files of the implementation with temp contents *)
        (f : fin)
        (impl_after : fs)           (* directory afterwards *)
        (impl_tmps_left : N)        (* temporary files still present afterwards *)
| CApi (fs0 : fs)                    (* a real writer function (write_pdb, write_gmx_topology, ...) was called *)
       (impl_before : fs) (impl_dests : list dest) (f : fin) (impl_after : fs) (impl_tmps_left : N)
| CCli (c : C08.Model.counts) (specs : list (list C08.Model.spec))
       (impl_exit : Z) (impl_new_files : N) (impl_old_intact : bool) (impl_expected_present : bool).

Definition corr (k : case) : bool :=
  match k with
  | CHist fs0 ops outs before dests f after nleft =>
      let s := run_ops (init fs0) ops in
      list_eqb outcome_eqb (outcomes (init fs0) ops) outs
      && fs_eqb (user s) before
      && list_eqb dest_eqb (model_dests s) dests
      && match f with
         | FWrite => match do_write s with
                     | Some s' => fs_eqb (user s') after && N.eqb (N.of_nat (List.length (tmpf s'))) nleft
                     | None => false end
         | FClose => fs_eqb (user (do_close s)) after && N.eqb (N.of_nat (List.length (tmpf (do_close s)))) nleft
         | FCrash k part => match crash_state s k part with Some u => fs_eqb u after | None => false end
         end
  | CApi fs0 before dests f after nleft =>
      let s := state_of fs0 dests in
      match f with
      | FWrite => match do_write s with
                  | Some s' => fs_eqb (user s') after && N.eqb (N.of_nat (List.length (tmpf s'))) nleft
                  | None => false end
      | FClose => fs_eqb (user (do_close s)) after && N.eqb (N.of_nat (List.length (tmpf (do_close s)))) nleft
      | FCrash k part => match crash_state s k part with Some u => fs_eqb u after | None => false end
      end
  | CCli c specs ex nf intact present =>
      match finish (C08.Model.ignore_warnings_and_count c specs) (init []) with
      | Exit2_no_output => Z.eqb ex 2
      | Finalised _ => Z.eqb ex 0
      end
  end.

(* destinations registered since the last close(): what was opened before a close() is discarded for good *)
Fixpoint since_close (ops : list op) (acc : list path) : list path :=
  match ops with
  | [] => acc
  | Close :: r => since_close r []
  | Open p m _ :: r => since_close r (if registers m then p :: acc else acc)
  | Vanish _ :: r => since_close r acc
  end.

(* what has been written for destination p so far, from the operations alone: w truncates, a adds to what was written
   before (the old file is joined at finalisation), r+ starts from the old file and overwrites from its beginning; a
   close() forgets everything. None: nothing pending for p. Histories with a vanished temporary file are not judged. *)
Fixpoint written_for (fs0 : fs) (ops : list op) (p : path) (cur : option bytes) : option bytes :=
  match ops with
  | [] => cur
  | Close :: r => written_for fs0 r p None
  | Vanish _ :: r => written_for fs0 r p cur
  | Open q m d :: r =>
      if path_eqb q p then
        match cur with
        | Some c => written_for fs0 r p (Some (apply_mode m c d))
        | None =>
            if registers m then
              if m_plus m && m_r m then
                match get fs0 p with
                | Some c => written_for fs0 r p (Some (apply_mode m c d))
                | None => written_for fs0 r p None
                end
              else written_for fs0 r p (Some (apply_mode m "" d))
            else written_for fs0 r p None
        end
      else written_for fs0 r p cur
  end.
(* the mode a destination is finalised with is the mode of the open that queued it: opening it again does not change
   whether it is replaced or appended to *)
Fixpoint queued_kind (fs0 : fs) (ops : list op) (p : path) (cur : option bool) : option bool :=
  match ops with
  | [] => cur
  | Close :: r => queued_kind fs0 r p None
  | Vanish _ :: r => queued_kind fs0 r p cur
  | Open q m d :: r =>
      if path_eqb q p then
        match cur with
        | Some k => queued_kind fs0 r p (Some k)
        | None =>
            if registers m then
              if m_plus m && m_r m then
                match get fs0 p with
                | Some _ => queued_kind fs0 r p (Some (write_kind m))
                | None => queued_kind fs0 r p None
                end
              else queued_kind fs0 r p (Some (write_kind m))
            else queued_kind fs0 r p None
        end
      else queued_kind fs0 r p cur
  end.

Definition has_vanish (ops : list op) : bool := existsb (fun o => match o with Vanish _ => true | _ => false end) ops.

Definition prop (k : case) : bool :=
  match k with
  | CHist fs0 ops outs before dests f after nleft =>
      let D := map d_path dests in
      fs_eqb fs0 before                       (* destinations untouched until finalisation *)
      && (has_vanish ops
          || forallb (fun d => match written_for fs0 ops (d_path d) None with
                               | Some c => String.eqb c (d_content d)
                               | None => false end
                               && match queued_kind fs0 ops (d_path d) None with
                                  | Some k => Bool.eqb k (d_write d)
                                  | None => false end) dests)   (* what is pending for a destination is what was written for it, in the mode it was queued with *)
      && forallb (fun d => mem d (since_close ops [])) D      (* nothing discarded by close() is still queued *)
      && match f with
         | FWrite => (negb (noclashb D) || (final_okb fs0 dests after && preservedb fs0 D after)) && N.eqb nleft 0
         | FClose => fs_eqb fs0 after && N.eqb nleft 0
         | FCrash _ _ => negb (noclashb D) || preservedb fs0 D after
         end
  | CApi fs0 before dests f after nleft =>
      let D := map d_path dests in
      fs_eqb fs0 before
      && match f with
         | FWrite => (negb (noclashb D) || (final_okb fs0 dests after && preservedb fs0 D after)) && N.eqb nleft 0
         | FClose => fs_eqb fs0 after && N.eqb nleft 0
         | FCrash _ _ => negb (noclashb D) || preservedb fs0 D after
         end
  | CCli c specs ex nf intact present =>
      if Z.eqb (C08.Model.ignore_warnings_and_count c specs) 0
      then Z.eqb ex 0 && intact && present
      else Z.eqb ex 2 && N.eqb nf 0 && intact
  end.
