(* C19 — model of vermouth/processors/annotate_mut_mod.py: parse_residue_spec (l.28-68),
   residue_matches/_terminal_matches (l.82-155), _format_resname (l.158-172), _resiter,
   annotate_modifications and AnnotateMutMod.run_system's reporting rule (l.175-330). *)
From Coq Require Import List Bool ZArith String Ascii DecimalString Decimal DecimalZ.
Import ListNotations.

Definition txt := list ascii.
Definition s2l (s : string) : txt := list_ascii_of_string s.

Definition is_digit (c : ascii) : bool := (48 <=? N_of_ascii c)%N && (N_of_ascii c <=? 57)%N.

(* str.split(sep, 1): at the FIRST separator *)
Fixpoint split_first (sep : ascii) (t : txt) : option (txt * txt) :=
  match t with
  | [] => None
  | c :: r => if Ascii.eqb c sep then Some ([], r)
              else match split_first sep r with Some (a, b) => Some (c :: a, b) | None => None end
  end.
(* str.rsplit(sep, 1): at the LAST separator *)
Definition split_last (sep : ascii) (t : txt) : option (txt * txt) :=
  match split_first sep (List.rev t) with
  | Some (b, a) => Some (List.rev a, List.rev b)
  | None => None
  end.

(* length of the trailing run of digits *)
Fixpoint leading_digits (t : txt) : nat :=
  match t with c :: r => if is_digit c then S (leading_digits r) else O | [] => O end.
Definition split_trailing_digits (t : txt) : txt * txt :=
  let n := leading_digits (List.rev t) in
  (firstn (List.length t - n) t, skipn (List.length t - n) t).

Definition all_digits (t : txt) : bool := forallb is_digit t.
Definition nat_parse (t : txt) : option Z :=
  if all_digits t && negb (Nat.eqb (List.length t) 0)
  then option_map Z.of_int (NilZero.int_of_string (string_of_list_ascii t)) else None.
(* int() as used here: optional sign, digits (the grammar only produces digits) *)
Definition int_parse (t : txt) : option Z :=
  match t with
  | c :: r => if Ascii.eqb c "-" then option_map Z.opp (nat_parse r)
              else if Ascii.eqb c "+" then nat_parse r else nat_parse t
  | [] => None
  end.

Record spec := { s_chain : option txt; s_resname : option txt; s_resid : option Z }.

Inductive parsed := PSpec (s : spec) | PValueError.

Definition parse_residue_spec (t : txt) : parsed :=
  let '(chain, res) := match split_first "-" t with Some (a, b) => (Some a, b) | None => (None, t) end in
  let '(resname, resid) := match split_last "#" res with
                           | Some (a, b) => (a, b)
                           | None => split_trailing_digits res end in
  match resid with
  | [] => PSpec {| s_chain := chain; s_resname := match resname with [] => None | _ => Some resname end; s_resid := None |}
  | _ => match int_parse resid with
         | Some z => PSpec {| s_chain := chain; s_resname := match resname with [] => None | _ => Some resname end; s_resid := Some z |}
         | None => PValueError end
  end.

Definition z_str (z : Z) : txt := s2l (NilZero.string_of_int (Z.to_int z)).

(* _format_resname (without insertion code, which a request cannot carry) *)
Definition format_spec (s : spec) : txt :=
  (match s_chain s with Some c => match c with [] => [] | _ => c ++ ["-"%char] end | None => [] end)
  ++ (match s_resname s with Some n => n ++ (match List.rev n with c :: _ => if is_digit c then ["#"%char] else [] | [] => [] end) | None => [] end)
  ++ (match s_resid s with Some z => z_str z | None => [] end).

(* ---------- matching ---------- *)
Record residue := {
  r_chain : option txt; r_resid : option Z; r_resname : option txt;     (* common values of the atoms; None when absent/differing *)
  r_degree : nat; r_nbr_resid : Z;         (* degree in the residue graph; resid (default 0) of the first neighbour *)
  r_protein : bool;                        (* all atoms have a protein residue name *)
  r_atoms : list Z }.

Definition txt_eqb (a b : txt) : bool :=
  (fix go a b := match a, b with [], [] => true | x :: r, y :: s => Ascii.eqb x y && go r s | _, _ => false end) a b.
Definition opt_is {A} (f : A -> A -> bool) (want : option A) (have : option A) : bool :=
  match want with None => true | Some w => match have with Some h => f w h | None => false end end.

Definition nter : txt := s2l "nter".
Definition cter : txt := s2l "cter".

Definition terminal_matches (is_nter : bool) (r : residue) : bool :=
  let resid := match r_resid r with Some z => z | None => 0%Z end in
  r_protein r && (if is_nter then Z.ltb resid (r_nbr_resid r) else Z.ltb (r_nbr_resid r) resid).

Definition residue_matches (s : spec) (r : residue) : bool :=
  let kw := match s_resname s with Some n => if txt_eqb n nter then Some true else if txt_eqb n cter then Some false else None | None => None end in
  match kw, Nat.eqb (r_degree r) 1 with
  | Some is_nter, true =>
      terminal_matches is_nter r && opt_is txt_eqb (s_chain s) (r_chain r)      (* resname and resid of the request are dropped *)
  | _, _ =>
      opt_is txt_eqb (s_chain s) (r_chain r) && opt_is txt_eqb (s_resname s) (r_resname r)
      && opt_is Z.eqb (s_resid s) (r_resid r)
  end.

(* ---------- annotation of a system ---------- *)
Record request := { q_spec : spec; q_target : Z; q_known : bool; q_is_mutation : bool }.  (* q_known: target in the force field library or 'none' *)

Inductive outcome := Marked (marks : list (list (Z * list (bool * Z)))) (reported : list nat) | NameErr.

(* marks of one molecule: for every atom the (kind, target) labels in the order they are appended
   (modifications first, then mutations) *)
Definition mol_marks (rs : list residue) (reqs : list request) : option (list (Z * list (bool * Z))) :=
  let ordered := filter (fun q => negb (q_is_mutation q)) reqs ++ filter q_is_mutation reqs in
  if existsb (fun q => negb (q_known q) && existsb (residue_matches (q_spec q)) rs) ordered then None
  else Some (flat_map (fun r => map (fun a => (a, flat_map (fun q => if residue_matches (q_spec q) r then [(q_is_mutation q, q_target q)] else []) ordered))
                                    (r_atoms r)) rs).

Fixpoint opt_all {A} (l : list (option A)) : option (list A) :=
  match l with [] => Some [] | Some x :: r => option_map (cons x) (opt_all r) | None :: _ => None end.

Fixpoint seq_nat (i n : nat) : list nat := match n with O => [] | S k => i :: seq_nat (S i) k end.

(* run_system: a request that matches no residue of ANY molecule is reported *)
Definition run_system (mols : list (list residue)) (reqs : list request) : outcome :=
  match reqs with
  | [] => Marked (map (fun rs => flat_map (fun r => map (fun a => (a, [])) (r_atoms r)) rs) mols) []
  | _ =>
    match opt_all (map (fun rs => mol_marks rs reqs) mols) with
    | None => NameErr
    | Some ms =>
        Marked ms (filter (fun i => match nth_error reqs i with
                                    | Some q => negb (existsb (fun rs => existsb (residue_matches (q_spec q)) rs) mols)
                                    | None => false end) (seq_nat 0 (List.length reqs)))
    end
  end.
