From Coq Require Import List Bool ZArith String Ascii Lia.
From V Require Import C19.Model.
Import ListNotations.

Lemma txt_eqb_eq a : forall b, txt_eqb a b = true <-> a = b.
Proof.
  induction a as [|x a IH]; intros [|y b]; cbn; split; try discriminate; try reflexivity.
  - intros H. apply andb_prop in H as [H1 H2]. apply Ascii.eqb_eq in H1. apply IH in H2. congruence.
  - intros [= -> ->]. rewrite Ascii.eqb_refl. apply IH. reflexivity.
Qed.

(* ---------- what "matches" means, spelled out ---------- *)
Definition part_ok {A} (want have : option A) : Prop := match want with None => True | Some w => have = Some w end.

Lemma opt_is_txt want have : opt_is txt_eqb want have = true <-> part_ok want have.
Proof.
  unfold opt_is, part_ok. destruct want as [w|]; [|tauto]. destruct have as [h|]; [|split; [discriminate|discriminate]].
  rewrite txt_eqb_eq. split; [intros ->; reflexivity|intros [= ->]; reflexivity].
Qed.

Lemma opt_is_z want have : opt_is Z.eqb want have = true <-> part_ok want have.
Proof.
  unfold opt_is, part_ok. destruct want as [w|]; [|tauto]. destruct have as [h|]; [|split; [discriminate|discriminate]].
  rewrite Z.eqb_eq. split; [intros ->; reflexivity|intros [= ->]; reflexivity].
Qed.

Definition is_terminal_request (s : spec) : option bool :=
  match s_resname s with
  | Some n => if txt_eqb n nter then Some true else if txt_eqb n cter then Some false else None
  | None => None end.

(* a residue matches a request iff it agrees with every part that is given; for nter/cter on a
   residue with a single neighbour: a protein residue whose number is lower/higher than its
   neighbour's (and the chain, if given) *)
Lemma residue_matches_spec s r :
  residue_matches s r = true <->
  match is_terminal_request s, Nat.eqb (r_degree r) 1 with
  | Some is_nter, true =>
      r_protein r = true /\ part_ok (s_chain s) (r_chain r) /\
      let resid := match r_resid r with Some z => z | None => 0%Z end in
      if is_nter then (resid < r_nbr_resid r)%Z else (r_nbr_resid r < resid)%Z
  | _, _ => part_ok (s_chain s) (r_chain r) /\ part_ok (s_resname s) (r_resname r) /\ part_ok (s_resid s) (r_resid r)
  end.
Proof.
  unfold residue_matches, is_terminal_request.
  destruct (match s_resname s with Some n => _ | None => None end) as [b|] eqn:E; destruct (Nat.eqb (r_degree r) 1).
  - unfold terminal_matches. rewrite !andb_true_iff, opt_is_txt. destruct b; rewrite Z.ltb_lt; tauto.
  - rewrite !andb_true_iff, !opt_is_txt, opt_is_z. tauto.
  - rewrite !andb_true_iff, !opt_is_txt, opt_is_z. tauto.
  - rewrite !andb_true_iff, !opt_is_txt, opt_is_z. tauto.
Qed.

(* ---------- reporting ---------- *)
Lemma seq_nat_in i n x : In x (seq_nat i n) <-> (i <= x < i + n)%nat.
Proof. revert i. induction n as [|n IH]; intros i; cbn; [lia|]. rewrite IH. lia. Qed.

Definition matches_somewhere (mols : list (list residue)) (q : request) : Prop :=
  exists rs r, In rs mols /\ In r rs /\ residue_matches (q_spec q) r = true.

Lemma matches_somewhere_b mols q :
  existsb (fun rs => existsb (residue_matches (q_spec q)) rs) mols = true <-> matches_somewhere mols q.
Proof.
  unfold matches_somewhere. rewrite existsb_exists. split.
  - intros (rs & Hrs & H). apply existsb_exists in H as (r & Hr & Hm). eauto.
  - intros (rs & r & Hrs & Hr & Hm). exists rs. split; [exact Hrs|]. apply existsb_exists. eauto.
Qed.

(* every request that matches no residue of the whole system is reported, and only those *)
Lemma unmatched_is_reported_lemma mols reqs ms reported :
  run_system mols reqs = Marked ms reported ->
  forall i q, nth_error reqs i = Some q -> (In i reported <-> ~ matches_somewhere mols q).
Proof.
  unfold run_system. destruct reqs as [|q0 rest]; [intros _ i q H; destruct i; discriminate|].
  remember (q0 :: rest) as R eqn:ER. clear ER.
  destruct (opt_all _) as [ms'|]; [|discriminate]. intros H i q Hq. injection H as <- <-.
  rewrite filter_In, seq_nat_in, Hq, negb_true_iff. split.
  - intros [_ H] Hm. apply matches_somewhere_b in Hm. congruence.
  - intros Hn. split.
    + split; [lia|]. apply nth_error_Some. congruence.
    + destruct (existsb _ mols) eqn:E; [|reflexivity]. apply matches_somewhere_b in E. contradiction.
Qed.

(* an unknown target that matches somewhere is an error *)
Lemma opt_all_none {A} (l : list (option A)) : In None l -> opt_all l = None.
Proof.
  induction l as [|x r IH]; cbn; [tauto|]. intros [->|H]; [reflexivity|]. destruct x; [rewrite IH by exact H|]; reflexivity.
Qed.

Lemma unknown_target_is_error_lemma mols reqs q rs r :
  In q reqs -> q_known q = false -> In rs mols -> In r rs -> residue_matches (q_spec q) r = true ->
  run_system mols reqs = NameErr.
Proof.
  intros Hq Hk Hrs Hr Hm. unfold run_system. destruct reqs as [|q0 rest]; [destruct Hq|].
  rewrite opt_all_none; [reflexivity|]. apply in_map_iff. exists rs. split; [|exact Hrs].
  unfold mol_marks.
  assert (E : existsb (fun q1 => negb (q_known q1) && existsb (residue_matches (q_spec q1)) rs)
                      (filter (fun q1 => negb (q_is_mutation q1)) (q0 :: rest) ++ filter q_is_mutation (q0 :: rest)) = true).
  { apply existsb_exists. exists q. split.
    - apply in_or_app. destruct (q_is_mutation q) eqn:Em; [right|left]; apply filter_In; split; auto. rewrite Em; reflexivity.
    - rewrite Hk. cbn. apply existsb_exists. eauto. }
  rewrite E. reflexivity.
Qed.

(* the labels of an atom are exactly the requests that match its residue: all atoms of a
   residue get the same labels, and a residue that matches nothing gets none *)
Lemma marks_iff_matches_lemma rs reqs ms :
  mol_marks rs reqs = Some ms ->
  forall a labels, In (a, labels) ms ->
  exists r, In r rs /\ In a (r_atoms r) /\
    forall kind target, In (kind, target) labels <->
      exists q, In q reqs /\ q_is_mutation q = kind /\ q_target q = target /\ residue_matches (q_spec q) r = true.
Proof.
  unfold mol_marks. destruct (existsb _ _); [discriminate|]. intros [= <-] a labels Hin.
  apply in_flat_map in Hin as (r & Hr & Hin). apply in_map_iff in Hin as (a' & Heq & Ha). injection Heq as -> <-.
  exists r. split; [exact Hr|]. split; [exact Ha|]. intros kind target. rewrite in_flat_map. split.
  - intros (q & Hq & H). destruct (residue_matches (q_spec q) r) eqn:E; [|destruct H]. destruct H as [[= <- <-]|[]].
    exists q. split; [|auto]. apply in_app_iff in Hq as [Hq|Hq]; apply filter_In in Hq; tauto.
  - intros (q & Hq & Hk & Ht & Hm). exists q. split.
    + apply in_or_app. destruct (q_is_mutation q) eqn:Em; [right|left]; apply filter_In; split; auto. rewrite Em; reflexivity.
    + rewrite Hm, Hk, Ht. left; reflexivity.
Qed.
