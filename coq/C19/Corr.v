(* C19 — case type and the two boolean functions evaluated on generated cases. *)
From Coq Require Import List Bool ZArith String Ascii.
From V Require Import C19.Model.
Import ListNotations.

Fixpoint list_eqb {A B} (f : A -> B -> bool) (a : list A) (b : list B) : bool :=
  match a, b with [], [] => true | x :: r, y :: s => f x y && list_eqb f r s | _, _ => false end.
Definition opt_eqb {A} (f : A -> A -> bool) (a b : option A) : bool :=
  match a, b with Some x, Some y => f x y | None, None => true | _, _ => false end.

Definition spec_eqb (a b : spec) : bool :=
  opt_eqb txt_eqb (s_chain a) (s_chain b) && opt_eqb txt_eqb (s_resname a) (s_resname b) && opt_eqb Z.eqb (s_resid a) (s_resid b).

Definition label_eqb (a b : bool * Z) : bool := Bool.eqb (fst a) (fst b) && Z.eqb (snd a) (snd b).
Definition mark_eqb (a b : Z * list (bool * Z)) : bool := Z.eqb (fst a) (fst b) && list_eqb label_eqb (snd a) (snd b).

Inductive case :=
| CParse (s : string) (impl : option spec)                   (* None: ValueError *)
| CSys (mols : list (list residue)) (reqs : list request)    (* q_spec: the parts the request was written from *)
       (strings : list string)                                   (* the specification strings given to the implementation *)
       (impl : option (list (list (Z * list (bool * Z))) * list nat)).   (* None: NameError; marks in node order, reported request indices *)

(* marks are compared per atom, independent of the order in which atoms are listed *)
Definition marks_same (a b : list (Z * list (bool * Z))) : bool :=
  Nat.eqb (List.length a) (List.length b)
  && forallb (fun x => existsb (mark_eqb x) b) a.

Definition corr (k : case) : bool :=
  match k with
  | CParse s impl =>
      match parse_residue_spec (s2l s), impl with
      | PSpec m, Some i => spec_eqb m i
      | PValueError, None => true
      | _, _ => false
      end
  | CSys mols reqs strings impl =>
      (* the model's parser recovers the intended parts from the strings *)
      list_eqb (fun q st => match parse_residue_spec (s2l st) with PSpec m => spec_eqb m (q_spec q) | PValueError => false end) reqs strings &&
      match run_system mols reqs, impl with
      | Marked ms rep, Some (ims, irep) => list_eqb marks_same ms ims && list_eqb Nat.eqb rep irep
      | NameErr, None => true
      | _, _ => false
      end
  end.

(* the property on the implementation's output, request by request and residue by residue *)
Definition prop (k : case) : bool :=
  match k with
  | CParse s impl =>
      (* whatever is parsed must spell the input back: [chain-][resname][#][digits = resid] *)
      match impl with
      | None => true
      | Some sp =>
          let t := s2l s in
          let rest := match s_chain sp with
                      | Some c => match split_first "-" t with Some (a, b) => if txt_eqb a c then Some b else None | None => None end
                      | None => match split_first "-" t with Some _ => None | None => Some t end end in
          match rest with
          | None => false
          | Some r =>
              let n := match s_resname sp with Some n => n | None => [] end in
              if txt_eqb (firstn (List.length n) r) n then
                let r1 := skipn (List.length n) r in
                let r2 := match r1 with c :: r' => if Ascii.eqb c "#" then r' else r1 | [] => r1 end in
                match s_resid sp with
                | Some z => match int_parse r2 with Some z' => Z.eqb z z' | None => false end
                | None => match r2 with [] => true | _ => false end
                end
              else false
          end
      end
  | CSys mols reqs _ impl =>
      match impl with
      | None => existsb (fun q => negb (q_known q) && existsb (fun rs => existsb (residue_matches (q_spec q)) rs) mols) reqs
      | Some (ims, irep) =>
          list_eqb (fun rs ims1 =>
             forallb (fun r => forallb (fun a =>
                match find (fun m => Z.eqb (fst m) a) ims1 with
                | Some (_, labels) =>
                    (* marked with q iff q matches, on every atom *)
                    forallb (fun q => Bool.eqb (existsb (label_eqb (q_is_mutation q, q_target q)) labels)
                                               (existsb (fun q' => label_eqb (q_is_mutation q, q_target q) (q_is_mutation q', q_target q')
                                                                   && residue_matches (q_spec q') r) reqs)) reqs
                    && forallb (fun l => existsb (fun q => label_eqb l (q_is_mutation q, q_target q)) reqs) labels
                | None => false end) (r_atoms r)) rs) mols ims
          && forallb (fun i => match nth_error reqs i with
                               | Some q => Bool.eqb (existsb (Nat.eqb i) irep)
                                                    (negb (existsb (fun rs => existsb (residue_matches (q_spec q)) rs) mols))
                               | None => true end) (seq_nat 0 (List.length reqs))
      end
  end.
