(* C19 — a residue specification spelled out by _format_resname is read back by parse_residue_spec as itself. *)
From Coq Require Import List Bool ZArith String Ascii DecimalString Decimal DecimalZ DecimalPos Lia.
From V Require Import C19.Model.
Import ListNotations.

Lemma split_first_app sep a b : ~ In sep a -> split_first sep (a ++ sep :: b) = Some (a, b).
Proof.
  induction a as [|c r IH]; intros Hn; cbn.
  - rewrite Ascii.eqb_refl. reflexivity.
  - destruct (Ascii.eqb_spec c sep) as [->|Hne]; [exfalso; apply Hn; left; reflexivity|].
    rewrite IH; [reflexivity|]. intros H. apply Hn. right. exact H.
Qed.

Lemma split_first_none sep t : ~ In sep t -> split_first sep t = None.
Proof.
  induction t as [|c r IH]; intros Hn; cbn; [reflexivity|].
  destruct (Ascii.eqb_spec c sep) as [->|Hne]; [exfalso; apply Hn; left; reflexivity|].
  rewrite IH; [reflexivity|]. intros H. apply Hn. right. exact H.
Qed.

Lemma split_last_app sep a b : ~ In sep b -> split_last sep (a ++ sep :: b) = Some (a, b).
Proof.
  intros Hn. unfold split_last. rewrite rev_app_distr. cbn [List.rev]. rewrite <- app_assoc. cbn [app].
  change ([sep] ++ List.rev a) with (sep :: List.rev a).
  rewrite split_first_app by (rewrite <- in_rev; exact Hn). rewrite !rev_involutive. reflexivity.
Qed.

Lemma split_last_none sep t : ~ In sep t -> split_last sep t = None.
Proof. intros Hn. unfold split_last. rewrite split_first_none by (rewrite <- in_rev; exact Hn). reflexivity. Qed.

Lemma leading_digits_app ds r : all_digits ds = true -> (match r with c :: _ => is_digit c = false | [] => True end) ->
  leading_digits (ds ++ r) = List.length ds.
Proof.
  induction ds as [|d ds IH]; intros Hd Hr; cbn.
  - destruct r as [|c r']; [reflexivity|]. cbn. rewrite Hr. reflexivity.
  - cbn in Hd. apply andb_true_iff in Hd as [H1 H2]. rewrite H1. f_equal. apply IH; assumption.
Qed.

Lemma all_digits_rev ds : all_digits (List.rev ds) = all_digits ds.
Proof.
  unfold all_digits. induction ds as [|d r IH]; cbn; [reflexivity|]. rewrite forallb_app, IH. cbn. rewrite andb_true_r. apply andb_comm.
Qed.

(* name ++ digits splits back, provided the name does not end in a digit *)
Lemma split_trailing_app n ds : all_digits ds = true -> (match List.rev n with c :: _ => is_digit c = false | [] => True end) ->
  split_trailing_digits (n ++ ds) = (n, ds).
Proof.
  intros Hd Hn. unfold split_trailing_digits. rewrite rev_app_distr.
  rewrite leading_digits_app; [|rewrite all_digits_rev; exact Hd|exact Hn].
  rewrite rev_length, app_length. replace (List.length n + List.length ds - List.length ds)%nat with (List.length n) by lia.
  rewrite firstn_app, firstn_all, Nat.sub_diag, skipn_app, skipn_all, Nat.sub_diag. cbn. rewrite app_nil_r. reflexivity.
Qed.

(* decimal spelling of a non-negative number: digits only, at least one, read back as the number *)
Lemma uint_digits d : all_digits (s2l (NilEmpty.string_of_uint d)) = true.
Proof. unfold all_digits, s2l. induction d; cbn; try reflexivity; exact IHd. Qed.

Lemma z_str_spec z : (0 <= z)%Z -> all_digits (z_str z) = true /\ z_str z <> [] /\ int_parse (z_str z) = Some z.
Proof.
  intros Hz. unfold z_str.
  assert (Hpos : exists d, Z.to_int z = Pos d /\ d <> Nil).
  { destruct z as [|p|p]; [exists (D0 Nil); split; [reflexivity|discriminate]| |lia].
    exists (Pos.to_uint p). split; [reflexivity|]. intros H.
    assert (X : Pos.of_uint (Pos.to_uint p) = N.pos p) by apply DecimalPos.Unsigned.of_to. rewrite H in X. discriminate. }
  destruct Hpos as (d & Ed & Hd). rewrite Ed. cbn [NilZero.string_of_int].
  assert (Es : NilZero.string_of_uint d = NilEmpty.string_of_uint d) by (destruct d; [contradiction|reflexivity..]).
  rewrite Es. split; [apply uint_digits|]. split.
  - destruct d; [contradiction|discriminate..].
  - assert (Hall : all_digits (s2l (NilEmpty.string_of_uint d)) = true) by apply uint_digits.
    assert (Hne : s2l (NilEmpty.string_of_uint d) <> []) by (destruct d; [contradiction|discriminate..]).
    unfold int_parse. destruct (s2l (NilEmpty.string_of_uint d)) as [|c r] eqn:El; [contradiction|].
    assert (Hc : is_digit c = true) by (cbn in Hall; apply andb_true_iff in Hall; tauto).
    assert (Hm : Ascii.eqb c "-" = false) by (destruct (Ascii.eqb_spec c "-") as [->|]; [discriminate|reflexivity]).
    assert (Hp : Ascii.eqb c "+" = false) by (destruct (Ascii.eqb_spec c "+") as [->|]; [discriminate|reflexivity]).
    rewrite Hm, Hp. unfold nat_parse. rewrite Hall. cbn [andb List.length Nat.eqb negb].
    rewrite <- El. unfold s2l. rewrite string_of_list_ascii_of_string.
    rewrite <- Es. change (NilZero.string_of_uint d) with (NilZero.string_of_int (Pos d)).
    rewrite NilZero.isi; [|intros [= ->]; contradiction|discriminate]. cbn [option_map]. rewrite <- Ed, DecimalZ.of_to. reflexivity.
Qed.

Definition dash : ascii := "-"%char.
Definition hash : ascii := "#"%char.

Definition wf_spec (s : spec) : Prop :=
  (match s_chain s with Some c => c <> [] /\ ~ In dash c | None => True end) /\
  (match s_resname s with Some n => n <> [] /\ ~ In dash n /\ ~ In hash n | None => True end) /\
  (match s_resid s with Some z => (0 <= z)%Z | None => True end).

Lemma digits_no c ds : all_digits ds = true -> is_digit c = false -> ~ In c ds.
Proof.
  unfold all_digits. rewrite forallb_forall. intros H Hc Hin. specialize (H c Hin). congruence.
Qed.

(* the part after the chain *)
Definition tail_of (s : spec) : txt :=
  (match s_resname s with Some n => n ++ (match List.rev n with c :: _ => if is_digit c then [hash] else [] | [] => [] end) | None => [] end)
  ++ (match s_resid s with Some z => z_str z | None => [] end).

Definition name_part (rn : option txt) : txt :=
  match rn with Some n => n ++ (match List.rev n with c :: _ => if is_digit c then [hash] else [] | [] => [] end) | None => [] end.

Lemma tail_gen (rn : option txt) (ds : txt) :
  (match rn with Some n => n <> [] /\ ~ In dash n /\ ~ In hash n | None => True end) -> all_digits ds = true ->
  (match split_last hash (name_part rn ++ ds) with Some (a, b) => (a, b) | None => split_trailing_digits (name_part rn ++ ds) end)
  = (match rn with Some n => n | None => [] end, ds).
Proof.
  intros Hn Hds. assert (Hnh : ~ In hash ds) by (apply digits_no; [exact Hds|reflexivity]). unfold name_part.
  destruct rn as [n|].
  - destruct Hn as (Hne & _ & Hnohash). destruct (List.rev n) as [|c r] eqn:Er.
    { destruct n; [contradiction|]. apply (f_equal (@List.length _)) in Er. rewrite rev_length in Er. discriminate. }
    destruct (is_digit c) eqn:Ec.
    + replace ((n ++ [hash]) ++ ds) with (n ++ hash :: ds) by (rewrite <- app_assoc; reflexivity).
      rewrite split_last_app by exact Hnh. reflexivity.
    + rewrite app_nil_r. rewrite split_last_none.
      * rewrite split_trailing_app; [reflexivity|exact Hds|rewrite Er; exact Ec].
      * rewrite in_app_iff. tauto.
  - cbn [app]. rewrite split_last_none by exact Hnh. rewrite <- (app_nil_l ds) at 1. rewrite split_trailing_app; [reflexivity|exact Hds|exact I].
Qed.

Lemma tail_parse s : wf_spec s ->
  (match split_last hash (tail_of s) with Some (a, b) => (a, b) | None => split_trailing_digits (tail_of s) end)
  = (match s_resname s with Some n => n | None => [] end, match s_resid s with Some z => z_str z | None => [] end).
Proof.
  intros (_ & Hn & Hz). apply (tail_gen (s_resname s) (match s_resid s with Some z => z_str z | None => [] end) Hn).
  destruct (s_resid s) as [z|]; [apply z_str_spec; exact Hz|reflexivity].
Qed.

Definition chain_part (ch : option txt) : txt := match ch with Some c => c ++ [dash] | None => [] end.

Lemma parse_gen (ch : option txt) (tl rn ds : txt) :
  (match ch with Some c => ~ In dash c | None => True end) -> ~ In dash tl ->
  (match split_last hash tl with Some (a, b) => (a, b) | None => split_trailing_digits tl end) = (rn, ds) ->
  parse_residue_spec (chain_part ch ++ tl) =
  match ds with
  | [] => PSpec {| s_chain := ch; s_resname := match rn with [] => None | _ => Some rn end; s_resid := None |}
  | _ => match int_parse ds with
         | Some z => PSpec {| s_chain := ch; s_resname := match rn with [] => None | _ => Some rn end; s_resid := Some z |}
         | None => PValueError end
  end.
Proof.
  intros Hc Htl Hsplit. unfold parse_residue_spec. change "-"%char with dash. change "#"%char with hash.
  assert (E : split_first dash (chain_part ch ++ tl) = match ch with Some c => Some (c, tl) | None => None end).
  { unfold chain_part. destruct ch as [c|].
    - replace ((c ++ [dash]) ++ tl) with (c ++ dash :: tl) by (rewrite <- app_assoc; reflexivity). apply split_first_app. exact Hc.
    - cbn [app]. apply split_first_none. exact Htl. }
  rewrite E. destruct ch as [c|].
  - destruct (split_last hash tl) as [[a b]|] eqn:Es.
    + injection Hsplit as -> ->. reflexivity.
    + destruct (split_trailing_digits tl) as [a b] eqn:Et. injection Hsplit as -> ->. reflexivity.
  - unfold chain_part. change ([] ++ tl) with tl. destruct (split_last hash tl) as [[a b]|] eqn:Es.
    + injection Hsplit as -> ->. reflexivity.
    + destruct (split_trailing_digits tl) as [a b] eqn:Et. injection Hsplit as -> ->. reflexivity.
Qed.

Theorem parse_format_roundtrip s : wf_spec s -> parse_residue_spec (format_spec s) = PSpec s.
Proof.
  intros Hwf. pose proof (tail_parse s Hwf) as Ht. destruct Hwf as (Hc & Hn & Hz).
  assert (Hfmt : format_spec s = chain_part (s_chain s) ++ tail_of s).
  { unfold format_spec, tail_of, chain_part. destruct (s_chain s) as [c|]; [|rewrite app_assoc; reflexivity]. destruct Hc as [Hne _].
    destruct c; [contradiction|]. rewrite !app_assoc. reflexivity. }
  assert (Htd : ~ In dash (tail_of s)).
  { unfold tail_of. rewrite in_app_iff. intros [H|H].
    - destruct (s_resname s) as [n|]; [|destruct H]. apply in_app_iff in H as [H|H]; [destruct Hn as (_ & Hd & _); contradiction|].
      destruct (List.rev n) as [|c r]; [destruct H|]. destruct (is_digit c); [destruct H as [E|[]]; discriminate|destruct H].
    - destruct (s_resid s) as [z|]; [|destruct H]. revert H. apply digits_no; [apply z_str_spec; exact Hz|reflexivity]. }
  assert (Hc' : match s_chain s with Some c => ~ In dash c | None => True end) by (destruct (s_chain s); tauto).
  rewrite Hfmt, (parse_gen (s_chain s) (tail_of s) _ _ Hc' Htd Ht). clear Hfmt Htd Ht Hc'.
  destruct s as [ch rn ri]. cbn [s_chain s_resname s_resid] in *.
  destruct ri as [z|].
  - destruct (z_str_spec z Hz) as (_ & Hne & Hp). destruct (z_str z) as [|d ds] eqn:Ez; [contradiction|]. rewrite Hp.
    destruct rn as [n|]; [destruct Hn as [Hnn _]; destruct n; [contradiction|reflexivity]|reflexivity].
  - destruct rn as [n|]; [destruct Hn as [Hnn _]; destruct n; [contradiction|reflexivity]|reflexivity].
Qed.
