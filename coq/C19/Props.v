(* C19 — property theorems only. *)
From Coq Require Import List Bool ZArith String Ascii.
From V Require Import C19.Model C19.Proofs C19.RoundTrip.
Import ListNotations.

(* A residue matches a request iff it agrees with every part that is given (chain, residue
   name, residue number); 'nter'/'cter' on a residue with exactly one neighbour mean a protein
   residue whose number is lower/higher than the neighbour's. *)
Theorem residue_matches_iff : forall s r,
  residue_matches s r = true <->
  match is_terminal_request s, Nat.eqb (r_degree r) 1 with
  | Some is_nter, true =>
      r_protein r = true /\ part_ok (s_chain s) (r_chain r) /\
      let resid := match r_resid r with Some z => z | None => 0%Z end in
      if is_nter then (resid < r_nbr_resid r)%Z else (r_nbr_resid r < resid)%Z
  | _, _ => part_ok (s_chain s) (r_chain r) /\ part_ok (s_resname s) (r_resname r) /\ part_ok (s_resid s) (r_resid r)
  end.
Proof. exact residue_matches_spec. Qed.
Print Assumptions residue_matches_iff.

(* The labels an atom carries are exactly the requests matching its residue: every matching
   residue is marked on ALL its atoms, no other residue is. *)
Theorem marks_iff_matches : forall rs reqs ms,
  mol_marks rs reqs = Some ms ->
  forall a labels, In (a, labels) ms ->
  exists r, In r rs /\ In a (r_atoms r) /\
    forall kind target, In (kind, target) labels <->
      exists q, In q reqs /\ q_is_mutation q = kind /\ q_target q = target /\ residue_matches (q_spec q) r = true.
Proof. exact marks_iff_matches_lemma. Qed.
Print Assumptions marks_iff_matches.

(* A request that matches no residue in the whole system is reported, and only such. *)
Theorem unmatched_is_reported : forall mols reqs ms reported,
  run_system mols reqs = Marked ms reported ->
  forall i q, nth_error reqs i = Some q -> (In i reported <-> ~ matches_somewhere mols q).
Proof. exact unmatched_is_reported_lemma. Qed.
Print Assumptions unmatched_is_reported.

(* A request whose target block / modification is unknown and that matches somewhere is an error. *)
Theorem unknown_target_is_error : forall mols reqs q rs r,
  In q reqs -> q_known q = false -> In rs mols -> In r rs -> residue_matches (q_spec q) r = true ->
  run_system mols reqs = NameErr.
Proof. exact unknown_target_is_error_lemma. Qed.
Print Assumptions unknown_target_is_error.

(* A request spelled the way the program itself spells residues is read back as itself: chain without '-', residue
   name without '-' and '#', non-negative residue number ('#' is inserted when the name ends in a digit). *)
Theorem spelled_request_reads_back : forall s, wf_spec s -> parse_residue_spec (format_spec s) = PSpec s.
Proof. exact parse_format_roundtrip. Qed.
Print Assumptions spelled_request_reads_back.

Local Open Scope string_scope.
Example nonvacuous :
  parse_residue_spec (s2l "A-PHE45") = PSpec {| s_chain := Some (s2l "A"); s_resname := Some (s2l "PHE"); s_resid := Some 45%Z |} /\
  parse_residue_spec (s2l "PO4#2") = PSpec {| s_chain := None; s_resname := Some (s2l "PO4"); s_resid := Some 2%Z |} /\
  parse_residue_spec (s2l "PO4") = PSpec {| s_chain := None; s_resname := Some (s2l "PO"); s_resid := Some 4%Z |} /\
  parse_residue_spec (s2l "nter") = PSpec {| s_chain := None; s_resname := Some (s2l "nter"); s_resid := None |} /\
  parse_residue_spec (s2l "B-#x") = PValueError /\
  let R := fun ch id nm deg nb prot atoms => {| r_chain := Some (s2l ch); r_resid := Some id; r_resname := Some (s2l nm);
                                             r_degree := deg; r_nbr_resid := nb; r_protein := prot; r_atoms := atoms |} in
  let mol := [R "A" 1 "MET" 1%nat 2 true [10; 11]; R "A" 2 "PHE" 2%nat 1 true [12]; R "A" 3 "GLY" 1%nat 2 true [13]]%Z in
  let q1 := {| q_spec := {| s_chain := None; s_resname := Some nter; s_resid := None |}; q_target := 1; q_known := true; q_is_mutation := false |} in
  let q2 := {| q_spec := {| s_chain := Some (s2l "A"); s_resname := Some (s2l "PHE"); s_resid := Some 45 |}; q_target := 2; q_known := true; q_is_mutation := true |}%Z in
  run_system [mol] [q2; q1] =
    Marked [[(10, [(false, 1)]); (11, [(false, 1)]); (12, []); (13, [])]]%Z [0%nat].
Proof. vm_compute. repeat split. Qed.
