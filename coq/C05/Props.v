(* C05 — property theorems only. *)
From Coq Require Import List Bool ZArith.
From V Require Import C05.Model C05.Proofs C05.Fast.
Import ListNotations.
Open Scope Z_scope.

(* match_order decides exactly the relation of its documentation table: numbers fix the residue-number difference,
   0 against a run of '>' / '<' fixes the direction, runs of '>'/'<' compare by length, '*' runs name residues other
   than 0 that are equal exactly when the runs are equal; everything else is unconstrained. *)
Theorem match_order_is_table : forall o1 r1 o2 r2, match_order o1 r1 o2 r2 = true <-> order_rel o1 r1 o2 r2.
Proof. exact match_order_spec. Qed.
Print Assumptions match_order_is_table.

(* ... and it does not matter which of two link atoms is looked at first *)
Theorem match_order_symmetric : forall o1 r1 o2 r2, match_order o1 r1 o2 r2 = match_order o2 r2 o1 r1.
Proof. exact match_order_sym. Qed.
Print Assumptions match_order_symmetric.

(* The placements that are tried are exactly the assignments of pairwise distinct atoms of the molecule to the link's atoms *)
Theorem placements_are_all_injective_assignments : forall L m p,
  In p (placements L m) <->
  exists img, p = combine (map l_key (lnodes L)) img /\ List.length img = List.length (lnodes L)
              /\ NoDup img /\ incl img (map m_key (nodes m)).
Proof. exact placements_spec. Qed.
Print Assumptions placements_are_all_injective_assignments.

(* ... and a placement is used exactly when it satisfies every condition of the link *)
Theorem matches_exactly_where_it_fits : forall L m p,
  In p (matches L m) <-> In p (placements L m) /\ fits L m p = true.
Proof. exact matches_spec. Qed.
Print Assumptions matches_exactly_where_it_fits.

Theorem fits_conditions : forall L m p,
  fits L m p = true <->
  attributes_match (meta m) (molmeta L) = true /\
  (forall n, In n (lnodes L) -> node_ok m p n = true) /\
  induced_ok L m p = true /\ non_edges_ok L m p = true /\ patterns_ok L m p = true /\ orders_ok L m p = true.
Proof. exact fits_spec. Qed.
Print Assumptions fits_conditions.

Theorem attribute_conditions : forall a t,
  attributes_match a t = true <->
  forall k q, In (k, q) t ->
    match q with
    | PEq v => aget a k = Some v
    | PChoice vs => exists x, aget a k = Some x /\ In x vs
    | PNot v => aget a k <> Some v
    | PList _ => False
    end.
Proof. intros a t. rewrite attributes_match_spec. split; intros H k q Hin; apply pred_ok_spec; apply H; exact Hin. Qed.
Print Assumptions attribute_conditions.

(* required and absent bonds among the matched atoms *)
Theorem bonds_among_matched_atoms : forall L m p,
  induced_ok L m p = true ->
  forall a b, In a (lnodes L) -> In b (lnodes L) ->
  exists x y, pget p (l_key a) = Some x /\ pget p (l_key b) = Some y /\
              has_edge (ledges L) (l_key a) (l_key b) = has_edge (edges m) x y.
Proof. exact induced_ok_spec. Qed.
Print Assumptions bonds_among_matched_atoms.

Theorem residue_orders_respected : forall L m p,
  orders_ok L m p = true ->
  forall a b, In a (lnodes L) -> In b (lnodes L) ->
    (l_order a = l_order b -> resid_of m p a = resid_of m p b) /\
    (l_order a <> l_order b -> order_rel (l_order a) (resid_of m p a) (l_order b) (resid_of m p b)).
Proof. exact orders_ok_spec. Qed.
Print Assumptions residue_orders_respected.

(* the link's interactions are present on the matched atoms right after the placement is applied (or a later
   interaction of the same link with the same atoms and version replaced it) *)
Theorem interactions_present : forall L m p t i,
  In (t, i) (linters L) ->
  exists i', In (t, i') (linters L) /\ ident (inst p i') = ident (inst p i) /\ In (inst p i') (iget (inters (apply_match L m p)) t).
Proof. exact apply_match_present. Qed.
Print Assumptions interactions_present.

(* later overrides earlier for the same atoms and version *)
Theorem later_overrides_earlier : forall p adds d t i j,
  NoDup (map ident (iget d t)) -> In (t, i) adds ->
  In j (iget (do_adds p adds d) t) -> ident j = ident (inst p i) ->
  exists i', In (t, i') adds /\ j = inst p i'.
Proof. exact do_adds_overrides. Qed.
Print Assumptions later_overrides_earlier.

(* a removal takes effect *)
Theorem removal_takes_effect : forall m l atoms r j,
  NoDup (map i_atoms l) -> In j (remove_first_match m l atoms r) -> removal_matches m j atoms r = false.
Proof. exact rfm_removed. Qed.
Print Assumptions removal_takes_effect.

(* no interaction without a placement that justifies it *)
Theorem no_unjustified_interaction : forall Ls m t j,
  In j (iget (inters (do_links Ls m)) t) ->
  In j (iget (inters m) t) \/
  exists Ls1 L Ls2 p i, Ls = Ls1 ++ L :: Ls2 /\
    In p (matches L (fst (fold_left (fun ms L => apply_link L ms) Ls1 (m, [])))) /\ In (t, i) (linters L) /\ j = inst p i.
Proof. intros Ls m t j. unfold do_links. apply (do_links_origin_gen Ls (m, [])). Qed.
Print Assumptions no_unjustified_interaction.

(* the pruned enumeration used on shipped force fields finds exactly the same placements *)
Theorem pruned_enumeration_same : forall L m p,
  NoDup (map l_key (lnodes L)) -> NoDup (map m_key (nodes m)) ->
  (In p (matches_fast L m) <-> In p (matches L m)).
Proof. exact matches_fast_same. Qed.
Print Assumptions pruned_enumeration_same.

(* non-vacuity: an angle link  -BB BB +BB  on a 4-residue chain with a numbering gap fits at exactly one place *)
Definition ex_node k r := {| m_key := k; m_resid := r; m_attrs := [(1, 7)]; m_mods := [] |}.
Definition ex_mol := {| nodes := [ex_node 0 1; ex_node 1 2; ex_node 2 3; ex_node 3 5];
                        edges := [(0, 1); (1, 2); (2, 3)]; inters := []; meta := [] |}.
Definition ex_ln k o := {| l_key := k; l_order := o; l_tmpl := [(1, PEq 7)]; l_replace := None |}.
Definition ex_link := {| lnodes := [ex_ln 10 (ONum (-1)); ex_ln 11 (ONum 0); ex_ln 12 (ONum 1)];
                         ledges := [(10, 11); (11, 12)]; non_edges := []; patterns := []; molmeta := [];
                         linters := [(2, {| i_atoms := [10; 11; 12]; i_params := [5]; i_meta := [] |})]; lremoved := [] |}.
Example ex_matches : matches ex_link ex_mol = [[(10, 0); (11, 1); (12, 2)]].
Proof. vm_compute. reflexivity. Qed.
Example ex_result : iget (inters (do_links [ex_link] ex_mol)) 2 = [{| i_atoms := [0; 1; 2]; i_params := [5]; i_meta := [] |}].
Proof. vm_compute. reflexivity. Qed.
