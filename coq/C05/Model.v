(* C05 — model of vermouth/processors/do_links.py: _interpret_order / match_order (l.88-237),
   _atoms_match + molecule.attributes_match with Choice / NotDefinedOrNot, _is_valid_non_edges,
   _pattern_match, match_link (l.240-280; networkx's VF2 is replaced by an exhaustive enumeration of
   injective placements filtered by the induced-subgraph condition) and DoLinks.run_molecule (l.297-330).
   Attribute values are integers; parameters are opaque tags (geometry-derived parameters are
   checked numerically by the harness). *)
From Coq Require Import List Bool ZArith Lia.
Import ListNotations.
Open Scope Z_scope.

(* ---------- residue order ---------- *)
Inductive order := ONum (z : Z) | OAngle (n : Z) | OStar (n : Z).
  (* OAngle n: n > 0 is a run of n '>' , n < 0 a run of |n| '<' ; OStar n: a run of n '*' *)

Definition sgn (z : Z) : Z := Z.sgn z.

(* match_order(order1, resid1, order2, resid2) *)
Definition match_order (o1 : order) (r1 : Z) (o2 : order) (r2 : Z) : bool :=
  match o1, o2 with
  | ONum a, ONum b => Z.eqb (b - a) (r2 - r1)
  | ONum a, OAngle b => if Z.eqb a 0 then Z.eqb (sgn (r2 - r1)) (sgn b) else true
  | ONum a, OStar _ => if Z.eqb a 0 then negb (Z.eqb r1 r2) else true
  | OAngle a, ONum b => if Z.eqb b 0 then Z.eqb (sgn (r1 - r2)) (sgn a) else true
  | OAngle a, OAngle b => Z.eqb (sgn (r2 - r1)) (sgn (b - a))
  | OAngle _, OStar _ => true
  | OStar _, ONum b => if Z.eqb b 0 then negb (Z.eqb r1 r2) else true
  | OStar a, OStar b => Bool.eqb (Z.eqb a b) (Z.eqb r1 r2)
  | OStar _, OAngle _ => true
  end.

Definition order_eqb (a b : order) : bool :=
  match a, b with
  | ONum x, ONum y | OAngle x, OAngle y | OStar x, OStar y => Z.eqb x y
  | _, _ => false
  end.

(* ---------- attributes ---------- *)
Inductive pred := PEq (v : Z) | PChoice (vs : list Z) | PNot (v : Z)
  | PList (vs : list Z).      (* only for the 'modifications' attribute: the exact list of modification names *)
Definition attrs := list (Z * Z).
Definition tmpl := list (Z * pred).

Fixpoint aget (a : attrs) (k : Z) : option Z :=
  match a with [] => None | (j, v) :: r => if Z.eqb j k then Some v else aget r k end.

Definition pred_ok (a : attrs) (k : Z) (p : pred) : bool :=
  match p, aget a k with
  | PEq v, Some x => Z.eqb x v
  | PEq _, None => false
  | PChoice vs, Some x => existsb (Z.eqb x) vs
  | PChoice _, None => false
  | PNot v, Some x => negb (Z.eqb x v)
  | PNot _, None => true
  | PList _, _ => false
  end.

Definition attributes_match (a : attrs) (t : tmpl) : bool := forallb (fun kp => pred_ok a (fst kp) (snd kp)) t.

(* _atoms_match (do_links.py l.27-53): the template's 'modifications' entry (attribute key 7) is compared with the names
   of ALL modifications of the atom: absent = no condition; empty = the atom must have none; a list = exactly these
   names; a single value / Choice / NotDefinedOrNot = every modification of the atom must satisfy it (and there must be
   at least one) *)
Definition mods_key : Z := 7.
Fixpoint insertZ (x : Z) (l : list Z) : list Z := match l with [] => [x] | y :: r => if Z.leb x y then x :: y :: r else y :: insertZ x r end.
Definition sortZ (l : list Z) : list Z := fold_right insertZ [] l.
Fixpoint zlist_eqb (a b : list Z) : bool := match a, b with [], [] => true | x :: r, y :: s => Z.eqb x y && zlist_eqb r s | _, _ => false end.

Definition mods_match (mods : list Z) (t : tmpl) : bool :=
  match find (fun kp => Z.eqb (fst kp) mods_key) t with
  | None => true
  | Some (_, q) =>
      let empty_spec := match q with PList [] => true | _ => false end in
      let no_mods := match mods with [] => true | _ => false end in
      (empty_spec && no_mods)
      || (negb empty_spec && negb no_mods
          && match q with
             | PList l => zlist_eqb (sortZ mods) (sortZ l)
             | _ => forallb (fun nm => pred_ok [(0, nm)] 0 q) mods
             end)
  end.

Definition atoms_match (mods : list Z) (a : attrs) (t : tmpl) : bool :=
  mods_match mods t && attributes_match a (filter (fun kp => negb (Z.eqb (fst kp) mods_key)) t).

(* ---------- molecules and links ---------- *)
Record mnode := { m_key : Z; m_resid : Z; m_attrs : attrs; m_mods : list Z (* names of the modifications the atom carries *) }.
Record inter := { i_atoms : list Z; i_params : list Z; i_meta : attrs }.
(* meta.get('version', 0); the attribute key 0 stands for 'version' *)
Definition i_version (i : inter) : Z := match aget (i_meta i) 0 with Some v => v | None => 0 end.
Record mol := { nodes : list mnode; edges : list (Z * Z); inters : list (Z * list inter); meta : attrs }.

Record lnode := { l_key : Z; l_order : order; l_tmpl : tmpl; l_replace : option (attrs * bool) }.   (* bool: replace atomname by null = remove the node *)
Record rinter := { r_atoms : list Z; r_params : list Z; r_atom_tmpl : list tmpl; r_meta : tmpl }.
Record link := {
  lnodes : list lnode; ledges : list (Z * Z);
  non_edges : list (Z * (order * tmpl));
  patterns : list (list (Z * tmpl));
  molmeta : tmpl;
  linters : list (Z * inter);           (* type, interaction over link keys *)
  lremoved : list (Z * rinter) }.

Definition pair_eqb (e f : Z * Z) : bool :=
  (Z.eqb (fst e) (fst f) && Z.eqb (snd e) (snd f)) || (Z.eqb (fst e) (snd f) && Z.eqb (snd e) (fst f)).
Definition has_edge (es : list (Z * Z)) (u v : Z) : bool := existsb (pair_eqb (u, v)) es.

Definition mfind (m : mol) (k : Z) : option mnode := find (fun n => Z.eqb (m_key n) k) (nodes m).

Definition placement := list (Z * Z).            (* link key -> molecule key *)
Fixpoint pget (p : placement) (k : Z) : option Z :=
  match p with [] => None | (a, b) :: r => if Z.eqb a k then Some b else pget r k end.

(* all injective lists of length n over l *)
Fixpoint inj_lists (n : nat) (l : list Z) : list (list Z) :=
  match n with
  | O => [[]]
  | S k => flat_map (fun x => map (cons x) (inj_lists k (filter (fun y => negb (Z.eqb y x)) l))) l
  end.

Definition placements (L : link) (m : mol) : list placement :=
  map (combine (map l_key (lnodes L))) (inj_lists (List.length (lnodes L)) (map m_key (nodes m))).

Definition order_of (L : link) (k : Z) : order :=
  match find (fun n => Z.eqb (l_key n) k) (lnodes L) with Some n => l_order n | None => ONum 0 end.

Definition ord_num (o : order) : Z := match o with ONum z => z | _ => 0 end.

(* the conditions of match_link on one placement *)
Definition node_ok (m : mol) (p : placement) (n : lnode) : bool :=
  match pget p (l_key n) with
  | Some mk => match mfind m mk with Some mn => atoms_match (m_mods mn) (m_attrs mn) (l_tmpl n) | None => false end
  | None => false end.

Definition induced_ok (L : link) (m : mol) (p : placement) : bool :=
  forallb (fun ab => match pget p (l_key (fst ab)), pget p (l_key (snd ab)) with
                     | Some x, Some y => Bool.eqb (has_edge (ledges L) (l_key (fst ab)) (l_key (snd ab))) (has_edge (edges m) x y)
                     | _, _ => false end)
          (list_prod (lnodes L) (lnodes L)).

Definition neighbours (m : mol) (k : Z) : list Z :=
  flat_map (fun e => (if Z.eqb (fst e) k then [snd e] else []) ++ (if Z.eqb (snd e) k then [fst e] else [])) (edges m).

Definition non_edges_ok (L : link) (m : mol) (p : placement) : bool :=
  forallb (fun ne =>
     match pget p (fst ne) with
     | None => true                                   (* from_node not in link *)
     | Some mk =>
        match mfind m mk with
        | None => true
        | Some from =>
            forallb (fun nb => match mfind m nb with
                               | Some to => negb (Z.eqb (m_resid to) (m_resid from + ord_num (fst (snd ne)))
                                                  && atoms_match (m_mods to) (m_attrs to) (snd (snd ne)))
                               | None => true end) (neighbours m mk)
        end
     end) (non_edges L).

Definition pattern_ok (m : mol) (p : placement) (pat : list (Z * tmpl)) : bool :=
  forallb (fun kt => match pget p (fst kt) with
                     | Some mk => match mfind m mk with Some mn => atoms_match (m_mods mn) (m_attrs mn) (snd kt) | None => false end
                     | None => false end) pat.

Definition patterns_ok (L : link) (m : mol) (p : placement) : bool :=
  match patterns L with [] => true | ps => existsb (pattern_ok m p) ps end.

(* nodes with the same order sit in the same residue; residues of different orders are related as match_order says *)
Definition resid_of (m : mol) (p : placement) (n : lnode) : Z :=
  match pget p (l_key n) with Some mk => match mfind m mk with Some mn => m_resid mn | None => 0 end | None => 0 end.

Definition orders_ok (L : link) (m : mol) (p : placement) : bool :=
  forallb (fun ab =>
     let '(a, b) := ab in
     if order_eqb (l_order a) (l_order b) then Z.eqb (resid_of m p a) (resid_of m p b)
     else match_order (l_order a) (resid_of m p a) (l_order b) (resid_of m p b))
    (list_prod (lnodes L) (lnodes L)).

Definition fits (L : link) (m : mol) (p : placement) : bool :=
  attributes_match (meta m) (molmeta L) && forallb (node_ok m p) (lnodes L) && induced_ok L m p
  && non_edges_ok L m p && patterns_ok L m p && orders_ok L m p.

Definition matches (L : link) (m : mol) : list placement := filter (fits L m) (placements L m).

(* the same placements, enumerated with pruning: position by position, only atoms that satisfy the node's own template
   (used to run the model on shipped force fields; proved to give the same set in C05/Fast.v) *)
Fixpoint inj_cands5 (cands : list (list Z)) (used : list Z) : list (list Z) :=
  match cands with
  | [] => [[]]
  | c :: r => flat_map (fun x => if existsb (Z.eqb x) used then [] else map (cons x) (inj_cands5 r (x :: used))) c
  end.
Definition cands_of (m : mol) (n : lnode) : list Z :=
  map m_key (filter (fun mn => atoms_match (m_mods mn) (m_attrs mn) (l_tmpl n)) (nodes m)).
Definition placements_fast (L : link) (m : mol) : list placement :=
  map (combine (map l_key (lnodes L))) (inj_cands5 (map (cands_of m) (lnodes L)) []).
Definition matches_fast (L : link) (m : mol) : list placement :=
  if attributes_match (meta m) (molmeta L) then filter (fits L m) (placements_fast L m) else [].

(* ---------- applying a link ---------- *)
Fixpoint iget (d : list (Z * list inter)) (t : Z) : list inter :=
  match d with [] => [] | (u, l) :: r => if Z.eqb u t then l else iget r t end.
Fixpoint iput (d : list (Z * list inter)) (t : Z) (l : list inter) : list (Z * list inter) :=
  match d with [] => [(t, l)] | (u, l0) :: r => if Z.eqb u t then (u, l) :: r else (u, l0) :: iput r t l end.

Definition list_eqbZ (a b : list Z) : bool :=
  (fix go a b := match a, b with [], [] => true | x :: r, y :: s => Z.eqb x y && go r s | _, _ => false end) a b.

Definition same_id (i j : inter) : bool := list_eqbZ (i_atoms i) (i_atoms j) && Z.eqb (i_version i) (i_version j).

Fixpoint replace_or_append (l : list inter) (i : inter) : list inter :=
  match l with
  | [] => [i]
  | j :: r => if same_id j i then i :: r else j :: replace_or_append r i
  end.

(* interaction_match against a removal template built for a placement *)
Definition removal_matches (m : mol) (i : inter) (atoms : list Z) (r : rinter) : bool :=
  list_eqbZ (i_atoms i) atoms
  && (match r_params r with [] => true | ps => list_eqbZ ps (i_params i) end)
  && forallb (fun at_t => match mfind m (fst at_t) with Some mn => attributes_match (m_attrs mn) (snd at_t) | None => false end)
             (combine (i_atoms i) (r_atom_tmpl r))
  && attributes_match (i_meta i) (r_meta r).

Fixpoint remove_first_match (m : mol) (l : list inter) (atoms : list Z) (r : rinter) : list inter :=
  match l with
  | [] => []
  | j :: rest => if removal_matches m j atoms r then rest else j :: remove_first_match m rest atoms r
  end.

Definition map_atoms (p : placement) (l : list Z) : list Z := map (fun k => match pget p k with Some x => x | None => k end) l.

Definition inst (p : placement) (i : inter) : inter :=
  {| i_atoms := map_atoms p (i_atoms i); i_params := i_params i; i_meta := i_meta i |}.

Definition replace_nodes (L : link) (m : mol) (p : placement) : list mnode :=
  map (fun mn =>
      match find (fun ln => match pget p (l_key ln) with Some x => Z.eqb x (m_key mn) | None => false end) (lnodes L) with
      | Some ln => match l_replace ln with
                   | Some (upd, false) => {| m_key := m_key mn; m_resid := m_resid mn;
                                             m_attrs := upd ++ filter (fun kv => negb (existsb (fun u => Z.eqb (fst u) (fst kv)) upd)) (m_attrs mn);
                                             m_mods := m_mods mn |}
                   | _ => mn end
      | None => mn end) (nodes m).

Definition do_removals (L : link) (m1 : mol) (p : placement) (d : list (Z * list inter)) : list (Z * list inter) :=
  fold_left (fun d tr => iput d (fst tr) (remove_first_match m1 (iget d (fst tr)) (map_atoms p (r_atoms (snd tr))) (snd tr)))
            (lremoved L) d.

Definition do_adds (p : placement) (adds : list (Z * inter)) (d : list (Z * list inter)) : list (Z * list inter) :=
  fold_left (fun d ti => iput d (fst ti) (replace_or_append (iget d (fst ti)) (inst p (snd ti)))) adds d.

Definition apply_match (L : link) (m : mol) (p : placement) : mol :=
  let nodes1 := replace_nodes L m p in
  let m1 := {| nodes := nodes1; edges := edges m; inters := inters m; meta := meta m |} in
  {| nodes := nodes1; edges := edges m; inters := do_adds p (linters L) (do_removals L m1 p (inters m)); meta := meta m |}.

Definition removed_by (L : link) (p : placement) : list Z :=
  flat_map (fun ln => match l_replace ln, pget p (l_key ln) with Some (_, true), Some x => [x] | _, _ => [] end) (lnodes L).

Definition remove_nodes (m : mol) (ks : list Z) : mol :=
  let gone := fun k => existsb (Z.eqb k) ks in
  {| nodes := filter (fun n => negb (gone (m_key n))) (nodes m);
     edges := filter (fun e => negb (gone (fst e)) && negb (gone (snd e))) (edges m);
     inters := map (fun tl => (fst tl, filter (fun i => negb (existsb gone (i_atoms i))) (snd tl))) (inters m);
     meta := meta m |}.

(* one link: the placements are those of the molecule as it is when the link starts *)
Definition apply_link_with (find : link -> mol -> list placement) (L : link) (ms : mol * list Z) : mol * list Z :=
  let '(m, pending) := ms in
  let ps := find L m in
  let m' := fold_left (apply_match L) ps m in
  let pending' := pending ++ flat_map (removed_by L) ps in
  (remove_nodes m' pending', pending').
Definition do_links_fast (Ls : list link) (m : mol) : mol := fst (fold_left (fun ms L => apply_link_with matches_fast L ms) Ls (m, [])).

Definition apply_link (L : link) (ms : mol * list Z) : mol * list Z :=
  let '(m, pending) := ms in
  let ps := matches L m in
  let m' := fold_left (apply_match L) ps m in
  let pending' := pending ++ flat_map (removed_by L) ps in
  (remove_nodes m' pending', pending').

Definition do_links (Ls : list link) (m : mol) : mol := fst (fold_left (fun ms L => apply_link L ms) Ls (m, [])).
