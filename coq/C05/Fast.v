(* C05 — the pruned enumeration of placements gives exactly the placements of the plain one. *)
From Coq Require Import List Bool ZArith Lia.
From V Require Import C05.Model C05.Proofs.
Import ListNotations.
Open Scope Z_scope.

Lemma inj_cands5_spec cands : forall used l,
  In l (inj_cands5 cands used) <-> (Forall2 (fun x c => In x c) l cands /\ NoDup l /\ forall x, In x l -> ~ In x used).
Proof.
  induction cands as [|c r IH]; intros used l; cbn [inj_cands5].
  - split.
    + intros [<-|[]]. split; [constructor|]. split; [constructor|intros x []].
    + intros (H & _). inversion H. left. reflexivity.
  - rewrite in_flat_map. split.
    + intros (x & Hx & H). destruct (existsb (Z.eqb x) used) eqn:E; [destruct H|].
      apply in_map_iff in H as (t & <- & Ht). apply IH in Ht as (F & Hnd & Hd). split; [constructor; assumption|]. split.
      * constructor; [|exact Hnd]. intros Hin. apply (Hd x Hin). left. reflexivity.
      * intros y [<-|Hy] Hu.
        -- assert (X : existsb (Z.eqb x) used = true) by (apply existsb_exists; exists x; split; [exact Hu|apply Z.eqb_refl]). congruence.
        -- apply (Hd y Hy). right. exact Hu.
    + intros (F & Hnd & Hd). inversion F as [|x c' t r' Hx Ft]; subst. exists x. split; [exact Hx|].
      destruct (existsb (Z.eqb x) used) eqn:E.
      * exfalso. apply existsb_exists in E as (y & Hy & Ey). apply Z.eqb_eq in Ey. subst y. apply (Hd x (or_introl eq_refl) Hy).
      * apply in_map. apply IH. inversion Hnd as [|? ? Hx' Hnd']; subst. split; [exact Ft|]. split; [exact Hnd'|].
        intros y Hy [<-|Hu]; [contradiction|]. apply (Hd y (or_intror Hy) Hu).
Qed.

Lemma pget_combine ks : forall vs k v, NoDup ks -> List.length vs = List.length ks ->
  In (k, v) (combine ks vs) -> pget (combine ks vs) k = Some v.
Proof.
  induction ks as [|a r IH]; intros vs k v Hnd Hl Hin; [destruct Hin|]. destruct vs as [|b vs]; [discriminate|]. cbn in *.
  inversion Hnd as [|? ? Ha Hr]; subst. destruct Hin as [[= -> ->]|Hin]; [rewrite Z.eqb_refl; reflexivity|].
  destruct (Z.eqb_spec a k) as [->|]; [exfalso; apply Ha; apply in_combine_l in Hin; exact Hin|]. apply IH; [exact Hr|lia|exact Hin].
Qed.

Theorem matches_fast_same L m p :
  NoDup (map l_key (lnodes L)) -> NoDup (map m_key (nodes m)) ->
  (In p (matches_fast L m) <-> In p (matches L m)).
Proof.
  intros HL HM. unfold matches_fast, matches. split.
  - destruct (attributes_match (meta m) (molmeta L)) eqn:Em; [|intros []]. rewrite !filter_In. intros [Hp Hf]. split; [|exact Hf].
    unfold placements_fast in Hp. apply in_map_iff in Hp as (img & <- & Hi). apply inj_cands5_spec in Hi as (F & Hnd & _).
    apply placements_spec. exists img. split; [reflexivity|].
    assert (Hlen : List.length img = List.length (lnodes L)).
    { clear -F. revert img F. induction (lnodes L) as [|n r IH]; intros img F; cbn in F; inversion F; subst; cbn; [reflexivity|]. f_equal. apply IH. assumption. }
    split; [exact Hlen|]. split; [exact Hnd|].
    intros x Hx. clear Hnd Hlen Hf. revert img F Hx. induction (lnodes L) as [|n r IH]; intros img F Hx; cbn in F; inversion F as [|y c t r' Hy Ft]; subst; [destruct Hx|].
    destruct Hx as [<-|Hx]; [|eapply IH; [inversion HL; assumption|exact Ft|exact Hx]].
    unfold cands_of in Hy. apply in_map_iff in Hy as (mn & <- & Hmn). apply filter_In in Hmn as [Hmn _]. apply in_map. exact Hmn.
  - rewrite !filter_In. intros [Hp Hf]. pose proof Hf as Hf'. apply fits_spec in Hf' as (Hmeta & Hnodes & _). rewrite Hmeta. apply filter_In. split; [|exact Hf].
    apply placements_spec in Hp as (img & -> & Hlen & Hnd & Hinc). unfold placements_fast. apply in_map. apply inj_cands5_spec.
    split; [|split; [exact Hnd|intros x _ []]].
    (* every image satisfies its own node's template *)
    assert (G : forall ns vs, NoDup (map l_key ns) -> List.length vs = List.length ns ->
                (forall n, In n ns -> node_ok m (combine (map l_key ns) vs) n = true) ->
                Forall2 (fun x c => In x c) vs (map (cands_of m) ns)).
    { induction ns as [|n r IH]; intros vs Hn Hl Hok; destruct vs as [|v vs]; try discriminate; [constructor|]. cbn in *.
      inversion Hn as [|? ? Ha Hr]; subst. constructor.
      - specialize (Hok n (or_introl eq_refl)). unfold node_ok in Hok. cbn in Hok. rewrite Z.eqb_refl in Hok.
        unfold mfind in Hok. destruct (find (fun n0 => Z.eqb (m_key n0) v) (nodes m)) as [mn|] eqn:Ef; [|discriminate].
        apply find_some in Ef as [Hin Hk]. apply Z.eqb_eq in Hk. subst v. unfold cands_of. apply in_map. apply filter_In. auto.
      - apply IH; [exact Hr|lia|]. intros n' Hn'. specialize (Hok n' (or_intror Hn')). unfold node_ok in *. cbn in Hok.
        destruct (Z.eqb_spec (l_key n) (l_key n')) as [E|]; [exfalso; apply Ha; rewrite E; apply in_map; exact Hn'|exact Hok]. }
    apply G; [exact HL|exact Hlen|exact Hnodes].
Qed.
