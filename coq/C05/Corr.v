(* C05 — case type and the two boolean functions evaluated on generated cases. *)
From Coq Require Import List Bool ZArith.
From V Require Import C05.Model.
Import ListNotations.
Open Scope Z_scope.

Inductive case :=
| COrder (o1 : order) (r1 : Z) (o2 : order) (r2 : Z) (impl : bool)
| CMatch (L : link) (m : mol) (impl : list placement)                  (* match_link: the set of placements *)
| CApply (fast : bool)                                                   (* pruned enumeration of placements (shipped force fields) *)
         (Ls : list link) (m : mol)
         (impl_inters : list (Z * list inter))                         (* after DoLinks.run_molecule *)
         (impl_nodes : list mnode).

Definition pl_eqb (a b : placement) : bool :=
  Nat.eqb (List.length a) (List.length b)
  && forallb (fun kv => match pget b (fst kv) with Some x => Z.eqb x (snd kv) | None => false end) a.
Definition pl_mem (p : placement) (l : list placement) : bool := existsb (pl_eqb p) l.
Definition pl_same (a b : list placement) : bool :=
  Nat.eqb (List.length a) (List.length b) && forallb (fun p => pl_mem p b) a && forallb (fun p => pl_mem p a) b.

Definition attrs_eqb (a b : attrs) : bool :=
  Nat.eqb (List.length a) (List.length b)
  && forallb (fun kv => match aget b (fst kv) with Some x => Z.eqb x (snd kv) | None => false end) a.
Definition inter_eqb (a b : inter) : bool :=
  list_eqbZ (i_atoms a) (i_atoms b) && list_eqbZ (i_params a) (i_params b) && attrs_eqb (i_meta a) (i_meta b).

(* same multiset of interactions: remove one by one *)
Fixpoint remove_one (i : inter) (l : list inter) : option (list inter) :=
  match l with
  | [] => None
  | j :: r => if inter_eqb i j then Some r else match remove_one i r with Some r' => Some (j :: r') | None => None end
  end.
Fixpoint multiset_eqb (a b : list inter) : bool :=
  match a with
  | [] => match b with [] => true | _ => false end
  | i :: r => match remove_one i b with Some b' => multiset_eqb r b' | None => false end
  end.

Definition types_of (a b : list (Z * list inter)) : list Z := map fst a ++ map fst b.

Definition node_eqb (a b : mnode) : bool :=
  Z.eqb (m_key a) (m_key b) && Z.eqb (m_resid a) (m_resid b) && attrs_eqb (m_attrs a) (m_attrs b).

Definition corr (k : case) : bool :=
  match k with
  | COrder o1 r1 o2 r2 impl => Bool.eqb (match_order o1 r1 o2 r2) impl
  | CMatch L m impl => pl_same (matches L m) impl
  | CApply fast Ls m ii inodes =>
      let r := if fast then do_links_fast Ls m else do_links Ls m in
      forallb (fun t => multiset_eqb (iget (inters r) t) (iget ii t)) (types_of (inters r) ii)
      && Nat.eqb (List.length (nodes r)) (List.length inodes)
      && forallb (fun n => existsb (node_eqb n) inodes) (nodes r)
  end.

(* The property judged on the implementation's answers.
   COrder: the documentation table, spelled out independently of the nested ifs of match_order.
   CMatch: every reported placement is an injective assignment that satisfies every condition, and every such
           assignment is reported (exactly once).
   CApply, for link lists without removals / replacements (the molecule the links see never changes): every
           interaction is an original one or an instance on a fitting placement, and every fitting placement
           has its interactions present with the parameters of the LAST link interaction carrying that identity. *)
Definition table (o1 : order) (r1 : Z) (o2 : order) (r2 : Z) : bool :=
  let lt a b := Z.ltb a b in
  match o1, o2 with
  | ONum a, ONum b => Z.eqb (r2 - r1) (b - a)
  | ONum 0, OAngle b => if lt 0 b then lt r1 r2 else lt r2 r1
  | OAngle a, ONum 0 => if lt 0 a then lt r2 r1 else lt r1 r2
  | ONum 0, OStar _ | OStar _, ONum 0 => negb (Z.eqb r1 r2)
  | OAngle a, OAngle b => if lt a b then lt r1 r2 else if lt b a then lt r2 r1 else Z.eqb r1 r2
  | OStar a, OStar b => if Z.eqb a b then Z.eqb r1 r2 else negb (Z.eqb r1 r2)
  | _, _ => true
  end.

Definition stable (L : link) : bool :=
  forallb (fun n => match l_replace n with None => true | Some _ => false end) (lnodes L).

Definition all_adds (fast : bool) (Ls : list link) (m : mol) : list (Z * inter) :=
  flat_map (fun L => flat_map (fun p => map (fun ti => (fst ti, inst p (snd ti))) (linters L)) (if fast then matches_fast L m else matches L m)) Ls.

(* every removal template instantiated on every fitting placement: type, atoms, template *)
Definition all_removals (fast : bool) (Ls : list link) (m : mol) : list (Z * (list Z * rinter)) :=
  flat_map (fun L => flat_map (fun p => map (fun tr => (fst tr, (map_atoms p (r_atoms (snd tr)), snd tr))) (lremoved L)) (if fast then matches_fast L m else matches L m)) Ls.

Definition designated (m : mol) (rems : list (Z * (list Z * rinter))) (t : Z) (j : inter) : bool :=
  existsb (fun tr => Z.eqb (fst tr) t && removal_matches m j (fst (snd tr)) (snd (snd tr))) rems.

(* the same with the position of the link in the list and of the placement among the link's placements: a removal is
   carried out before the interactions of the same link on the same placement are stated (do_links.py l.308-318), so it
   can only take away what was there before: originals, what earlier links stated, what the same link stated on another
   placement (the order of the placements of one link is not modelled) *)
Fixpoint number {A} (n : nat) (l : list A) : list (nat * A) := match l with [] => [] | x :: r => (n, x) :: number (S n) r end.
Definition placed (fast : bool) (L : link) (m : mol) := number 0 (if fast then matches_fast L m else matches L m).
Definition adds_at (fast : bool) (Ls : list link) (m : mol) : list (nat * nat * (Z * inter)) :=
  flat_map (fun kL => flat_map (fun jp => map (fun ti => (fst kL, fst jp, (fst ti, inst (snd jp) (snd ti)))) (linters (snd kL)))
                               (placed fast (snd kL) m)) (number 0 Ls).
Definition removals_at (fast : bool) (Ls : list link) (m : mol) : list (nat * nat * (Z * (list Z * rinter))) :=
  flat_map (fun kL => flat_map (fun jp => map (fun tr => (fst kL, fst jp, (fst tr, (map_atoms (snd jp) (r_atoms (snd tr)), snd tr)))) (lremoved (snd kL)))
                               (placed fast (snd kL) m)) (number 0 Ls).
Definition designated_after (m : mol) (rems : list (nat * nat * (Z * (list Z * rinter)))) (k j : nat) (t : Z) (w : inter) : bool :=
  existsb (fun r => let '(k', j', tr) := r in
                    (Nat.ltb k k' || (Nat.eqb k k' && negb (Nat.eqb j j')))
                    && Z.eqb (fst tr) t && removal_matches m w (fst (snd tr)) (snd (snd tr))) rems.
Definition last_at (adds : list (nat * nat * (Z * inter))) (t : Z) (i : inter) : option (nat * nat * inter) :=
  match filter (fun a => Z.eqb (fst (snd a)) t && same_id (snd (snd a)) i) (List.rev adds) with
  | a :: _ => Some (fst (fst a), snd (fst a), snd (snd a)) | [] => None end.

(* the last added interaction with the identity of i among those of type t *)
Definition last_with (adds : list (Z * inter)) (t : Z) (i : inter) : option inter :=
  match filter (fun ti => Z.eqb (fst ti) t && same_id (snd ti) i) (List.rev adds) with
  | ti :: _ => Some (snd ti) | [] => None end.

Definition prop (k : case) : bool :=
  match k with
  | COrder o1 r1 o2 r2 impl => Bool.eqb (table o1 r1 o2 r2) impl
  | CMatch L m impl =>
      forallb (fun p => pl_mem p (placements L m) && fits L m p) impl
      && forallb (fun p => pl_mem p impl) (matches L m)
      && Nat.eqb (List.length impl) (List.length (matches L m))
  | CApply fast Ls m ii _ =>
      if forallb stable Ls then
        let adds := all_adds fast Ls m in
        let rems := all_removals fast Ls m in
        (* justified *)
        forallb (fun tl => forallb (fun j =>
            existsb (inter_eqb j) (iget (inters m) (fst tl))
            || existsb (fun ti => Z.eqb (fst ti) (fst tl) && inter_eqb j (snd ti)) adds) (snd tl)) ii
        (* complete, with later overriding earlier (interactions that a removal carried out LATER designates are left to the correspondence) *)
        && (let adds' := adds_at fast Ls m in
            let rems' := removals_at fast Ls m in
            forallb (fun ti =>
             match last_at adds' (fst ti) (snd ti) with
             | Some (k, j, w) => designated_after m rems' k j (fst ti) w
                         || ((1 =? Z.of_nat (List.length (filter (fun j => same_id j w) (iget ii (fst ti)))))
                             && existsb (inter_eqb w) (iget ii (fst ti)))
             | None => false end) adds)
        (* originals that nothing designates and nothing overrides stay *)
        && forallb (fun tl => forallb (fun j =>
             existsb (fun ti => Z.eqb (fst ti) (fst tl) && same_id (snd ti) j) adds
             || designated m rems (fst tl) j
             || existsb (inter_eqb j) (iget ii (fst tl))) (snd tl)) (inters m)
        (* removals take effect: an original that a removal designates, the only one it designates, is gone *)
        && forallb (fun tl => forallb (fun j =>
             forallb (fun tr =>
               negb (Z.eqb (fst tr) (fst tl) && removal_matches m j (fst (snd tr)) (snd (snd tr))
                     && (1 =? Z.of_nat (List.length (filter (fun j' => removal_matches m j' (fst (snd tr)) (snd (snd tr))) (snd tl)))))
               || negb (existsb (inter_eqb j) (iget ii (fst tl)))) rems) (snd tl)) (inters m)
      else
        (* a link that only changes attributes of the atoms it fits on, followed by a link without such changes: the second
           sees the molecule as the first left it, and every interaction it states there is present *)
        match Ls with
        | [A; B] =>
            if stable B && match linters A, lremoved A with [], [] => true | _, _ => false end
            then let m' := if fast then do_links_fast [A] m else do_links [A] m in
                 forallb (fun ti => existsb (inter_eqb (snd ti)) (iget ii (fst ti))) (all_adds fast [B] m')
            else true
        | _ => true
        end
  end.
